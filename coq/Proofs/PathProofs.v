(* Proofs/PathProofs.v -- lemmas about Model/Path.v (C17). *)
From Coq Require Import ZArith List Bool Lia.
Require Import DS.Model.Path DS.Gen.GenPath.
Import ListNotations.
Open Scope Z_scope.

(* ------------------------------------------------------------------ lists of components *)
Lemma leqb_refl : forall a, leqb a a = true.
Proof. induction a as [|x a IH]; simpl; [reflexivity|]. rewrite Z.eqb_refl. exact IH. Qed.

Lemma leqb_eq : forall a b, leqb a b = true <-> a = b.
Proof.
  induction a as [|x a IH]; destruct b as [|y b]; simpl; split; intro H; try reflexivity; try discriminate.
  - apply andb_true_iff in H. destruct H as [H1 H2]. apply Z.eqb_eq in H1. apply IH in H2. subst. reflexivity.
  - inversion H; subst. rewrite Z.eqb_refl. apply IH. reflexivity.
Qed.

Lemma leqb_neq : forall a b, leqb a b = false <-> a <> b.
Proof.
  intros a b. split; intro H.
  - intro E. apply leqb_eq in E. congruence.
  - destruct (leqb a b) eqn:E; [|reflexivity]. apply leqb_eq in E. contradiction.
Qed.

Lemma is_prefix_spec : forall a b, is_prefix a b = true <-> exists s, b = a ++ s.
Proof.
  induction a as [|x a IH]; intros b; simpl.
  - split; [intros _; exists b; reflexivity|reflexivity].
  - destruct b as [|y b].
    + split; [discriminate|intros [s H]; discriminate].
    + rewrite andb_true_iff, Z.eqb_eq, IH. split.
      * intros [-> [s ->]]. exists s. reflexivity.
      * intros [s H]. inversion H; subst. split; [reflexivity|exists s; reflexivity].
Qed.

Lemma is_prefix_refl : forall a, is_prefix a a = true.
Proof. intro a. apply is_prefix_spec. exists []. rewrite app_nil_r. reflexivity. Qed.

Lemma is_prefix_app : forall a s, is_prefix a (a ++ s) = true.
Proof. intros a s. apply is_prefix_spec. exists s. reflexivity. Qed.

Lemma is_prefix_trans : forall a b c, is_prefix a b = true -> is_prefix b c = true -> is_prefix a c = true.
Proof.
  intros a b c H1 H2. apply is_prefix_spec in H1. apply is_prefix_spec in H2.
  destruct H1 as [s1 ->]. destruct H2 as [s2 ->]. apply is_prefix_spec. exists (s1 ++ s2). rewrite app_assoc. reflexivity.
Qed.

Lemma lcp_prefix_iff : forall a b, lcp a b = a <-> is_prefix a b = true.
Proof.
  induction a as [|x a IH]; intros b; simpl.
  - split; reflexivity.
  - destruct b as [|y b]; [split; discriminate|].
    destruct (Z.eqb_spec x y) as [->|N]; simpl.
    + rewrite <- IH. split; [intro H; inversion H as [H1]; rewrite H1; exact H1 | intro H; rewrite H; reflexivity].
    + split; discriminate.
Qed.

Lemma lcp_is_prefix_l : forall a b, is_prefix (lcp a b) a = true.
Proof.
  induction a as [|x a IH]; intros b; simpl; [reflexivity|].
  destruct b as [|y b]; [reflexivity|]. destruct (Z.eqb_spec x y); simpl; [|reflexivity].
  rewrite Z.eqb_refl. apply IH.
Qed.

Lemma removelast_app1 : forall (A : Type) (l : list A) (x : A), removelast (l ++ [x]) = l.
Proof. intros. rewrite removelast_app by discriminate. simpl. apply app_nil_r. Qed.

Lemma is_prefix_removelast : forall a b, is_prefix a b = true -> a <> b -> is_prefix a (removelast b) = true.
Proof.
  intros a b H N. apply is_prefix_spec in H. destruct H as [s ->].
  destruct s as [|x s] using rev_ind; [rewrite app_nil_r in N; contradiction|].
  rewrite app_assoc, removelast_app1. apply is_prefix_app.
Qed.

Lemma is_prefix_removelast_self : forall a, is_prefix (removelast a) a = true.
Proof.
  intro a. destruct a as [|x a] using rev_ind; [reflexivity|]. rewrite removelast_app1. apply is_prefix_app.
Qed.

(* ------------------------------------------------------------------ names *)
Definition names (l : list comp) : Prop := forallb is_name l = true.

Lemma names_nil : names []. Proof. reflexivity. Qed.

Lemma names_app : forall a b, names (a ++ b) <-> names a /\ names b.
Proof. intros a b. unfold names. rewrite forallb_app, andb_true_iff. reflexivity. Qed.

Lemma names_snoc : forall p c, names p -> is_name c = true -> names (p ++ [c]).
Proof. intros p c H1 H2. apply names_app. split; [exact H1|]. unfold names. simpl. rewrite H2. reflexivity. Qed.

Lemma names_removelast : forall p, names p -> names (removelast p).
Proof.
  intros p H. destruct p as [|x p] using rev_ind; [exact H|]. rewrite removelast_app1. apply names_app in H. apply H.
Qed.

Lemma names_skipn : forall n p, names p -> names (skipn n p).
Proof. intros n p H. rewrite <- (firstn_skipn n p) in H. apply names_app in H. apply H. Qed.

Lemma is_name_not_skip : forall c, is_name c = true -> is_skip c = false /\ is_up c = false.
Proof. intros c H. unfold is_name in H. apply andb_true_iff in H. destruct H as [H1 H2]. apply negb_true_iff in H1, H2. split; assumption. Qed.

Lemma names_cp_filter : forall l, names l -> cp_filter l = l.
Proof.
  induction l as [|c l IH]; intros H; [reflexivity|]. unfold names in H. simpl in H. apply andb_true_iff in H. destruct H as [H1 H2].
  unfold cp_filter. simpl. destruct (is_name_not_skip c H1) as [-> _]. simpl. f_equal. apply IH. exact H2.
Qed.

(* ------------------------------------------------------------------ commonpath *)
Lemma is_abs_abs_str : forall l, is_abs (abs_str l) = true.
Proof. destruct l as [|c l]; reflexivity. Qed.

Lemma cp_filter_abs_str : forall l, cp_filter (abs_str l) = cp_filter l.
Proof. destruct l as [|c l]; reflexivity. Qed.

Lemma commonpath2_abs : forall b f,
  commonpath2 (abs_str b) (abs_str f) = Some (abs_str (lcp (cp_filter b) (cp_filter f))).
Proof. intros b f. unfold commonpath2. rewrite !is_abs_abs_str, !cp_filter_abs_str. reflexivity. Qed.

Lemma abs_str_inj_names : forall a b, names a -> names b -> abs_str a = abs_str b -> a = b.
Proof.
  intros a b Ha Hb E. destruct a as [|x a]; destruct b as [|y b]; simpl in E; try reflexivity.
  - inversion E; subst. unfold names in Hb. simpl in Hb. discriminate.
  - inversion E; subst. unfold names in Ha. simpl in Ha. discriminate.
  - inversion E; subst. reflexivity.
Qed.

Lemma names_prefix : forall a b, names b -> is_prefix a b = true -> names a.
Proof. intros a b H P. apply is_prefix_spec in P. destruct P as [s ->]. apply names_app in H. apply H. Qed.

Lemma commonpath_prefix : forall b f, names b -> names f ->
  (commonpath2 (abs_str b) (abs_str f) = Some (abs_str b) <-> is_prefix b f = true).
Proof.
  intros b f Hb Hf. rewrite commonpath2_abs, (names_cp_filter b Hb), (names_cp_filter f Hf). split.
  - intro H. inversion H as [E]. apply lcp_prefix_iff. apply abs_str_inj_names; [|exact Hb|exact E].
    apply (names_prefix _ b Hb). apply lcp_is_prefix_l.
  - intro H. apply lcp_prefix_iff in H. rewrite H. reflexivity.
Qed.

Lemma inside_iff : forall rb full, names rb -> names full -> (inside rb full = true <-> is_prefix rb full = true).
Proof.
  intros rb full Hb Hf. unfold inside. rewrite <- (commonpath_prefix rb full Hb Hf).
  rewrite commonpath2_abs. split.
  - intro H. apply leqb_eq in H. rewrite H. reflexivity.
  - intro H. inversion H as [E]. rewrite E. apply leqb_refl.
Qed.

(* ------------------------------------------------------------------ realpath: unfolding *)
Lemma jrp_nil : forall d t path seen, jrp d t path [] seen = RPOk path.
Proof. destruct d; reflexivity. Qed.

Lemma jrp_cons : forall d t path c rest seen,
  jrp d t path (c :: rest) seen =
  if is_skip c then jrp d t path rest seen
  else if is_up c then jrp d t (removelast path) rest seen
  else match lstat t (path ++ [c]) with
       | Some (Link tg) =>
         if mem (path ++ [c]) seen then RPJunk (junk_join (abs_str (path ++ [c])) rest)
         else match d with
              | O => RPFuel
              | S d' => match jrp d' t (link_start path tg) (link_rest tg) ((path ++ [c]) :: seen) with
                        | RPOk p' => jrp d t p' rest seen
                        | RPJunk j => RPJunk (junk_join j rest)
                        | RPFuel => RPFuel
                        end
              end
       | _ => jrp d t (path ++ [c]) rest seen
       end.
Proof. destruct d; reflexivity. Qed.

(* a property of the accumulated path that every step preserves holds of every fully resolved result *)
Lemma jrp_ok_invariant : forall (P : loc -> Prop) t,
  P [] -> (forall p, P p -> P (removelast p)) -> (forall p c, P p -> is_name c = true -> P (p ++ [c])) ->
  forall d rest path seen p', P path -> jrp d t path rest seen = RPOk p' -> P p'.
Proof.
  intros P t H0 Hup Hdown. induction d as [|d IHd].
  - induction rest as [|c rest IH]; intros path seen p' HP H.
    + rewrite jrp_nil in H. inversion H; subst. exact HP.
    + rewrite jrp_cons in H. destruct (is_skip c) eqn:Es; [eapply IH; eauto|].
      destruct (is_up c) eqn:Eu; [eapply IH; [apply Hup; exact HP|exact H]|].
      assert (Hn : is_name c = true) by (unfold is_name; rewrite Es, Eu; reflexivity).
      destruct (lstat t (path ++ [c])) as [[| |tg]|]; try (eapply IH; [apply Hdown; eassumption|exact H]).
      destruct (mem (path ++ [c]) seen); discriminate.
  - induction rest as [|c rest IH]; intros path seen p' HP H.
    + rewrite jrp_nil in H. inversion H; subst. exact HP.
    + rewrite jrp_cons in H. destruct (is_skip c) eqn:Es; [eapply IH; eauto|].
      destruct (is_up c) eqn:Eu; [eapply IH; [apply Hup; exact HP|exact H]|].
      assert (Hn : is_name c = true) by (unfold is_name; rewrite Es, Eu; reflexivity).
      destruct (lstat t (path ++ [c])) as [[| |tg]|]; try (eapply IH; [apply Hdown; eassumption|exact H]).
      destruct (mem (path ++ [c]) seen); [discriminate|].
      destruct (jrp d t (link_start path tg) (link_rest tg) ((path ++ [c]) :: seen)) as [p1|j|] eqn:E1; try discriminate.
      eapply IH; [|exact H]. eapply IHd; [|exact E1]. unfold link_start. destruct (is_abs tg); assumption.
Qed.

Lemma normpath_names_from : forall s acc, names acc -> names (fold_left norm_step s acc).
Proof.
  induction s as [|c s IH]; intros acc H; simpl; [exact H|]. apply IH. unfold norm_step.
  destruct (is_skip c) eqn:Es; [exact H|]. destruct (is_up c) eqn:Eu; [apply names_removelast; exact H|].
  apply names_snoc; [exact H|]. unfold is_name. rewrite Es, Eu. reflexivity.
Qed.

Lemma normpath_names : forall s, names (normpath s).
Proof. intro s. apply normpath_names_from. exact names_nil. Qed.

Lemma realpath_names : forall d t cwd s q, realpath d t cwd s = Ok q -> names q.
Proof.
  intros d t cwd s q H. unfold realpath in H.
  destruct (jrp d t [] (tl (absolutize cwd s)) []) as [p|j|] eqn:E; inversion H; subst.
  - eapply (jrp_ok_invariant names); [exact names_nil|exact names_removelast|exact names_snoc|exact names_nil|exact E].
  - apply normpath_names.
Qed.

(* ------------------------------------------------------------------ canonical / resolve *)
Lemma canonical_ok : forall d t cwd s q, canonical d t cwd s = Ok q ->
  realpath d t cwd s = Ok q /\ no_link_prefix t q = true.
Proof.
  intros d t cwd s q H. unfold canonical in H. destruct (realpath d t cwd s) as [q'|e]; [|discriminate].
  destruct (no_link_prefix t q') eqn:E; inversion H; subst. split; [reflexivity|exact E].
Qed.

Lemma resolve_ok : forall d t cwd base p q, resolve d t cwd base p = Ok q ->
  exists rb, realpath d t cwd base = Ok rb
          /\ realpath d t cwd (join_for_resolve base p) = Ok q
          /\ is_prefix rb q = true /\ no_link_prefix t q = true /\ names q /\ names rb.
Proof.
  intros d t cwd base p q H. unfold resolve in H.
  destruct (canonical d t cwd (join_for_resolve base p)) as [full|e] eqn:Ec; [|discriminate].
  destruct (realpath d t cwd base) as [rb|e] eqn:Eb; [|discriminate].
  destruct (inside rb full) eqn:Ei; inversion H; subst.
  apply canonical_ok in Ec. destruct Ec as [Er En].
  pose proof (realpath_names _ _ _ _ _ Er) as Nq. pose proof (realpath_names _ _ _ _ _ Eb) as Nb.
  exists rb. repeat split; try assumption. apply inside_iff; assumption.
Qed.

(* anything whose resolution lies outside the canonical root is a Security error -- never another path *)
Lemma resolve_reject : forall d t cwd base p full rb,
  realpath d t cwd (join_for_resolve base p) = Ok full -> realpath d t cwd base = Ok rb ->
  is_prefix rb full = false -> resolve d t cwd base p = Err Security.
Proof.
  intros d t cwd base p full rb Hf Hb Hn. unfold resolve, canonical. rewrite Hf.
  destruct (no_link_prefix t full); [|reflexivity]. rewrite Hb.
  destruct (inside rb full) eqn:Ei; [|reflexivity].
  apply inside_iff in Ei; [congruence|eapply realpath_names; eauto|eapply realpath_names; eauto].
Qed.

Lemma arrow_path_ok : forall d t cwd dirs base p q, arrow_path d t cwd dirs base p = Ok q ->
  exists rb, realpath d t cwd base = Ok rb /\ is_prefix rb q = true /\ no_link_prefix t q = true /\ names q /\ names rb
          /\ (realpath d t cwd (join_for_resolve base p) = Ok q \/ (is_abs p = true /\ realpath d t cwd p = Ok q)).
Proof.
  intros d t cwd dirs base p q H. unfold arrow_path in H.
  destruct (realpath d t cwd base) as [rb|e] eqn:Eb; [|discriminate].
  destruct (negb (is_abs p) || existsb (Z.eqb (first_component p)) dirs) eqn:Ebr.
  - apply resolve_ok in H. destruct H as [rb' [Eb' [Er [Hp [Hn [Nq Nb]]]]]]. rewrite Eb in Eb'. inversion Eb'; subst.
    exists rb'. repeat split; try assumption. left. exact Er.
  - apply orb_false_iff in Ebr. destruct Ebr as [Ea _]. apply negb_false_iff in Ea.
    destruct (canonical d t cwd p) as [full|e] eqn:Ec; [|discriminate].
    destruct (inside rb full) eqn:Ei; inversion H; subst.
    apply canonical_ok in Ec. destruct Ec as [Er En].
    pose proof (realpath_names _ _ _ _ _ Er) as Nq. pose proof (realpath_names _ _ _ _ _ Eb) as Nb.
    exists rb. repeat split; try assumption; [apply inside_iff; assumption|]. right. split; assumption.
Qed.

(* ------------------------------------------------------------------ the kernel walk of a link-free location *)
Lemma prefixes_from_app : forall a b pre, prefixes_from pre (a ++ b) = prefixes_from pre a ++ prefixes_from (pre ++ a) b.
Proof.
  induction a as [|x a IH]; intros b pre; simpl; [rewrite app_nil_r; reflexivity|].
  rewrite IH. rewrite <- app_assoc. reflexivity.
Qed.

Lemma no_link_prefix_app : forall t a b, no_link_prefix t (a ++ b) = true -> no_link_prefix t a = true.
Proof.
  intros t a b H. unfold no_link_prefix in *. rewrite prefixes_from_app, forallb_app in H.
  apply andb_true_iff in H. apply H.
Qed.

Lemma no_link_prefix_of_prefix : forall t a b, is_prefix a b = true -> no_link_prefix t b = true -> no_link_prefix t a = true.
Proof. intros t a b P H. apply is_prefix_spec in P. destruct P as [s ->]. eapply no_link_prefix_app; eauto. Qed.

Lemma kwalk_linkfree : forall t rest pre fuel l, names rest ->
  forallb (fun p => negb (is_link (lstat t p))) (prefixes_from pre rest) = true ->
  kwalk fuel t pre rest = Ok l -> l = pre ++ rest.
Proof.
  intros t. induction rest as [|c rest IH]; intros pre fuel l Hn Hl Hk.
  - destruct fuel; simpl in Hk; [discriminate|]. inversion Hk. rewrite app_nil_r. reflexivity.
  - destruct fuel as [|f]; simpl in Hk; [discriminate|].
    unfold names in Hn. simpl in Hn. apply andb_true_iff in Hn. destruct Hn as [Hc Hn].
    destruct (is_name_not_skip c Hc) as [Hs Hu]. unfold is_skip in Hs. apply orb_false_iff in Hs. destruct Hs as [Hs0 Hs1].
    rewrite Hs0 in Hk. simpl in Hl. apply andb_true_iff in Hl. destruct Hl as [Hl1 Hl2].
    destruct (lstat t pre) as [[| |tg0]|]; try discriminate.
    rewrite Hs1, Hu in Hk.
    destruct (lstat t (pre ++ [c])) as [[| |tg]|] eqn:El; try discriminate.
    + apply IH in Hk; [|exact Hn|exact Hl2]. rewrite Hk, <- app_assoc. reflexivity.
    + apply IH in Hk; [|exact Hn|exact Hl2]. rewrite Hk, <- app_assoc. reflexivity.
Qed.

(* Handing a link-free location (or any of its ancestors) to the OS reaches exactly that location. *)
Lemma kernel_stays : forall t q, names q -> no_link_prefix t q = true ->
  forall a, is_prefix a q = true -> forall fuel l, kwalk fuel t [] a = Ok l -> l = a.
Proof.
  intros t q Hn Hl a Ha fuel l Hk.
  assert (Hna : names a) by (eapply names_prefix; eauto).
  assert (Hla : no_link_prefix t a = true) by (eapply no_link_prefix_of_prefix; eauto).
  apply (kwalk_linkfree t a [] fuel l Hna Hla) in Hk. exact Hk.
Qed.

(* ------------------------------------------------------------------ listing *)
Lemma map_res_in : forall A B (f : A -> res B) l bs b, map_res f l = Ok bs -> In b bs -> exists a, In a l /\ f a = Ok b.
Proof.
  induction l as [|a l IH]; intros bs b H Hin; simpl in H.
  - inversion H; subst. contradiction.
  - destruct (f a) as [b0|e] eqn:Ef; [|discriminate]. destruct (map_res f l) as [bs0|e] eqn:Em; [|discriminate].
    inversion H; subst. destruct Hin as [->|Hin].
    + exists a. split; [left; reflexivity|exact Ef].
    + destruct (IH bs0 b eq_refl Hin) as [a' [Ha' Hf']]. exists a'. split; [right; exact Ha'|exact Hf'].
Qed.

Lemma lcp_app_l : forall a s, lcp a (a ++ s) = a.
Proof. intros a s. apply lcp_prefix_iff. apply is_prefix_app. Qed.

Lemma skipn_app_l : forall (A : Type) (a s : list A), skipn (length a) (a ++ s) = s.
Proof. induction a as [|x a IH]; intro s; simpl; [reflexivity|apply IH]. Qed.

Lemma relativise_inside : forall rb s r, names s -> relativise rb (rb ++ s) = Ok r -> s <> [] -> r = s.
Proof.
  intros rb s r Hn H Hne. unfold relativise in H. rewrite lcp_app_l, Nat.sub_diag, skipn_app_l in H. simpl in H.
  destruct s as [|c s]; [contradiction|]. unfold names in Hn. simpl in Hn. apply andb_true_iff in Hn. destruct Hn as [Hc _].
  destruct (is_name_not_skip c Hc) as [_ Hu]. rewrite Hu in H. inversion H. reflexivity.
Qed.

Lemma list_files_ok : forall d kf t cwd base prefix rs r,
  list_files d kf t cwd base prefix = Ok rs -> In r rs ->
  exists rb q, realpath d t cwd base = Ok rb /\ resolve d t cwd base prefix = Ok q
    /\ names r /\ r <> []
    /\ is_prefix q (rb ++ r) = true /\ (rb ++ r) <> q
    /\ In (rb ++ r) (walk_files kf t q)
    /\ walk_is_file kf t (rb ++ r) = true.
Proof.
  intros d kf t cwd base prefix rs r H Hin. unfold list_files in H.
  destruct (resolve d t cwd base prefix) as [q|e] eqn:Er; [|discriminate].
  destruct (negb (exists_loc t q)); [inversion H; subst; contradiction|].
  destruct (realpath d t cwd base) as [rb|e] eqn:Eb; [|discriminate].
  destruct (map_res_in _ _ _ _ _ _ H Hin) as [e [He Hf]].
  pose proof (resolve_ok _ _ _ _ _ _ Er) as [rb' [Eb' [_ [Hp [_ [Nq Nb]]]]]]. rewrite Eb in Eb'. inversion Eb'; subst rb'.
  pose proof He as Hmem.
  unfold walk_files in He. apply filter_In in He. destruct He as [_ Hc].
  apply andb_true_iff in Hc. destruct Hc as [Hc Hw]. apply andb_true_iff in Hc. destruct Hc as [Hsp Hne].
  unfold strict_prefix in Hsp. apply andb_true_iff in Hsp. destruct Hsp as [Hqe Hneq]. apply negb_true_iff, leqb_neq in Hneq.
  pose proof (is_prefix_trans _ _ _ Hp Hqe) as Hbe. apply is_prefix_spec in Hbe. destruct Hbe as [s Es]. subst e.
  assert (Ns : names s) by (unfold names_b in Hne; apply names_app in Hne; apply Hne).
  assert (Hs : s <> []).
  { intro E. subst s. rewrite app_nil_r in *. apply Hneq. apply is_prefix_spec in Hp. apply is_prefix_spec in Hqe.
    destruct Hp as [s1 E1]. destruct Hqe as [s2 E2]. subst q. rewrite <- app_assoc in E2. rewrite <- (app_nil_r rb) in E2 at 1.
    apply app_inv_head in E2. symmetry in E2. apply app_eq_nil in E2. destruct E2 as [E2 _]. subst s1. rewrite app_nil_r. reflexivity. }
  pose proof (relativise_inside rb s r Ns Hf Hs) as Er2. subst r.
  exists rb, q. repeat split; try assumption.
  intro E. apply Hneq. symmetry. exact E.
Qed.

(* ------------------------------------------------------------------ entry points *)
(* what an access may reach: a link-free location under the canonical root; os.makedirs(exist_ok) may
   in addition name an ancestor of the root (it creates missing directories only) *)
Definition touch_ok (t : tree) (rb : loc) (a : access) : Prop :=
  names (snd a) /\ no_link_prefix t (snd a) = true /\
  (is_prefix rb (snd a) = true \/ (fst a = AMkdirs /\ is_prefix (snd a) rb = true)).

Definition guard_result (d : nat) (t : tree) (cwd : loc) (dirs : list comp) (base : pstr) (rb : loc) (g : guard) (p : pstr) : res loc :=
  match g with
  | GResolve => resolve d t cwd base p
  | GFileTarget => file_target rb (resolve d t cwd base p)
  | GArrow => arrow_path d t cwd dirs base p
  | GArrowWrite => file_target rb (arrow_path d t cwd dirs base p)
  end.

Lemma resolve_ok_rb : forall d t cwd base p q rb, realpath d t cwd base = Ok rb -> resolve d t cwd base p = Ok q ->
  names q /\ no_link_prefix t q = true /\ is_prefix rb q = true.
Proof.
  intros d t cwd base p q rb Hb Hr. apply resolve_ok in Hr. destruct Hr as [rb' [Eb' [_ [Hp [Hn [Nq _]]]]]].
  rewrite Hb in Eb'. inversion Eb'; subst. auto.
Qed.

Lemma arrow_ok_rb : forall d t cwd dirs base p q rb, realpath d t cwd base = Ok rb -> arrow_path d t cwd dirs base p = Ok q ->
  names q /\ no_link_prefix t q = true /\ is_prefix rb q = true.
Proof.
  intros d t cwd dirs base p q rb Hb Hr. apply arrow_path_ok in Hr. destruct Hr as [rb' [Eb' [Hp [Hn [Nq _]]]]].
  rewrite Hb in Eb'. inversion Eb'; subst. auto.
Qed.

Lemma guard_result_ok : forall d t cwd dirs base rb g p q,
  realpath d t cwd base = Ok rb -> guard_result d t cwd dirs base rb g p = Ok q ->
  names q /\ no_link_prefix t q = true /\ is_prefix rb q = true
  /\ ((g = GFileTarget \/ g = GArrowWrite) -> q <> rb).
Proof.
  intros d t cwd dirs base rb g p q Hb H.
  destruct g; simpl in H.
  - destruct (resolve_ok_rb _ _ _ _ _ _ _ Hb H) as [A [B C0]]. repeat split; try assumption. intros [X|X]; discriminate.
  - unfold file_target in H. destruct (resolve d t cwd base p) as [q0|e] eqn:E; [|discriminate].
    destruct (leqb q0 rb) eqn:El; inversion H; subst. apply leqb_neq in El.
    destruct (resolve_ok_rb _ _ _ _ _ _ _ Hb E) as [A [B C0]]. repeat split; try assumption. intros _. exact El.
  - destruct (arrow_ok_rb _ _ _ _ _ _ _ _ Hb H) as [A [B C0]]. repeat split; try assumption. intros [X|X]; discriminate.
  - unfold file_target in H. destruct (arrow_path d t cwd dirs base p) as [q0|e] eqn:E; [|discriminate].
    destruct (leqb q0 rb) eqn:El; inversion H; subst. apply leqb_neq in El.
    destruct (arrow_ok_rb _ _ _ _ _ _ _ _ Hb E) as [A [B C0]]. repeat split; try assumption. intros _. exact El.
Qed.

Lemma touch_ok_self : forall t rb k q, names q -> no_link_prefix t q = true -> is_prefix rb q = true -> touch_ok t rb (k, q).
Proof. intros. unfold touch_ok. simpl. auto. Qed.

Lemma touch_ok_parent_strict : forall t rb k q, names q -> no_link_prefix t q = true -> is_prefix rb q = true -> q <> rb ->
  touch_ok t rb (k, parent q).
Proof.
  intros t rb k q Nq Hn Hp Hne. unfold touch_ok, parent. simpl. split; [apply names_removelast; exact Nq|].
  split; [eapply no_link_prefix_of_prefix; [apply is_prefix_removelast_self|exact Hn]|].
  left. apply is_prefix_removelast; [exact Hp|]. intro E. apply Hne. symmetry. exact E.
Qed.

Lemma touch_ok_parent_mkdirs : forall t rb q, names q -> no_link_prefix t q = true -> is_prefix rb q = true ->
  touch_ok t rb (AMkdirs, parent q).
Proof.
  intros t rb q Nq Hn Hp. destruct (loc_eq_dec q rb) as [->|Hne].
  - unfold touch_ok, parent. simpl. split; [apply names_removelast; exact Nq|].
    split; [eapply no_link_prefix_of_prefix; [apply is_prefix_removelast_self|exact Hn]|].
    right. split; [reflexivity|apply is_prefix_removelast_self].
  - apply touch_ok_parent_strict; assumption.
Qed.

(* every entry point of the generated table: the raw string goes through the recorded guard and the OS
   is handed only the guard's result or its parent directory, all link-free and under the root *)
Lemma run_entry_ok : forall d t cwd base ep g p accs,
  In (ep, g) gen_entry_guards ->
  run_entry d t cwd gen_table_dirs base ep p = Ok accs ->
  exists rb q, realpath d t cwd base = Ok rb
    /\ guard_result d t cwd gen_table_dirs base rb g p = Ok q
    /\ Forall (fun a => (snd a = q \/ snd a = parent q) /\ touch_ok t rb a) accs.
Proof.
  intros d t cwd base ep g p accs Hin H. unfold run_entry in H.
  destruct (realpath d t cwd base) as [rb|e] eqn:Eb; [|discriminate]. exists rb.
  unfold gen_entry_guards in Hin.
  destruct ep; simpl in Hin;
    repeat (destruct Hin as [Hin|Hin]; [try discriminate; inversion Hin; subst g; clear Hin|]); try contradiction;
    cbv beta iota zeta in H;
    match type of H with
    | match ?r with Ok _ => _ | Err _ => _ end = Ok _ =>
      destruct r as [q|e0] eqn:Eg; [|discriminate]; inversion H; subst accs; clear H; exists q
    end;
    (split; [reflexivity|]); (split; [exact Eg|]);
    match type of Eg with
    | resolve _ _ _ _ _ = _ => pose proof (guard_result_ok d t cwd gen_table_dirs base rb GResolve p q Eb Eg) as [Nq [Hn [Hp _]]]
    | arrow_path _ _ _ _ _ _ = _ => pose proof (guard_result_ok d t cwd gen_table_dirs base rb GArrow p q Eb Eg) as [Nq [Hn [Hp _]]]
    | file_target _ (resolve _ _ _ _ _) = _ =>
      pose proof (guard_result_ok d t cwd gen_table_dirs base rb GFileTarget p q Eb Eg) as [Nq [Hn [Hp Hne]]]; specialize (Hne (or_introl eq_refl))
    | file_target _ (arrow_path _ _ _ _ _ _) = _ =>
      pose proof (guard_result_ok d t cwd gen_table_dirs base rb GArrowWrite p q Eb Eg) as [Nq [Hn [Hp Hne]]]; specialize (Hne (or_intror eq_refl))
    end;
    repeat (apply Forall_cons;
            [split; [simpl; auto|first [apply touch_ok_self; assumption | apply touch_ok_parent_mkdirs; assumption | apply touch_ok_parent_strict; assumption]]|]);
    apply Forall_nil.
Qed.

(* ------------------------------------------------------------------ fuel: one unit per link in the tree suffices *)
Definition is_link_entry (e : loc * node) : bool := match snd e with Link _ => true | _ => false end.
Definition link_keys (t : tree) : list loc := map fst (filter is_link_entry t).
Definition count_links (t : tree) : nat := length (link_keys t).

Lemma assoc_in : forall t p n, assoc p t = Some n -> In (p, n) t.
Proof.
  induction t as [|[k v] t IH]; intros p n H; simpl in H; [discriminate|].
  destruct (leqb p k) eqn:E.
  - inversion H; subst. apply leqb_eq in E. subst. left. reflexivity.
  - right. apply IH. exact H.
Qed.

Lemma lstat_at_link_in : forall t rest pre tg, lstat_at t pre rest = Some (Link tg) -> In (pre ++ rest, Link tg) t.
Proof.
  intros t. induction rest as [|c rest IH]; intros pre tg H; simpl in H.
  - rewrite app_nil_r. unfold look in H. destruct pre; [discriminate|]. apply assoc_in. exact H.
  - destruct (look t pre) as [[| |tg0]|]; try discriminate. apply IH in H. rewrite <- app_assoc in H. exact H.
Qed.

Lemma lstat_link_key : forall t p tg, lstat t p = Some (Link tg) -> In p (link_keys t).
Proof.
  intros t p tg H. apply lstat_at_link_in in H. simpl in H. unfold link_keys.
  change p with (fst (p, Link tg)). apply in_map. apply filter_In. split; [exact H|reflexivity].
Qed.

Lemma mem_false_not_in : forall p l, mem p l = false -> ~ In p l.
Proof.
  intros p l H Hin. unfold mem in H. assert (existsb (leqb p) l = true); [|congruence].
  apply existsb_exists. exists p. split; [exact Hin|apply leqb_refl].
Qed.

Lemma jrp_fuel : forall t d rest path seen,
  NoDup seen -> incl seen (link_keys t) -> (count_links t <= d + length seen)%nat ->
  jrp d t path rest seen <> RPFuel.
Proof.
  intros t. induction d as [|d IHd].
  - induction rest as [|c rest IH]; intros path seen Hnd Hinc Hlen.
    + rewrite jrp_nil. discriminate.
    + rewrite jrp_cons. destruct (is_skip c); [apply IH; assumption|]. destruct (is_up c); [apply IH; assumption|].
      destruct (lstat t (path ++ [c])) as [[| |tg]|] eqn:El; try (apply IH; assumption).
      destruct (mem (path ++ [c]) seen) eqn:Em; [discriminate|]. exfalso.
      apply mem_false_not_in in Em. apply lstat_link_key in El.
      assert (Hnd' : NoDup ((path ++ [c]) :: seen)) by (constructor; assumption).
      assert (Hinc' : incl ((path ++ [c]) :: seen) (link_keys t)) by (intros x [<-|Hx]; [exact El|apply Hinc; exact Hx]).
      pose proof (NoDup_incl_length Hnd' Hinc') as Hl. cbn [length] in Hl. unfold count_links, loc, comp in *. lia.
  - induction rest as [|c rest IH]; intros path seen Hnd Hinc Hlen.
    + rewrite jrp_nil. discriminate.
    + rewrite jrp_cons. destruct (is_skip c); [apply IH; assumption|]. destruct (is_up c); [apply IH; assumption|].
      destruct (lstat t (path ++ [c])) as [[| |tg]|] eqn:El; try (apply IH; assumption).
      destruct (mem (path ++ [c]) seen) eqn:Em; [discriminate|].
      apply mem_false_not_in in Em. apply lstat_link_key in El.
      assert (Hnd' : NoDup ((path ++ [c]) :: seen)) by (constructor; assumption).
      assert (Hinc' : incl ((path ++ [c]) :: seen) (link_keys t)) by (intros x [<-|Hx]; [exact El|apply Hinc; exact Hx]).
      pose proof (IHd (link_rest tg) (link_start path tg) ((path ++ [c]) :: seen) Hnd' Hinc') as Hin.
      destruct (jrp d t (link_start path tg) (link_rest tg) ((path ++ [c]) :: seen)) as [p'|j|] eqn:E1.
      * apply IH; assumption.
      * discriminate.
      * exfalso. apply Hin; [cbn [length]; unfold count_links, loc, comp in *; lia|reflexivity].
Qed.

Lemma realpath_fuel : forall d t cwd s, (count_links t <= d)%nat -> realpath d t cwd s <> Err OutOfFuel.
Proof.
  intros d t cwd s H. unfold realpath.
  pose proof (jrp_fuel t d (tl (absolutize cwd s)) [] [] (NoDup_nil _) (incl_nil_l _)) as Hf.
  destruct (jrp d t [] (tl (absolutize cwd s)) []); try discriminate. exfalso. apply Hf; [simpl; lia|reflexivity].
Qed.

Lemma resolve_fuel : forall d t cwd base p, (count_links t <= d)%nat -> resolve d t cwd base p <> Err OutOfFuel.
Proof.
  intros d t cwd base p H. unfold resolve, canonical.
  pose proof (realpath_fuel d t cwd (join_for_resolve base p) H) as H1.
  pose proof (realpath_fuel d t cwd base H) as H2.
  destruct (realpath d t cwd (join_for_resolve base p)) as [q|e]; [|destruct e; try congruence; discriminate].
  destruct (no_link_prefix t q); [|discriminate].
  destruct (realpath d t cwd base) as [rb|e]; [|destruct e; try congruence; discriminate].
  destruct (inside rb q); discriminate.
Qed.

(* ------------------------------------------------------------------ the directories a listing scans *)
Lemma lstat_at_app : forall t a b pre, b <> [] ->
  lstat_at t pre (a ++ b) = match lstat_at t pre a with Some Dir => lstat_at t (pre ++ a) b | _ => None end.
Proof.
  intros t. induction a as [|x a IH]; intros b pre Hb.
  - simpl. rewrite app_nil_r. destruct b as [|c b]; [contradiction|]. simpl. destruct (look t pre) as [[| |tg]|]; reflexivity.
  - simpl. destruct (look t pre) as [[| |tg]|]; try reflexivity.
    rewrite (IH b (pre ++ [x]) Hb). rewrite <- app_assoc. reflexivity.
Qed.

Lemma prefixes_from_in : forall rest pre p, In p (prefixes_from pre rest) ->
  exists a b, rest = a ++ b /\ p = pre ++ a /\ a <> [].
Proof.
  induction rest as [|c rest IH]; intros pre p H; simpl in H; [contradiction|].
  destruct H as [<-|H].
  - exists [c], rest. repeat split. discriminate.
  - destruct (IH _ _ H) as [a [b [E1 [E2 _]]]]. exists (c :: a), b. subst. repeat split.
    + rewrite <- app_assoc. reflexivity.
    + discriminate.
Qed.

Lemma lstat_dir_no_link : forall t d, lstat t d = Some Dir -> no_link_prefix t d = true.
Proof.
  intros t d H. unfold no_link_prefix. apply forallb_forall. intros p Hp.
  destruct (prefixes_from_in _ _ _ Hp) as [a [b [E1 [E2 _]]]]. simpl in E2. subst p d.
  destruct b as [|c b].
  - rewrite app_nil_r in H. rewrite H. reflexivity.
  - unfold lstat in *. rewrite lstat_at_app in H by discriminate.
    destruct (lstat_at t [] a) as [[| |tg]|]; try discriminate. reflexivity.
Qed.

Lemma list_scans_ok : forall d t cwd base prefix ds dd,
  list_scans d t cwd base prefix = Ok ds -> In dd ds ->
  exists rb q, realpath d t cwd base = Ok rb /\ resolve d t cwd base prefix = Ok q
    /\ is_prefix q dd = true /\ is_prefix rb dd = true /\ names dd
    /\ lstat t dd = Some Dir /\ no_link_prefix t dd = true.
Proof.
  intros d t cwd base prefix ds dd H Hin. unfold list_scans in H.
  destruct (resolve d t cwd base prefix) as [q|e] eqn:Er; [|discriminate].
  destruct (negb (exists_loc t q)); inversion H; subst; [contradiction|].
  pose proof (resolve_ok _ _ _ _ _ _ Er) as [rb [Eb [_ [Hp _]]]].
  unfold walk_dirs in Hin. apply filter_In in Hin. destruct Hin as [_ Hc].
  apply andb_true_iff in Hc. destruct Hc as [Hc Hd]. apply andb_true_iff in Hc. destruct Hc as [Hq Hn].
  destruct (lstat t dd) as [[| |tg]|] eqn:El; try discriminate.
  exists rb, q. repeat split; try assumption.
  - eapply is_prefix_trans; eassumption.
  - apply lstat_dir_no_link. exact El.
Qed.

(* ------------------------------------------------------------------ histories: each use is judged against its own tree *)
Lemma run_history_ok : forall d cwd base steps i t ep g p accs,
  nth_error steps i = Some (t, ep, p) ->
  In (ep, g) gen_entry_guards ->
  nth_error (run_history d cwd gen_table_dirs base steps) i = Some (Ok accs) ->
  exists rb q, realpath d t cwd base = Ok rb
    /\ guard_result d t cwd gen_table_dirs base rb g p = Ok q
    /\ Forall (fun a => (snd a = q \/ snd a = parent q) /\ touch_ok t rb a) accs.
Proof.
  intros d cwd base steps i t ep g p accs Hs Hg Hr. unfold run_history in Hr.
  rewrite (map_nth_error _ _ _ Hs) in Hr. inversion Hr as [Hr']. eapply run_entry_ok; eassumption.
Qed.

(* the same string may be accepted under one arrangement and must be re-judged under the next: nothing carries over *)
Lemma run_history_stateless : forall d cwd dirs base pre post t ep p,
  nth_error (run_history d cwd dirs base (pre ++ (t, ep, p) :: post)) (length pre) = Some (run_entry d t cwd dirs base ep p).
Proof.
  intros. unfold run_history. rewrite map_app. rewrite nth_error_app2 by (rewrite map_length; apply Nat.le_refl).
  rewrite map_length, Nat.sub_diag. reflexivity.
Qed.
