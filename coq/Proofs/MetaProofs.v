(* Proofs/MetaProofs.v -- invariants of the metadata model (Model/Meta.v) over arbitrary operation histories.

   Part 1: ancestors, repointing frame, the generic "prune" step shared by expiry, retention and delete_snapshot.
   Part 2: the invariant `Inv` and its preservation by every operation; consequences (WF, no abort, monotone
           last_seq, entry provenance).
   Part 3: metadata log.
   Part 4: C09 lookups (delete-current, by-timestamp). *)
From Coq Require Import ZArith List Bool Lia Permutation Sorted.
Require Import DS.Model.MetaBase DS.Gen.GenRepoint DS.Model.Meta DS.Model.MetaSpec.
Require Import DS.Proofs.RepointProofs DS.Proofs.MetaLists.
Import ListNotations.
Open Scope Z_scope.

(* ================================================================== Part 1 *)
Lemma anc_trans : forall H a b c, anc H a b -> anc H b c -> anc H a c.
Proof.
  intros H a b c Hab Hbc. induction Hbc as [b c Hs|b c d Hbc IH Hs].
  - eapply anc_step; eassumption.
  - eapply anc_step; [apply IH; exact Hab|exact Hs].
Qed.

Lemma hstep_mono : forall H H' a b, incl H H' -> hstep H a b -> hstep H' a b.
Proof. intros H H' a b Hi [h [Hh Hr]]. exists h. split; [apply Hi; exact Hh|exact Hr]. Qed.

Lemma anc_mono : forall H H' a b, incl H H' -> anc H a b -> anc H' a b.
Proof.
  intros H H' a b Hi Ha. induction Ha.
  - apply anc_one. eapply hstep_mono; eassumption.
  - eapply anc_step; [eassumption|eapply hstep_mono; eassumption].
Qed.

Lemma nil_link_nil_id : forall o, nil_id o <-> nil_link o.
Proof. intros o. unfold nil_id, nil_link. tauto. Qed.

(* ------------------------------------------------------------------ repointing frame *)
Lemma repoint_all_sids : forall all kept, map sid (repoint_all all kept) = map sid kept.
Proof. intros all kept. unfold repoint_all. rewrite map_map. apply map_ext. reflexivity. Qed.

Lemma repoint_all_In : forall all kept s', In s' (repoint_all all kept) ->
  exists s, In s kept /\ s' = set_parent s (repoint_one (parent_map all) (map sid kept) (parent s)).
Proof.
  intros all kept s' H. unfold repoint_all in H. apply in_map_iff in H. destruct H as [s [Hs Hin]].
  exists s. split; [exact Hin|symmetry; exact Hs].
Qed.

Lemma repoint_all_length : forall all kept, length (repoint_all all kept) = length kept.
Proof. intros. unfold repoint_all. apply map_length. Qed.

Lemma repoint_one_post : forall po kept start, walk_post po kept start (repoint_one po kept start).
Proof.
  intros po kept start. unfold repoint_one.
  destruct (gen_repoint_one_total po kept start) as [r [Hr Hp]]. rewrite Hr. exact Hp.
Qed.

Lemma pstep_snap : forall l a b, pstep (parent_map l) a b -> exists s, In s l /\ sid s = a /\ parent s = Some b.
Proof.
  intros l a b H. apply pstep_In in H. unfold parent_map in H. apply in_map_iff in H.
  destruct H as [s [Hs Hin]]. inversion Hs. exists s. repeat split; assumption.
Qed.

Lemma reach_src_snap : forall l a c, reach (parent_map l) a c -> exists s, In s l /\ sid s = a.
Proof.
  intros l a c H. inversion H; subst; match goal with Hp : pstep _ _ _ |- _ => apply pstep_snap in Hp; destruct Hp as [s [? [? ?]]]; exists s; split; assumption end.
Qed.

Definition no_sentinel (l : list snap) : Prop := forall s, In s l -> sid s <> -1.

(* chains of current parent links are chains of true ancestors *)
Lemma reach_anc : forall H m, parents_ok H m -> no_sentinel (snaps m) ->
  forall a c, reach (parent_map (snaps m)) a c -> c <> -1 -> anc H c a.
Proof.
  intros H m Hp Hns a c Hr. induction Hr as [a b Hs|a b c Hs Hr IH]; intros Hc.
  - apply pstep_snap in Hs. destruct Hs as [s [Hin [Hsid Hpar]]].
    destruct (Hp s Hin) as [[Hn|Hn]|[p [Hp1 [_ Hp3]]]]; [congruence|congruence|].
    rewrite Hpar in Hp1. inversion Hp1; subst. exact Hp3.
  - assert (Hb : b <> -1).
    { destruct (reach_src_snap _ _ _ Hr) as [s' [Hin' Hsid']]. rewrite <- Hsid'. apply Hns. exact Hin'. }
    apply pstep_snap in Hs. destruct Hs as [s [Hin [Hsid Hpar]]].
    destruct (Hp s Hin) as [[Hn|Hn]|[p [Hp1 [_ Hp3]]]]; [congruence|congruence|].
    rewrite Hpar in Hp1. inversion Hp1; subst. eapply anc_trans; [apply IH; exact Hc|exact Hp3].
Qed.

(* ------------------------------------------------------------------ the generic prune step *)
Definition prune_with (m : meta) (c : option Z) (kept : list snap) (P : Z -> bool) : meta :=
  with_snaps m c (repoint_all (snaps m) kept) (filter (fun e => P (snd e)) (slog m)).

Lemma prune_sids : forall m c kept P, sids (prune_with m c kept P) = map sid kept.
Proof. intros. unfold prune_with, with_snaps, sids. simpl. apply repoint_all_sids. Qed.

Lemma prune_retained : forall H m c kept P,
  retained_ok H m -> incl kept (snaps m) -> NoDup (map sid kept) -> retained_ok H (prune_with m c kept P).
Proof.
  intros H m c kept P [Hnd Hret] Hinc Hk. split.
  - rewrite prune_sids. exact Hk.
  - intros s' Hs'. unfold prune_with, with_snaps in Hs'. simpl in Hs'.
    apply repoint_all_In in Hs'. destruct Hs' as [s [Hs ->]].
    destruct (Hret s (Hinc s Hs)) as [h [Hh Hsame]]. exists h. split; [exact Hh|].
    unfold same_but_parent in *. simpl. exact Hsame.
Qed.

Lemma prune_parents : forall H m c kept P,
  parents_ok H m -> no_sentinel (snaps m) -> incl kept (snaps m) -> parents_ok H (prune_with m c kept P).
Proof.
  intros H m c kept P Hp Hns Hinc s' Hs'.
  unfold prune_with, with_snaps in Hs'. simpl in Hs'.
  apply repoint_all_In in Hs'. destruct Hs' as [s [Hs ->]]. simpl.
  rewrite prune_sids.
  pose proof (repoint_one_post (parent_map (snaps m)) (map sid kept) (parent s)) as Hpost.
  destruct Hpost as [Hn|[k [Hr [Hk Hreach]]]]; [left; apply nil_link_nil_id; exact Hn|].
  rewrite Hr.
  assert (Hk1 : k <> -1).
  { apply in_map_iff in Hk. destruct Hk as [sk [Hsk Hin]]. rewrite <- Hsk. apply Hns. apply Hinc. exact Hin. }
  right. exists k. split; [reflexivity|]. split; [exact Hk|].
  destruct (Hp s (Hinc s Hs)) as [[Hn|Hn]|[p [Hp1 [Hp2 Hp3]]]].
  - destruct Hreach as [He|[q [He _]]]; congruence.
  - destruct Hreach as [He|[q [He Hre]]]; [congruence|].
    rewrite Hn in He. inversion He; subst.
    destruct (reach_src_snap _ _ _ Hre) as [sq [Hinq Hsq]]. exfalso. apply (Hns sq Hinq). exact Hsq.
  - destruct Hreach as [He|[q [He Hre]]].
    + rewrite Hp1 in He. inversion He; subst. exact Hp3.
    + rewrite Hp1 in He. inversion He; subst.
      eapply anc_trans; [eapply reach_anc; eassumption|exact Hp3].
Qed.

Lemma prune_slog : forall H m c kept P,
  slog_ok H m -> incl kept (snaps m) ->
  (forall i, In i (sids m) -> P i = memZ i (map sid kept)) ->
  slog_ok H (prune_with m c kept P).
Proof.
  intros H m c kept P Hs Hinc HP. unfold slog_ok, retained_in_commit_order in *.
  rewrite prune_sids. unfold prune_with, with_snaps. simpl. rewrite Hs.
  rewrite filter_map_comm. f_equal. simpl.
  rewrite (filter_ext_in (fun h => P (sid h)) (fun h => memZ (sid h) (map sid kept))).
  - apply filter_filter_imp. intros h _ Hm. apply memZ_In in Hm. apply memZ_In.
    apply in_map_iff in Hm. destruct Hm as [s [Hsid Hin]]. unfold sids. rewrite <- Hsid. apply in_map. apply Hinc. exact Hin.
  - intros h Hh. apply filter_In in Hh. destruct Hh as [_ Hm]. apply memZ_In in Hm. apply HP. exact Hm.
Qed.

(* ================================================================== Part 2 *)
(* the part of the invariant that does not mention the current snapshot *)
Record Core (H : list snap) (m : meta) : Prop := {
  c_par : parents_ok H m;
  c_ret : retained_ok H m;
  c_slog : slog_ok H m;
  c_pos : forall h, In h H -> 0 < sid h
}.

Lemma core_no_sentinel : forall H m, Core H m -> no_sentinel (snaps m).
Proof.
  intros H m C s Hs. destruct (c_ret _ _ C) as [_ Hr]. destruct (Hr s Hs) as [h [Hh [Hsid _]]].
  pose proof (c_pos _ _ C h Hh). lia.
Qed.

Lemma core_prune : forall H m c kept P, Core H m -> incl kept (snaps m) -> NoDup (map sid kept) ->
  (forall i, In i (sids m) -> P i = memZ i (map sid kept)) -> Core H (prune_with m c kept P).
Proof.
  intros H m c kept P C Hinc Hnd HP. constructor.
  - apply prune_parents; [apply (c_par _ _ C)|eapply core_no_sentinel; exact C|exact Hinc].
  - apply prune_retained; [apply (c_ret _ _ C)|exact Hinc|exact Hnd].
  - apply prune_slog; [apply (c_slog _ _ C)|exact Hinc|exact HP].
  - apply (c_pos _ _ C).
Qed.

Lemma cur_ok_prune : forall m c kept P,
  (nil_link c \/ exists x, c = Some x /\ In x (map sid kept)) -> cur_ok (prune_with m c kept P).
Proof. intros m c kept P H. unfold cur_ok. rewrite prune_sids. exact H. Qed.

Lemma sids_In_snap : forall m x, In x (sids m) -> exists s, In s (snaps m) /\ sid s = x.
Proof. intros m x H. unfold sids in H. apply in_map_iff in H. destruct H as [s [Hs Hin]]. exists s. tauto. Qed.

(* ------------------------------------------------------------------ expire *)
Definition expire_keep (cutoff : Z) (m : meta) (s : snap) : bool := (cutoff <=? ts s) || opt_eqb (Some (sid s)) (cur m).

Lemma expire_as_prune : forall cutoff m,
  expire cutoff m = prune_with m (cur m) (filter (expire_keep cutoff m) (snaps m))
                               (fun i => memZ i (map sid (filter (expire_keep cutoff m) (snaps m)))).
Proof. reflexivity. Qed.

Lemma expire_current_kept : forall cutoff m x, cur m = Some x -> In x (sids m) ->
  In x (map sid (filter (expire_keep cutoff m) (snaps m))).
Proof.
  intros cutoff m x Hc Hx. apply sids_In_snap in Hx. destruct Hx as [s [Hs Hsid]].
  apply in_map_iff. exists s. split; [exact Hsid|]. apply filter_In. split; [exact Hs|].
  unfold expire_keep. rewrite Hc, Hsid. simpl. rewrite Z.eqb_refl. apply orb_true_r.
Qed.

Lemma expire_core : forall H cutoff m, Core H m -> cur_ok m -> Core H (expire cutoff m) /\ cur_ok (expire cutoff m).
Proof.
  intros H cutoff m C Hc. rewrite expire_as_prune. split.
  - apply core_prune; [exact C|intros s Hs; eapply filter_In_sub; exact Hs| |reflexivity].
    apply NoDup_map_filter. apply (c_ret _ _ C).
  - apply cur_ok_prune. destruct Hc as [Hn|[x [Hx Hin]]]; [left; exact Hn|].
    right. exists x. split; [exact Hx|]. apply expire_current_kept; assumption.
Qed.

Lemma expire_cur : forall cutoff m, cur (expire cutoff m) = cur m.
Proof. reflexivity. Qed.
Lemma expire_last_seq : forall cutoff m, last_seq (expire cutoff m) = last_seq m.
Proof. reflexivity. Qed.

(* ------------------------------------------------------------------ retention *)
Definition ret_kept_ids (n : Z) (m : meta) : list Z :=
  let kept0 := map sid (lastn (Z.to_nat n) (sort_ts (snaps m))) in
  match cur m with
  | Some c => if negb (memZ c kept0) && existsb (fun s => sid s =? c) (snaps m) then kept0 ++ [c] else kept0
  | None => kept0
  end.
Definition ret_surviving (n : Z) (m : meta) : list snap :=
  filter (fun s => memZ (sid s) (ret_kept_ids n m)) (sort_ts (snaps m)).

Lemma apply_retention_cases : forall m,
  apply_retention m = m \/
  exists n, retention m = PInt n /\ 1 <= n /\
    apply_retention m = prune_with m (cur m) (ret_surviving n m) (fun i => memZ i (ret_kept_ids n m)).
Proof.
  intros m. unfold apply_retention. destruct (retention m) as [|n|] eqn:E; try (left; reflexivity).
  destruct ((n <? 1) || (Z.of_nat (length (snaps m)) <=? n)) eqn:E2; [left; reflexivity|].
  right. exists n. split; [reflexivity|]. apply orb_false_iff in E2. destruct E2 as [E2 _].
  apply Z.ltb_ge in E2. split; [exact E2|]. reflexivity.
Qed.

Lemma ret_current_kept : forall n m x, cur m = Some x -> In x (sids m) -> In x (ret_kept_ids n m).
Proof.
  intros n m x Hc Hx. unfold ret_kept_ids. rewrite Hc.
  destruct (memZ x (map sid (lastn (Z.to_nat n) (sort_ts (snaps m))))) eqn:Em; simpl.
  - apply memZ_In. exact Em.
  - assert (He : existsb (fun s => sid s =? x) (snaps m) = true).
    { apply existsb_exists. apply sids_In_snap in Hx. destruct Hx as [s [Hs Hsid]]. exists s. split; [exact Hs|]. apply Z.eqb_eq. exact Hsid. }
    rewrite He. apply in_or_app. right. left. reflexivity.
Qed.

Lemma ret_surviving_sids : forall n m i, In i (sids m) -> (In i (map sid (ret_surviving n m)) <-> In i (ret_kept_ids n m)).
Proof.
  intros n m i Hi. unfold ret_surviving. split.
  - intros H. apply in_map_iff in H. destruct H as [s [Hs Hin]]. apply filter_In in Hin. destruct Hin as [_ Hm].
    apply memZ_In in Hm. rewrite <- Hs. exact Hm.
  - intros H. apply sids_In_snap in Hi. destruct Hi as [s [Hs Hsid]]. apply in_map_iff. exists s. split; [exact Hsid|].
    apply filter_In. split; [apply sort_ts_In; exact Hs|]. apply memZ_In. rewrite Hsid. exact H.
Qed.

Lemma retention_core : forall H m, Core H m -> cur_ok m -> Core H (apply_retention m) /\ cur_ok (apply_retention m).
Proof.
  intros H m C Hc. destruct (apply_retention_cases m) as [->|[n [_ [_ ->]]]]; [split; assumption|]. split.
  - apply core_prune; [exact C| | |].
    + intros s Hs. unfold ret_surviving in Hs. apply filter_In in Hs. apply sort_ts_In. tauto.
    + unfold ret_surviving. apply NoDup_map_filter. apply sort_ts_NoDup_sid. apply (c_ret _ _ C).
    + intros i Hi. pose proof (ret_surviving_sids n m i Hi) as Hiff.
      destruct (memZ i (ret_kept_ids n m)) eqn:E1; destruct (memZ i (map sid (ret_surviving n m))) eqn:E2; try reflexivity.
      * apply memZ_In in E1. apply Hiff in E1. apply memZ_In in E1. congruence.
      * apply memZ_In in E2. apply Hiff in E2. apply memZ_In in E2. congruence.
  - apply cur_ok_prune. destruct Hc as [Hn|[x [Hx Hin]]]; [left; exact Hn|].
    right. exists x. split; [exact Hx|]. apply ret_surviving_sids; [exact Hin|]. apply ret_current_kept; assumption.
Qed.

Lemma apply_retention_cur : forall m, cur (apply_retention m) = cur m.
Proof. intros m. destruct (apply_retention_cases m) as [->|[n [_ [_ ->]]]]; reflexivity. Qed.
Lemma apply_retention_last_seq : forall m, last_seq (apply_retention m) = last_seq m.
Proof. intros m. destruct (apply_retention_cases m) as [->|[n [_ [_ ->]]]]; reflexivity. Qed.

(* ------------------------------------------------------------------ delete_snapshot *)
Lemma max_ts_In : forall l d, In (max_ts d l) (d :: l).
Proof.
  intros l. unfold max_ts. induction l as [|x l IH]; intros d; simpl; [left; reflexivity|].
  destruct (ts d <? ts x).
  - destruct (IH x) as [H|H]; [right; left; exact H|right; right; exact H].
  - destruct (IH d) as [H|H]; [left; exact H|right; right; exact H].
Qed.

Lemma most_recent_ok : forall m, most_recent m = None \/ exists x, most_recent m = Some x /\ In x (sids m).
Proof.
  intros m. unfold most_recent. destruct (snaps m) as [|s0 rest] eqn:E; [left; reflexivity|].
  destruct (find (fun e => memZ (snd e) (sids m)) (rev (slog m))) as [e|] eqn:Ef.
  - right. exists (snd e). split; [reflexivity|]. apply find_some in Ef. apply memZ_In. tauto.
  - right. eexists. split; [reflexivity|]. unfold sids. rewrite E. apply in_map. apply max_ts_In.
Qed.

Definition delete_pruned (m : meta) (id : Z) (rest : list snap) : meta :=
  prune_with m (cur m) rest (fun i => negb (i =? id)).

Lemma delete_snapshot_cases : forall m id,
  (delete_snapshot m id = None /\ ~ In id (sids m)) \/
  exists rest, remove_first id (snaps m) = Some rest /\
    delete_snapshot m id =
      Some (if opt_eqb (cur m) (Some id)
            then with_snaps (delete_pruned m id rest) (most_recent (delete_pruned m id rest))
                            (snaps (delete_pruned m id rest)) (slog (delete_pruned m id rest))
            else delete_pruned m id rest).
Proof.
  intros m id. unfold delete_snapshot. destruct (remove_first id (snaps m)) as [rest|] eqn:E.
  - right. exists rest. split; reflexivity.
  - left. split; [reflexivity|]. apply remove_first_none. exact E.
Qed.

Lemma delete_core : forall H m id rest, Core H m -> remove_first id (snaps m) = Some rest ->
  Core H (delete_pruned m id rest) /\ rest = filter (fun s => negb (sid s =? id)) (snaps m).
Proof.
  intros H m id rest C E.
  assert (Hrest : rest = filter (fun s => negb (sid s =? id)) (snaps m)).
  { apply remove_first_filter; [apply (c_ret _ _ C)|exact E]. }
  split; [|exact Hrest]. unfold delete_pruned. apply core_prune; [exact C| | |].
  - rewrite Hrest. intros s Hs. eapply filter_In_sub. exact Hs.
  - rewrite Hrest. apply NoDup_map_filter. apply (c_ret _ _ C).
  - intros i Hi. rewrite Hrest. destruct (Z.eqb_spec i id) as [->|Hne]; simpl.
    + symmetry. apply memZ_false. intro Hin. apply in_map_iff in Hin. destruct Hin as [s [Hs Hin]].
      apply filter_In in Hin. destruct Hin as [_ Hq]. rewrite Hs, Z.eqb_refl in Hq. discriminate.
    + symmetry. apply memZ_In. apply sids_In_snap in Hi. destruct Hi as [s [Hs Hsid]].
      apply in_map_iff. exists s. split; [exact Hsid|]. apply filter_In. split; [exact Hs|].
      rewrite Hsid. apply negb_true_iff. apply Z.eqb_neq. exact Hne.
Qed.

Lemma with_snaps_same_core : forall H m c, Core H m -> Core H (with_snaps m c (snaps m) (slog m)).
Proof. intros H m c C. destruct C as [Cp Cr Cs Cpos]. constructor; assumption. Qed.

Lemma delete_snapshot_core : forall H m id m', Core H m -> cur_ok m -> delete_snapshot m id = Some m' ->
  Core H m' /\ cur_ok m' /\ last_seq m' = last_seq m.
Proof.
  intros H m id m' C Hc Hd. destruct (delete_snapshot_cases m id) as [[Hn _]|[rest [E Hd']]]; [congruence|].
  rewrite Hd' in Hd. inversion Hd; subst. clear Hd Hd'.
  destruct (delete_core H m id rest C E) as [C1 Hrest].
  destruct (opt_eqb (cur m) (Some id)) eqn:Ec.
  - split; [apply with_snaps_same_core; exact C1|]. split; [|reflexivity].
    unfold cur_ok. simpl. destruct (most_recent_ok (delete_pruned m id rest)) as [Hm|[x [Hm Hx]]].
    + left. left. exact Hm.
    + right. exists x. split; [exact Hm|exact Hx].
  - split; [exact C1|]. split; [|reflexivity]. unfold delete_pruned. apply cur_ok_prune.
    destruct Hc as [Hn|[x [Hx Hin]]]; [left; exact Hn|]. right. exists x. split; [exact Hx|].
    rewrite Hrest. apply sids_In_snap in Hin. destruct Hin as [s [Hs Hsid]]. apply in_map_iff. exists s. split; [exact Hsid|].
    apply filter_In. split; [exact Hs|]. apply negb_true_iff. apply Z.eqb_neq. intro He.
    assert (opt_eqb (cur m) (Some id) = true) by (apply opt_eqb_eq; congruence). congruence.
Qed.

(* ------------------------------------------------------------------ add_snapshot *)
Lemma add_snapshot_core : forall H m id t ml, Core H m -> cur_ok m ->
  0 < id -> ~ In id (map sid H) ->
  Core (H ++ [new_snap m id t ml]) (add_snapshot m (new_snap m id t ml)) /\ cur_ok (add_snapshot m (new_snap m id t ml)).
Proof.
  intros H m id t ml C Hc Hpos Hfresh.
  set (s := new_snap m id t ml).
  assert (Hsid : sid s = id) by reflexivity.
  assert (Hsub : incl (sids m) (map sid H)).
  { intros x Hx. apply sids_In_snap in Hx. destruct Hx as [s' [Hs' Hx]]. destruct (c_ret _ _ C) as [_ Hr].
    destruct (Hr s' Hs') as [h [Hh [Hhs _]]]. apply in_map_iff. exists h. split; [congruence|exact Hh]. }
  assert (Hnew : ~ In id (sids m)) by (intro Hin; apply Hfresh; apply Hsub; exact Hin).
  assert (Hsids : sids (add_snapshot m s) = sids m ++ [id]).
  { unfold sids, add_snapshot. simpl. rewrite map_app. reflexivity. }
  split; [constructor|].
  - (* parents *)
    intros s' Hs'. rewrite Hsids. unfold add_snapshot in Hs'. simpl in Hs'. apply in_app_or in Hs'. destruct Hs' as [Hs'|[<-|[]]].
    + destruct (c_par _ _ C s' Hs') as [Hn|[p [Hp1 [Hp2 Hp3]]]]; [left; exact Hn|].
      right. exists p. split; [exact Hp1|]. split; [apply in_or_app; left; exact Hp2|].
      eapply anc_mono; [|exact Hp3]. intros x Hx. apply in_or_app. left. exact Hx.
    + assert (Hpar : parent s = Some (match cur m with Some c => c | None => -1 end)) by reflexivity.
      destruct Hc as [[Hn|Hn]|[c [Hcc Hin]]].
      * left. right. rewrite Hpar, Hn. reflexivity.
      * left. right. rewrite Hpar, Hn. reflexivity.
      * rewrite Hcc in Hpar. right. exists c. split; [exact Hpar|]. split; [apply in_or_app; left; exact Hin|].
        apply anc_one. exists s. split; [apply in_or_app; right; left; reflexivity|]. split; [reflexivity|exact Hpar].
  - (* retained *)
    split.
    + rewrite Hsids. destruct (c_ret _ _ C) as [Hnd _]. apply NoDup_snoc; assumption.
    + intros s' Hs'. unfold add_snapshot in Hs'. simpl in Hs'. apply in_app_or in Hs'. destruct Hs' as [Hs'|[<-|[]]].
      * destruct (c_ret _ _ C) as [_ Hr]. destruct (Hr s' Hs') as [h [Hh Hsame]]. exists h. split; [apply in_or_app; left; exact Hh|exact Hsame].
      * exists s. split; [apply in_or_app; right; left; reflexivity|]. repeat split.
  - (* slog *)
    unfold slog_ok, retained_in_commit_order. rewrite Hsids. unfold add_snapshot. simpl.
    rewrite filter_app, map_app. simpl.
    assert (Hm : memZ id (sids m ++ [id]) = true) by (apply memZ_In; apply in_or_app; right; left; reflexivity).
    rewrite Hm. simpl. f_equal.
    rewrite (c_slog _ _ C). unfold retained_in_commit_order. f_equal.
    apply filter_ext_in. intros h Hh.
    destruct (memZ (sid h) (sids m)) eqn:E1.
    * symmetry. apply memZ_In. apply in_or_app. left. apply memZ_In. exact E1.
    * symmetry. apply memZ_false. intro Hin. apply in_app_or in Hin. destruct Hin as [Hin|[Hin|[]]].
      -- apply memZ_In in Hin. congruence.
      -- apply Hfresh. rewrite Hin. apply in_map. exact Hh.
  - (* positive ids *)
    intros h Hh. apply in_app_or in Hh. destruct Hh as [Hh|[<-|[]]]; [apply (c_pos _ _ C); exact Hh|exact Hpos].
  - unfold cur_ok. right. exists id. split; [reflexivity|]. rewrite Hsids. apply in_or_app. right. left. reflexivity.
Qed.

(* ------------------------------------------------------------------ manifests: delete carry-over *)
Definition survives (ps : list path) (e : entry) : bool := negb (named ps e).

Lemma ekey_to_existing : forall l, map ekey (map to_existing l) = map ekey l.
Proof. intros l. rewrite map_map. apply map_ext. reflexivity. Qed.

Lemma rewrite_manifest_keys : forall ps mf,
  map ekey (concat (rewrite_manifest ps mf)) = map ekey (filter (survives ps) mf).
Proof.
  intros ps mf. unfold rewrite_manifest. fold (survives ps).
  destruct (Nat.eqb_spec (length (filter (survives ps) mf)) (length mf)) as [He|Hne].
  - simpl. rewrite app_nil_r. rewrite (filter_length_eq _ _ _ He). reflexivity.
  - destruct (filter (survives ps) mf) as [|e l] eqn:E; [reflexivity|].
    simpl concat. rewrite app_nil_r. apply (ekey_to_existing (e :: l)).
Qed.

Lemma apply_deletes_keys : forall ps mfs,
  map ekey (entries (apply_deletes ps mfs)) = map ekey (filter (survives ps) (entries mfs)).
Proof.
  intros ps mfs. unfold entries, apply_deletes. destruct ps as [|p ps].
  - rewrite filter_all_true; [reflexivity|]. intros e _. reflexivity.
  - induction mfs as [|mf mfs IH]; [reflexivity|].
    simpl flat_map. simpl concat. rewrite concat_app, filter_app, !map_app, IH. f_equal. apply rewrite_manifest_keys.
Qed.

Lemma rewrite_manifest_shape : forall ps mf mf', In mf' (rewrite_manifest ps mf) ->
  (mf' = mf /\ forall e, In e mf -> named ps e = false) \/
  (mf' <> [] /\ Forall (fun e => estatus e = ST_EXISTING) mf' /\ mf' = map to_existing (filter (survives ps) mf)).
Proof.
  intros ps mf mf' H. unfold rewrite_manifest in H. fold (survives ps) in H.
  destruct (Nat.eqb_spec (length (filter (survives ps) mf)) (length mf)) as [He|Hne].
  - destruct H as [<-|[]]. left. split; [reflexivity|]. intros e He'.
    rewrite <- (filter_length_eq _ _ _ He) in He'. apply filter_In in He'. destruct He' as [_ Hs].
    unfold survives in Hs. apply negb_true_iff. exact Hs.
  - destruct (filter (survives ps) mf) as [|e l] eqn:E; [destruct H|]. destruct H as [<-|[]].
    right. split; [discriminate|]. split; [|reflexivity]. apply Forall_forall. intros x Hx. apply in_map_iff in Hx.
    destruct Hx as [y [<- _]]. reflexivity.
Qed.

Lemma apply_deletes_shape : forall ps mfs mf', In mf' (apply_deletes ps mfs) ->
  In mf' mfs \/ (mf' <> [] /\ Forall (fun e => estatus e = ST_EXISTING) mf').
Proof.
  intros ps mfs mf' H. unfold apply_deletes in H. destruct ps as [|p ps]; [left; exact H|].
  apply in_flat_map in H. destruct H as [mf [Hmf Hin]]. apply rewrite_manifest_shape in Hin.
  destruct Hin as [[-> _]|[Hne [Hall _]]]; [left; exact Hmf|right; split; assumption].
Qed.

Lemma apply_deletes_entry : forall ps mfs e, In e (entries (apply_deletes ps mfs)) ->
  exists e0, In e0 (entries mfs) /\ ekey e0 = ekey e /\ named ps e0 = false.
Proof.
  intros ps mfs e H. apply (in_map ekey) in H. rewrite apply_deletes_keys in H.
  apply in_map_iff in H. destruct H as [e0 [Hk Hin]]. apply filter_In in Hin. destruct Hin as [Hin Hs].
  exists e0. split; [exact Hin|]. split; [exact Hk|]. unfold survives in Hs. apply negb_true_iff. exact Hs.
Qed.

Lemma added_by_key : forall h0 e e', ekey e = ekey e' -> added_by h0 e -> added_by h0 e'.
Proof.
  intros h0 e e' Hk [H1 [H2 H3]]. unfold ekey in Hk. inversion Hk as [[Hp Ha Hs]].
  unfold added_by. rewrite <- Hp, <- Ha, <- Hs. repeat split; assumption.
Qed.

(* ------------------------------------------------------------------ the invariant *)
Record Inv (ids : list Z) (st : state) (g : ghost) : Prop := {
  i_core : Core (hist g) (md st);
  i_cur : cur_ok (md st);
  i_nd : NoDup (map sid (hist g));
  i_used : incl (map sid (hist g)) ids;
  i_sorted : StronglySorted Z.lt (map seq (hist g));
  i_le : forall h, In h (hist g) -> seq h <= last_seq (md st);
  i_ent : entries_ok (hist g)
}.

Lemma core_ext : forall H m m', snaps m = snaps m' -> slog m = slog m' -> Core H m -> Core H m'.
Proof.
  intros H m m' Hs Hl C. destruct C as [Cp Cr Csl Cpos].
  unfold parents_ok, retained_ok, slog_ok, retained_in_commit_order, sids in *.
  constructor; unfold parents_ok, retained_ok, slog_ok, retained_in_commit_order, sids; rewrite <- ?Hs, <- ?Hl; assumption.
Qed.

Lemma cur_ok_ext : forall m m', cur m = cur m' -> snaps m = snaps m' -> cur_ok m -> cur_ok m'.
Proof. intros m m' Hc Hs H. unfold cur_ok, sids in *. rewrite <- Hc, <- Hs. exact H. Qed.

(* metadata_manager.commit changes nothing the snapshot invariants read *)
Lemma inv_commit : forall ids st g new tu f g',
  hist g' = hist g ->
  Core (hist g) new -> cur_ok new -> (forall h, In h (hist g) -> seq h <= last_seq new) ->
  Inv ids st g -> Inv ids (md_commit st new tu f) g'.
Proof.
  intros ids st g new tu f g' Hh C Hc Hle I. destruct I as [_ _ Ind Iu Is _ Ie].
  constructor; rewrite ?Hh; try assumption.
  all: try (eapply core_ext; [| |exact C]; reflexivity).
  all: try (eapply cur_ok_ext; [| |exact Hc]; reflexivity).
Qed.

Lemma inv_weaken : forall ids ids' st g, incl ids ids' -> Inv ids st g -> Inv ids' st g.
Proof.
  intros ids ids' st g Hi I. destruct I. constructor; try assumption.
  intros x Hx. apply Hi. apply i_used0. exact Hx.
Qed.

Lemma entries_ok_mono : forall H s, entries_ok H ->
  (forall e, In e (entries (mlist s)) -> eseq e <= seq s /\ exists h0, In h0 (H ++ [s]) /\ added_by h0 e) ->
  entries_ok (H ++ [s]).
Proof.
  intros H s He Hs h e Hh Hin. apply in_app_or in Hh. destruct Hh as [Hh|[<-|[]]].
  - destruct (He h e Hh Hin) as [Hle [h0 [Hh0 Ha]]]. split; [exact Hle|]. exists h0. split; [apply in_or_app; left; exact Hh0|exact Ha].
  - apply Hs. exact Hin.
Qed.

Lemma base_manifests_ok : forall H m, Core H m -> cur_ok m ->
  exists base, base_manifests m = Some base /\
    (base = [] \/ exists h, In h H /\ mlist h = base).
Proof.
  intros H m C Hc. unfold base_manifests. destruct Hc as [[Hn|Hn]|[c [Hcc Hin]]].
  - rewrite Hn. exists []. split; [reflexivity|left; reflexivity].
  - rewrite Hn. simpl. exists []. split; [reflexivity|left; reflexivity].
  - rewrite Hcc. destruct (Z.eqb_spec c (-1)); [exists []; split; [reflexivity|left; reflexivity]|].
    destruct (find (fun s => sid s =? c) (snaps m)) as [s|] eqn:Ef.
    + exists (mlist s). split; [reflexivity|]. right. apply find_some in Ef. destruct Ef as [Hs _].
      destruct (c_ret _ _ C) as [_ Hr]. destruct (Hr s Hs) as [h [Hh [_ [_ [_ Hml]]]]]. exists h. split; [exact Hh|exact Hml].
    + exfalso. apply sids_In_snap in Hin. destruct Hin as [s [Hs Hsid]].
      pose proof (find_none _ _ Ef s Hs) as Hf. simpl in Hf. rewrite Hsid, Z.eqb_refl in Hf. discriminate.
Qed.

Lemma append_manifest_entries : forall id sq adds,
  entries (append_manifest id sq adds) = map (fun p => {| epath := p; estatus := ST_ADDED; eadded := id; eseq := sq |}) adds.
Proof.
  intros id sq adds. destruct adds as [|a adds]; [reflexivity|].
  unfold append_manifest, entries. simpl. rewrite app_nil_r. reflexivity.
Qed.

Lemma new_entries_ok : forall H m id t adds dels base,
  entries_ok H -> (forall h, In h H -> seq h <= last_seq m) ->
  (base = [] \/ exists h, In h H /\ mlist h = base) ->
  let ml := apply_deletes dels base ++ append_manifest id (last_seq m + 1) adds in
  let s := new_snap m id t ml in
  forall e, In e (entries (mlist s)) -> eseq e <= seq s /\ exists h0, In h0 (H ++ [s]) /\ added_by h0 e.
Proof.
  intros H m id t adds dels base He Hle Hb ml s e Hin.
  unfold s, new_snap in Hin. simpl in Hin. unfold ml, entries in Hin. rewrite concat_app in Hin.
  apply in_app_or in Hin. destruct Hin as [Hin|Hin].
  - apply (apply_deletes_entry dels base e) in Hin. destruct Hin as [e0 [Hin0 [Hk _]]].
    destruct Hb as [->|[h [Hh Hml]]]; [destruct Hin0|]. subst base.
    destruct (He h e0 Hh Hin0) as [Hle0 [h0 [Hh0 Ha]]].
    assert (Hseq : eseq e = eseq e0) by (unfold ekey in Hk; inversion Hk; reflexivity).
    split.
    + rewrite Hseq. pose proof (Hle h Hh). unfold s, new_snap. simpl. lia.
    + exists h0. split; [apply in_or_app; left; exact Hh0|]. eapply added_by_key; [exact Hk|exact Ha].
  - fold (entries (append_manifest id (last_seq m + 1) adds)) in Hin. rewrite append_manifest_entries in Hin.
    apply in_map_iff in Hin. destruct Hin as [p [<- Hp]].
    split; [unfold s, new_snap; simpl; lia|].
    exists s. split; [apply in_or_app; right; left; reflexivity|].
    unfold added_by. simpl. split; [reflexivity|]. split; [reflexivity|].
    unfold ml, entries. rewrite concat_app. apply in_or_app. right.
    fold (entries (append_manifest id (last_seq m + 1) adds)). rewrite append_manifest_entries.
    apply in_map_iff. exists p. split; [reflexivity|exact Hp].
Qed.

(* ------------------------------------------------------------------ a transaction that commits a snapshot *)
Lemma fileops_inv : forall ids st g id t tu f adds dels cut,
  Inv ids st g -> 0 < id -> ~ In id ids ->
  exists base m',
    base_manifests (md st) = Some base /\
    create_snapshot (md st) id t (apply_deletes dels base ++ append_manifest id (last_seq (md st) + 1) adds) cut = Some m' /\
    forall g', hist g' = hist g ++ [new_snap (md st) id t (apply_deletes dels base ++ append_manifest id (last_seq (md st) + 1) adds)] ->
      Inv (ids ++ [id]) (md_commit st m' tu f) g'.
Proof.
  intros ids st g id t tu f adds dels cut I Hpos Hfresh.
  destruct (base_manifests_ok (hist g) (md st) (i_core _ _ _ I) (i_cur _ _ _ I)) as [base [Hb Hbase]].
  exists base.
  set (m := md st) in *.
  set (ml := apply_deletes dels base ++ append_manifest id (last_seq m + 1) adds).
  set (s := new_snap m id t ml).
  assert (Hf : ~ In id (map sid (hist g))) by (intro Hin; apply Hfresh; apply (i_used _ _ _ I); exact Hin).
  destruct (add_snapshot_core (hist g) m id t ml (i_core _ _ _ I) (i_cur _ _ _ I) Hpos Hf) as [C1 Hc1].
  fold s in C1, Hc1.
  set (m1 := add_snapshot m s) in *.
  set (m2 := match cut with Some c => expire c m1 | None => m1 end).
  assert (H2 : Core (hist g ++ [s]) m2 /\ cur_ok m2 /\ cur m2 = Some id /\ last_seq m2 = last_seq m1).
  { unfold m2. destruct cut as [c|].
    - destruct (expire_core _ c m1 C1 Hc1) as [Ca Cb]. split; [exact Ca|]. split; [exact Cb|]. split; reflexivity.
    - split; [exact C1|]. split; [exact Hc1|]. split; reflexivity. }
  destruct H2 as [C2 [Hc2 [Hcur2 Hls2]]].
  assert (Hex : existsb (fun x => sid x =? id) (snaps m2) = true).
  { destruct Hc2 as [[Hn|Hn]|[c [Hcc Hin]]]; try (rewrite Hcur2 in Hn; inversion Hn; lia).
    rewrite Hcur2 in Hcc. inversion Hcc; subst c. apply sids_In_snap in Hin. destruct Hin as [x [Hx Hsid]].
    apply existsb_exists. exists x. split; [exact Hx|]. apply Z.eqb_eq. exact Hsid. }
  exists (apply_retention m2). split; [exact Hb|]. split.
  { unfold create_snapshot. fold s. fold m1. fold m2. rewrite Hex. reflexivity. }
  intros g' Hg'. fold ml in Hg'. fold s in Hg'.
  destruct (retention_core _ m2 C2 Hc2) as [C3 Hc3].
  assert (Hls3 : last_seq (apply_retention m2) = Z.max (last_seq m) (last_seq m + 1)).
  { rewrite apply_retention_last_seq, Hls2. reflexivity. }
  constructor; rewrite ?Hg'.
  - eapply core_ext; [| |exact C3]; reflexivity.
  - eapply cur_ok_ext; [| |exact Hc3]; reflexivity.
  - rewrite map_app. simpl. apply NoDup_snoc; [apply (i_nd _ _ _ I)|exact Hf].
  - rewrite map_app. simpl. intros x Hx. apply in_app_or in Hx. apply in_or_app. destruct Hx as [Hx|Hx]; [left; apply (i_used _ _ _ I); exact Hx|right; exact Hx].
  - rewrite map_app. simpl. apply StronglySorted_snoc; [apply (i_sorted _ _ _ I)|].
    apply Forall_forall. intros x Hx. apply in_map_iff in Hx. destruct Hx as [h [<- Hh]]. pose proof (i_le _ _ _ I h Hh). fold m in H. lia.
  - intros h Hh. change (last_seq (md (md_commit st (apply_retention m2) tu f))) with (last_seq (apply_retention m2)).
    rewrite Hls3. apply in_app_or in Hh. destruct Hh as [Hh|[<-|[]]].
    + pose proof (i_le _ _ _ I h Hh). fold m in H. lia.
    + simpl. lia.
  - apply entries_ok_mono; [apply (i_ent _ _ _ I)|].
    apply (new_entries_ok (hist g) m id t adds dels base (i_ent _ _ _ I) (i_le _ _ _ I) Hbase).
Qed.

(* ------------------------------------------------------------------ case analysis of one step *)
Definition txn_fileops (st : state) (ops : list txop) (id t tu f : Z) : state * outcome * option snap :=
  match base_manifests (md st) with
  | None => (st, Aborted, None)
  | Some base =>
      let ml := apply_deletes (tx_dels ops) base ++ append_manifest id (last_seq (md st) + 1) (tx_adds ops) in
      match create_snapshot (md st) id t ml (tx_expire ops) with
      | None => (st, Aborted, None)
      | Some m' => (md_commit st m' tu f, Committed, Some (new_snap (md st) id t ml))
      end
  end.

Definition txn_metaonly (st : state) (ops : list txop) (tu f : Z) : state * outcome * option snap :=
  (md_commit st (match tx_expire ops with Some c => expire c (md st) | None => md st end) tu f, Committed, None).

Lemma step_full_txn : forall st ops id t tu f,
  (ops = [] /\ step_full st (Txn ops id t tu f) = (st, NoCommit, None)) \/
  (step_full st (Txn ops id t tu f) = txn_metaonly st ops tu f) \/
  (step_full st (Txn ops id t tu f) = txn_fileops st ops id t tu f).
Proof.
  intros st ops id t tu f. destruct ops as [|o1 ops1]; [left; split; reflexivity|]. right.
  unfold step_full, txn_metaonly, txn_fileops. cbv zeta.
  destruct (tx_adds (o1 :: ops1)) as [|a adds]; destruct (tx_dels (o1 :: ops1)) as [|d dels].
  - left. reflexivity.
  - right. reflexivity.
  - right. reflexivity.
  - right. reflexivity.
Qed.

Lemma inv_ghost_ext : forall ids st g g', hist g' = hist g -> Inv ids st g -> Inv ids st g'.
Proof. intros ids st g g' Hh I. destruct I. constructor; rewrite ?Hh; assumption. Qed.

Lemma gstep_inv : forall ids st g o, Inv ids st g ->
  (forall i, In i (op_ids o) -> 0 < i /\ ~ In i ids) ->
  Inv (ids ++ op_ids o) (fst (gstep (st, g) o)) (snd (gstep (st, g) o)) /\ snd (fst (step_full st o)) <> Aborted.
Proof.
  intros ids st g o I Hfr.
  assert (Hw : Inv (ids ++ op_ids o) st g) by (eapply inv_weaken; [|exact I]; intros x Hx; apply in_or_app; left; exact Hx).
  destruct o as [ops id t tu f|id tu f|v tu f|v tu f]; unfold gstep.
  - destruct (Hfr id (or_introl eq_refl)) as [Hpos Hnew].
    destruct (step_full_txn st ops id t tu f) as [[_ ->]|[->| ->]].
    + simpl. split; [eapply inv_ghost_ext; [|exact Hw]; reflexivity|discriminate].
    + unfold txn_metaonly. simpl. split; [|discriminate].
      eapply inv_commit; [| | | |exact Hw]; try reflexivity.
      * destruct (tx_expire ops) as [c|]; [apply (proj1 (expire_core _ c _ (i_core _ _ _ I) (i_cur _ _ _ I)))|apply (i_core _ _ _ I)].
      * destruct (tx_expire ops) as [c|]; [apply (proj2 (expire_core _ c _ (i_core _ _ _ I) (i_cur _ _ _ I)))|apply (i_cur _ _ _ I)].
      * destruct (tx_expire ops) as [c|]; [rewrite expire_last_seq|]; apply (i_le _ _ _ I).
    + unfold txn_fileops.
      destruct (fileops_inv ids st g id t tu f (tx_adds ops) (tx_dels ops) (tx_expire ops) I Hpos Hnew) as [base [m' [Hb [Hcs Hinv]]]].
      rewrite Hb. cbv zeta. rewrite Hcs. simpl. split; [apply Hinv; reflexivity|discriminate].
  - unfold step_full. destruct (delete_snapshot (md st) id) as [m'|] eqn:Ed.
    + simpl. split; [|discriminate].
      destruct (delete_snapshot_core _ _ _ _ (i_core _ _ _ I) (i_cur _ _ _ I) Ed) as [C' [Hc' Hls]].
      eapply inv_commit; [| | | |exact Hw]; try reflexivity; try assumption.
      rewrite Hls. apply (i_le _ _ _ I).
    + simpl. split; [eapply inv_ghost_ext; [|exact Hw]; reflexivity|discriminate].
  - unfold step_full. simpl. split; [|discriminate].
    eapply inv_commit; [| | | |exact Hw]; try reflexivity.
    + eapply core_ext; [| |apply (i_core _ _ _ I)]; reflexivity.
    + eapply cur_ok_ext; [| |apply (i_cur _ _ _ I)]; reflexivity.
    + apply (i_le _ _ _ I).
  - unfold step_full. simpl. split; [|discriminate].
    eapply inv_commit; [| | | |exact Hw]; try reflexivity.
    + eapply core_ext; [| |apply (i_core _ _ _ I)]; reflexivity.
    + eapply cur_ok_ext; [| |apply (i_cur _ _ _ I)]; reflexivity.
    + apply (i_le _ _ _ I).
Qed.

(* ------------------------------------------------------------------ induction over histories *)
Lemma NoDup_app_inv : forall (A : Type) (l l' : list A), NoDup (l ++ l') ->
  NoDup l /\ NoDup l' /\ forall x, In x l' -> ~ In x l.
Proof.
  intros A l l'. induction l as [|a l IH]; simpl; intros H.
  - split; [constructor|]. split; [exact H|]. intros x _ [].
  - inversion H; subst. destruct (IH H3) as [H1 [H2' H4]]. split; [|split; [exact H2'|]].
    + constructor; [|exact H1]. intro Hin. apply H2. apply in_or_app. left. exact Hin.
    + intros x Hx [<-|Hin]; [apply H2; apply in_or_app; right; exact Hx|apply (H4 x Hx Hin)].
Qed.

Lemma fresh_ops_snoc : forall f0 ops o, fresh_ops f0 (ops ++ [o]) ->
  fresh_ops f0 ops /\ (forall i, In i (op_ids o) -> 0 < i /\ ~ In i (flat_map op_ids ops)) /\
  ~ In (op_file o) (f0 :: map op_file ops).
Proof.
  intros f0 ops o [H1 [H2 H3]]. rewrite flat_map_app in H1, H2. simpl in H1, H2. rewrite app_nil_r in H1, H2.
  destruct (NoDup_app_inv _ _ _ H1) as [Ha [_ Hc]]. apply Forall_app in H2. destruct H2 as [H2a H2b].
  rewrite map_app in H3. simpl in H3. change (f0 :: map op_file ops ++ [op_file o]) with ((f0 :: map op_file ops) ++ [op_file o]) in H3.
  destruct (NoDup_app_inv _ _ _ H3) as [Hf [_ Hg]].
  split; [split; [exact Ha|split; [exact H2a|exact Hf]]|]. split.
  - intros i Hi. split; [rewrite Forall_forall in H2b; apply H2b; exact Hi|apply Hc; exact Hi].
  - apply Hg. left. reflexivity.
Qed.

Lemma grun_snoc : forall sg ops o, grun sg (ops ++ [o]) = gstep (grun sg ops) o.
Proof. intros. unfold grun. rewrite fold_left_app. reflexivity. Qed.

Lemma run_snoc : forall st ops o, run st (ops ++ [o]) = step (run st ops) o.
Proof. intros. unfold run. rewrite fold_left_app. reflexivity. Qed.

Lemma gstep_fst : forall st g o, fst (gstep (st, g) o) = step st o.
Proof. intros st g o. unfold gstep, step. destruct (step_full st o) as [[st' oc] ns]. reflexivity. Qed.

Lemma grun_fst : forall t0 f0 ops, fst (grun (ginit t0 f0) ops) = replay t0 f0 ops.
Proof.
  intros t0 f0 ops. unfold replay. induction ops as [|o ops IH] using rev_ind; [reflexivity|].
  rewrite grun_snoc, run_snoc. destruct (grun (ginit t0 f0) ops) as [st g] eqn:E. simpl in IH. subst st. apply gstep_fst.
Qed.

Lemma ginit_inv : forall t0 f0, Inv [] (fst (ginit t0 f0)) (snd (ginit t0 f0)).
Proof.
  intros t0 f0. simpl. constructor; simpl.
  - constructor; simpl.
    + intros s [].
    + split; [constructor|intros s []].
    + reflexivity.
    + intros h [].
  - left. right. reflexivity.
  - constructor.
  - intros x [].
  - constructor.
  - intros h [].
  - intros h e [].
Qed.

Theorem grun_inv : forall t0 f0 ops, fresh_ops f0 ops ->
  Inv (flat_map op_ids ops) (fst (grun (ginit t0 f0) ops)) (snd (grun (ginit t0 f0) ops)).
Proof.
  intros t0 f0 ops. induction ops as [|o ops IH] using rev_ind; intros Hf.
  - apply ginit_inv.
  - apply fresh_ops_snoc in Hf. destruct Hf as [Hf [Hids _]].
    rewrite grun_snoc, flat_map_app. simpl flat_map. rewrite app_nil_r.
    destruct (grun (ginit t0 f0) ops) as [st g] eqn:E. simpl in IH.
    apply (gstep_inv _ st g o (IH Hf) Hids).
Qed.

Theorem step_never_aborts : forall t0 f0 ops o, fresh_ops f0 (ops ++ [o]) ->
  snd (fst (step_full (replay t0 f0 ops) o)) <> Aborted.
Proof.
  intros t0 f0 ops o Hf. apply fresh_ops_snoc in Hf. destruct Hf as [Hf [Hids _]].
  pose proof (grun_inv t0 f0 ops Hf) as I. rewrite <- grun_fst.
  destruct (grun (ginit t0 f0) ops) as [st g] eqn:E. simpl in *.
  apply (gstep_inv _ st g o I Hids).
Qed.

(* ------------------------------------------------------------------ WF from the invariant *)
Lemma inv_wf : forall ids st g, Inv ids st g -> WF (hist g) (md st).
Proof.
  intros ids st g I. destruct I as [C Hc Hnd Hu Hs Hle He]. unfold WF.
  split; [exact Hc|]. split; [apply (c_par _ _ C)|]. split; [apply (c_ret _ _ C)|]. split; [|apply (c_slog _ _ C)].
  split; [exact Hs|]. split; [exact Hle|].
  intros s Hin. destruct (c_ret _ _ C) as [_ Hr]. destruct (Hr s Hin) as [h [Hh [_ [_ [Hseq _]]]]].
  rewrite <- Hseq. apply Hle. exact Hh.
Qed.

Theorem wf_invariant : forall t0 f0 ops, fresh_ops f0 ops -> WF (hist_of t0 f0 ops) (md (replay t0 f0 ops)).
Proof.
  intros t0 f0 ops Hf. pose proof (grun_inv t0 f0 ops Hf) as I. rewrite <- grun_fst.
  unfold hist_of, ghost_of. eapply inv_wf. exact I.
Qed.

Theorem entries_provenance : forall t0 f0 ops, fresh_ops f0 ops -> entries_ok (hist_of t0 f0 ops).
Proof. intros t0 f0 ops Hf. apply (i_ent _ _ _ (grun_inv t0 f0 ops Hf)). Qed.

(* last_sequence_number never decreases: no hypothesis at all *)
Lemma create_snapshot_last_seq : forall m id t ml cut m', create_snapshot m id t ml cut = Some m' -> last_seq m <= last_seq m'.
Proof.
  intros m id t ml cut m' H. unfold create_snapshot in H.
  destruct (existsb _ _); [|discriminate]. inversion H; subst. rewrite apply_retention_last_seq.
  destruct cut as [c|]; [rewrite expire_last_seq|]; simpl; lia.
Qed.

Lemma delete_snapshot_last_seq : forall m id m', delete_snapshot m id = Some m' -> last_seq m' = last_seq m.
Proof.
  intros m id m' H. unfold delete_snapshot in H. destruct (remove_first id (snaps m)); [|discriminate].
  inversion H; subst. destruct (opt_eqb (cur m) (Some id)); reflexivity.
Qed.

Theorem step_last_seq_mono : forall st o, last_seq (md st) <= last_seq (md (step st o)).
Proof.
  intros st o. unfold step. destruct o as [ops id t tu f|id tu f|v tu f|v tu f].
  - destruct (step_full_txn st ops id t tu f) as [[_ ->]|[->| ->]]; simpl.
    + lia.
    + destruct (tx_expire ops); simpl; lia.
    + unfold txn_fileops. destruct (base_manifests (md st)); [|simpl; lia]. cbv zeta.
      destruct (create_snapshot _ _ _ _ _) as [m'|] eqn:E; [|simpl; lia]. simpl. eapply create_snapshot_last_seq. exact E.
  - unfold step_full. destruct (delete_snapshot (md st) id) as [m'|] eqn:E; simpl; [|lia].
    rewrite (delete_snapshot_last_seq _ _ _ E). lia.
  - simpl. lia.
  - simpl. lia.
Qed.

(* ================================================================== Part 3: metadata log *)
Definition op_tu (o : op) : Z :=
  match o with Txn _ _ _ tu _ => tu | DeleteSnap _ tu _ => tu | SetRetention _ tu _ => tu | SetPrevMax _ tu _ => tu end.

Lemma expire_mlog : forall c m, mlog (expire c m) = mlog m. Proof. reflexivity. Qed.
Lemma apply_retention_mlog : forall m, mlog (apply_retention m) = mlog m.
Proof. intros m. destruct (apply_retention_cases m) as [->|[n [_ [_ ->]]]]; reflexivity. Qed.
Lemma create_snapshot_mlog : forall m id t ml cut m', create_snapshot m id t ml cut = Some m' -> mlog m' = mlog m.
Proof.
  intros m id t ml cut m' H. unfold create_snapshot in H. destruct (existsb _ _); [|discriminate]. inversion H; subst.
  rewrite apply_retention_mlog. destruct cut; reflexivity.
Qed.
Lemma delete_snapshot_mlog : forall m id m', delete_snapshot m id = Some m' -> mlog m' = mlog m.
Proof.
  intros m id m' H. unfold delete_snapshot in H. destruct (remove_first id (snaps m)); [|discriminate].
  inversion H; subst. destruct (opt_eqb (cur m) (Some id)); reflexivity.
Qed.

Lemma step_full_commit_shape : forall st o,
  (snd (fst (step_full st o)) = Committed /\
   exists new, fst (fst (step_full st o)) = md_commit st new (op_tu o) (op_file o) /\ mlog new = mlog (md st)) \/
  (snd (fst (step_full st o)) <> Committed /\ fst (fst (step_full st o)) = st).
Proof.
  intros st o. destruct o as [ops id t tu f|id tu f|v tu f|v tu f].
  - destruct (step_full_txn st ops id t tu f) as [[_ ->]|[->| ->]].
    + right. split; [discriminate|reflexivity].
    + left. split; [reflexivity|]. eexists. split; [reflexivity|]. destruct (tx_expire ops); reflexivity.
    + unfold txn_fileops. destruct (base_manifests (md st)); [|right; split; [discriminate|reflexivity]]. cbv zeta.
      destruct (create_snapshot _ _ _ _ _) as [m'|] eqn:E; [|right; split; [discriminate|reflexivity]].
      left. split; [reflexivity|]. exists m'. split; [reflexivity|]. eapply create_snapshot_mlog. exact E.
  - unfold step_full. destruct (delete_snapshot (md st) id) as [m'|] eqn:E.
    + left. split; [reflexivity|]. exists m'. split; [reflexivity|]. eapply delete_snapshot_mlog. exact E.
    + right. split; [discriminate|reflexivity].
  - left. split; [reflexivity|]. eexists. split; [reflexivity|reflexivity].
  - left. split; [reflexivity|]. eexists. split; [reflexivity|reflexivity].
Qed.

Record MInv (files : list Z) (st : state) (g : ghost) : Prop := {
  m_ok : mlog_ok (versions g) st;
  m_ne : versions g <> [];
  m_nd : NoDup (map snd (versions g));
  m_used : incl (map snd (versions g)) files
}.

Lemma removelast_snoc : forall (A : Type) (l : list A) x, removelast (l ++ [x]) = l.
Proof. intros. apply removelast_last. Qed.

Lemma last_snoc : forall (A : Type) (l : list A) x d, last (l ++ [x]) d = x.
Proof. intros. apply last_last. Qed.

Lemma append_mlog_nodedupe : forall p log lu cf,
  ~ In cf (map snd log) ->
  exists pre, log ++ [(lu, cf)] = pre ++ append_mlog p log lu cf /\
  (1 <= mlog_max p -> Z.of_nat (length (append_mlog p log lu cf)) <= mlog_max p).
Proof.
  intros p log lu cf Hnin. unfold append_mlog.
  assert (Hd : match rev log with e :: _ => snd e =? cf | [] => false end = false).
  { destruct (rev log) as [|e r] eqn:E; [reflexivity|]. apply Z.eqb_neq. intro He. apply Hnin.
    apply in_map_iff. exists e. split; [exact He|]. apply in_rev. rewrite E. left. reflexivity. }
  rewrite Hd.
  destruct ((1 <=? mlog_max p) && (mlog_max p <? Z.of_nat (length (log ++ [(lu, cf)])))) eqn:Eb.
  - apply andb_true_iff in Eb. destruct Eb as [E1 E2]. apply Z.leb_le in E1. apply Z.ltb_lt in E2.
    destruct (lastn_suffix _ (Z.to_nat (mlog_max p)) (log ++ [(lu, cf)])) as [pre Hpre].
    exists pre. split; [exact Hpre|]. intros _. rewrite lastn_length; lia.
  - exists []. split; [reflexivity|]. intros H1. apply andb_false_iff in Eb. destruct Eb as [Eb|Eb].
    + apply Z.leb_gt in Eb. lia.
    + apply Z.ltb_ge in Eb. exact Eb.
Qed.

Lemma gstep_minv : forall files st g o, MInv files st g -> ~ In (op_file o) files ->
  MInv (files ++ [op_file o]) (fst (gstep (st, g) o)) (snd (gstep (st, g) o)).
Proof.
  intros files st g o M Hf. unfold gstep.
  destruct (step_full_commit_shape st o) as [[Hoc [new [Hst Hml]]]|[Hoc Hst]];
    destruct (step_full st o) as [[st' oc] ns]; simpl in *; subst.
  - destruct M as [[[older Hold] [Hlast Hb]] Hne Hnd Hu]. constructor; simpl.
    + assert (Hnin : ~ In (curfile st) (map snd (mlog new))).
      { rewrite Hml. intro Hin.
        destruct (exists_last Hne) as [vs [v Hv]]. rewrite Hv in Hold, Hlast, Hnd.
        rewrite removelast_snoc in Hold. rewrite last_snoc in Hlast. subst v.
        rewrite map_app in Hnd. simpl in Hnd. destruct (NoDup_app_inv _ _ _ Hnd) as [_ [_ Hx]].
        apply (Hx (curfile st)); [left; reflexivity|]. rewrite Hold, map_app. apply in_or_app. right. exact Hin. }
      destruct (append_mlog_nodedupe (prevmax new) (mlog new) (last_updated (md st)) (curfile st) Hnin) as [pre [Hpre Hbound]].
      unfold mlog_ok. simpl. split; [|split; [|exact Hbound]].
      * rewrite removelast_snoc.
        destruct (exists_last Hne) as [vs [v Hv]]. rewrite Hv in Hold, Hlast |- *.
        rewrite removelast_snoc in Hold. rewrite last_snoc in Hlast. subst v.
        exists (older ++ pre). rewrite <- app_assoc, <- Hpre, Hml, app_assoc, <- Hold. reflexivity.
      * rewrite last_snoc. reflexivity.
    + intro H. apply app_eq_nil in H. destruct H as [_ H]. discriminate.
    + rewrite map_app. simpl. apply NoDup_snoc; [exact Hnd|]. intro Hin. apply Hf. apply Hu. exact Hin.
    + rewrite map_app. simpl. intros x Hx. apply in_app_or in Hx. apply in_or_app. destruct Hx as [Hx|Hx]; [left; apply Hu; exact Hx|right; exact Hx].
  - assert (Hv : match oc with Committed => versions g ++ [(last_updated (md st), curfile st)] | _ => versions g end = versions g)
      by (destruct oc; congruence).
    destruct M as [Hok Hne Hnd Hu]. constructor; simpl; rewrite Hv; try assumption.
    intros x Hx. apply in_or_app. left. apply Hu. exact Hx.
Qed.

Theorem grun_minv : forall t0 f0 ops, fresh_ops f0 ops ->
  MInv (f0 :: map op_file ops) (fst (grun (ginit t0 f0) ops)) (snd (grun (ginit t0 f0) ops)).
Proof.
  intros t0 f0 ops. induction ops as [|o ops IH] using rev_ind; intros Hf.
  - simpl. constructor; simpl.
    + unfold mlog_ok. simpl. split; [exists []; reflexivity|]. split; [reflexivity|]. intros _. unfold mlog_max, DEFAULT_PREVMAX. simpl. lia.
    + discriminate.
    + constructor; [intros []|constructor].
    + intros x Hx. exact Hx.
  - apply fresh_ops_snoc in Hf. destruct Hf as [Hf [_ Hfile]].
    rewrite grun_snoc, map_app. simpl map.
    destruct (grun (ginit t0 f0) ops) as [st g] eqn:E. simpl in IH.
    change (f0 :: map op_file ops ++ [op_file o]) with ((f0 :: map op_file ops) ++ [op_file o]).
    apply (gstep_minv _ st g o (IH Hf) Hfile).
Qed.

Theorem mlog_invariant : forall t0 f0 ops, fresh_ops f0 ops -> mlog_ok (versions_of t0 f0 ops) (replay t0 f0 ops).
Proof.
  intros t0 f0 ops Hf. pose proof (grun_minv t0 f0 ops Hf) as M. rewrite <- grun_fst.
  unfold versions_of, ghost_of. apply (m_ok _ _ _ M).
Qed.

(* ================================================================== current snapshot is never expired *)
Theorem expire_keeps_current : forall c m x, cur m = Some x -> In x (sids m) ->
  cur (expire c m) = Some x /\ In x (sids (expire c m)).
Proof.
  intros c m x Hc Hx. split; [exact Hc|]. rewrite expire_as_prune, prune_sids. apply expire_current_kept; assumption.
Qed.

Theorem retention_keeps_current : forall m x, cur m = Some x -> In x (sids m) ->
  cur (apply_retention m) = Some x /\ In x (sids (apply_retention m)).
Proof.
  intros m x Hc Hx. rewrite apply_retention_cur. split; [exact Hc|].
  destruct (apply_retention_cases m) as [->|[n [_ [_ ->]]]]; [exact Hx|].
  rewrite prune_sids. apply ret_surviving_sids; [exact Hx|]. apply ret_current_kept; assumption.
Qed.

(* ================================================================== delete_files removes exactly the named files *)
Lemma mem_path_In : forall p l, mem_path p l = true <-> In p l.
Proof.
  intros p l. unfold mem_path. rewrite existsb_exists. split.
  - intros [q [Hq He]]. unfold path_eqb in He. apply andb_true_iff in He. destruct He as [H1 H2].
    apply Z.eqb_eq in H1. apply Z.eqb_eq in H2. destruct p, q. simpl in *. subst. exact Hq.
  - intros H. exists p. split; [exact H|]. unfold path_eqb. rewrite !Z.eqb_refl. reflexivity.
Qed.

Lemma named_spec : forall ps e, named ps e = true <-> exists p, In p ps /\ lstrip p = lstrip (epath e).
Proof.
  intros ps e. unfold named. rewrite mem_path_In, in_map_iff. split.
  - intros [p [Hp Hin]]. exists p. split; [exact Hin|exact Hp].
  - intros [p [Hin Hp]]. exists p. split; [exact Hp|exact Hin].
Qed.

Theorem delete_exact : forall ps mfs,
  (* the surviving entries are exactly the entries not named, in order, with path / adding snapshot / sequence number kept *)
  map ekey (entries (apply_deletes ps mfs)) = map ekey (filter (fun e => negb (named ps e)) (entries mfs))
  (* a manifest is either carried over untouched or rewritten, non-empty, with every entry EXISTING *)
  /\ (forall mf', In mf' (apply_deletes ps mfs) -> In mf' mfs \/ (mf' <> [] /\ Forall (fun e => estatus e = ST_EXISTING) mf'))
  (* a file is named by a delete iff one of the given paths equals its path up to leading '/' *)
  /\ (forall e, named ps e = true <-> exists p, In p ps /\ lstrip p = lstrip (epath e)).
Proof.
  intros ps mfs. split; [apply apply_deletes_keys|]. split; [apply apply_deletes_shape|apply named_spec].
Qed.

(* sequence numbers of the retained snapshots, read in snapshot-log (= commit) order, strictly increase *)
Lemma sorted_map_filter : forall (A : Type) (f : A -> Z) (P : A -> bool) (l : list A),
  StronglySorted Z.lt (map f l) -> StronglySorted Z.lt (map f (filter P l)).
Proof.
  intros A f P l. induction l as [|x l IH]; simpl; intros H; [constructor|].
  inversion H; subst. destruct (P x); simpl; [|apply IH; assumption].
  constructor; [apply IH; assumption|].
  apply Forall_forall. intros y Hy. apply in_map_iff in Hy. destruct Hy as [z [<- Hz]].
  rewrite Forall_forall in H3. apply H3. apply in_map. eapply filter_In_sub. exact Hz.
Qed.

Theorem wf_seq_in_log_order : forall H m, WF H m ->
  StronglySorted Z.lt (map seq (retained_in_commit_order H m)) /\
  map snd (slog m) = map sid (retained_in_commit_order H m) /\
  (forall s, In s (snaps m) -> exists h, In h (retained_in_commit_order H m) /\ sid h = sid s /\ seq h = seq s).
Proof.
  intros H m [_ [_ [[Hnd Hret] [[Hs _] Hslog]]]]. split; [apply sorted_map_filter; exact Hs|]. split.
  - rewrite Hslog, map_map. reflexivity.
  - intros s Hin. destruct (Hret s Hin) as [h [Hh [Hsid [_ [Hseq _]]]]]. exists h. split; [|split; assumption].
    unfold retained_in_commit_order. apply filter_In. split; [exact Hh|]. apply memZ_In. rewrite Hsid. unfold sids. apply in_map. exact Hin.
Qed.

(* ================================================================== Part 4: C09 lookups *)
Lemma memZ_filter_ne : forall x id l,
  memZ x (map sid (filter (fun s => negb (sid s =? id)) l)) = memZ x (map sid l) && negb (x =? id).
Proof.
  intros x id l. destruct (memZ x (map sid (filter (fun s => negb (sid s =? id)) l))) eqn:E.
  - apply memZ_In in E. apply in_map_iff in E. destruct E as [s [Hs Hin]]. apply filter_In in Hin. destruct Hin as [Hin Hq].
    symmetry. apply andb_true_iff. split; [apply memZ_In; apply in_map_iff; exists s; tauto|]. rewrite <- Hs. exact Hq.
  - symmetry. apply andb_false_iff. destruct (Z.eqb_spec x id) as [->|Hne]; [right; reflexivity|]. left.
    apply memZ_false. intro Hin. apply memZ_false in E. apply E. apply in_map_iff in Hin. destruct Hin as [s [Hs Hin]].
    apply in_map_iff. exists s. split; [exact Hs|]. apply filter_In. split; [exact Hin|]. rewrite Hs. apply negb_true_iff. apply Z.eqb_neq. exact Hne.
Qed.

Lemma last_opt_snoc : forall (A : Type) (l : list A) x, last_opt (l ++ [x]) = Some x.
Proof. intros. unfold last_opt. rewrite rev_app_distr. reflexivity. Qed.

Lemma last_opt_nil : forall (A : Type), @last_opt A [] = None.
Proof. reflexivity. Qed.

(* deleting the current snapshot repoints the table to the most recently committed survivor *)
Lemma delete_current_core : forall H m id, Core H m -> cur m = Some id -> In id (sids m) ->
  exists m', delete_snapshot m id = Some m' /\
    cur m' = option_map sid (last_opt (filter (fun h => memZ (sid h) (sids m) && negb (sid h =? id)) H)).
Proof.
  intros H m id C Hc Hin.
  destruct (remove_first_some id (snaps m) Hin) as [rest E].
  destruct (delete_snapshot_cases m id) as [[_ Hn]|[rest' [E' Hd]]]; [contradiction|].
  rewrite E in E'. inversion E'; subst rest'. clear E'.
  assert (Heq : opt_eqb (cur m) (Some id) = true) by (apply opt_eqb_eq; exact Hc).
  rewrite Heq in Hd. eexists. split; [exact Hd|]. simpl.
  destruct (delete_core H m id rest C E) as [C1 Hrest].
  set (m1 := delete_pruned m id rest) in *.
  assert (Hs1 : sids m1 = map sid rest) by (unfold m1, delete_pruned; apply prune_sids).
  set (L := filter (fun h => memZ (sid h) (sids m) && negb (sid h =? id)) H).
  assert (HL : retained_in_commit_order H m1 = L).
  { unfold retained_in_commit_order, L. apply filter_ext. intros h. rewrite Hs1, Hrest. apply memZ_filter_ne. }
  pose proof (c_slog _ _ C1) as Hsl. unfold slog_ok in Hsl. rewrite HL in Hsl.
  unfold most_recent. destruct (snaps m1) as [|s0 rs] eqn:Es.
  - assert (HLn : L = []).
    { rewrite <- HL. unfold retained_in_commit_order. unfold sids. rewrite Es. simpl.
      clear. induction H as [|h H IH]; simpl; [reflexivity|exact IH]. }
    rewrite HLn. reflexivity.
  - destruct (exists_last (l := L)) as [L' [hl HL']].
    { intro HLn. destruct (c_ret _ _ C1) as [_ Hr]. destruct (Hr s0) as [h [Hh [Hsid _]]]; [rewrite Es; left; reflexivity|].
      assert (Hin' : In h (retained_in_commit_order H m1)).
      { unfold retained_in_commit_order. apply filter_In. split; [exact Hh|]. apply memZ_In. rewrite Hsid. unfold sids. rewrite Es. left. reflexivity. }
      rewrite HL, HLn in Hin'. destruct Hin'. }
    rewrite Hsl, HL', map_app, rev_app_distr. simpl.
    assert (Hm : memZ (sid hl) (sids m1) = true).
    { assert (Hin' : In hl (retained_in_commit_order H m1)) by (rewrite HL, HL'; apply in_or_app; right; left; reflexivity).
      unfold retained_in_commit_order in Hin'. apply filter_In in Hin'. tauto. }
    rewrite Hm. rewrite last_opt_snoc. reflexivity.
Qed.

Theorem delete_current_most_recent : forall t0 f0 ops id, fresh_ops f0 ops ->
  cur (md (replay t0 f0 ops)) = Some id -> In id (sids (md (replay t0 f0 ops))) ->
  exists m', delete_snapshot (md (replay t0 f0 ops)) id = Some m' /\
    cur m' = option_map sid (last_opt (filter (fun h => memZ (sid h) (sids (md (replay t0 f0 ops))) && negb (sid h =? id))
                                              (hist_of t0 f0 ops))).
Proof.
  intros t0 f0 ops id Hf. pose proof (grun_inv t0 f0 ops Hf) as I. rewrite <- grun_fst.
  unfold hist_of, ghost_of. apply delete_current_core. apply (i_core _ _ _ I).
Qed.

(* ------------------------------------------------------------------ by-timestamp under non-decreasing timestamps *)
Definition pair_of (s : snap) : Z * Z := (ts s, sid s).

(* the snapshots list is in snapshot-log order *)
Definition ordered (m : meta) : Prop := map pair_of (snaps m) = slog m.

Lemma sorted_le_map_filter : forall (A : Type) (f : A -> Z) (P : A -> bool) (l : list A),
  StronglySorted Z.le (map f l) -> StronglySorted Z.le (map f (filter P l)).
Proof.
  intros A f P l. induction l as [|x l IH]; simpl; intros H; [constructor|].
  inversion H; subst. destruct (P x); simpl; [|apply IH; assumption].
  constructor; [apply IH; assumption|].
  apply Forall_forall. intros y Hy. apply in_map_iff in Hy. destruct Hy as [z [<- Hz]].
  rewrite Forall_forall in H3. apply H3. apply in_map. eapply filter_In_sub. exact Hz.
Qed.

Lemma ts_sorted_of_map : forall l, StronglySorted Z.le (map ts l) -> ts_sorted l.
Proof.
  intros l. induction l as [|x l IH]; simpl; intros H; [constructor|].
  inversion H; subst. constructor; [apply IH; assumption|].
  apply Forall_forall. intros y Hy. rewrite Forall_forall in H3. apply H3. apply in_map. exact Hy.
Qed.

Lemma snaps_ts_sorted : forall H m, Core H m -> ordered m -> StronglySorted Z.le (map ts H) -> ts_sorted (snaps m).
Proof.
  intros H m C Ho Hs. apply ts_sorted_of_map.
  assert (Hm : map ts (snaps m) = map ts (retained_in_commit_order H m)).
  { transitivity (map fst (map pair_of (snaps m))); [rewrite map_map; reflexivity|].
    rewrite Ho, (c_slog _ _ C), map_map. reflexivity. }
  rewrite Hm. apply sorted_le_map_filter. exact Hs.
Qed.

Lemma repoint_all_pairs : forall all kept, map pair_of (repoint_all all kept) = map pair_of kept.
Proof. intros. unfold repoint_all. rewrite map_map. apply map_ext. reflexivity. Qed.

Lemma prune_ordered : forall m c kept P, ordered m -> kept = filter (fun s => P (sid s)) (snaps m) ->
  ordered (prune_with m c kept P).
Proof.
  intros m c kept P Ho Hk. unfold ordered, prune_with, with_snaps in *. simpl.
  rewrite repoint_all_pairs, <- Ho, filter_map_comm, Hk. reflexivity.
Qed.

Lemma filter_by_kept_ids : forall (Q : snap -> bool) l, NoDup (map sid l) ->
  filter Q l = filter (fun s => memZ (sid s) (map sid (filter Q l))) l.
Proof.
  intros Q l Hnd. apply filter_ext_in. intros s Hs. destruct (Q s) eqn:EQ.
  - symmetry. apply memZ_In. apply in_map. apply filter_In. split; assumption.
  - symmetry. apply memZ_false. intro Hin. apply in_map_iff in Hin. destruct Hin as [s' [Hsid Hin']].
    apply filter_In in Hin'. destruct Hin' as [Hin' HQ'].
    assert (s' = s) by (eapply NoDup_map_inj_in; eassumption). subst. congruence.
Qed.

Lemma expire_ordered : forall H c m, Core H m -> ordered m -> ordered (expire c m).
Proof.
  intros H c m C Ho. rewrite expire_as_prune. apply prune_ordered; [exact Ho|].
  apply filter_by_kept_ids. apply (c_ret _ _ C).
Qed.

Lemma retention_ordered : forall H m, Core H m -> ordered m -> StronglySorted Z.le (map ts H) -> ordered (apply_retention m).
Proof.
  intros H m C Ho Hs. destruct (apply_retention_cases m) as [->|[n [_ [_ ->]]]]; [exact Ho|].
  apply prune_ordered; [exact Ho|]. unfold ret_surviving, ret_kept_ids.
  rewrite (sort_ts_sorted_id (snaps m) (snaps_ts_sorted H m C Ho Hs)). reflexivity.
Qed.

Lemma delete_ordered : forall H m id m', Core H m -> ordered m -> delete_snapshot m id = Some m' -> ordered m'.
Proof.
  intros H m id m' C Ho Hd. destruct (delete_snapshot_cases m id) as [[Hn _]|[rest [E Hd']]]; [congruence|].
  rewrite Hd' in Hd. inversion Hd; subst. clear Hd Hd'.
  destruct (delete_core H m id rest C E) as [_ Hrest].
  assert (Ho1 : ordered (delete_pruned m id rest)) by (unfold delete_pruned; apply prune_ordered; [exact Ho|exact Hrest]).
  destruct (opt_eqb (cur m) (Some id)); exact Ho1.
Qed.

Record OInv (tss : list Z) (st : state) (g : ghost) : Prop := {
  o_ord : ordered (md st);
  o_ts : StronglySorted Z.le (map ts (hist g));
  o_used : incl (map ts (hist g)) tss
}.

Lemma ordered_ext : forall m m', snaps m = snaps m' -> slog m = slog m' -> ordered m -> ordered m'.
Proof. intros m m' Hs Hl H. unfold ordered in *. rewrite <- Hs, <- Hl. exact H. Qed.

Lemma gstep_oinv : forall ids tss st g o, Inv ids st g -> OInv tss st g ->
  (forall i, In i (op_ids o) -> 0 < i /\ ~ In i ids) ->
  (forall t, In t (op_ts o) -> forall x, In x tss -> x <= t) ->
  OInv (tss ++ op_ts o) (fst (gstep (st, g) o)) (snd (gstep (st, g) o)).
Proof.
  intros ids tss st g o I O Hfr Hts.
  assert (Hkeep : forall st' g', hist g' = hist g -> ordered (md st') -> OInv (tss ++ op_ts o) st' g').
  { intros st' g' Hh Ho. constructor; [exact Ho|rewrite Hh; apply (o_ts _ _ _ O)|].
    rewrite Hh. intros x Hx. apply in_or_app. left. apply (o_used _ _ _ O). exact Hx. }
  destruct o as [ops id t tu f|id tu f|v tu f|v tu f]; unfold gstep.
  - destruct (Hfr id (or_introl eq_refl)) as [Hpos Hnew].
    destruct (step_full_txn st ops id t tu f) as [[_ ->]|[->| ->]].
    + simpl. apply Hkeep; [reflexivity|apply (o_ord _ _ _ O)].
    + unfold txn_metaonly. simpl. apply Hkeep; [reflexivity|].
      eapply ordered_ext with (m := match tx_expire ops with Some c => expire c (md st) | None => md st end); try reflexivity.
      destruct (tx_expire ops) as [c|]; [eapply expire_ordered; [apply (i_core _ _ _ I)|apply (o_ord _ _ _ O)]|apply (o_ord _ _ _ O)].
    + unfold txn_fileops.
      destruct (fileops_inv ids st g id t tu f (tx_adds ops) (tx_dels ops) (tx_expire ops) I Hpos Hnew) as [base [m' [Hb [Hcs _]]]].
      rewrite Hb. cbv zeta. rewrite Hcs. simpl.
      set (ml := apply_deletes (tx_dels ops) base ++ append_manifest id (last_seq (md st) + 1) (tx_adds ops)) in *.
      set (s := new_snap (md st) id t ml) in *.
      assert (Hf : ~ In id (map sid (hist g))) by (intro Hin; apply Hnew; apply (i_used _ _ _ I); exact Hin).
      destruct (add_snapshot_core (hist g) (md st) id t ml (i_core _ _ _ I) (i_cur _ _ _ I) Hpos Hf) as [C1 Hc1].
      fold s in C1, Hc1.
      assert (Hs' : StronglySorted Z.le (map ts (hist g ++ [s]))).
      { rewrite map_app. simpl. apply StronglySorted_snoc; [apply (o_ts _ _ _ O)|].
        apply Forall_forall. intros x Hx. apply (Hts t (or_introl eq_refl)). apply (o_used _ _ _ O). exact Hx. }
      assert (Ho1 : ordered (add_snapshot (md st) s)).
      { unfold ordered, add_snapshot. simpl. rewrite map_app. simpl. rewrite (o_ord _ _ _ O). reflexivity. }
      unfold create_snapshot in Hcs. fold s in Hcs.
      destruct (existsb _ _) in Hcs; [|discriminate]. inversion Hcs; subst m'. clear Hcs.
      constructor; simpl.
      * eapply ordered_ext with (m := apply_retention (match tx_expire ops with Some c => expire c (add_snapshot (md st) s) | None => add_snapshot (md st) s end)); try reflexivity.
        destruct (tx_expire ops) as [c|].
        -- destruct (expire_core _ c _ C1 Hc1) as [C2 _].
           eapply retention_ordered; [exact C2|eapply expire_ordered; [exact C1|exact Ho1]|exact Hs'].
        -- eapply retention_ordered; [exact C1|exact Ho1|exact Hs'].
      * exact Hs'.
      * rewrite map_app. simpl. intros x Hx. apply in_app_or in Hx. apply in_or_app.
        destruct Hx as [Hx|Hx]; [left; apply (o_used _ _ _ O); exact Hx|right; exact Hx].
  - unfold step_full. destruct (delete_snapshot (md st) id) as [m'|] eqn:Ed; simpl.
    + apply Hkeep; [reflexivity|]. eapply ordered_ext with (m := m'); try reflexivity.
      eapply delete_ordered; [apply (i_core _ _ _ I)|apply (o_ord _ _ _ O)|exact Ed].
    + apply Hkeep; [reflexivity|apply (o_ord _ _ _ O)].
  - unfold step_full. simpl. apply Hkeep; [reflexivity|]. eapply ordered_ext with (m := md st); try reflexivity. apply (o_ord _ _ _ O).
  - unfold step_full. simpl. apply Hkeep; [reflexivity|]. eapply ordered_ext with (m := md st); try reflexivity. apply (o_ord _ _ _ O).
Qed.

Lemma sorted_le_snoc_inv : forall l t, StronglySorted Z.le (l ++ [t]) -> StronglySorted Z.le l /\ forall x, In x l -> x <= t.
Proof.
  intros l t. induction l as [|a l IH]; simpl; intros H; [split; [constructor|intros x []]|].
  inversion H; subst. destruct (IH H2) as [Hs Hle]. split.
  - constructor; [exact Hs|]. apply Forall_forall. intros y Hy. rewrite Forall_forall in H3. apply H3. apply in_or_app. left. exact Hy.
  - intros x [<-|Hx]; [|apply Hle; exact Hx]. rewrite Forall_forall in H3. apply H3. apply in_or_app. right. left. reflexivity.
Qed.

Lemma nondecreasing_snoc : forall ops o, nondecreasing_ts (ops ++ [o]) ->
  nondecreasing_ts ops /\ (forall t, In t (op_ts o) -> forall x, In x (flat_map op_ts ops) -> x <= t).
Proof.
  intros ops o H. unfold nondecreasing_ts in *. rewrite flat_map_app in H. simpl in H. rewrite app_nil_r in H.
  destruct o as [tops id t tu f|id tu f|v tu f|v tu f]; simpl in *; try (rewrite app_nil_r in H; split; [exact H|intros t []]).
  destruct (sorted_le_snoc_inv _ _ H) as [Hs Hle]. split; [exact Hs|]. intros t' [<-|[]] x Hx. apply Hle. exact Hx.
Qed.

Theorem grun_oinv : forall t0 f0 ops, fresh_ops f0 ops -> nondecreasing_ts ops ->
  OInv (flat_map op_ts ops) (fst (grun (ginit t0 f0) ops)) (snd (grun (ginit t0 f0) ops)).
Proof.
  intros t0 f0 ops. induction ops as [|o ops IH] using rev_ind; intros Hf Hn.
  - simpl. constructor; simpl; [reflexivity|constructor|intros x []].
  - apply nondecreasing_snoc in Hn. destruct Hn as [Hn Hts].
    pose proof (grun_inv t0 f0 ops (proj1 (fresh_ops_snoc _ _ _ Hf))) as I.
    apply fresh_ops_snoc in Hf. destruct Hf as [Hf [Hids _]].
    rewrite grun_snoc, flat_map_app. simpl flat_map. rewrite app_nil_r.
    destruct (grun (ginit t0 f0) ops) as [st g] eqn:E. simpl in IH, I.
    apply (gstep_oinv _ _ st g o I (IH Hf Hn) Hids Hts).
Qed.

Lemma last_opt_cons : forall (A : Type) (x : A) l,
  last_opt (x :: l) = match last_opt l with Some s => Some s | None => Some x end.
Proof. intros A x l. unfold last_opt. simpl. destruct (rev l); reflexivity. Qed.

Lemma last_opt_map : forall (A B : Type) (f : A -> B) l, last_opt (map f l) = option_map f (last_opt l).
Proof. intros A B f l. unfold last_opt. rewrite <- map_rev. destruct (rev l); reflexivity. Qed.

Lemma scan_upto_sorted : forall t l, ts_sorted l -> forall acc,
  scan_upto t l acc = match last_opt (filter (fun s => ts s <=? t) l) with Some s => Some s | None => acc end.
Proof.
  intros t l H. induction H as [|x l Hs IH Hall]; intros acc; [reflexivity|].
  simpl. destruct (Z.leb_spec (ts x) t) as [Hle|Hgt].
  - rewrite IH, last_opt_cons. destruct (last_opt (filter (fun s => ts s <=? t) l)); reflexivity.
  - assert (Hnil : filter (fun s => ts s <=? t) l = []).
    { clear IH Hs. induction l as [|y l IHl]; [reflexivity|]. inversion Hall; subst. simpl.
      destruct (Z.leb_spec (ts y) t); [lia|]. apply IHl. assumption. }
    rewrite Hnil. reflexivity.
Qed.

Lemma filter_filter_andb : forall (A : Type) (P Q : A -> bool) l, filter P (filter Q l) = filter (fun x => Q x && P x) l.
Proof.
  intros A P Q l. induction l as [|x l IH]; simpl; [reflexivity|].
  destruct (Q x); simpl; [destruct (P x); rewrite IH; reflexivity|exact IH].
Qed.

Lemma last_upto_pairs : forall t l,
  option_map sid (last_opt (filter (fun s => ts s <=? t) l)) =
  option_map snd (last_opt (filter (fun p => fst p <=? t) (map pair_of l))).
Proof.
  intros t l. rewrite filter_map_comm, last_opt_map. simpl.
  destruct (last_opt (filter (fun x => ts x <=? t) l)); reflexivity.
Qed.

Lemma by_timestamp_core : forall H m t, Core H m -> ordered m -> StronglySorted Z.le (map ts H) ->
  option_map sid (by_timestamp m t) =
  option_map sid (last_opt (filter (fun h => memZ (sid h) (sids m) && (ts h <=? t)) H)).
Proof.
  intros H m t C Ho Hs. unfold by_timestamp.
  pose proof (snaps_ts_sorted H m C Ho Hs) as Hsorted.
  rewrite (sort_ts_sorted_id _ Hsorted), (scan_upto_sorted t _ Hsorted None).
  transitivity (option_map sid (last_opt (filter (fun s => ts s <=? t) (snaps m)))).
  { destruct (last_opt (filter (fun s => ts s <=? t) (snaps m))); reflexivity. }
  rewrite <- filter_filter_andb. fold (retained_in_commit_order H m).
  rewrite !last_upto_pairs. f_equal. f_equal. f_equal.
  rewrite Ho, (c_slog _ _ C). reflexivity.
Qed.

(* with a stable sort and non-decreasing commit timestamps, lookup by timestamp returns the most recently
   committed retained snapshot not newer than t *)
Theorem by_timestamp_most_recent : forall t0 f0 ops t, fresh_ops f0 ops -> nondecreasing_ts ops ->
  option_map sid (by_timestamp (md (replay t0 f0 ops)) t) =
  option_map sid (last_opt (filter (fun h => memZ (sid h) (sids (md (replay t0 f0 ops))) && (ts h <=? t)) (hist_of t0 f0 ops))).
Proof.
  intros t0 f0 ops t Hf Hn. pose proof (grun_inv t0 f0 ops Hf) as I. pose proof (grun_oinv t0 f0 ops Hf Hn) as O.
  rewrite <- grun_fst. unfold hist_of, ghost_of.
  apply by_timestamp_core; [apply (i_core _ _ _ I)|apply (o_ord _ _ _ O)|apply (o_ts _ _ _ O)].
Qed.

(* lookup by id returns the retained snapshot with that id, which is the committed one but for its parent link *)
Theorem by_id_retained : forall t0 f0 ops id s, fresh_ops f0 ops ->
  by_id (md (replay t0 f0 ops)) id = Some s ->
  In s (snaps (md (replay t0 f0 ops))) /\ sid s = id /\ exists h, In h (hist_of t0 f0 ops) /\ same_but_parent h s.
Proof.
  intros t0 f0 ops id s Hf Hb. unfold by_id in Hb. apply find_some in Hb. destruct Hb as [Hin He]. apply Z.eqb_eq in He.
  split; [exact Hin|]. split; [exact He|].
  pose proof (wf_invariant t0 f0 ops Hf) as [_ [_ [[_ Hr] _]]]. apply Hr. exact Hin.
Qed.

(* ================================================================== what a committing transaction writes *)
(* Whenever a transaction commits a snapshot, that snapshot lists exactly: the base snapshot's entries that no
   queued delete names (path, adding snapshot, sequence number unchanged, order kept), followed by one ADDED entry
   per appended file, stamped with the new snapshot's id and sequence number. *)
Theorem txn_snapshot_files : forall st ops id t tu f st' s,
  step_full st (Txn ops id t tu f) = (st', Committed, Some s) ->
  exists base, base_manifests (md st) = Some base /\
    sid s = id /\ seq s = last_seq (md st) + 1 /\
    map ekey (entries (mlist s)) =
      map ekey (filter (fun e => negb (named (tx_dels ops) e)) (entries base))
      ++ map (fun p => (p, id, last_seq (md st) + 1)) (tx_adds ops).
Proof.
  intros st ops id t tu f st' s H.
  destruct (step_full_txn st ops id t tu f) as [[_ E]|[E|E]]; rewrite E in H.
  - discriminate.
  - unfold txn_metaonly in H. discriminate.
  - unfold txn_fileops in H. destruct (base_manifests (md st)) as [base|]; [|discriminate]. cbv zeta in H.
    destruct (create_snapshot _ _ _ _ _); [|discriminate]. inversion H; subst. clear H.
    exists base. split; [reflexivity|]. split; [reflexivity|]. split; [reflexivity|].
    unfold new_snap. simpl. unfold entries. rewrite concat_app, map_app.
    fold (entries (apply_deletes (tx_dels ops) base)). fold (entries (append_manifest id (last_seq (md st) + 1) (tx_adds ops))).
    rewrite apply_deletes_keys, append_manifest_entries, map_map. reflexivity.
Qed.

(* ================================================================== the frame around the generated walk *)
(* repoint_parents_to_surviving_ancestors as a whole (dict + per-survivor loop): on an acyclic snapshot list every
   survivor keeps its identity and gets the nearest surviving ancestor of its old parent link; on any list, a link
   that is nothing or kept and reachable. *)
Theorem repoint_all_nearest : forall all kept s', acyclic (parent_map all) -> In s' (repoint_all all kept) ->
  exists s, In s kept /\ sid s' = sid s /\ ts s' = ts s /\ seq s' = seq s /\ mlist s' = mlist s /\
            nsa (parent_map all) (map sid kept) (parent s) (parent s').
Proof.
  intros all kept s' Hac Hin. apply repoint_all_In in Hin. destruct Hin as [s [Hs ->]].
  exists s. split; [exact Hs|]. simpl. repeat split; try reflexivity.
  unfold repoint_one. destruct (gen_repoint_one_total (parent_map all) (map sid kept) (parent s)) as [r [Hr _]].
  rewrite Hr. apply (gen_repoint_one_nearest _ _ _ _ Hac). exact Hr.
Qed.

Theorem repoint_all_safe : forall all kept s', In s' (repoint_all all kept) ->
  exists s, In s kept /\ sid s' = sid s /\ walk_post (parent_map all) (map sid kept) (parent s) (parent s').
Proof.
  intros all kept s' Hin. apply repoint_all_In in Hin. destruct Hin as [s [Hs ->]].
  exists s. split; [exact Hs|]. split; [reflexivity|]. simpl. apply repoint_one_post.
Qed.

(* ================================================================== a delete reaches EVERY registration of a path *)
(* A path may be listed more than once -- by several manifests (append_files accepts a file that is already
   registered) or several times in one manifest.  No entry that survives a delete is named by it, wherever in the
   manifest list it was and however many other registrations of the same path came before it. *)
Theorem delete_complete : forall ps mfs e, In e (entries (apply_deletes ps mfs)) -> named ps e = false.
Proof.
  intros ps mfs e H. destruct (apply_deletes_entry ps mfs e H) as [e0 [_ [Hk Hn]]].
  unfold ekey in Hk. inversion Hk as [[Hp Ha Hs]]. unfold named in *. rewrite <- Hp. exact Hn.
Qed.

(* ... and for the snapshot a transaction commits: an entry named by one of the queued deletes can only be one
   of this transaction's own appends (ADDED, stamped with the new snapshot) -- nothing carried from the base. *)
Theorem txn_delete_complete : forall st ops id t tu f st' s e,
  step_full st (Txn ops id t tu f) = (st', Committed, Some s) ->
  In e (entries (mlist s)) -> named (tx_dels ops) e = true ->
  estatus e = ST_ADDED /\ eadded e = id /\ eseq e = seq s /\ In (epath e) (tx_adds ops).
Proof.
  intros st ops id t tu f st' s e H Hin Hn.
  destruct (step_full_txn st ops id t tu f) as [[_ E]|[E|E]]; rewrite E in H.
  - discriminate.
  - unfold txn_metaonly in H. discriminate.
  - unfold txn_fileops in H. destruct (base_manifests (md st)) as [base|]; [|discriminate]. cbv zeta in H.
    destruct (create_snapshot _ _ _ _ _); [|discriminate]. inversion H; subst. clear H.
    unfold new_snap in Hin. simpl in Hin. unfold entries in Hin. rewrite concat_app in Hin. apply in_app_or in Hin.
    destruct Hin as [Hin|Hin].
    + fold (entries (apply_deletes (tx_dels ops) base)) in Hin. apply delete_complete in Hin. congruence.
    + fold (entries (append_manifest id (last_seq (md st) + 1) (tx_adds ops))) in Hin.
      rewrite append_manifest_entries in Hin. apply in_map_iff in Hin. destruct Hin as [p [<- Hp]].
      simpl. repeat split; try reflexivity. exact Hp.
Qed.

(* ================================================================== the metadata log names superseded versions only *)
(* Every entry of the metadata log is one of the versions committed before the current one -- with the timestamp that
   version carried -- and never the current file itself.  (Which file IS current is decided by resolving the version
   pointer as a hint; the log is built from that resolved version, whatever the pointer's bytes were.) *)
Theorem mlog_names_superseded : forall t0 f0 ops e, fresh_ops f0 ops ->
  In e (mlog (md (replay t0 f0 ops))) ->
  In e (removelast (versions_of t0 f0 ops)) /\ snd e <> curfile (replay t0 f0 ops).
Proof.
  intros t0 f0 ops e Hf Hin. pose proof (grun_minv t0 f0 ops Hf) as M. rewrite <- grun_fst in *.
  unfold versions_of, ghost_of. destruct (grun (ginit t0 f0) ops) as [st g]. simpl in *.
  destruct M as [[[older Hold] [Hlast _]] Hne Hnd _].
  assert (Hsup : In e (removelast (versions g))) by (rewrite Hold; apply in_or_app; right; exact Hin).
  split; [exact Hsup|].
  destruct (exists_last Hne) as [vs [v Hv]]. rewrite Hv in Hsup, Hlast, Hnd.
  rewrite removelast_snoc in Hsup. rewrite last_snoc in Hlast. subst v.
  rewrite map_app in Hnd. simpl in Hnd. destruct (NoDup_app_inv _ _ _ Hnd) as [_ [_ Hx]].
  intro Heq. apply (Hx (curfile st)); [left; reflexivity|]. rewrite <- Heq. apply in_map. exact Hsup.
Qed.
