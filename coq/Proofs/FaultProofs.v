(* Proofs/FaultProofs.v -- a failed, interrupted or crashed commit never damages committed data (C04, C03). *)
From Coq Require Import ZArith List Bool Arith Lia.
Require Import DS.Model.Commit DS.Model.Fault DS.Proofs.CommitProofs.
Import ListNotations.

Definition pcof (x : fworld) (a : aid) : pc := a_pc (w_actors (fw x) a).

Definition safe (x : fworld) (f : fid) : Prop :=
  match f_owner x f with None => True | Some b => flipped (pcof x b) = true end.

Record FInv (c : cfg) (x : fworld) : Prop := {
  FI_inv : Inv c (fw x);
  FI_len : length (f_refs x) = length (w_files (fw x));
  FI_own : forall a f, In f (f_written x a) -> f_owner x f = Some a;
  FI_alloc : forall f a, f_owner x f = Some a -> (f < f_next x)%nat;
  FI_refa : forall v f, In f (refs x v) -> (f < f_next x)%nat;
  FI_dead : forall b, f_dead x b = true -> can_rollback (pcof x b) = true;
  FI_pres : forall f, (f < f_next x)%nat -> (forall b, f_owner x f = Some b -> f_dead x b = false) -> In f (f_present x);
  FI_k1 : forall v, In v (committed (fw x)) -> forall f, In f (refs x v) -> safe x f;
  FI_k2 : forall a, inW (pcof x a) = true -> forall f, In f (refs x (a_new (w_actors (fw x) a))) -> safe x f \/ f_owner x f = Some a }.

Lemma can_rollback_not_flipped p : can_rollback p = true -> flipped p = false.
Proof. destruct p as [| | | | | | | |[]]; simpl; intro; try discriminate; reflexivity. Qed.

Lemma refs_app_old x l v : (v < length (f_refs x))%nat -> nth v (f_refs x ++ [l]) [] = refs x v.
Proof. intro H. unfold refs. apply app_nth1. exact H. Qed.

Lemma in_remove_all del l f : In f (remove_all del l) <-> In f l /\ ~ In f del.
Proof.
  unfold remove_all. rewrite filter_In. split; intros [H1 H2]; split; auto.
  - intro D. apply negb_true_iff in H2. apply not_true_iff_false in H2. apply H2.
    apply existsb_exists. exists f. split; auto. apply Nat.eqb_refl.
  - apply negb_true_iff. apply not_true_iff_false. intro E. apply existsb_exists in E.
    destruct E as [g [G1 G2]]. apply Nat.eqb_eq in G2. subst. contradiction.
Qed.

(* THE safety statement: every file referenced by a committed version exists *)
Lemma finv_present c x : FInv c x ->
  forall v, In v (committed (fw x)) -> forall f, In f (refs x v) -> In f (f_present x).
Proof.
  intros I v Hv f Hf. apply (FI_pres c x I); [eapply FI_refa; eauto|].
  intros b Ob. pose proof (FI_k1 c x I v Hv f Hf) as S. unfold safe in S. rewrite Ob in S.
  destruct (f_dead x b) eqn:D; auto. apply (FI_dead c x I) in D. apply can_rollback_not_flipped in D. congruence.
Qed.

Lemma fstep_inv c x ev x' : sound c -> FInv c x -> fstep c x ev = Some x' -> FInv c x'.
Proof.
  intros Snd I H. destruct ev as [e|a|a]; simpl in H.
  - (* a protocol step *)
    destruct (step c (fw x) e) as [w'|] eqn:St; [|discriminate]. inversion H; subst x'; clear H.
    pose proof (step_inv c _ _ _ Snd (FI_inv c x I) St) as I'.
    pose proof (step_cases c _ _ _ St) as [Oth Cases]. cbv zeta in Cases.
    set (a := e_actor e) in *. set (s := w_actors (fw x) a) in *.
    assert (FlipMono : forall b, flipped (pcof x b) = true -> flipped (a_pc (w_actors w' b)) = true).
    { intros b Fb. destruct (Nat.eq_dec b a) as [->|NE]; [|rewrite Oth by exact NE; exact Fb].
      unfold pcof in Fb. fold s in Fb.
      destruct Cases as [[now [_ [P _]]]|[[_ [P _]]|[_ [_ [_ [_ [F _]]]]]]].
      - rewrite P in Fb. discriminate.
      - rewrite P in Fb. discriminate.
      - rewrite F. exact Fb. }
    assert (SafeMono : forall r f, safe x f ->
              safe {| fw := w'; f_present := f_present x; f_refs := r; f_written := f_written x; f_next := f_next x;
                      f_owner := f_owner x; f_dead := f_dead x |} f).
    { intros r f. unfold safe, pcof. simpl. destruct (f_owner x f); [apply FlipMono | trivial]. }
    destruct Cases as [[now [EK [PC [Fi [Hi [PC' [New Base]]]]]]]|[[EK [PC [Fi [Hi PC']]]]|[Fi [Hi [New [W [Fl Dn]]]]]]].
    + (* EMetaW: a new version is written *)
      rewrite EK, PC.
      assert (BaseC : In (a_base s) (committed (fw x))) by apply (AI_base _ _ _ _ _ _ (I_actor c _ (FI_inv c x I) a)).
      assert (BaseV : (a_base s < length (f_refs x))%nat).
      { rewrite (FI_len c x I). eapply committed_valid; [apply I|exact BaseC]. }
      constructor; simpl; auto.
      * rewrite app_length, Fi, app_length, (FI_len c x I). reflexivity.
      * apply I. * apply I.
      * intros v f Hf. unfold refs in Hf. simpl in Hf.
        destruct (Nat.lt_ge_cases v (length (f_refs x))) as [Lt|Ge].
        -- rewrite app_nth1 in Hf by exact Lt. eapply FI_refa; eauto.
        -- destruct (Nat.eq_dec v (length (f_refs x))) as [->|NE].
           ++ rewrite app_nth2, Nat.sub_diag in Hf by lia. simpl in Hf. apply in_app_iff in Hf.
              destruct Hf as [Hf|Hf]; [eapply FI_refa; eauto | eapply FI_alloc; [exact I | apply (FI_own c x I a f Hf)]].
           ++ rewrite nth_overflow in Hf by (rewrite app_length; simpl; lia). destruct Hf.
      * intros b D. unfold pcof. simpl. pose proof (FI_dead c x I b D) as R.
        destruct (Nat.eq_dec b a) as [->|NE]; [|rewrite Oth by exact NE; exact R].
        unfold pcof in R. fold s in R. rewrite PC in R. discriminate.
      * apply I.
      * intros v Hv f Hf. unfold committed in Hv. simpl in Hv. rewrite Hi in Hv.
        unfold refs in Hf. simpl in Hf. rewrite app_nth1 in Hf.
        -- apply SafeMono. apply (FI_k1 c x I v Hv f Hf).
        -- rewrite (FI_len c x I). eapply committed_valid; [apply I|exact Hv].
      * intros b Wb f Hf. unfold pcof in Wb. simpl in Wb, Hf.
        destruct (Nat.eq_dec b a) as [->|NE].
        -- fold a in Hf. rewrite New in Hf. unfold refs in Hf. simpl in Hf.
           rewrite <- (FI_len c x I), app_nth2, Nat.sub_diag in Hf by lia. simpl in Hf.
           apply in_app_iff in Hf. destruct Hf as [Hf|Hf].
           ++ left. apply SafeMono. apply (FI_k1 c x I _ BaseC f Hf).
           ++ right. apply (FI_own c x I a f Hf).
        -- rewrite Oth in Wb, Hf by exact NE.
           assert (NV : (a_new (w_actors (fw x) b) < length (f_refs x))%nat).
           { rewrite (FI_len c x I). apply (AI_new _ _ _ _ _ _ (I_actor c _ (FI_inv c x I) b) Wb). }
           unfold refs in Hf. simpl in Hf. rewrite app_nth1 in Hf by exact NV.
           destruct (FI_k2 c x I b Wb f Hf) as [S|O]; [left; apply SafeMono; exact S | right; exact O].
    + (* EFlip true: the new version becomes committed *)
      rewrite EK. cbn iota.
      constructor; simpl; auto; try apply I.
      * rewrite Fi. apply I.
      * intros b D. unfold pcof. simpl. pose proof (FI_dead c x I b D) as R.
        destruct (Nat.eq_dec b a) as [->|NE]; [|rewrite Oth by exact NE; exact R].
        unfold pcof in R. fold s in R. rewrite PC in R. discriminate.
      * intros v Hv f Hf. unfold committed in Hv. simpl in Hv. rewrite Hi in Hv.
        apply comm_snoc in Hv. destruct Hv as [Hv| ->].
        -- apply SafeMono. apply (FI_k1 c x I v Hv f Hf).
        -- assert (Wa : inW (pcof x a) = true) by (unfold pcof; fold s; rewrite PC; reflexivity).
           destruct (FI_k2 c x I a Wa f Hf) as [S|O]; [apply SafeMono; exact S|].
           unfold safe, pcof. simpl. rewrite O. fold a. rewrite PC'. reflexivity.
      * intros b Wb f Hf. unfold pcof in Wb. simpl in Wb, Hf.
        destruct (Nat.eq_dec b a) as [->|NE]; [fold a in Wb; rewrite PC' in Wb; discriminate|].
        rewrite Oth in Wb, Hf by exact NE.
        destruct (FI_k2 c x I b Wb f Hf) as [S|O]; [left; apply SafeMono; exact S | right; exact O].
    + (* any other protocol step *)
      assert (R : match e_kind e, a_pc s with
                  | EMetaW _, PValidated => f_refs x ++ [refs x (a_base s) ++ f_written x a]
                  | _, _ => f_refs x end = f_refs x).
      { destruct (e_kind e) eqn:EK; auto. destruct (a_pc s) eqn:PC; auto.
        (* EMetaW at PValidated always extends the files: contradiction with Fi *)
        exfalso. unfold step in St. fold a in St. fold s in St. rewrite EK, PC in St. inversion St; subst w'.
        simpl in Fi. apply (f_equal (@length meta)) in Fi. rewrite app_length in Fi. simpl in Fi. lia. }
      rewrite R.
      constructor; simpl; auto; try apply I.
      * rewrite Fi. apply I.
      * intros b D. unfold pcof. simpl. pose proof (FI_dead c x I b D) as Rb.
        destruct (Nat.eq_dec b a) as [->|NE]; [|rewrite Oth by exact NE; exact Rb].
        unfold pcof in Rb. fold s in Rb. destruct (a_pc s) as [| | | | | | | |o] eqn:PC; try discriminate.
        fold a. rewrite (Dn o eq_refl). exact Rb.
      * intros v Hv f Hf. unfold committed in Hv. simpl in Hv. rewrite Hi in Hv.
        apply SafeMono. apply (FI_k1 c x I v Hv f Hf).
      * intros b Wb f Hf. unfold pcof in Wb. simpl in Wb, Hf.
        destruct (Nat.eq_dec b a) as [->|NE].
        -- fold a in Wb, Hf. rewrite New in Hf. apply W in Wb.
           destruct (FI_k2 c x I a Wb f Hf) as [S|O]; [left; apply SafeMono; exact S | right; exact O].
        -- rewrite Oth in Wb, Hf by exact NE.
           destruct (FI_k2 c x I b Wb f Hf) as [S|O]; [left; apply SafeMono; exact S | right; exact O].
  - (* FWrite: a fresh file *)
    destruct (can_write (a_pc (w_actors (fw x) a))) eqn:CW; [|discriminate]. inversion H; subst x'; clear H.
    assert (OwnOld : forall f, (f < f_next x)%nat -> (if Nat.eqb f (f_next x) then Some a else f_owner x f) = f_owner x f).
    { intros f L. destruct (Nat.eqb_spec f (f_next x)); [lia|reflexivity]. }
    constructor; simpl; auto; try apply I.
    + intros b f Hf. unfold updw in Hf. destruct (Nat.eqb_spec b a) as [->|NE].
      * destruct Hf as [<-|Hf]; [rewrite Nat.eqb_refl; reflexivity|].
        rewrite OwnOld; [apply (FI_own c x I a f Hf) | eapply FI_alloc; [exact I | apply (FI_own c x I a f Hf)]].
      * rewrite OwnOld; [apply (FI_own c x I b f Hf) | eapply FI_alloc; [exact I | apply (FI_own c x I b f Hf)]].
    + intros f b. destruct (Nat.eqb_spec f (f_next x)) as [->|NE]; [lia|]. intro O. pose proof (FI_alloc c x I f b O). lia.
    + intros v f Hf. pose proof (FI_refa c x I v f Hf). lia.
    + intros f L Hd. destruct (Nat.eq_dec f (f_next x)) as [->|NE]; [left; reflexivity|]. right.
      apply (FI_pres c x I); [lia|]. intros b O. apply Hd. rewrite OwnOld by lia. exact O.
    + intros v Hv f Hf. unfold safe. simpl. rewrite OwnOld by (eapply FI_refa; eauto). apply (FI_k1 c x I v Hv f Hf).
    + intros b Wb f Hf. unfold safe. simpl. rewrite OwnOld by (eapply FI_refa; eauto). apply (FI_k2 c x I b Wb f Hf).
  - (* FRollback: delete the transaction's own files -- only a never-flipped transaction may *)
    destruct (can_rollback (a_pc (w_actors (fw x) a))) eqn:CR; [|discriminate]. inversion H; subst x'; clear H.
    constructor; simpl; auto; try apply I.
    + intros b f Hf. unfold updw in Hf. destruct (Nat.eqb_spec b a); [destruct Hf | apply (FI_own c x I b f Hf)].
    + intros b D. destruct (Nat.eqb_spec b a) as [E|NE]; [subst b; exact CR | apply (FI_dead c x I b D)].
    + intros f L Hd. apply in_remove_all. split.
      * apply (FI_pres c x I f L). intros b O. specialize (Hd b O). destruct (Nat.eqb_spec b a); [discriminate|exact Hd].
      * intro Wf. pose proof (FI_own c x I a f Wf) as O. specialize (Hd a O). rewrite Nat.eqb_refl in Hd. discriminate.
Qed.


Lemma finit_inv c m0 kind mr r0 next : (forall f, In f r0 -> (f < next)%nat) -> FInv c (finit m0 kind mr r0 next).
Proof.
  intro A. constructor; simpl; auto.
  - apply init_inv.
  - intros a f [].
  - intros f a H. discriminate.
  - intros v f Hf. unfold refs in Hf. simpl in Hf. destruct v as [|[|v]]; simpl in Hf; try destruct Hf. apply A; exact Hf.
  - intros f L _. apply in_seq. lia.
  - intros v _ f _. unfold safe. simpl. trivial.
  - intros a W. discriminate.
Qed.

Lemma frun_cons c x e evs : frun c x (e :: evs) = frun c (fstep_skip c x e) evs.
Proof. reflexivity. Qed.

Lemma frun_inv c x evs : sound c -> FInv c x -> FInv c (frun c x evs).
Proof.
  intro Snd. revert x. induction evs as [|e evs IH]; intros x I; [exact I|].
  rewrite frun_cons. apply IH. unfold fstep_skip. destruct (fstep c x e) eqn:St; [eapply fstep_inv; eauto | exact I].
Qed.

(* C04 / C03: after ANY sequence of protocol steps, file writes, failures, asynchronous interrupts,
   crashes and rollbacks by any number of transactions, every file referenced by every committed
   version (hence by every retained snapshot) is present. *)
Theorem no_damage c m0 kind mr r0 next evs :
  sound c -> (forall f, In f r0 -> (f < next)%nat) ->
  let x := frun c (finit m0 kind mr r0 next) evs in
  forall v, In v (committed (fw x)) -> forall f, In f (refs x v) -> In f (f_present x).
Proof. intros Snd A x. apply (finv_present c). apply frun_inv; [exact Snd | apply finit_inv; exact A]. Qed.

(* the uncommitted files of a transaction that never flipped are referenced by no committed version *)
Theorem uncommitted_unreachable c m0 kind mr r0 next evs :
  sound c -> (forall f, In f r0 -> (f < next)%nat) ->
  let x := frun c (finit m0 kind mr r0 next) evs in
  forall a, flipped (pcof x a) = false -> forall f, In f (f_written x a) ->
  forall v, In v (committed (fw x)) -> ~ In f (refs x v).
Proof.
  intros Snd A x a NF f Wf v Hv Hf.
  assert (I : FInv c x) by (apply frun_inv; [exact Snd | apply finit_inv; exact A]).
  pose proof (FI_k1 c x I v Hv f Hf) as S. unfold safe in S. rewrite (FI_own c x I a f Wf) in S. congruence.
Qed.

(* the protocol invariant survives every failure: the table stays writable (C01's theorems apply to
   every continuation) *)
Theorem faults_keep_inv c m0 kind mr r0 next evs :
  sound c -> (forall f, In f r0 -> (f < next)%nat) -> Inv c (fw (frun c (finit m0 kind mr r0 next) evs)).
Proof. intros Snd A. apply FI_inv. apply frun_inv; [exact Snd | apply finit_inv; exact A]. Qed.

(* files are only ever deleted by a transaction that ended without flipping the pointer *)
Theorem rollback_only_unflipped c x a x' :
  fstep c x (FRollback a) = Some x' -> flipped (pcof x a) = false /\ (exists o, pcof x a = PDone o).
Proof.
  simpl. unfold pcof. destruct (a_pc (w_actors (fw x) a)) as [| | | | | | | |[]]; simpl; intro H; try discriminate;
    split; eauto.
Qed.

(* pre- or post-state: the table named by the pointer is always the serial application of the flips;
   a transaction's operation is in it iff it flipped (flip order), whatever happened afterwards *)
Theorem pre_or_post c m0 kind mr r0 next evs :
  sound c -> (forall f, In f r0 -> (f < next)%nat) ->
  let w := fw (frun c (finit m0 kind mr r0 next) evs) in
  NoDup (map snd (w_hist w))
  /\ forall a, (In a (map snd (w_hist w)) <-> flipped (a_pc (w_actors w a)) = true).
Proof.
  intros Snd A w. assert (I : Inv c w) by (apply faults_keep_inv; assumption).
  split; [apply I|]. intro a. symmetry. apply (AI_flip _ _ _ _ _ _ (I_actor c w I a)).
Qed.

(* ------------------------------------------------------------------ crash atomicity (C03) *)
Lemma frun_file0 c x evs : sound c -> FInv c x -> nthf (w_files (fw (frun c x evs))) 0%nat = nthf (w_files (fw x)) 0%nat.
Proof.
  intro Snd. revert x. induction evs as [|e l IH]; intros x Ix; [reflexivity|]. rewrite frun_cons. unfold fstep_skip.
  destruct (fstep c x e) as [x'|] eqn:St; [|apply IH; exact Ix].
  rewrite IH by (eapply fstep_inv; eauto).
  destruct e as [e|a|a]; simpl in St.
  - destruct (step c (fw x) e) as [w'|] eqn:St'; [|discriminate]. inversion St; subst x'. simpl.
    destruct (files_zero c _ _ _ St') as [E|E]; auto.
    pose proof (I_files c _ (FI_inv c x Ix)) as L. rewrite E in L. simpl in L. inversion L.
  - destruct (can_write _); [|discriminate]. inversion St; reflexivity.
  - destruct (can_rollback _); [|discriminate]. inversion St; reflexivity.
Qed.

Theorem crash_atomic c m0 kind mr r0 next evs :
  sound c -> (forall f, In f r0 -> (f < next)%nat) ->
  let w := fw (frun c (finit m0 kind mr r0 next) evs) in
  m_ops (file w (w_ptr w)) = m_ops m0 ++ map snd (w_hist w)
  /\ NoDup (map snd (w_hist w))
  /\ forall a, (In a (map snd (w_hist w)) <-> flipped (a_pc (w_actors w a)) = true)
            /\ (a_pc (w_actors w a) = PDone Aborted -> ~ In a (map snd (w_hist w)))
            /\ (a_pc (w_actors w a) = PDone AbortedPost -> In a (map snd (w_hist w))).
Proof.
  intros S A w.
  assert (I : Inv c w) by (apply faults_keep_inv; assumption).
  destruct (pre_or_post c m0 kind mr r0 next evs S A) as [ND F]. fold w in ND, F.
  split; [|split; [exact ND|]].
  - rewrite file_nthf, (I_ptr c w I), (chain_ops _ _ _ (I_chain c w I)).
    f_equal. unfold w. rewrite frun_file0 by (auto; apply finit_inv; exact A). reflexivity.
  - intro a. split; [apply F|]. split.
    + intros P In. apply F in In. rewrite P in In. discriminate.
    + intro P. apply F. rewrite P. reflexivity.
Qed.

(* ------------------------------------------------------------------ committed versions are immutable (C09) *)
Lemma fstep_refs_stable c x e x' v : FInv c x -> fstep c x e = Some x' -> (v < length (f_refs x))%nat -> refs x' v = refs x v.
Proof.
  intros I H L. destruct e as [e|a|a]; simpl in H.
  - destruct (step c (fw x) e) as [w'|]; [|discriminate]. inversion H; subst x'. unfold refs. simpl.
    destruct (e_kind e); try reflexivity. destruct (a_pc (w_actors (fw x) (e_actor e))); try reflexivity.
    apply app_nth1. exact L.
  - destruct (can_write _); [|discriminate]. inversion H; reflexivity.
  - destruct (can_rollback _); [|discriminate]. inversion H; reflexivity.
Qed.

Lemma fstep_refs_len c x e x' : fstep c x e = Some x' -> (length (f_refs x) <= length (f_refs x'))%nat.
Proof.
  intro H. destruct e as [e|a|a]; simpl in H.
  - destruct (step c (fw x) e) as [w'|]; [|discriminate]. inversion H; subst x'. simpl.
    destruct (e_kind e); try lia. destruct (a_pc (w_actors (fw x) (e_actor e))); try lia. rewrite app_length. simpl. lia.
  - destruct (can_write _); [|discriminate]. inversion H; simpl; lia.
  - destruct (can_rollback _); [|discriminate]. inversion H; simpl; lia.
Qed.

(* Once a version is committed, whatever happens later -- further commits (appends, deletes that
   rewrite manifests into FRESH files), failed / interrupted / crashed commits and their rollbacks --
   the set of files it references is unchanged and every one of them still exists.  (Files are
   write-once: FWrite only ever creates fresh names, so unchanged names mean unchanged content.) *)
Theorem committed_immutable c x evs :
  sound c -> FInv c x ->
  forall v, In v (committed (fw x)) ->
    refs (frun c x evs) v = refs x v /\ (forall f, In f (refs x v) -> In f (f_present (frun c x evs)))
    /\ In v (committed (fw (frun c x evs))).
Proof.
  intros Snd. revert x. induction evs as [|e l IH]; intros x I v Hv.
  - simpl. split; [reflexivity|]. split; [apply (finv_present c x I v Hv) | exact Hv].
  - rewrite frun_cons. unfold fstep_skip. destruct (fstep c x e) as [x'|] eqn:St; [|apply IH; auto].
    assert (I' : FInv c x') by (eapply fstep_inv; eauto).
    assert (Lv : (v < length (f_refs x))%nat).
    { rewrite (FI_len c x I). eapply committed_valid; [apply I | exact Hv]. }
    assert (Hv' : In v (committed (fw x'))).
    { destruct e as [e|a|a]; simpl in St.
      - destruct (step c (fw x) e) as [w'|] eqn:S1; [|discriminate]. inversion St; subst x'. simpl.
        destruct (step_cases c _ _ _ S1) as [_ [[now [_ [_ [_ [Hi _]]]]]|[[_ [_ [_ [Hi _]]]]|[_ [Hi _]]]]];
          unfold committed; rewrite Hi; auto. apply comm_snoc. left. exact Hv.
      - destruct (can_write _); [|discriminate]. inversion St; subst x'. exact Hv.
      - destruct (can_rollback _); [|discriminate]. inversion St; subst x'. exact Hv. }
    destruct (IH x' I' v Hv') as [R [P C]]. rewrite (fstep_refs_stable c x e x' v I St Lv) in R, P.
    split; [exact R|]. split; [exact P | exact C].
Qed.
