(* Proofs/C08Proofs.v -- the lemmas Props/C08.v states (assembled from CommitProofs / CommitGenProofs / PtrFallbackProofs). *)
From Coq Require Import ZArith List Bool Arith.
Require Import DS.Model.CommitBase DS.Gen.GenCommit DS.Model.Commit DS.Proofs.CommitGenProofs DS.Proofs.CommitProofs.
Require Import DS.Model.PtrFallback DS.Proofs.PtrFallbackProofs.
Import ListNotations.
Open Scope Z_scope.

Lemma cas_ack_implies_validated : forall c m0 kind mr evs, cas c = true ->
  let w := run c (init_world m0 kind mr) evs in
  Forall (fun p => fst p = snd p) (w_repl w).
Proof. intros c m0 kind mr evs CAS w. apply reach_repl. left. exact CAS. Qed.

Lemma cas_no_lost_update : forall c m0 kind mr evs, cas c = true ->
  let w := run c (init_world m0 kind mr) evs in
  m_ops (file w (w_ptr w)) = m_ops m0 ++ map snd (w_hist w)
  /\ NoDup (map snd (w_hist w))
  /\ (forall a, a_pc (w_actors w a) = PDone Success -> In a (map snd (w_hist w)))
  /\ chain_ok (w_files w) 0%nat (w_hist w).
Proof.
  intros c m0 kind mr evs CAS w. assert (S : sound c) by (left; exact CAS).
  split; [apply reach_serializable; exact S|]. split; [apply reach_once; exact S|]. split.
  - intros a H. apply (reach_acked c m0 kind mr evs S a). fold w. rewrite H. reflexivity.
  - apply reach_chain. exact S.
Qed.

Lemma cas_path_regenerated :
  model_path true = gen_commit_path_cas
  /\ (exists pre post, gen_commit_path_cas = pre ++ AReadPtrEtag :: post /\ ~ In AReadPtrEtag pre /\ ~ In AReadPtrEtag post
        /\ ~ In AValidate pre /\ In AValidate post /\ In AFlip post)
  /\ (forall atomic, gen_flip_exn true atomic FEPrecondition = XConflict)
  /\ (forall atomic, gen_flip_exn true atomic FEError = XAmbiguous)
  /\ gen_tx_on XConflict false = TxRetry.
Proof.
  split; [exact model_path_cas_regenerated|]. split.
  - exists [ALock], [AMaybe ARefresh; AValidate; AStamp; AWriteMeta; AFence; AFlip; ARelease].
    split; [reflexivity|]. repeat split; simpl; intuition discriminate.
  - split; [exact flip_refused_is_conflict|]. split.
    + intro atomic. apply flip_error_possibly_applied_is_ambiguous. left. reflexivity.
    + reflexivity.
Qed.

(* the fallback attempt performs the regenerated skeleton with its data-dependent refresh() TAKEN, in the source's order:
   the ETag-bearing pointer read comes first and is the only one whose ETag reaches the commit point; the version
   validated is what refresh() returns *)
Lemma fallback_path_regenerated a g r now :
  flat_map ractions_of (fallback_events a g r now) = map force gen_commit_path_cas.
Proof. reflexivity. Qed.
