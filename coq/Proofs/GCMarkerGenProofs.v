(* Proofs/GCMarkerGenProofs.v -- the marker loop of the collector model (Model/GC.v markers_loop) IS the loop built from the
   decision kernel regenerated from GarbageCollector._load_inflight_protection (Gen/GenGCMarker.v), and that kernel fails
   closed: a marker whose stat raises is not deleted and protects; the only way a listed marker does not protect is a stat
   that ANSWERED with a time older than the cutoff followed by a delete that succeeded. *)
From Coq Require Import ZArith String Ascii List Bool Arith Lia.
Require Import DS.Model.PyStr DS.Gen.GenNorm DS.Model.GC DS.Gen.GenGCMarker DS.Proofs.GCProofs.
Import ListNotations.
Open Scope string_scope.
Open Scope Z_scope.

(* ------------------------------------------------------------------ the regenerated kernel *)
Lemma gen_age_ok_model : forall cutoff st,
  gen_marker_age_ok cutoff st = match st with Some t => cutoff <=? t | None => true end.
Proof.
  intros cutoff [t|]; cbn [gen_marker_age_ok]; [|reflexivity].
  rewrite Z.geb_leb. reflexivity.
Qed.

Lemma marker_stat_failure_protects : forall cutoff del_ok,
  gen_marker_age_ok cutoff None = true
  /\ gen_marker_delete_attempted (gen_marker_age_ok cutoff None) = false
  /\ gen_marker_protects (gen_marker_age_ok cutoff None) del_ok = true.
Proof. intros cutoff del_ok. repeat split. Qed.

Lemma marker_kernel_fail_closed : forall cutoff st del_ok,
  gen_marker_protects (gen_marker_age_ok cutoff st) del_ok = false ->
  exists t, st = Some t /\ t < cutoff /\ gen_marker_delete_attempted (gen_marker_age_ok cutoff st) = true /\ del_ok = true.
Proof.
  intros cutoff st del_ok H. rewrite gen_age_ok_model in *.
  destruct st as [t|]; [|discriminate H].
  destruct (cutoff <=? t) eqn:E; [discriminate H|].
  apply Z.leb_gt in E. exists t. cbn in H |- *. destruct del_ok; [|discriminate H]. repeat split; assumption.
Qed.

Lemma marker_listing_failure_aborts : gen_marker_listing_failure_aborts = true.
Proof. reflexivity. Qed.

(* ------------------------------------------------------------------ the model's loop is built from the kernel *)
(* one marker, written with the regenerated kernel: stat; name test; targets; delete iff the kernel says so; the targets
   are added iff the kernel says so *)
Definition marker_step_gen (tp : string) (cutoff : Z) (o : oracle) (g : gst) (mp : key) (prot : list key) : list key * gst :=
  let nm := normalize_path tp mp in
  let (st_, g1) := do_stat o g nm in
  let age_ok := gen_marker_age_ok cutoff st_ in
  let bn := basename nm in
  if negb (endswith INFLIGHT_SUFFIX bn) then (prot, g1)
  else
    let (targets, g2) := marker_targets tp o g1 nm bn in
    if gen_marker_delete_attempted age_ok then
      let (d, g3) := do_delete o g2 nm in
      ((if gen_marker_protects age_ok (is_some d) then targets ++ prot else prot)%list, g3)
    else ((if gen_marker_protects age_ok true then targets ++ prot else prot)%list, g2).

Lemma markers_loop_regenerated : forall tp cutoff o mp r g prot,
  markers_loop tp cutoff o g (mp :: r) prot =
  let (prot1, g1) := marker_step_gen tp cutoff o g mp prot in markers_loop tp cutoff o g1 r prot1.
Proof.
  intros tp cutoff o mp r g prot.
  cbn [markers_loop]. unfold marker_step_gen.
  destruct (do_stat o g (normalize_path tp mp)) as [st_ g1].
  rewrite gen_age_ok_model.
  destruct (negb (endswith INFLIGHT_SUFFIX (basename (normalize_path tp mp)))); [reflexivity|].
  destruct (marker_targets tp o g1 (normalize_path tp mp) (basename (normalize_path tp mp))) as [targets g2].
  destruct (match st_ with Some t => cutoff <=? t | None => true end); cbn [gen_marker_delete_attempted gen_marker_protects].
  - reflexivity.
  - destruct (do_delete o g2 (normalize_path tp mp)) as [[u|] g3]; reflexivity.
Qed.

(* ------------------------------------------------------------------ for EVERY fault oracle: a faulted stat keeps protection *)
(* The stat of a listed marker is faulted (whatever the fault class, whatever else the oracle does before or after):
   the marker is not deleted -- the store after its turn is the store before -- and everything its payload / name denotes
   (marker_targets) is in the protected set the loop returns, whatever happens to the remaining markers. *)
Lemma marker_stat_fault_keeps_protection : forall tp cutoff o g mp r prot f prot' g',
  o (g_calls g) = Some f ->
  endswith INFLIGHT_SUFFIX (basename (normalize_path tp mp)) = true ->
  markers_loop tp cutoff o g (mp :: r) prot = (prot', g') ->
  exists T g1 g2,
    do_stat o g (normalize_path tp mp) = (None, g1)
    /\ marker_targets tp o g1 (normalize_path tp mp) (basename (normalize_path tp mp)) = (T, g2)
    /\ g_store g2 = g_store g
    /\ markers_loop tp cutoff o g2 r (T ++ prot)%list = (prot', g')
    /\ (markers_wf (g_store g) -> incl T prot').
Proof.
  intros tp cutoff o g mp r prot f prot' g' HF HS HL.
  assert (HST : exists g1, do_stat o g (normalize_path tp mp) = (None, g1) /\ g_store g1 = g_store g).
  { unfold do_stat, tick. rewrite HF. eexists. split; reflexivity. }
  destruct HST as [g1 [HST HG1]].
  destruct (marker_targets tp o g1 (normalize_path tp mp) (basename (normalize_path tp mp))) as [T g2] eqn:HT.
  assert (HG2 : g_store g2 = g_store g) by (rewrite (marker_targets_store _ _ _ _ _ _ _ HT); exact HG1).
  cbn [markers_loop] in HL. rewrite HST in HL. rewrite HS in HL. cbn [negb] in HL. rewrite HT in HL.
  exists T, g1, g2. repeat split; try assumption.
  intro W.
  assert (W2 : markers_wf (g_store g2)) by (rewrite HG2; exact W).
  destruct (markers_loop_spec _ _ _ _ _ _ _ _ HL W2) as [HI _].
  intros k Hk. apply HI. apply in_or_app. left. exact Hk.
Qed.
