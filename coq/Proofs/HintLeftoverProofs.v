(* Proofs/HintLeftoverProofs.v -- C10 over histories in which NEVER-PUBLISHED metadata files stay behind
   (process death / KeyboardInterrupt between the metadata write and the pointer write, an ambiguous conditional
   PUT, a failed best-effort removal: outcome `FailCommitPoint false` of Model/HintStore.v).

   1. recovery, exactly: the scan returns the FIRST LISTED file among those of the highest (version, mtime)
      (arec_exact / recover_exact, with arec_decomp: every non-empty listing has that shape);
   2. when a leftover wins: recovery_safe_iff (every listing order yields L  <->  every other file ranks below L),
      leftover_wins (a file outranking L is what every listing order yields);
   3. the store machine's invariant with leftovers (InvL) and, under the extra hypothesis `safe_use`, the
      resolution / usability / never-uncommitted theorems; the statements without it are refuted. *)
From Coq Require Import ZArith NArith Lia ZifyBool List Bool Permutation.
Require Import DS.Model.HintPrim DS.Gen.GenHint DS.Gen.GenHintPins DS.Model.Hint DS.Model.HintStore.
Require Import DS.Proofs.HintProofs DS.Proofs.HintStoreProofs.
Import ListNotations.
Open Scope N_scope.

(* ------------------------------------------------------------------ recovery, exactly *)
Lemma arec_keep : forall l x, (forall f, In f l -> not_above f x) -> arec l (Some x) = Some x.
Proof.
  induction l as [|f l IH]; intros x H; [reflexivity|]. cbn [arec].
  assert (Hf : not_above f x) by (apply H; left; reflexivity).
  assert (Hl : forall g, In g l -> not_above g x) by (intros g Hg; apply H; right; exact Hg).
  destruct Hf as [Hlt|[Heq Hmt]].
  - replace (fver x <? fver f) with false by lia. replace (fver f =? fver x) with false by lia. apply IH; exact Hl.
  - replace (fver x <? fver f) with false by lia. replace (fver f =? fver x) with true by lia.
    replace (fmt x <? fmt f)%Z with false by lia. apply IH; exact Hl.
Qed.

Lemma arec_climb : forall l1 best x l2,
  (forall f, In f l1 -> below f x) -> (best = None \/ exists b, best = Some b /\ below b x) ->
  arec (l1 ++ x :: l2) best = arec l2 (Some x).
Proof.
  induction l1 as [|f l1 IH]; intros best x l2 H1 Hb; cbn [app arec].
  - destruct Hb as [->|[b [-> [Hlt|[Heq Hmt]]]]]; [reflexivity| |].
    + replace (fver b <? fver x) with true by lia. reflexivity.
    + replace (fver b <? fver x) with false by lia. replace (fver x =? fver b) with true by lia.
      replace (fmt b <? fmt x)%Z with true by lia. reflexivity.
  - assert (Hf : below f x) by (apply H1; left; reflexivity).
    assert (H1' : forall g, In g l1 -> below g x) by (intros g Hg; apply H1; right; exact Hg).
    destruct Hb as [->|[b [-> Hbx]]].
    + apply IH; [exact H1'|right; exists f; auto].
    + destruct (fver b <? fver f); [apply IH; [exact H1'|right; exists f; auto]|].
      destruct (fver f =? fver b); [destruct (fmt b <? fmt f)%Z|]; apply IH; try exact H1'; right; eauto.
Qed.

(* the first listed file among those of the highest (version, mtime) *)
Theorem arec_exact : forall l1 x l2,
  (forall f, In f l1 -> below f x) -> (forall f, In f l2 -> not_above f x) -> arec (l1 ++ x :: l2) None = Some x.
Proof.
  intros l1 x l2 H1 H2. rewrite (arec_climb l1 None x l2 H1); [apply arec_keep; exact H2|left; reflexivity].
Qed.

(* ... and every non-empty listing has exactly one such file *)
Lemma arec_decomp : forall fs, fs <> [] ->
  exists l1 x l2, fs = l1 ++ x :: l2 /\ (forall f, In f l1 -> below f x) /\ (forall f, In f l2 -> not_above f x).
Proof.
  induction fs as [|f r IH]; intro H; [contradiction|].
  destruct r as [|g r'].
  - exists [], f, []. split; [reflexivity|]. split; intros ? [].
  - destruct IH as [l1 [x [l2 [E [H1 H2]]]]]; [discriminate|].
    assert (D : below f x \/ not_above x f) by (unfold below, not_above; lia).
    destruct D as [B|NB].
    + exists (f :: l1), x, l2. split; [cbn [app]; rewrite E; reflexivity|].
      split; [intros h [<-|Hh]; auto|exact H2].
    + exists [], f, (g :: r'). split; [reflexivity|]. split; [intros ? []|].
      intros h Hh. rewrite E in Hh. apply in_app_iff in Hh. destruct Hh as [Hh|[<-|Hh]].
      * specialize (H1 h Hh). unfold below, not_above in *. lia.
      * exact NB.
      * specialize (H2 h Hh). unfold below, not_above in *. lia.
Qed.

Lemma arec_top : forall fs r, arec fs None = Some r -> forall f, In f fs -> not_above f r.
Proof.
  intros fs r H f Hf. assert (Hne : fs <> []) by (intro; subst; contradiction).
  destruct (arec_decomp fs Hne) as [l1 [x [l2 [E [H1 H2]]]]]. subst fs.
  rewrite (arec_exact l1 x l2 H1 H2) in H. inversion H; subst x.
  apply in_app_iff in Hf. destruct Hf as [Hf|[<-|Hf]].
  - specialize (H1 f Hf). unfold below, not_above in *. lia.
  - unfold not_above. lia.
  - exact (H2 f Hf).
Qed.

Lemma arec_from : forall r b x, arec r (Some b) = Some x -> x = b \/ below b x.
Proof.
  induction r as [|g r IH]; intros b x H; cbn [arec] in H; [left; inversion H; reflexivity|].
  destruct (N.ltb_spec (fver b) (fver g)) as [L|L].
  - apply IH in H. right. destruct H as [->|H]; unfold below in *; lia.
  - destruct (N.eqb_spec (fver g) (fver b)) as [E|E]; [destruct (Z.ltb_spec (fmt b) (fmt g)) as [M|M]|].
    + apply IH in H. right. destruct H as [->|H]; unfold below in *; lia.
    + apply IH; exact H.
    + apply IH; exact H.
Qed.

Theorem recover_exact : forall l1 x l2,
  Forall wf_file (l1 ++ x :: l2) -> (forall f, In f l1 -> below f x) -> (forall f, In f l2 -> not_above f x) ->
  recover (map entry_of (l1 ++ x :: l2)) = RRet (Some (fver x, fname x)).
Proof. intros l1 x l2 Hwf H1 H2. rewrite (recover_refines _ Hwf), (arec_exact l1 x l2 H1 H2). reflexivity. Qed.

(* ------------------------------------------------------------------ names *)
Lemma name_eqb_sym : forall a b, name_eqb a b = name_eqb b a.
Proof.
  intros a b. unfold name_eqb. destruct (codes_eqb (codes a) (codes b)) eqn:E.
  - apply codes_eqb_eq in E. rewrite E. symmetry. apply codes_eqb_refl.
  - destruct (codes_eqb (codes b) (codes a)) eqn:E'; [|reflexivity].
    apply codes_eqb_eq in E'. rewrite E', codes_eqb_refl in E. discriminate E.
Qed.

Lemma find_unique : forall fs L name, names_unique fs -> In L fs -> name_eqb (fname L) name = true ->
  find_file name fs = Some L.
Proof.
  intros fs L name U HL Hn. destruct (find_file_exists name fs L HL Hn) as [f Hf]. rewrite Hf.
  apply find_file_some in Hf. destruct Hf as [Hin Hfn]. f_equal. apply U; auto.
  apply name_eqb_codes. apply name_eqb_codes in Hfn. apply name_eqb_codes in Hn. congruence.
Qed.

Lemma perm_wf : forall (l fs : list mfile), Permutation l fs -> Forall wf_file fs -> Forall wf_file l.
Proof.
  intros l fs HP Hwf. apply Forall_forall. intros f Hf. rewrite Forall_forall in Hwf. apply Hwf.
  eapply Permutation_in; eauto.
Qed.

Lemma perm_names_unique : forall (l fs : list mfile), Permutation l fs -> names_unique fs -> names_unique l.
Proof. intros l fs HP U f g Hf Hg. apply U; eapply Permutation_in; eauto. Qed.

Lemma perm_others_below : forall (l fs : list mfile) L, Permutation l fs -> others_below fs L -> others_below l L.
Proof. intros l fs L HP H f Hf. apply H. eapply Permutation_in; eauto. Qed.

(* ------------------------------------------------------------------ when a leftover wins *)
(* a resolution is what it should be when the pointer names L or every other file ranks below L *)
Lemma resolve_safe : forall fs L p,
  Forall wf_file fs -> names_unique fs -> In L fs -> fresh_for p fs L ->
  (hint_names p L \/ others_below fs L) ->
  (exists name, resolve p (map entry_of fs) = RRet (Some (fver L, name)) /\ codes name = codes (fname L))
  /\ refresh_of p fs = RfMeta (fver L) L.
Proof.
  intros fs L p Hwf U HL Hfr Hs.
  assert (R : others_below fs L -> recover (map entry_of fs) = RRet (Some (fver L, fname L))).
  { intro Hb. rewrite (recover_refines fs Hwf), (arec_below fs None L); auto.
    intros f Hf. destruct (mfile_eq_dec f L) as [->|D]; [left; reflexivity|right; apply Hb; assumption]. }
  assert (K : exists name, resolve p (map entry_of fs) = RRet (Some (fver L, name)) /\ codes name = codes (fname L)).
  { unfold resolve, fresh_for, hint_names in *. destruct (read_hint_total p) as [r Hr]. rewrite Hr in *.
    destruct r as [[v name]|].
    - rewrite exists_meta_files. destruct (existsb _ fs) eqn:E.
      + apply existsb_exists in E. destruct E as [f [Hf Hn]]. destruct (Hfr f Hf Hn) as [-> ->].
        exists name. split; [reflexivity|]. symmetry. apply name_eqb_codes. exact Hn.
      + destruct Hs as [Hs|Hs].
        * exfalso. assert (X : existsb (fun f => name_eqb (fname f) name) fs = true).
          { apply existsb_exists. exists L. split; [exact HL|exact Hs]. }
          rewrite X in E. discriminate E.
        * exists (fname L). split; [apply R; exact Hs|reflexivity].
    - destruct Hs as [[]|Hs]. exists (fname L). split; [apply R; exact Hs|reflexivity]. }
  split; [exact K|]. destruct K as [name [Hr Hc]]. unfold refresh_of. rewrite Hr.
  rewrite (find_unique fs L name U HL); [reflexivity|]. apply name_eqb_codes. symmetry. exact Hc.
Qed.

(* With the pointer lost or unparseable: recovery yields L in EVERY listing order exactly when every other file
   ranks below L.  So a never-published file wins (in some listing order) exactly when its version is higher than
   L's, or equal with an mtime that is not older. *)
Theorem recovery_safe_iff : forall fs L p,
  Forall wf_file fs -> names_unique fs -> In L fs -> read_hint p = PRet None ->
  ((forall l, Permutation l fs -> resolve p (map entry_of l) = RRet (Some (fver L, fname L)))
   <-> others_below fs L).
Proof.
  intros fs L p Hwf U HL Hp. split.
  - intros H f Hf D.
    assert (C : below f L \/ not_above L f) by (unfold below, not_above; lia).
    destruct C as [C|C]; [exact C|exfalso].
    destruct (in_split f fs Hf) as [a [b E]].
    assert (HP : Permutation (f :: a ++ b) fs) by (rewrite E; apply Permutation_middle).
    specialize (H _ HP). unfold resolve in H. rewrite Hp in H.
    rewrite (recover_refines _ (perm_wf _ _ HP Hwf)) in H. cbn [arec] in H.
    destruct (arec (a ++ b) (Some f)) as [x|] eqn:A; [|discriminate H].
    assert (Hn : fname x = fname L) by (unfold res_of, option_map in H; congruence).
    assert (Hx : In x fs).
    { assert (A' : arec (f :: a ++ b) None = Some x) by exact A. apply arec_in in A'.
      destruct A' as [A'|A']; [eapply Permutation_in; eauto|discriminate A']. }
    assert (x = L) by (apply U; auto; rewrite Hn; apply name_eqb_refl). subst x.
    apply arec_from in A. destruct A as [A|A]; [apply D; symmetry; exact A|].
    unfold below, not_above in *. lia.
  - intros Hb l HP. apply tiebreak; [exact (perm_wf _ _ HP Hwf)| |exact (perm_others_below _ _ _ HP Hb)|exact Hp].
    eapply Permutation_in; [apply Permutation_sym; exact HP|exact HL].
Qed.

(* a file that outranks L: every listing order yields a file that outranks L *)
Theorem leftover_wins : forall fs L U p l,
  Forall wf_file fs -> In U fs -> above U L -> read_hint p = PRet None -> Permutation l fs ->
  exists r, In r fs /\ above r L /\ resolve p (map entry_of l) = RRet (Some (fver r, fname r)).
Proof.
  intros fs L U p l Hwf HU Hab Hp HP. unfold resolve. rewrite Hp.
  rewrite (recover_refines _ (perm_wf _ _ HP Hwf)).
  assert (HUl : In U l) by (eapply Permutation_in; [apply Permutation_sym; exact HP|exact HU]).
  destruct (arec l None) as [r|] eqn:A.
  - exists r. pose proof (arec_top l r A U HUl) as T. apply arec_in in A.
    destruct A as [A|A]; [|discriminate A]. split; [eapply Permutation_in; eauto|]. split; [|reflexivity].
    unfold above, not_above in *. lia.
  - exfalso. apply (arec_some l None); [left; intro; subst; contradiction|exact A].
Qed.

(* whatever resolution returns names a listed file (any directory, any pointer content) *)
Theorem resolves_to_listed : forall fs p v name,
  Forall wf_file fs -> resolve p (map entry_of fs) = RRet (Some (v, name)) ->
  exists f, In f fs /\ name_eqb (fname f) name = true.
Proof.
  intros fs p v name Hwf H. unfold resolve in H. destruct (read_hint_total p) as [r Hr]. rewrite Hr in H.
  assert (R : recover (map entry_of fs) = RRet (Some (v, name)) -> exists f, In f fs /\ name_eqb (fname f) name = true).
  { intro R. rewrite (recover_refines fs Hwf) in R. destruct (arec fs None) as [b|] eqn:E; [|discriminate R].
    cbn in R. inversion R; subst. apply arec_in in E. destruct E as [E|E]; [|discriminate E].
    exists b. split; [exact E|apply name_eqb_refl]. }
  destruct r as [[v' name']|]; [|apply R; exact H].
  rewrite exists_meta_files in H. destruct (existsb _ fs) eqn:E; [|apply R; exact H].
  inversion H; subst. apply existsb_exists in E. exact E.
Qed.

(* ------------------------------------------------------------------ the machine's invariant with leftovers *)
Record InvL (st : store) : Prop := {
  il_wf : Forall wf_file (files st);
  il_names : names_unique (files st);
  il_latest : match glatest st with
              | None => (forall f, In f (files st) -> fcom f = false) /\ gacked st = []
              | Some L => In L (files st) /\ fcom L = true
                          /\ (forall f, In f (files st) -> fcom f = true -> f <> L -> fver f < fver L)
                          /\ fsnaps L = gacked st
                          /\ (forall f, In f (files st) -> fcom f = true -> fuuid f = fuuid L)
              end;
  il_ptr : not_stale (ptr st) st }.

Lemma invL_empty : InvL empty_store.
Proof. constructor; cbn; auto; [intros f g []|split; [intros f []|reflexivity]]. Qed.

Lemma invL_others_below : forall st L, InvL st -> glatest st = Some L -> leftovers_below st -> others_below (files st) L.
Proof.
  intros st L HI EL Hlb f Hf D. pose proof (il_latest _ HI) as HL. rewrite EL in HL.
  destruct HL as [_ [_ [Hmax _]]]. destruct (fcom f) eqn:C.
  - left. apply Hmax; assumption.
  - specialize (Hlb f Hf C). rewrite EL in Hlb. exact Hlb.
Qed.

Lemma safe_use_cases : forall st L p, InvL st -> glatest st = Some L -> safe_use p st ->
  hint_names p L \/ others_below (files st) L.
Proof.
  intros st L p HI EL [[L' [EL' Hn]]|Hlb].
  - left. rewrite EL in EL'. inversion EL'; subst. exact Hn.
  - right. apply invL_others_below; assumption.
Qed.

(* nothing published, nothing stored: the only store without a published version in which a resolution is safe *)
Lemma safe_use_none : forall st p, InvL st -> glatest st = None -> safe_use p st -> files st = [].
Proof.
  intros st p HI EL [[L [EL' _]]|Hlb]; [rewrite EL in EL'; discriminate EL'|].
  pose proof (il_latest _ HI) as HL. rewrite EL in HL. destruct HL as [Hun _].
  destruct (files st) as [|f r] eqn:F; [reflexivity|exfalso].
  assert (Hf : In f (files st)) by (rewrite F; left; reflexivity).
  specialize (Hlb f Hf (Hun f (or_introl eq_refl))). rewrite EL in Hlb. exact Hlb.
Qed.

Lemma refresh_safe : forall st L p, InvL st -> glatest st = Some L -> not_stale p st -> safe_use p st ->
  refresh_of p (files st) = RfMeta (fver L) L.
Proof.
  intros st L p HI EL Hns Hs. pose proof (il_latest _ HI) as HL. rewrite EL in HL. destruct HL as [HLin _].
  apply (resolve_safe (files st) L p (il_wf _ HI) (il_names _ HI) HLin (not_stale_fresh p st L EL Hns)
                      (safe_use_cases st L p HI EL Hs)).
Qed.

Lemma names_unique_insert : forall fs n pos, names_unique fs -> fresh_name fs n -> names_unique (insert_at pos n fs).
Proof.
  intros fs n pos U Hfr f g Hf Hg Hn. apply insert_at_in in Hf. apply insert_at_in in Hg.
  destruct Hf as [->|Hf]; destruct Hg as [->|Hg]; [reflexivity| | |apply U; assumption]; exfalso.
  - rewrite name_eqb_sym, (Hfr g Hg) in Hn. discriminate Hn.
  - rewrite (Hfr f Hf) in Hn. discriminate Hn.
Qed.

Lemma publish_nowrite : forall st n pos o acked, ~ writes o -> publish st n pos o acked = st.
Proof.
  intros st n pos o acked H. destruct o as [| |[|]]; cbn [publish]; try reflexivity; exfalso; apply H;
    [left|right]; reflexivity.
Qed.

Lemma writes_dec : forall o, {writes o} + {~ writes o}.
Proof.
  intros [| |[|]]; [left; left; reflexivity|right; intros [H|H]; discriminate H
                   |right; intros [H|H]; discriminate H|left; right; reflexivity].
Qed.

(* writing a file whose version exceeds every PUBLISHED version, then its commit point *)
Lemma publish_invL : forall st n pos o acked,
  InvL st -> wf_file n -> fcom n = false ->
  (writes o -> fresh_name (files st) n) -> (o = FailCommitPoint false -> unnamed (ptr st) n) ->
  (forall g, In g (files st) -> fcom g = true -> fver g < fver n) ->
  fsnaps n = acked ->
  (forall g, In g (files st) -> fcom g = true -> fuuid g = fuuid n) ->
  InvL (publish st n pos o acked).
Proof.
  intros st n pos o acked HI [Hid Hpr] Hc Hfr Hun Hmax Hsn Hu.
  destruct o as [| |[|]]; cbn [publish]; try exact HI.
  - (* the commit point succeeded *)
    set (n' := published n).
    assert (Hwf' : wf_file n') by (split; assumption).
    assert (Hfr' : fresh_name (files st) n') by (apply Hfr; left; reflexivity).
    constructor; cbn [files glatest gacked ptr].
    + apply insert_at_forall; [exact Hwf'|apply (il_wf _ HI)].
    + apply names_unique_insert; [apply (il_names _ HI)|exact Hfr'].
    + split; [apply insert_at_in; left; reflexivity|]. split; [reflexivity|]. split; [|split].
      * intros g Hg Cg D. apply insert_at_in in Hg. destruct Hg as [->|Hg]; [contradiction|apply Hmax; assumption].
      * exact Hsn.
      * intros g Hg Cg. apply insert_at_in in Hg. destruct Hg as [->|Hg]; [reflexivity|apply Hu; assumption].
    + unfold not_stale. cbn [read_hint files glatest]. unfold fname at 1. rewrite (parse_write _ _ Hpr Hid).
      intros g Hg Hn. apply insert_at_in in Hg. destruct Hg as [->|Hg]; [split; reflexivity|]. exfalso.
      assert (X : name_eqb (fname g) (fname n') = true) by exact Hn.
      rewrite (Hfr' g Hg) in X. discriminate X.
  - (* the file stays behind, never published *)
    assert (Hfr' : fresh_name (files st) n) by (apply Hfr; right; reflexivity).
    specialize (Hun eq_refl).
    constructor; cbn [files glatest gacked ptr].
    + apply insert_at_forall; [split; assumption|apply (il_wf _ HI)].
    + apply names_unique_insert; [apply (il_names _ HI)|exact Hfr'].
    + pose proof (il_latest _ HI) as HL. destruct (glatest st) as [L|].
      * destruct HL as [HLin [HLc [HLmax [HLsn HLu]]]]. split; [apply insert_at_in; right; exact HLin|].
        split; [exact HLc|]. split; [|split; [exact HLsn|]].
        -- intros g Hg Cg D. apply insert_at_in in Hg. destruct Hg as [->|Hg]; [rewrite Hc in Cg; discriminate Cg|].
           apply HLmax; assumption.
        -- intros g Hg Cg. apply insert_at_in in Hg. destruct Hg as [->|Hg]; [rewrite Hc in Cg; discriminate Cg|].
           apply HLu; assumption.
      * destruct HL as [Hall Hack]. split; [|exact Hack].
        intros g Hg. apply insert_at_in in Hg. destruct Hg as [->|Hg]; [exact Hc|apply Hall; exact Hg].
    + pose proof (il_ptr _ HI) as HP. unfold not_stale, unnamed in *. cbn [files glatest].
      destruct (read_hint (ptr st)) as [|[[v name]|]]; auto.
      intros g Hg Hn. apply insert_at_in in Hg. destruct Hg as [->|Hg]; [rewrite Hun in Hn; discriminate Hn|].
      apply HP; assumption.
Qed.

Lemma step_invL : forall st e, InvL st -> ok_event_lv st e -> InvL (step st e).
Proof.
  intros st e HI Hok. pose proof (il_latest _ HI) as HL.
  destruct e as [id t pos uuid o|id t pos sid o|p]; cbn [ok_event_lv written] in Hok.
  - (* create *)
    destruct Hok as [Hid Hw]. cbn [step]. destruct (refresh st) eqn:R; try exact HI.
    destruct (Hw _ eq_refl) as [Hfr Hun]. clear Hw.
    assert (Hnil : files st = []).
    { destruct (files st) as [|f r] eqn:F; [reflexivity|exfalso].
      apply (refresh_nonempty (files st) (ptr st) (il_wf _ HI)); [rewrite F; discriminate|exact R]. }
    assert (EL : glatest st = None).
    { destruct (glatest st) as [L|]; [|reflexivity]. destruct HL as [HLin _]. rewrite Hnil in HLin. destruct HLin. }
    rewrite EL in HL. destruct HL as [_ Hack].
    apply publish_invL; auto.
    + split; [exact Hid|exact printable_0].
    + rewrite Hnil. intros g [].
    + rewrite Hnil. intros g [].
  - (* commit *)
    destruct Hok as [Hid [Hw Hsafe]]. cbn [step].
    destruct (writes_dec o) as [W|NW].
    2:{ destruct (refresh st); try exact HI. destruct (printable _); [rewrite publish_nowrite by exact NW|]; exact HI. }
    specialize (Hsafe W). destruct (glatest st) as [L|] eqn:EL.
    + destruct HL as [HLin [HLc [HLmax [HLsn HLu]]]].
      pose proof (refresh_safe st L (ptr st) HI EL (il_ptr _ HI) Hsafe) as R. unfold refresh in *. rewrite R in *.
      destruct (printable (fver L + 1)) eqn:Hp; [|exact HI].
      destruct (Hw _ eq_refl) as [Hfr Hun]. clear Hw.
      apply publish_invL; auto.
      * split; assumption.
      * cbn [fver]. intros g Hg Cg. destruct (mfile_eq_dec g L) as [->|D]; [lia|]. specialize (HLmax g Hg Cg D). lia.
      * cbn [fsnaps]. rewrite HLsn. reflexivity.
    + rewrite (safe_use_none st (ptr st) HI EL Hsafe) in *. unfold refresh. rewrite (safe_use_none st (ptr st) HI EL Hsafe).
      rewrite refresh_empty. exact HI.
  - (* damage *)
    destruct Hok as [Hcl Hns]. cbn [step].
    constructor; cbn [files glatest gacked ptr];
      [apply (il_wf _ HI)|apply (il_names _ HI)|exact HL|exact (not_stale_of_classified p st (il_wf _ HI) Hcl Hns)].
Qed.

Lemma run_invL : forall h st, InvL st -> ok_history_lv st h -> InvL (run st h).
Proof.
  induction h as [|e h IH]; intros st HI Hok; [exact HI|].
  destruct Hok as [He Hh]. cbn [run fold_left]. apply IH; [apply step_invL; assumption|exact Hh].
Qed.

Lemma reachable_lv_inv : forall st, reachable_lv st -> InvL st.
Proof. intros st [h [Hok ->]]. apply run_invL; [exact invL_empty|exact Hok]. Qed.

Lemma ok_history_lv_app : forall h1 h2 s, ok_history_lv s (h1 ++ h2) <-> ok_history_lv s h1 /\ ok_history_lv (run s h1) h2.
Proof.
  induction h1 as [|e h1 IH]; intros h2 s; cbn [app ok_history_lv run fold_left].
  - tauto.
  - rewrite IH. unfold run. tauto.
Qed.

Lemma reachable_lv_extend : forall st h, reachable_lv st -> ok_history_lv st h -> reachable_lv (run st h).
Proof.
  intros st h [h0 [Hok ->]] Hh. exists (h0 ++ h). split.
  - apply ok_history_lv_app. split; assumption.
  - unfold run. rewrite fold_left_app. reflexivity.
Qed.

(* ------------------------------------------------------------------ the leftover theorems of Props/C10.v *)
Theorem resolve_lv : forall st L p l,
  reachable_lv st -> glatest st = Some L -> ascii_classified p -> ~ stale p st -> safe_use p st ->
  Permutation l (files st) ->
  (exists name, resolve p (map entry_of l) = RRet (Some (fver L, name)) /\ codes name = codes (fname L))
  /\ refresh_of p l = RfMeta (fver L) L
  /\ In L (files st) /\ fcom L = true /\ fsnaps L = gacked st.
Proof.
  intros st L p l HR EL Hcl Hst Hs HP. pose proof (reachable_lv_inv _ HR) as HI.
  pose proof (not_stale_of_classified p st (il_wf _ HI) Hcl Hst) as Hns.
  pose proof (il_latest _ HI) as HL. rewrite EL in HL. destruct HL as [HLin [HLc [_ [HLsn _]]]].
  assert (HLl : In L l) by (eapply Permutation_in; [apply Permutation_sym; exact HP|exact HLin]).
  assert (Hs' : hint_names p L \/ others_below l L).
  { destruct (safe_use_cases st L p HI EL Hs) as [H|H]; [left; exact H|right; exact (perm_others_below _ _ _ HP H)]. }
  destruct (resolve_safe l L p (perm_wf _ _ HP (il_wf _ HI)) (perm_names_unique _ _ HP (il_names _ HI)) HLl
                         (fresh_for_perm p l _ L HP (not_stale_fresh p st L EL Hns)) Hs') as [H1 H2].
  repeat split; assumption.
Qed.

Lemma resolve_nil : forall p, resolve p [] = RRet None.
Proof. intro p. unfold resolve. destruct (read_hint_total p) as [r ->]. destruct r as [[v name]|]; reflexivity. Qed.

Theorem never_uncommitted_lv : forall st p l v name,
  reachable_lv st -> ascii_classified p -> ~ stale p st -> safe_use p st -> Permutation l (files st) ->
  resolve p (map entry_of l) = RRet (Some (v, name)) ->
  exists f, In f (files st) /\ name_eqb (fname f) name = true /\ fcom f = true.
Proof.
  intros st p l v name HR Hcl Hst Hs HP H. pose proof (reachable_lv_inv _ HR) as HI.
  destruct (glatest st) as [L|] eqn:EL.
  - destruct (resolve_lv st L p l HR EL Hcl Hst Hs HP) as [[name' [Hr Hc]] [_ [HLin [HLc _]]]].
    rewrite Hr in H. inversion H; subst. exists L. split; [exact HLin|]. split; [|exact HLc].
    apply name_eqb_codes. symmetry. exact Hc.
  - exfalso. rewrite (safe_use_none st p HI EL Hs) in HP. apply Permutation_sym, Permutation_nil in HP. subst l.
    cbn [map] in H. rewrite resolve_nil in H. discriminate H.
Qed.

(* a never-published file that outranks the latest published one is what EVERY listing order surfaces once the
   pointer is lost or unparseable *)
Theorem leftover_surfaces : forall st L U p l,
  reachable_lv st -> glatest st = Some L -> In U (files st) -> above U L -> read_hint p = PRet None ->
  Permutation l (files st) ->
  exists r, In r (files st) /\ fcom r = false /\ above r L
            /\ resolve p (map entry_of l) = RRet (Some (fver r, fname r)).
Proof.
  intros st L U p l HR EL HU Hab Hp HP. pose proof (reachable_lv_inv _ HR) as HI.
  destruct (leftover_wins (files st) L U p l (il_wf _ HI) HU Hab Hp HP) as [r [Hr [Har Hres]]].
  exists r. split; [exact Hr|]. split; [|split; assumption].
  pose proof (il_latest _ HI) as HL. rewrite EL in HL. destruct HL as [_ [_ [HLmax _]]].
  destruct (fcom r) eqn:C; [exfalso|reflexivity].
  destruct (mfile_eq_dec r L) as [->|D]; [unfold above in Har; lia|].
  specialize (HLmax r Hr C D). unfold above in Har. lia.
Qed.

Lemma safe_use_damage : forall st p, safe_use p st <-> safe_use p (step st (EDamage p)).
Proof. intros st p. unfold safe_use, leftovers_below. cbn [step glatest files]. tauto. Qed.

Theorem usable_lv : forall st L p id t pos sid,
  reachable_lv st -> glatest st = Some L -> ascii_classified p -> ~ stale p st -> safe_use p st ->
  wf_id id = true -> printable (fver L + 1) = true ->
  (forall f, In f (files st) -> name_eqb (fname f) (render_name (fver L + 1) id) = false) ->
  let st' := run st [EDamage p; ECommit id t pos sid Ok] in
  reachable_lv st'
  /\ exists L', glatest st' = Some L' /\ fver L' = fver L + 1 /\ fsnaps L' = gacked st ++ [sid]
               /\ gacked st' = gacked st ++ [sid] /\ fuuid L' = fuuid L
               /\ ptr st' = Some (Some (fname L')) /\ In L' (files st') /\ fcom L' = true.
Proof.
  intros st L p id t pos sid HR EL Hcl Hst Hs Hid Hp Hfr st'.
  pose proof (reachable_lv_inv _ HR) as HI.
  pose proof (not_stale_of_classified p st (il_wf _ HI) Hcl Hst) as Hns.
  pose proof (refresh_safe st L p HI EL Hns Hs) as R.
  pose proof (il_latest _ HI) as HL. rewrite EL in HL. destruct HL as [_ [_ [_ [HLsn _]]]].
  split.
  - apply reachable_lv_extend; [exact HR|]. cbn [ok_history_lv ok_event_lv]. split; [split; assumption|].
    split; [|exact I]. split; [exact Hid|]. split.
    + intros n Hn. cbn [written step] in Hn. unfold refresh in Hn. cbn [ptr files] in Hn. rewrite R, Hp in Hn.
      inversion Hn; subst n. split; [|intro H; discriminate H].
      intros _ f Hf. cbn [step files] in Hf. apply Hfr. exact Hf.
    + intros _. cbn [step ptr]. apply (safe_use_damage st p). exact Hs.
  - unfold st'. cbn [run fold_left step]. unfold refresh. cbn [ptr files]. rewrite R, Hp.
    cbn [publish glatest gacked ptr files].
    eexists. split; [reflexivity|]. cbn [published fver fsnaps fuuid fcom fname fid].
    rewrite HLsn. repeat split; try reflexivity. apply insert_at_in. left. reflexivity.
Qed.

(* ------------------------------------------------------------------ what does NOT hold without `safe_use` *)
Ltac lv_written :=
  let n := fresh "n" in let Hn := fresh "Hn" in let H := fresh "H" in
  intros n Hn; vm_compute in Hn; inversion Hn; subst n; clear Hn; split;
  [intros _ ?f ?Hf; vm_compute in Hf; repeat (destruct Hf as [<-|Hf]; [vm_compute; reflexivity|]); destruct Hf
  |intro H; first [discriminate H|vm_compute; first [reflexivity|exact I]]].
Ltac lv_safe_by_pointer := intros _; left; eexists; split; vm_compute; reflexivity.
Ltac lv_create := split; [reflexivity|lv_written].
Ltac lv_commit := split; [reflexivity|split; [lv_written|lv_safe_by_pointer]].

Lemma stale_history_lv : ok_history_lv empty_store stale_history.
Proof.
  cbn [ok_history_lv stale_history]. split; [lv_create|split; [lv_commit|split; [lv_commit|exact I]]].
Qed.

Lemma dirty_history_lv : ok_history_lv empty_store dirty_history.
Proof.
  cbn [ok_history_lv dirty_history]. split; [lv_create|split; [lv_commit|split; [lv_commit|exact I]]].
Qed.

(* the full statement of "resolves to the latest committed version": every history with leftovers, every pointer *)
Definition resolve_full_lv : Prop := forall st L p l,
  reachable_lv st -> glatest st = Some L -> ascii_classified p -> Permutation l (files st) ->
  exists name, resolve p (map entry_of l) = RRet (Some (fver L, name)) /\ codes name = codes (fname L).

(* refuted by a stale pointer (no leftover anywhere) ... *)
Theorem resolve_full_lv_refuted_stale : ~ resolve_full_lv.
Proof.
  intro H. destruct stale_witness as [L [EL [Hv [_ Hr]]]].
  assert (HR : reachable_lv (run empty_store stale_history)).
  { exists stale_history. split; [exact stale_history_lv|reflexivity]. }
  destruct (H _ L stale_pointer _ HR EL (rendered_pointer_classified 1 (wid 1)) (Permutation_refl _)) as [name [Hn _]].
  unfold listing in Hr. rewrite Hr in Hn. inversion Hn as [[Hver Hname]]. rewrite Hv in Hver. discriminate Hver.
Qed.

(* ... and by a leftover on top with the pointer simply missing (nothing stale anywhere) *)
Lemma dirty_latest : exists L, glatest (run empty_store dirty_history) = Some L /\ fver L = 1.
Proof. vm_compute. eexists. split; reflexivity. Qed.

Lemma dirty_resolves : resolve None (listing (run empty_store dirty_history)) = RRet (Some (2, render_name 2 (wid 2))).
Proof. vm_compute. reflexivity. Qed.

Theorem resolve_full_lv_refuted_leftover : ~ resolve_full_lv.
Proof.
  intro H. destruct dirty_latest as [L [EL Hv]].
  assert (HR : reachable_lv (run empty_store dirty_history)).
  { exists dirty_history. split; [exact dirty_history_lv|reflexivity]. }
  destruct (H _ L None _ HR EL I (Permutation_refl _)) as [name [Hn _]].
  pose proof dirty_resolves as Hr. unfold listing in Hr. rewrite Hr in Hn. inversion Hn as [[Hver Hname]].
  rewrite Hv in Hver. discriminate Hver.
Qed.

(* the full statement of "recovery never surfaces a version that was never committed" *)
Definition never_uncommitted_full : Prop := forall st p l v name,
  reachable_lv st -> ascii_classified p -> ~ stale p st -> Permutation l (files st) ->
  resolve p (map entry_of l) = RRet (Some (v, name)) ->
  exists f, In f (files st) /\ name_eqb (fname f) name = true /\ fcom f = true.

Lemma none_not_stale : forall st, ~ stale None st.
Proof. intros st [v [name [f [H _]]]]. cbn in H. discriminate H. Qed.

Theorem never_uncommitted_full_refuted : ~ never_uncommitted_full.
Proof.
  intro H. pose proof dirty_resolves as Hr. unfold listing in Hr.
  assert (HR : reachable_lv (run empty_store dirty_history)).
  { exists dirty_history. split; [exact dirty_history_lv|reflexivity]. }
  destruct (H _ None _ _ _ HR I (none_not_stale _) (Permutation_refl _) Hr) as [f [Hf [Hn Hc]]].
  vm_compute in Hf. destruct Hf as [<-|[<-|[<-|[]]]]; vm_compute in Hn, Hc; congruence.
Qed.
