(* Proofs/GCAcceptProofs.v -- what Transaction.append_files accepts as a data-file path, REGENERATED from the source
   (Gen/GenNorm.v append_accepts_path: the conjunction of the pure path guards applied to every file, posixpath.normpath
   a parameter), implies the writer-side fact the collector's safety rests on: a manifest entry names a file under the
   table's data/ directory (GC.wf_data_ref).  Proved for EVERY normpath.  On a source tree whose append_files does not
   demand it (a data file accepted at metadata/manifests/f is deleted by the manifest sweep, one at
   metadata/inflight/f.inflight by the abandoned-marker sweep, while snapshots reference them) the first lemma does not
   compile, and with it the history invariant. *)
From Coq Require Import ZArith List Bool String Ascii.
Require Import DS.Model.PyStr DS.Gen.GenNorm DS.Model.GC.
Import ListNotations.
Open Scope string_scope.

Lemma accepts_under_data : forall (normpath : string -> string) (e : string),
  append_accepts_path normpath e = true -> wf_data_ref e.
Proof.
  intros np e H. unfold wf_data_ref, resolve, slash. unfold append_accepts_path in H. cbv zeta in H.
  repeat (apply andb_true_iff in H; let H' := fresh "G" in destruct H as [H H']).
  repeat match goal with
  | G : (_ && _) = true |- _ => let G1 := fresh "G" in let G2 := fresh "G" in apply andb_true_iff in G; destruct G as [G1 G2]
  end.
  repeat match goal with
  | G : negb (negb (startswith "data/" _)) = true |- _ => rewrite negb_involutive in G; exact G
  end.
Qed.

(* ... and it is not the empty predicate: every spelling that resolves to data/<name>, for a <name> posixpath.normpath leaves
   alone (no empty, "." or ".." component), is accepted *)
Lemma accepts_data_key : forall (normpath : string -> string) (e name : string),
  resolve e = "data/" ++ name -> normpath ("data/" ++ name) = "data/" ++ name -> append_accepts_path normpath e = true.
Proof.
  intros np e name R N. unfold append_accepts_path. cbv zeta.
  change (lstrip_c "/"%char e) with (resolve e). rewrite R, N, String.eqb_refl. cbn. destruct name; reflexivity.
Qed.

(* the guard is about the path as resolved: leading slashes do not matter *)
Lemma accepts_resolve : forall (normpath : string -> string) (e e' : string),
  resolve e = resolve e' -> append_accepts_path normpath e = append_accepts_path normpath e'.
Proof.
  intros np e e' R. unfold append_accepts_path. cbv zeta.
  change (lstrip_c "/"%char e) with (resolve e). change (lstrip_c "/"%char e') with (resolve e'). rewrite R. reflexivity.
Qed.
