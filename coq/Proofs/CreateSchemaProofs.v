(* Proofs/CreateSchemaProofs.v -- a schema supplied at creation is persisted and used by schema-less appends; an append
   without any available schema raises before anything is written (C18). *)
From Coq Require Import ZArith List Bool Lia.
Require Import DS.Model.Value DS.Model.Schema DS.Model.CreateBase DS.Gen.GenCreateSchema DS.Model.Commit DS.Model.Create
               DS.Model.CreateSchema DS.Proofs.CommitProofs DS.Proofs.CreateProofs.
Import ListNotations.
Open Scope Z_scope.

Local Notation sresolve := DS.Model.Schema.resolve.
Local Notation sstep := DS.Model.Schema.step.

Lemma table_schema_some S : has_fields S = true -> table_schema (Some S) = Some S.
Proof.
  intro H. unfold table_schema, v0_schemas, gen_init_schemas, gen_post_init, gen_resolve_table_schema. simpl.
  destruct (sid S =? 0) eqn:E; simpl; rewrite Z.eqb_refl, H; reflexivity.
Qed.

Lemma table_schema_none arg : arg = None \/ (exists S, arg = Some S /\ has_fields S = false) -> table_schema arg = None.
Proof.
  intros [->|[S [-> H]]]; unfold table_schema, v0_schemas, gen_init_schemas, gen_post_init, gen_resolve_table_schema; simpl.
  - reflexivity.
  - destruct (sid S =? 0); simpl; rewrite H, andb_false_r; reflexivity.
Qed.

(* Model/Schema.v's hand-written resolution (C11's append machine) is the regenerated one *)
Lemma resolve_is_generated t arg :
  match sresolve t arg with
  | inl s => gen_append_schema ischema t arg = Some s
  | inr RejNoSchema => gen_append_schema ischema t arg = None /\ arg = None
  | inr _ => arg <> None
  end.
Proof.
  unfold DS.Model.Schema.resolve, gen_append_schema. destruct arg as [a|], t as [ts|]; try reflexivity; try (split; reflexivity).
  destruct (accept_schema (sfields ts) (sfields a)); [reflexivity | discriminate].
Qed.

(* a schema supplied at creation is persisted and used by schema-less appends *)
Theorem schema_persisted_and_used arg S : arg = Some S -> has_fields S = true ->
  In S (fst (v0_schemas arg)) /\ snd (v0_schemas arg) = sid S
  /\ table_schema arg = Some S
  /\ gen_append_schema ischema (table_schema arg) None = Some S
  /\ sresolve (table_schema arg) None = inl S.
Proof.
  intros -> H. rewrite (table_schema_some S H). repeat split; try reflexivity.
  - unfold v0_schemas, gen_init_schemas, gen_post_init. simpl. auto.
  - unfold v0_schemas, gen_init_schemas, gen_post_init. simpl. destruct (sid S =? 0); reflexivity.
Qed.

(* without any available schema an append raises, before the in-flight marker or a data file is written, and leaves
   the table (snapshots, stored files, caches) exactly as it was *)
Theorem no_schema_append_raises arg : arg = None \/ (exists S, arg = Some S /\ has_fields S = false) ->
  table_schema arg = None
  /\ gen_append_schema ischema (table_schema arg) None = None
  /\ sresolve (table_schema arg) None = inr RejNoSchema
  /\ (forall conv w e, DS.Model.Schema.w_schema w = table_schema arg -> DS.Model.Schema.e_arg e = None -> sstep conv w e = (w, RejNoSchema))
  /\ In AARaiseNoSchema gen_append_order
  /\ forallb (fun x => negb (writes_storage x)) (before AARaiseNoSchema gen_append_order) = true.
Proof.
  intro H. rewrite (table_schema_none arg H). repeat split; try reflexivity.
  - intros conv w e Hw He. unfold DS.Model.Schema.step. rewrite Hw, He. reflexivity.
  - simpl. auto.
Qed.

(* ... of the table a creation race produces: the ONE initialisation that took effect is the table in effect, and the
   schema ITS caller supplied (not a losing creator's) is what schema-less appends use *)
Theorem schema_of_race (sarg : aid -> option ischema) c evs : sound c ->
  let w := crun c absent evs in
  settled w -> c_files w <> [] ->
  exists u, c_creates w = [u] /\ table_id w = Some u /\ persisted_schema sarg w = table_schema (sarg u)
  /\ (forall S, sarg u = Some S -> has_fields S = true -> sresolve (persisted_schema sarg w) None = inl S)
  /\ (sarg u = None \/ (exists S, sarg u = Some S /\ has_fields S = false) -> sresolve (persisted_schema sarg w) None = inr RejNoSchema).
Proof.
  intros Snd w St NE. destruct (exactly_one_init c evs Snd St (or_introl NE)) as [f [u [C [P [Id T]]]]]. fold w in C, P, Id, T.
  exists u. unfold persisted_schema. rewrite T. repeat split; auto.
  - intros S A H. apply (schema_persisted_and_used (sarg u) S A H).
  - intro H. apply (no_schema_append_raises (sarg u) H).
Qed.
