(* Proofs/FilterProofs.v -- lemmas behind Props/C12.v (filters mean what SQL says, in every scan API). *)
From Coq Require Import String Ascii.
From Coq Require Import ZArith QArith List Bool Lia.
Require Import DS.Model.Value DS.Model.FilterExpr DS.Gen.GenPrune DS.Model.Prune DS.Proofs.PruneProofs.
Require Import DS.Gen.GenFilterConst DS.Gen.GenFilter DS.Model.Filter.
Import ListNotations.
Open Scope Z_scope.

(* ------------------------------------------------------------------ Kleene logic *)
Lemma tv_and_tt a b : tv_and a b = TT <-> a = TT /\ b = TT.
Proof. destruct a, b; simpl; intuition discriminate. Qed.

Lemma tv_not_tt a : tv_not a = TT <-> a = TF.
Proof. destruct a; simpl; intuition discriminate. Qed.

Lemma tv_of_tt b : tv_of b = TT <-> b = true.
Proof. destruct b; simpl; intuition discriminate. Qed.

Lemma tv_of_tf b : tv_of b = TF <-> b = false.
Proof. destruct b; simpl; intuition discriminate. Qed.

Lemma is_tt_iff t : is_tt t = true <-> t = TT.
Proof. destruct t; simpl; intuition discriminate. Qed.

(* ------------------------------------------------------------------ one expression *)
(* the compiled form of a well-shaped expression *)
Definition compile (PA : parg -> bool) (e : fexpr) : res cexpr := condition PA (of_fexpr e).

Lemma cell_lookup r c v : lookup c r = Some v -> cell r c = v.
Proof. unfold cell. intros ->. reflexivity. Qed.

Lemma existsb_not_none (f : value -> bool) l :
  existsb (fun w => negb (is_null w) && f w) (not_none l) = existsb (fun w => negb (is_null w) && f w) l.
Proof.
  unfold not_none. induction l as [|a l IH]; simpl; auto.
  destruct (is_null a) eqn:N; simpl; rewrite ?N; simpl; rewrite IH; reflexivity.
Qed.

Lemma not_none_no_null l : existsb is_null (not_none l) = false.
Proof.
  unfold not_none. induction l as [|a l IH]; simpl; auto.
  destruct (is_null a) eqn:N; simpl; rewrite ?N; auto.
Qed.

Lemma existsb_nil_not_none (f : value -> bool) l :
  not_none l = [] -> existsb (fun w => negb (is_null w) && f w) l = false.
Proof. intro H. rewrite <- existsb_not_none, H. reflexivity. Qed.

Lemma is_empty_list_true {A} (l : list A) : is_empty_list l = true -> l = [].
Proof. destruct l; simpl; congruence. Qed.

Section One.
  Variable X : value -> value -> bool.
  Variable E : cexpr -> row -> bool.
  Variable PA : parg -> bool.

  (* scalar comparisons *)
  Lemma eval_cmp_sound op fo v l t :
    (op, fo) = (CEq, EQ) \/ (op, fo) = (CNe, NE) \/ (op, fo) = (CLt, LT) \/ (op, fo) = (CLe, LE)
    \/ (op, fo) = (CGt, GT) \/ (op, fo) = (CGe, GE) ->
    eval_cmp op v (AVal l) = Some t -> (t = TT <-> selected X fo v l [] = true).
  Proof.
    intros Hop. unfold eval_cmp.
    destruct (is_null v) eqn:Nv; simpl.
    - intros [= <-]. destruct Hop as [H|[H|[H|[H|[H|H]]]]]; inversion H; subst; simpl; rewrite Nv; intuition discriminate.
    - destruct (is_null l) eqn:Nl; simpl.
      + intros [= <-]. destruct l; try discriminate.
        destruct Hop as [H|[H|[H|[H|[H|H]]]]]; inversion H; subst; simpl; rewrite Nv; simpl;
          try (intuition discriminate);
          unfold py_lt, py_le, py_gt, py_ge, vcmp; destruct v; simpl; intuition discriminate.
      + destruct (vcmp v l) as [o|] eqn:C; [|discriminate].
        intros [= <-]. rewrite tv_of_tt.
        destruct Hop as [H|[H|[H|[H|[H|H]]]]]; inversion H; subst; simpl; rewrite Nv, ?Nl; simpl;
          unfold py_eqb, py_lt, py_le, py_gt, py_ge; rewrite C; simpl; reflexivity.
  Qed.

  Theorem compile_sound e ce :
    compile PA e = Ok ce ->
    forall r t, eval3 X E ce r = Some t ->
      (t = TT <-> selected X (fop_ e) (cell r (fcol e)) (fsval e) (flval e) = true).
  Proof.
    destruct e as [c op sv lv]. unfold compile, condition, of_fexpr; simpl.
    destruct op; simpl.
    1-6: unfold mk_cmp; destruct (PA (AVal sv)); [|discriminate];
         intros [= <-] r t; simpl; destruct (lookup c r) as [v|] eqn:L; [|discriminate];
         rewrite (cell_lookup _ _ _ L); destruct (E _ r); [discriminate|]; intro Ev.
    - pose proof (eval_cmp_sound CEq EQ v sv t (or_introl eq_refl) Ev) as S. simpl in S. exact S.
    - pose proof (eval_cmp_sound CNe NE v sv t (or_intror (or_introl eq_refl)) Ev) as S. simpl in S. exact S.
    - pose proof (eval_cmp_sound CLt LT v sv t (or_intror (or_intror (or_introl eq_refl))) Ev) as S. simpl in S. exact S.
    - pose proof (eval_cmp_sound CLe LE v sv t (or_intror (or_intror (or_intror (or_introl eq_refl)))) Ev) as S. simpl in S. exact S.
    - pose proof (eval_cmp_sound CGt GT v sv t (or_intror (or_intror (or_intror (or_intror (or_introl eq_refl))))) Ev) as S. simpl in S. exact S.
    - pose proof (eval_cmp_sound CGe GE v sv t (or_intror (or_intror (or_intror (or_intror (or_intror eq_refl))))) Ev) as S. simpl in S. exact S.
    - (* IN *)
      destruct (is_empty_list (not_none lv)) eqn:Em.
      + intros [= <-] r t; simpl. intros [= <-].
        apply is_empty_list_true in Em.
        destruct (is_null (cell r c)); [intuition discriminate|].
        rewrite (existsb_nil_not_none _ _ Em). intuition discriminate.
      + unfold mk_is_in. destruct (PA (AList (not_none lv))); simpl; [|discriminate].
        intros [= <-] r t; simpl. destruct (lookup c r) as [v|] eqn:L; [|discriminate].
        rewrite (cell_lookup _ _ _ L). destruct (E _ r); [discriminate|].
        intros [= <-]. rewrite tv_and_tt, !tv_of_tt. unfold eval_is_in.
        destruct (is_null v) eqn:Nv; simpl.
        * rewrite not_none_no_null. intuition discriminate.
        * rewrite existsb_not_none. intuition.
    - (* NOT_IN *)
      destruct (is_empty_list (not_none lv)) eqn:Em.
      + intros [= <-] r t; simpl. destruct (lookup c r) as [v|] eqn:L; [|discriminate].
        rewrite (cell_lookup _ _ _ L). intros [= <-]. rewrite tv_of_tt.
        apply is_empty_list_true in Em.
        destruct (is_null v); simpl; [intuition discriminate|].
        rewrite (existsb_nil_not_none _ _ Em). intuition.
      + unfold mk_is_in. destruct (PA (AList (not_none lv))); simpl; [|discriminate].
        intros [= <-] r t; simpl. destruct (lookup c r) as [v|] eqn:L; [|discriminate].
        rewrite (cell_lookup _ _ _ L). destruct (E _ r); [discriminate|]. simpl.
        intros [= <-]. rewrite tv_and_tt, tv_not_tt, tv_of_tt, tv_of_tf. unfold eval_is_in.
        destruct (is_null v) eqn:Nv; simpl.
        * intuition discriminate.
        * rewrite existsb_not_none. rewrite negb_true_iff. intuition.
    - (* IS_NULL *)
      intros [= <-] r t; simpl. destruct (lookup c r) as [v|] eqn:L; [|discriminate].
      rewrite (cell_lookup _ _ _ L). intros [= <-]. apply tv_of_tt.
    - (* IS_NOT_NULL *)
      intros [= <-] r t; simpl. destruct (lookup c r) as [v|] eqn:L; [|discriminate].
      rewrite (cell_lookup _ _ _ L). intros [= <-]. apply tv_of_tt.
  Qed.
End One.

(* ------------------------------------------------------------------ generic monad / list lemmas *)
Lemma bind_ok {A} (x : res A) : bind x (fun a => Ok a) = x.
Proof. destruct x; reflexivity. Qed.

Lemma bind_assoc {A B C} (x : res A) (f : A -> res B) (g : B -> res C) :
  bind (bind x f) g = bind x (fun a => bind (f a) g).
Proof. destruct x; reflexivity. Qed.

Lemma bind_ext {A B} (x : res A) (f g : A -> res B) : (forall a, f a = g a) -> bind x f = bind x g.
Proof. intro H. destruct x; simpl; auto. Qed.

Lemma mapM_ext {A B} (f g : A -> res B) l : (forall a, In a l -> f a = g a) -> mapM f l = mapM g l.
Proof.
  induction l as [|a l IH]; simpl; intro H; auto.
  rewrite (H a (or_introl eq_refl)), IH; auto.
Qed.

Lemma mapM_app {A B} (f : A -> res B) l1 l2 :
  mapM f (l1 ++ l2) = bind (mapM f l1) (fun x => bind (mapM f l2) (fun y => Ok (x ++ y))).
Proof.
  induction l1 as [|a l1 IH]; simpl.
  - rewrite bind_ok. reflexivity.
  - destruct (f a) as [b|k]; simpl; auto. rewrite IH.
    destruct (mapM f l1) as [x|k]; simpl; auto. destruct (mapM f l2); reflexivity.
Qed.

Lemma mapM_Forall2 {A B} (f : A -> res B) l out : mapM f l = Ok out -> Forall2 (fun a b => f a = Ok b) l out.
Proof.
  revert out. induction l as [|a l IH]; simpl; intros out H.
  - inversion H. constructor.
  - destruct (f a) as [b|] eqn:Fa; simpl in H; [|discriminate].
    destruct (mapM f l) as [bs|] eqn:M; simpl in H; [|discriminate].
    inversion H; subst. constructor; auto.
Qed.

Lemma mapM_err {A B} (f : A -> res B) l k : mapM f l = Err k -> exists a, In a l /\ f a = Err k.
Proof.
  induction l as [|a l IH]; simpl; [discriminate|].
  destruct (f a) as [b|k'] eqn:Fa; simpl.
  - destruct (mapM f l) as [bs|k'']; simpl; [discriminate|]. intros [= <-].
    destruct (IH eq_refl) as [x [I F]]. exists x; auto.
  - intros [= <-]. exists a; auto.
Qed.

Lemma concat_filter_nonempty {A} (bs : list (list A)) : concat (filter nonempty bs) = concat bs.
Proof. induction bs as [|b bs IH]; simpl; auto. destruct b; simpl; rewrite IH; reflexivity. Qed.

(* ------------------------------------------------------------------ conjunctions *)
Section Conj.
  Variable X : value -> value -> bool.
  Variable E : cexpr -> row -> bool.
  Variable PA : parg -> bool.

  Lemma fold_combine_eval r cs : forall c t,
    eval3 X E (fold_left gen_combine cs c) r = Some t ->
    (t = TT <-> eval3 X E c r = Some TT /\ forall ci, In ci cs -> eval3 X E ci r = Some TT).
  Proof.
    induction cs as [|a cs IH]; simpl; intros c t Ev.
    - rewrite Ev. split; [intros ->; split; [reflexivity|contradiction] | intros [[= ->] _]; reflexivity].
    - specialize (IH _ _ Ev). rewrite IH. unfold gen_combine at 1. simpl.
      destruct (eval3 X E c r) as [x|]; destruct (eval3 X E a r) as [y|] eqn:Ea.
      + split.
        * intros [[= H] Hall]. apply tv_and_tt in H. destruct H as [-> ->]. split; auto.
          intros ci [<-|Hi]; auto.
        * intros [[= ->] Hall]. pose proof (Hall a (or_introl eq_refl)) as Ha. rewrite Ea in Ha. inversion Ha; subst.
          split; auto.
      + split; [intros [H _]; discriminate|]. intros [_ Hall]. specialize (Hall a (or_introl eq_refl)). congruence.
      + split; [intros [H _]; discriminate|]. intros [H _]; discriminate.
      + split; [intros [H _]; discriminate|]. intros [H _]; discriminate.
  Qed.

  Lemma fold_combine_defined r cs : forall c,
    eval3 X E (fold_left gen_combine cs c) r <> None ->
    eval3 X E c r <> None /\ forall ci, In ci cs -> eval3 X E ci r <> None.
  Proof.
    induction cs as [|a cs IH]; simpl; intros c D; [split; [auto|contradiction]|].
    destruct (IH _ D) as [D1 D2]. unfold gen_combine in D1. simpl in D1.
    destruct (eval3 X E c r); destruct (eval3 X E a r) eqn:Ea; try congruence.
    split; [discriminate|]. intros ci [<-|Hi]; auto. congruence.
  Qed.

  Lemma fold_combine_none r cs : forall c,
    (eval3 X E c r = None \/ exists ci, In ci cs /\ eval3 X E ci r = None) ->
    eval3 X E (fold_left gen_combine cs c) r = None.
  Proof.
    induction cs as [|a cs IH]; simpl; intros c H.
    - destruct H as [H|[ci [[] _]]]; auto.
    - apply IH. destruct H as [H|[ci [[<-|Hi] N]]].
      + left. unfold gen_combine. simpl. rewrite H. reflexivity.
      + left. unfold gen_combine. simpl. rewrite N. destruct (eval3 X E c r); reflexivity.
      + right. exists ci; auto.
  Qed.

  Theorem conj_sound es cs ce :
    mapM (compile PA) es = Ok cs -> gen_fold cs = Some ce ->
    forall r t, eval3 X E ce r = Some t -> (t = TT <-> row_selected X es r = true).
  Proof.
    intros M F r t Ev. apply mapM_Forall2 in M.
    destruct cs as [|c cs]; [discriminate|]. inversion F; subst; clear F.
    pose proof (fold_combine_eval r cs c t Ev) as H.
    assert (D : eval3 X E (fold_left gen_combine cs c) r <> None) by congruence.
    apply fold_combine_defined in D. rewrite H. clear H Ev t.
    assert (G : forall es' cs', Forall2 (fun a b => compile PA a = Ok b) es' cs' ->
                (forall ci, In ci cs' -> eval3 X E ci r <> None) ->
                ((forall ci, In ci cs' -> eval3 X E ci r = Some TT) <-> row_selected X es' r = true)).
    { clear. intros es' cs' F2. induction F2 as [|e ci es' cs' Hc F2 IH]; intro Dn.
      - simpl. split; auto. intros _ ci [].
      - simpl. rewrite andb_true_iff. destruct (eval3 X E ci r) as [t|] eqn:Ev; [|exfalso; apply (Dn ci); simpl; auto].
        pose proof (compile_sound X E PA e ci Hc r t Ev) as S.
        rewrite <- IH by (intros; apply Dn; right; auto). rewrite <- S. split.
        + intros Hall. split; [|intros; apply Hall; right; auto].
          specialize (Hall ci (or_introl eq_refl)). congruence.
        + intros [-> Hall] cj [<-|Hj]; auto. }
    destruct D as [Dc Dcs].
    rewrite <- (G es (c :: cs) M) by (intros ci [<-|Hi]; auto).
    split.
    - intros [Hc Hall] ci [<-|Hi]; auto.
    - intros Hall. split; [apply Hall; left; auto | intros; apply Hall; right; auto].
  Qed.
End Conj.

(* ------------------------------------------------------------------ Table.filter *)
Section Rows.
  Variable X : value -> value -> bool.
  Variable E : cexpr -> row -> bool.

  Definition keeps (ce : cexpr) (r : row) : bool :=
    match eval3 X E ce r with Some TT => true | _ => false end.

  Lemma filter_rows_ok ce rows :
    (forall r, In r rows -> eval3 X E ce r <> None) -> filter_rows X E ce rows = Ok (filter (keeps ce) rows).
  Proof.
    induction rows as [|r rs IH]; simpl; intro D; auto.
    unfold keeps at 1. destruct (eval3 X E ce r) as [t|] eqn:Ev; [|exfalso; apply (D r); auto].
    rewrite IH by (intros; apply D; auto). simpl. destruct t; reflexivity.
  Qed.

  Lemma filter_rows_err ce rows k :
    filter_rows X E ce rows = Err k -> k = EEval /\ exists r, In r rows /\ eval3 X E ce r = None.
  Proof.
    induction rows as [|r rs IH]; simpl; [discriminate|].
    destruct (eval3 X E ce r) as [t|] eqn:Ev.
    - destruct (filter_rows X E ce rs) as [out|k']; simpl; [discriminate|].
      intros [= <-]. destruct (IH eq_refl) as [-> [x [I N]]]. split; auto. exists x; auto.
    - intros [= <-]. split; auto. exists r; auto.
  Qed.

  Lemma filter_rows_raises ce rows r : In r rows -> eval3 X E ce r = None -> filter_rows X E ce rows = Err EEval.
  Proof.
    induction rows as [|a rs IH]; simpl; [contradiction|]. intros [->|I] N.
    - rewrite N. reflexivity.
    - destruct (eval3 X E ce a); auto. rewrite (IH I N). reflexivity.
  Qed.

  Lemma filter_rows_app ce a b :
    filter_rows X E ce (a ++ b) =
    bind (filter_rows X E ce a) (fun x => bind (filter_rows X E ce b) (fun y => Ok (x ++ y))).
  Proof.
    induction a as [|r a IH]; simpl.
    - rewrite bind_ok. reflexivity.
    - destruct (eval3 X E ce r) as [t|]; simpl; auto. rewrite IH.
      destruct (filter_rows X E ce a) as [x|]; simpl; auto.
      destruct (filter_rows X E ce b) as [y|]; simpl; auto. destruct (is_tt t); reflexivity.
  Qed.

  Lemma apply_rows_app ce a b :
    apply_rows X E ce (a ++ b) =
    bind (apply_rows X E ce a) (fun x => bind (apply_rows X E ce b) (fun y => Ok (x ++ y))).
  Proof. destruct ce as [e|]; simpl; [apply filter_rows_app|reflexivity]. Qed.

  (* binding comes first: a refused expression raises whatever the rows are -- also without rows *)
  Variable B : cexpr -> bool.

  Lemma apply_filter_refused ce rows : refused B ce = true -> apply_filter X E B ce rows = Err EEval.
  Proof. unfold apply_filter. intros ->. reflexivity. Qed.

  Lemma apply_filter_bound ce rows : refused B ce = false -> apply_filter X E B ce rows = apply_rows X E ce rows.
  Proof. unfold apply_filter. intros ->. reflexivity. Qed.
End Rows.

(* ------------------------------------------------------------------ projection *)
(* a projection the property speaks about: existing columns, at least one *)
Definition valid_cols (sch : list Z) (cols : option (list Z)) : Prop :=
  match cols with None => True | Some cs => cs <> [] /\ forall c, In c cs -> In c sch end.

Lemma concat_tables_fun sch cols :
  valid_cols sch cols -> (fun ts : list (list row) => @Ok (list row) (concat_tables cols ts)) = (fun ts => Ok (concat ts)).
Proof. destruct cols as [[|c cs]|]; simpl; auto. intros [H _]. congruence. Qed.

Lemma concat_tables_valid sch cols ts : valid_cols sch cols -> concat_tables cols ts = concat ts.
Proof. destruct cols as [[|c cs]|]; simpl; auto. intros [H _]. congruence. Qed.

Definition sel (cols : option (list Z)) (rows : list row) : list row :=
  match cols with None => rows | Some cs => map (proj cs) rows end.

Lemma zmem_in c l : zmem c l = true <-> In c l.
Proof.
  unfold zmem. rewrite existsb_exists. split.
  - intros [x [I Q]]. apply Z.eqb_eq in Q. subst. exact I.
  - intro I. exists c. split; auto. apply Z.eqb_refl.
Qed.

Lemma select_valid sch cols rows : valid_cols sch cols -> select sch cols rows = Ok (sel cols rows).
Proof.
  destruct cols as [cs|]; simpl; auto. intros [_ V].
  replace (forallb (fun c => zmem c sch) cs) with true; auto.
  symmetry. apply forallb_forall. intros c I. apply zmem_in. auto.
Qed.

Lemma select_lenient_valid sch cols rows : valid_cols sch cols -> select_lenient sch cols rows = sel cols rows.
Proof.
  destruct cols as [cs|]; simpl; auto. intros [_ V].
  replace (filter (fun c => zmem c sch) cs) with cs; auto.
  symmetry. clear rows. induction cs as [|c cs IH]; simpl; auto.
  replace (zmem c sch) with true by (symmetry; apply zmem_in; apply V; left; auto).
  rewrite IH; auto. intros; apply V; right; auto.
Qed.

Lemma select_invalid sch cs rows c : In c cs -> ~ In c sch -> select sch (Some cs) rows = Err EProj.
Proof.
  intros I NI. simpl. destruct (forallb (fun c0 => zmem c0 sch) cs) eqn:F; auto.
  rewrite forallb_forall in F. specialize (F c I). apply zmem_in in F. contradiction.
Qed.

Lemma sel_app cols a b : sel cols (a ++ b) = sel cols a ++ sel cols b.
Proof. destruct cols; simpl; auto. apply map_app. Qed.

(* ------------------------------------------------------------------ chunking *)
Lemma chunk_aux_concat {A} n : (0 < n)%nat -> forall fuel (l : list A), (length l <= fuel)%nat -> concat (chunk_aux fuel n l) = l.
Proof.
  intros Hn fuel. induction fuel as [|fu IH]; intros l Hl.
  - destruct l; simpl in *; [reflexivity|lia].
  - destruct l as [|a l]; [reflexivity|].
    cbn [chunk_aux concat]. rewrite IH.
    + apply firstn_skipn.
    + rewrite skipn_length. cbn [List.length] in *. lia.
Qed.

Lemma chunk_concat {A} n (l : list A) : (0 < n)%nat -> concat (chunk n l) = l.
Proof. intro Hn. apply chunk_aux_concat; auto. Qed.

(* ------------------------------------------------------------------ every API returns the same *)
Section Agree.
  Variable X : value -> value -> bool.
  Variable E : cexpr -> row -> bool.
  Variable B : cexpr -> bool.
  Variable PA : parg -> bool.
  Variable sch : list Z.
  Variable ids : list (Z * Z).
  Variable bounds : file -> list (Z * value) * list (Z * value).

  (* read, filter, project: the one meaning every path must have *)
  Definition rfp (cols : option (list Z)) (ce : option cexpr) (rows : list row) : res (list row) :=
    bind (apply_filter X E B ce rows) (fun x => Ok (sel cols x)).

  (* ... once the expression is bound: row by row *)
  Definition rfp0 (cols : option (list Z)) (ce : option cexpr) (rows : list row) : res (list row) :=
    bind (apply_rows X E ce rows) (fun x => Ok (sel cols x)).

  Lemma rfp_refused cols ce rows : refused B ce = true -> rfp cols ce rows = Err EEval.
  Proof. intro R. unfold rfp. rewrite apply_filter_refused by exact R. reflexivity. Qed.

  Lemma rfp_bound cols ce rows : refused B ce = false -> rfp cols ce rows = rfp0 cols ce rows.
  Proof. intro R. unfold rfp, rfp0. rewrite apply_filter_bound by exact R. reflexivity. Qed.

  Lemma rfp0_app cols ce a b :
    rfp0 cols ce (a ++ b) = bind (rfp0 cols ce a) (fun x => bind (rfp0 cols ce b) (fun y => Ok (x ++ y))).
  Proof.
    unfold rfp0. rewrite apply_rows_app.
    destruct (apply_rows X E ce a) as [x|]; simpl; auto.
    destruct (apply_rows X E ce b) as [y|]; simpl; auto. rewrite sel_app. reflexivity.
  Qed.

  Lemma rfp0_concat cols ce bs :
    rfp0 cols ce (concat bs) = bind (mapM (rfp0 cols ce) bs) (fun xs => Ok (concat xs)).
  Proof.
    induction bs as [|b bs IH]; simpl.
    - unfold rfp0. destruct ce; simpl; destruct cols; reflexivity.
    - rewrite rfp0_app, IH. destruct (rfp0 cols ce b) as [x|]; simpl; auto.
      destruct (mapM (rfp0 cols ce) bs) as [xs|]; reflexivity.
  Qed.

  Lemma read_verified_rfp cols ce rows : valid_cols sch cols -> read_verified X E B sch cols ce rows = rfp cols ce rows.
  Proof. intro V. unfold read_verified, rfp. apply bind_ext. intro a. apply select_valid; auto. Qed.

  Lemma read_direct_rfp cols ce rows : valid_cols sch cols -> read_direct X E B sch cols ce rows = rfp cols ce rows.
  Proof.
    intro V. unfold read_direct, rfp. destruct ce as [e|].
    - apply bind_ext. intro a. apply select_valid; auto.
    - simpl. apply select_valid; auto.
  Qed.

  Lemma read_one_rfp verify cols ce f : valid_cols sch cols -> read_one X E B sch verify cols ce f = rfp cols ce (frows f).
  Proof. intro V. unfold read_one. destruct (verify && fcs f); [apply read_verified_rfp | apply read_direct_rfp]; auto. Qed.

  Lemma batch_out_rfp cols ce b : valid_cols sch cols -> batch_out X E B sch cols ce b = rfp cols ce b.
  Proof.
    intro V. unfold batch_out, rfp. destruct ce as [e|].
    - apply bind_ext. intro a. apply select_valid; auto.
    - simpl. rewrite select_lenient_valid; auto.
  Qed.

  Definition flat (r : res (list (list row))) : res (list row) := bind r (fun bs => Ok (concat bs)).

  Lemma concat_nil_nil {A} (bs : list (list A)) : bs = [] -> concat bs = [].
  Proof. intros ->. reflexivity. Qed.

  (* the batches of a file, flattened, are read-filter-project of the file -- for a file WITHOUT rows (whatever
     `split` makes of it: no batch at all, or empty batches) thanks to the check on the empty table *)
  Lemma file_batches_flat split cols ce f :
    valid_cols sch cols -> (forall l, concat (split l) = l) ->
    flat (file_batches X E B sch split cols ce f) = rfp cols ce (frows f).
  Proof.
    intros V S. unfold flat, file_batches. rewrite bind_assoc.
    rewrite (mapM_ext _ (rfp cols ce)) by (intros; apply batch_out_rfp; auto).
    destruct (refused B ce) eqn:R.
    - (* refused: the first batch raises; without any batch, the empty-table check does *)
      rewrite (rfp_refused cols ce (frows f) R).
      destruct (split (frows f)) as [|b bs] eqn:Sp.
      + simpl. unfold empty_file_check.
        assert (F0 : frows f = []) by (rewrite <- (S (frows f)), Sp; reflexivity).
        rewrite F0. destruct ce as [e|]; [|discriminate R].
        rewrite apply_filter_refused by exact R. reflexivity.
      + simpl. rewrite (rfp_refused cols ce b R). reflexivity.
    - (* bound: row by row, as before; the check on the empty table passes *)
      rewrite (mapM_ext _ (rfp0 cols ce)) by (intros; apply rfp_bound; exact R).
      rewrite (rfp_bound cols ce (frows f) R).
      transitivity (rfp0 cols ce (concat (split (frows f)))); [|rewrite S; reflexivity]. rewrite rfp0_concat.
      apply bind_ext. intro bs.
      assert (C : exists x, empty_file_check X E B sch cols ce f = Ok x).
      { unfold empty_file_check. destruct (frows f); [|eauto]. destruct ce as [e|]; [|eauto].
        rewrite apply_filter_bound by exact R. simpl. rewrite select_valid by exact V. eauto. }
      destruct C as [x ->]. simpl. rewrite concat_filter_nonempty. reflexivity.
  Qed.

  Lemma mapM_flat {A} (g : A -> res (list (list row))) (h : A -> res (list row)) l :
    (forall a, In a l -> flat (g a) = h a) ->
    flat (bind (mapM g l) (fun bss => Ok (concat bss))) = bind (mapM h l) (fun ts => Ok (concat ts)).
  Proof.
    unfold flat. induction l as [|a l IH]; simpl; intro H; auto.
    rewrite <- (H a (or_introl eq_refl)).
    assert (IH' := IH (fun x Hx => H x (or_intror Hx))). clear IH.
    destruct (g a) as [bs|]; simpl; auto.
    destruct (mapM g l) as [bss|]; simpl in *.
    - destruct (mapM h l) as [ts|]; simpl in *; inversion IH'.
      rewrite concat_app. congruence.
    - destruct (mapM h l) as [ts|]; simpl in *; inversion IH'. reflexivity.
  Qed.

  Lemma prune_p_nil es : prune_p ids bounds es [] = [].
  Proof. unfold prune_p. destruct es; reflexivity. Qed.

  Theorem scan_verify_irrelevant v1 v2 cols flt files :
    valid_cols sch cols ->
    scan_table X E B PA sch ids bounds v1 cols flt files = scan_table X E B PA sch ids bounds v2 cols flt files.
  Proof.
    intro V. unfold scan_table. apply bind_ext. intros [es ce]. simpl.
    destruct files as [|f fs]; auto.
    rewrite (mapM_ext (read_one X E B sch v1 cols ce) (fun f0 => rfp cols ce (frows f0))) by (intros; apply read_one_rfp; auto).
    rewrite (mapM_ext (read_one X E B sch v2 cols ce) (fun f0 => rfp cols ce (frows f0))) by (intros; apply read_one_rfp; auto).
    reflexivity.
  Qed.

  Theorem batches_agree split v cols flt files :
    valid_cols sch cols -> (forall l, concat (split l) = l) ->
    flat (scan_batches X E B PA sch ids bounds split cols flt files) = scan_table X E B PA sch ids bounds v cols flt files.
  Proof.
    intros V S. unfold scan_batches, scan_table, flat at 1. rewrite bind_assoc.
    apply bind_ext. intros [es ce]. simpl.
    destruct files as [|f fs].
    - rewrite prune_p_nil. reflexivity.
    - rewrite (concat_tables_fun sch cols V).
      apply (mapM_flat (file_batches X E B sch split cols ce) (read_one X E B sch v cols ce)).
      intros a _. rewrite file_batches_flat, read_one_rfp; auto.
  Qed.

  Theorem iter_agree v cols flt files :
    valid_cols sch cols ->
    iter_records X E B PA sch ids bounds cols flt files = scan_table X E B PA sch ids bounds v cols flt files.
  Proof.
    intro V. unfold iter_records. apply (batches_agree (chunk 1000) v cols flt files V).
    intro l. apply chunk_concat. lia.
  Qed.
End Agree.

(* ------------------------------------------------------------------ each API returns the SQL answer *)
Lemma mapM_ok {A B} (f : A -> res B) (g : A -> B) l : (forall a, In a l -> f a = Ok (g a)) -> mapM f l = Ok (map g l).
Proof.
  induction l as [|a l IH]; simpl; intro H; auto.
  rewrite (H a (or_introl eq_refl)). simpl. rewrite IH by (intros; apply H; auto). reflexivity.
Qed.

Lemma mapM_length {A B} (f : A -> res B) l out : mapM f l = Ok out -> length out = length l.
Proof. intro M. apply mapM_Forall2 in M. induction M; simpl; auto. Qed.

(* a well-shaped FilterExpression compiles exactly like the fexpr it denotes *)
Lemma condition_to_fexpr PA p e : to_fexpr p = Some e -> condition PA p = compile PA e.
Proof.
  destruct p as [c op a]. unfold to_fexpr, compile, condition, of_fexpr. simpl.
  destruct op; simpl;
    try (destruct a as [v|vs]; intros [= <-]; reflexivity);
    try (destruct (iter_arg a) as [vs|]; [intros [= <-]; reflexivity | discriminate]);
    try (intros [= <-]; reflexivity).
Qed.

Lemma shaped_prunable ps es : map to_fexpr ps = map Some es -> prunable ps = es.
Proof.
  revert es. unfold prunable. induction ps as [|p ps IH]; intros [|e es]; simpl; try discriminate; auto.
  intros [= H1 H2]. rewrite H1. simpl. f_equal. auto.
Qed.

Lemma shaped_compile PA ps es cs :
  map to_fexpr ps = map Some es -> mapM (condition PA) ps = Ok cs -> mapM (compile PA) es = Ok cs.
Proof.
  revert es cs. induction ps as [|p ps IH]; intros [|e es] cs; simpl; try discriminate; auto.
  intros [= H1 H2]. rewrite (condition_to_fexpr PA p e H1).
  destruct (compile PA e) as [c|]; simpl; [|discriminate].
  destruct (mapM (condition PA) ps) as [cs'|] eqn:M; simpl; [|discriminate].
  intros [= <-]. rewrite (IH es cs' H2 eq_refl). reflexivity.
Qed.

Lemma sel_concat cols (ts : list (list row)) : concat (map (sel cols) ts) = sel cols (concat ts).
Proof. induction ts as [|t ts IH]; simpl; [destruct cols; reflexivity|]. rewrite IH, sel_app. reflexivity. Qed.

Lemma filter_concat {A} (p : A -> bool) (ls : list (list A)) : filter p (concat ls) = concat (map (filter p) ls).
Proof. induction ls as [|l ls IH]; simpl; auto. rewrite filter_app, IH. reflexivity. Qed.

Lemma mapM_raises {A R} (g : A -> res R) l a k :
  In a l -> g a = Err k -> (forall x k', g x = Err k' -> k' = k) -> mapM g l = Err k.
Proof.
  induction l as [|a0 l IH]; simpl; [contradiction|]. intros [->|I] Ga U.
  - rewrite Ga. reflexivity.
  - destruct (g a0) as [b|k0] eqn:G0; simpl.
    + rewrite (IH I Ga U). reflexivity.
    + f_equal. eapply U; eauto.
Qed.

Section Spec.
  Variable X : value -> value -> bool.
  Variable E : cexpr -> row -> bool.
  Variable B : cexpr -> bool.
  Variable PA : parg -> bool.
  Variable sch : list Z.
  Variable ids : list (Z * Z).

  Definition stored_bounds (f : file) := file_bounds ids (frows f).

  Lemma pruned_rows_equal ps es files :
    map to_fexpr ps = map Some es -> NoDup (map snd ids) -> (forall f, In f files -> wf_file ids (frows f)) ->
    concat (map (fun f => filter (row_selected X es) (frows f)) (prune_p ids stored_bounds ps files))
    = concat (map (fun f => filter (row_selected X es) (frows f)) files).
  Proof.
    intros Sh ND WF. unfold prune_p. destruct ps as [|p ps']; [reflexivity|]. destruct files as [|f0 fs0]; [reflexivity|].
    rewrite (shaped_prunable _ _ Sh). remember (f0 :: fs0) as files. clear Heqfiles f0 fs0 Sh.
    induction files as [|f fs IH]; simpl; auto.
    assert (WF' : forall f0, In f0 fs -> wf_file ids (frows f0)) by (intros; apply WF; right; auto).
    destruct (file_may_match _ _ ids es) eqn:M; simpl; rewrite (IH WF'); auto.
    rewrite (filter_none (row_selected X es) (frows f)); auto.
    intros r Hr. unfold stored_bounds in M. eapply prune_sound; eauto. apply WF. left; auto.
  Qed.

  Theorem scan_spec v cols flt files ps ce es :
    prepare PA flt = Ok (ps, ce) ->
    map to_fexpr ps = map Some es ->
    valid_cols sch cols ->
    NoDup (map snd ids) -> (forall f, In f files -> wf_file ids (frows f)) ->
    refused B ce = false ->
    (forall e f r, ce = Some e -> In f files -> In r (frows f) -> eval3 X E e r <> None) ->
    scan_table X E B PA sch ids stored_bounds v cols flt files
    = Ok (sel cols (filter (row_selected X es) (concat (map frows files)))).
  Proof.
    intros P Sh V ND WF NB NR. unfold scan_table. rewrite P. simpl.
    rewrite (concat_tables_fun sch cols V).
    destruct files as [|f0 fs0]; [destruct cols; reflexivity|].
    remember (f0 :: fs0) as files. clear Heqfiles f0 fs0.
    rewrite filter_concat, map_map.
    rewrite <- (pruned_rows_equal ps es files Sh ND WF).
    rewrite <- sel_concat, map_map.
    set (files' := prune_p ids stored_bounds ps files).
    assert (Sub : forall f, In f files' -> In f files).
    { unfold files', prune_p. destruct ps; auto. destruct files; auto. intros f1 I. apply filter_In in I. tauto. }
    rewrite (mapM_ok _ (fun f => sel cols (filter (row_selected X es) (frows f)))).
    - reflexivity.
    - intros f I. rewrite read_one_rfp by auto. rewrite (rfp_bound X E B cols ce (frows f) NB). unfold rfp0.
      unfold prepare in P. destruct (parse flt) as [ps0|] eqn:Pa; simpl in P; [|discriminate].
      destruct (build PA ps0) as [ce0|] eqn:Bd; simpl in P; [|discriminate]. inversion P; subst ps0 ce0; clear P.
      unfold build in Bd. destruct (mapM (condition PA) ps) as [cs|] eqn:M; simpl in Bd; [|discriminate].
      injection Bd as G.
      destruct ce as [e|]; simpl.
      + rewrite filter_rows_ok by (intros r Hr; apply (NR e f r eq_refl (Sub f I) Hr)). simpl.
        do 2 f_equal. apply filter_ext_in. intros r Hr.
        pose proof (shaped_compile PA ps es cs Sh M) as MC.
        unfold keeps. destruct (eval3 X E e r) as [t|] eqn:Ev; [|exfalso; apply (NR e f r eq_refl (Sub f I) Hr Ev)].
        pose proof (conj_sound X E PA es cs e MC G r t Ev) as S.
        destruct (row_selected X es r).
        * destruct S as [_ S]. rewrite (S eq_refl). reflexivity.
        * destruct t; auto. destruct S as [S _]. specialize (S eq_refl). discriminate.
      + destruct cs as [|c cs]; [|discriminate]. apply mapM_length in M. destruct ps; [|discriminate].
        destruct es; [|discriminate]. simpl. do 2 f_equal.
        clear. induction (frows f) as [|r rs IH]; simpl; auto. rewrite <- IH. reflexivity.
  Qed.

  (* read-filter-project raises only EEval ... *)
  Lemma rfp_err cols ce rows k : rfp X E B cols ce rows = Err k -> k = EEval.
  Proof.
    unfold rfp, apply_filter. destruct (refused B ce); simpl; [congruence|].
    destruct ce as [e|]; simpl; [|discriminate].
    destruct (filter_rows X E e rows) as [x|k'] eqn:FR; simpl; [discriminate|].
    intros [= <-]. apply filter_rows_err in FR. tauto.
  Qed.

  (* ... and does so when pyarrow refuses to bind the expression (rows or no rows) or refuses one of the rows *)
  Definition pyarrow_refuses (e : cexpr) (rows : list row) : Prop :=
    B e = true \/ exists r, In r rows /\ eval3 X E e r = None.

  Lemma rfp_raises cols e rows : pyarrow_refuses e rows -> rfp X E B cols (Some e) rows = Err EEval.
  Proof.
    unfold rfp, apply_filter. simpl. intros [R|[r [I N]]].
    - rewrite R. reflexivity.
    - destruct (B e); [reflexivity|]. simpl. rewrite (filter_rows_raises X E e rows r I N). reflexivity.
  Qed.

  (* if pyarrow refuses the expression on a file that is read -- at binding, or on one of its rows -- the scan
     raises (by the agreement theorems every API does: refused_raises_everywhere below) *)
  Theorem scan_raises bounds v cols flt files ps e f :
    prepare PA flt = Ok (ps, Some e) -> valid_cols sch cols ->
    In f (prune_p ids bounds ps files) -> pyarrow_refuses e (frows f) ->
    scan_table X E B PA sch ids bounds v cols flt files = Err EEval.
  Proof.
    intros P V I N. unfold scan_table. rewrite P. simpl.
    destruct files as [|f0 fs0]; [rewrite prune_p_nil in I; contradiction|].
    remember (f0 :: fs0) as files. clear Heqfiles.
    rewrite (mapM_raises (read_one X E B sch v cols (Some e)) (prune_p ids bounds ps files) f EEval I); [reflexivity| |].
    - rewrite read_one_rfp by auto. apply rfp_raises. exact N.
    - intros x k' Hx. rewrite read_one_rfp in Hx by auto. eapply rfp_err; eauto.
  Qed.
End Spec.

(* ------------------------------------------------------------------ strict parsing *)
Lemma mem_str_in k l : mem_str k l = true <-> In k l.
Proof.
  unfold mem_str. rewrite existsb_exists. split.
  - intros [x [I Q]]. apply String.eqb_eq in Q. subst. exact I.
  - intro I. exists k. split; auto. apply String.eqb_refl.
Qed.

(* The documented filter language, written down INDEPENDENTLY of the parser and of the regenerated tables:
   what each (lower-cased) operator spelling means ... *)
Definition sql_meaning (s : string) : option fop :=
  if String.eqb s "==" || String.eqb s "=" || String.eqb s "eq" then Some EQ
  else if String.eqb s "!=" || String.eqb s "<>" || String.eqb s "ne" then Some NE
  else if String.eqb s "<" || String.eqb s "lt" then Some LT
  else if String.eqb s "<=" || String.eqb s "le" then Some LE
  else if String.eqb s ">" || String.eqb s "gt" then Some GT
  else if String.eqb s ">=" || String.eqb s "ge" then Some GE
  else if String.eqb s "in" then Some IN
  else if String.eqb s "not_in" || String.eqb s "not in" || String.eqb s "notin" then Some NOT_IN
  else None.

Inductive spelling := SBetween | SIsNull | SIsNotNull | SOp (op : fop).

Definition spelled (s : string) : option spelling :=
  if String.eqb s "between" then Some SBetween
  else if String.eqb s "is_null" || String.eqb s "isnull" then Some SIsNull
  else if String.eqb s "is_not_null" || String.eqb s "notnull" || String.eqb s "isnotnull" then Some SIsNotNull
  else option_map SOp (sql_meaning s).

(* ... and which conditions are filters at all: a known spelling with an argument of the shape it takes --
   `between` a PAIR (not a str, whose characters would be unpacked), is_null / is_not_null the flag True (not False,
   which asks for the opposite), in / not_in anything but a str (whose characters would be iterated; a non-str scalar
   is refused when the expression is built: value_set_scalar_raises); {"c": None} is not one. *)
Definition well_formed (cd : cond) : bool :=
  match cd with
  | CPlain (AVal VNull) => false
  | CPlain _ => true
  | CPair OpOther _ => false
  | CPair (OpStr s) a =>
    match spelled (lower s) with
    | None => false
    | Some SBetween => match a with AList [_; _] => true | _ => false end
    | Some SIsNull | Some SIsNotNull => match a with AVal (VBool true) => true | _ => false end
    | Some (SOp IN) | Some (SOp NOT_IN) => match a with AVal _ => false | AList _ => true end
    | Some (SOp _) => true
    end
  | CPairIter OpOther _ _ => false
  | CPairIter (OpStr s) ik _ =>
    match spelled (lower s) with
    | Some (SOp IN) | Some (SOp NOT_IN) => match ik with IMap => false | _ => true end
    | Some (SOp _) => true
    | _ => false
    end
  end.

(* what a well-formed condition means, again independently: the FilterExpressions it stands for *)
Definition meaning (c : Z) (cd : cond) : list pexpr :=
  match cd with
  | CPlain a => [ {| pcol := c; pop := EQ; pval := a |} ]
  | CPair OpOther _ => []
  | CPair (OpStr s) a =>
    match spelled (lower s), a with
    | Some SBetween, AList [lo; hi] => [ {| pcol := c; pop := GE; pval := AVal lo |}; {| pcol := c; pop := LE; pval := AVal hi |} ]
    | Some SIsNull, _ => [ {| pcol := c; pop := IS_NULL; pval := AVal VNull |} ]
    | Some SIsNotNull, _ => [ {| pcol := c; pop := IS_NOT_NULL; pval := AVal VNull |} ]
    | Some (SOp op), _ => [ {| pcol := c; pop := op; pval := a |} ]
    | _, _ => []
    end
  (* an iterable value set MEANS the values it yields (a comparison keeps it as its literal, rendered as that list) *)
  | CPairIter OpOther _ _ => []
  | CPairIter (OpStr s) _ vs =>
    match spelled (lower s) with
    | Some (SOp op) => [ {| pcol := c; pop := op; pval := AList vs |} ]
    | _ => []
    end
  end.

(* the parser's own classification of a key, by the REGENERATED tables in the order parse_filter_dict tests them *)
Definition key_class (s : string) : option spelling :=
  if String.eqb between_key s then Some SBetween
  else if mem_str s is_null_aliases then Some SIsNull
  else if mem_str s is_not_null_aliases then Some SIsNotNull
  else option_map SOp (assoc_str s op_table).

(* the regenerated alias table IS the independent reading of the operator spellings *)
Theorem op_table_is_sql s : assoc_str s op_table = sql_meaning s.
Proof.
  unfold op_table, sql_meaning. cbn [assoc_str].
  repeat match goal with
         | |- context [String.eqb s ?k] => destruct (String.eqb s k); cbn [orb]; try reflexivity
         end.
Qed.

Theorem op_table_meaning s op : assoc_str s op_table = Some op -> sql_meaning s = Some op.
Proof. rewrite op_table_is_sql. auto. Qed.

Theorem key_class_spelled s : key_class s = spelled s.
Proof.
  unfold key_class, spelled, between_key, is_null_aliases, is_not_null_aliases, mem_str. cbn [existsb].
  rewrite op_table_is_sql, (String.eqb_sym "between" s), !orb_false_r, ?orb_assoc. reflexivity.
Qed.

Lemma parse_one_pair c s a :
  parse_one c (CPair (OpStr s) a) =
  match key_class (lower s) with
  | Some SBetween => bind (unpack2 a) (fun lh => Ok [ {| pcol := c; pop := GE; pval := AVal (fst lh) |};
                                                      {| pcol := c; pop := LE; pval := AVal (snd lh) |} ])
  | Some SIsNull => if flag_true a then Ok [ {| pcol := c; pop := IS_NULL; pval := AVal VNull |} ] else Err EParse
  | Some SIsNotNull => if flag_true a then Ok [ {| pcol := c; pop := IS_NOT_NULL; pval := AVal VNull |} ] else Err EParse
  | Some (SOp op) => if text_value_set op a then Err EParse
                     else bind (value_set op a) (fun a' => Ok [ {| pcol := c; pop := op; pval := a' |} ])
  | None => Err EParse
  end.
Proof.
  unfold parse_one, key_is, key_class, parse_op.
  destruct (String.eqb between_key (lower s)); [reflexivity|].
  destruct (mem_str (lower s) is_null_aliases); [reflexivity|].
  destruct (mem_str (lower s) is_not_null_aliases); [reflexivity|].
  destruct (assoc_str (lower s) op_table); reflexivity.
Qed.

Lemma parse_one_iter c s ik vs :
  parse_one c (CPairIter (OpStr s) ik vs) =
  match key_class (lower s) with
  | Some (SOp op) => bind (value_set_iter op ik vs) (fun a' => Ok [ {| pcol := c; pop := op; pval := a' |} ])
  | _ => Err EParse
  end.
Proof.
  unfold parse_one, key_is, key_class, parse_op.
  destruct (String.eqb between_key (lower s)); [reflexivity|].
  destruct (mem_str (lower s) is_null_aliases); [reflexivity|].
  destruct (mem_str (lower s) is_not_null_aliases); [reflexivity|].
  destruct (assoc_str (lower s) op_table); reflexivity.
Qed.

(* the parser accepts exactly the well-formed conditions, with exactly their meaning *)
Theorem parse_one_spec c cd :
  parse_one c cd = if well_formed cd then Ok (meaning c cd) else Err EParse.
Proof.
  destruct cd as [a|[s|] a|[s|] ik vs].
  - destruct a as [[]|]; reflexivity.
  - rewrite parse_one_pair, key_class_spelled. unfold well_formed, meaning.
    destruct (spelled (lower s)) as [[| | |op]|]; [| | | |reflexivity].
    + destruct a as [v|[|lo [|hi [|x l]]]]; reflexivity.
    + destruct a as [[|[]| | | | | |]|]; reflexivity.
    + destruct a as [[|[]| | | | | |]|]; reflexivity.
    + destruct op; destruct a as [[]|]; reflexivity.
  - reflexivity.
  - rewrite parse_one_iter, key_class_spelled. unfold well_formed, meaning.
    destruct (spelled (lower s)) as [[| | |op]|]; try reflexivity.
    destruct op; destruct ik; reflexivity.
  - reflexivity.
Qed.

Lemma parse_one_err c cd k : parse_one c cd = Err k -> k = EParse.
Proof. rewrite parse_one_spec. destruct (well_formed cd); congruence. Qed.

Lemma parse_err f k : parse f = Err k -> k = EParse.
Proof.
  induction f as [|[c cd] f IH]; simpl; [discriminate|].
  destruct (parse_one c cd) as [es|k'] eqn:P1; simpl.
  - destruct (parse f) as [es'|k'']; simpl; [discriminate|]. intros [= <-]. auto.
  - intros [= <-]. eapply parse_one_err; eauto.
Qed.

Lemma parse_entry_err f c cd : In (c, cd) f -> parse_one c cd = Err EParse -> parse f = Err EParse.
Proof.
  induction f as [|[c' cd'] f IH]; simpl; [contradiction|]. intros [[= -> ->]|I] P1.
  - rewrite P1. reflexivity.
  - destruct (parse_one c' cd') as [es|k] eqn:Q; simpl.
    + rewrite (IH I P1). reflexivity.
    + f_equal. eapply parse_one_err; eauto.
Qed.

(* Malformed filters raise instead of being reinterpreted: the parser fails EXACTLY when some condition of the filter
   is not well-formed, and otherwise returns the meanings of the conditions, in order. *)
Theorem parse_strict f :
  (forall c cd, In (c, cd) f -> well_formed cd = true) /\ parse f = Ok (flat_map (fun ccd => meaning (fst ccd) (snd ccd)) f)
  \/ (exists c cd, In (c, cd) f /\ well_formed cd = false) /\ parse f = Err EParse.
Proof.
  induction f as [|[c cd] f IH]; simpl.
  - left. split; [intros c cd []|reflexivity].
  - rewrite parse_one_spec. destruct (well_formed cd) eqn:W; simpl.
    + destruct IH as [[WF ->]|[[c' [cd' [I W']]] ->]]; simpl.
      * left. split; [|reflexivity]. intros c' cd' [[= <- <-]|I]; auto. eapply WF; eauto.
      * right. split; [|reflexivity]. exists c', cd'. auto.
    + right. split; [|reflexivity]. exists c, cd. auto.
Qed.

Corollary malformed_parse_error f c cd : In (c, cd) f -> well_formed cd = false -> parse f = Err EParse.
Proof. intros I W. apply (parse_entry_err f c cd I). rewrite parse_one_spec, W. reflexivity. Qed.

(* accepted operators are used as the table says -- never replaced by another one *)
Theorem parse_one_faithful c s a ps :
  parse_one c (CPair (OpStr s) a) = Ok ps ->
  (lower s = between_key /\ exists lo hi, unpack2 a = Ok (lo, hi) /\
      ps = [ {| pcol := c; pop := GE; pval := AVal lo |}; {| pcol := c; pop := LE; pval := AVal hi |} ])
  \/ (In (lower s) is_null_aliases /\ flag_true a = true /\ ps = [ {| pcol := c; pop := IS_NULL; pval := AVal VNull |} ])
  \/ (In (lower s) is_not_null_aliases /\ flag_true a = true /\ ps = [ {| pcol := c; pop := IS_NOT_NULL; pval := AVal VNull |} ])
  \/ (exists op, assoc_str (lower s) op_table = Some op /\ text_value_set op a = false /\ ps = [ {| pcol := c; pop := op; pval := a |} ]).
Proof.
  rewrite parse_one_pair. unfold key_class.
  destruct (String.eqb_spec between_key (lower s)) as [Q|_].
  { destruct (unpack2 a) as [[lo hi]|] eqn:U; cbn [bind fst snd]; [|discriminate]. intros [= <-]. left. split; auto. exists lo, hi. auto. }
  destruct (mem_str (lower s) is_null_aliases) eqn:M1.
  { destruct (flag_true a) eqn:Fl; [|discriminate]. intros [= <-]. right. left. split; [apply mem_str_in; auto|auto]. }
  destruct (mem_str (lower s) is_not_null_aliases) eqn:M2.
  { destruct (flag_true a) eqn:Fl; [|discriminate]. intros [= <-]. right. right. left. split; [apply mem_str_in; auto|auto]. }
  destruct (assoc_str (lower s) op_table) as [op|] eqn:A; cbn [option_map]; [|discriminate].
  destruct (text_value_set op a) eqn:T; [discriminate|].
  destruct (value_set op a) as [a'|] eqn:V; cbn [bind]; [|discriminate].
  assert (a' = a) by (unfold value_set in V; destruct op, a; congruence). subst a'.
  intros [= <-]. right. right. right. exists op. auto.
Qed.

(* every FilterOp value string is itself accepted, with its own meaning; the special keys do not
   collide with the table (so the order of the tests in parse_filter_dict is immaterial) *)
Theorem op_table_canonical :
  assoc_str "==" op_table = Some EQ /\ assoc_str "!=" op_table = Some NE /\ assoc_str "<" op_table = Some LT
  /\ assoc_str "<=" op_table = Some LE /\ assoc_str ">" op_table = Some GT /\ assoc_str ">=" op_table = Some GE
  /\ assoc_str "in" op_table = Some IN /\ assoc_str "not_in" op_table = Some NOT_IN
  /\ forallb (fun k => match assoc_str k op_table with None => true | Some _ => false end)
             (between_key :: is_null_aliases ++ is_not_null_aliases) = true
  /\ mem_str "is_null" is_null_aliases = true /\ mem_str "is_not_null" is_not_null_aliases = true
  /\ between_key = "between"%string.
Proof. vm_compute. repeat split. Qed.

(* the special keys of parse_filter_dict against an independent reading of their spellings *)
Theorem special_keys_meaning :
  between_key = "between"%string
  /\ (forall s, In s is_null_aliases -> s = "is_null"%string \/ s = "isnull"%string)
  /\ (forall s, In s is_not_null_aliases -> s = "is_not_null"%string \/ s = "notnull"%string \/ s = "isnotnull"%string)
  /\ In "is_null"%string is_null_aliases /\ In "is_not_null"%string is_not_null_aliases
  /\ (forall s, In s (between_key :: is_null_aliases ++ is_not_null_aliases) -> assoc_str s op_table = None).
Proof.
  split; [reflexivity|].
  split; [intros s H; simpl in H; intuition|].
  split; [intros s H; simpl in H; intuition|].
  split; [simpl; intuition|]. split; [simpl; intuition|].
  intros s H. simpl in H. intuition (subst; reflexivity).
Qed.

Section Malformed.
  Variable X : value -> value -> bool.
  Variable E : cexpr -> row -> bool.
  Variable B : cexpr -> bool.
  Variable PA : parg -> bool.
  Variable sch : list Z.
  Variable ids : list (Z * Z).
  Variable bounds : file -> list (Z * value) * list (Z * value).

  (* a filter the front end rejects (parse or build) is rejected by every API, on every table --
     including the empty one and one whose files would all be pruned *)
  Theorem malformed_raises_everywhere flt k :
    prepare PA flt = Err k ->
    forall v split cols files,
      scan_table X E B PA sch ids bounds v cols flt files = Err k
      /\ scan_batches X E B PA sch ids bounds split cols flt files = Err k
      /\ iter_records X E B PA sch ids bounds cols flt files = Err k.
  Proof.
    intros P v split cols files. unfold iter_records, scan_table, scan_batches. rewrite P. simpl. auto.
  Qed.

  Lemma prepare_parse_err flt : parse flt = Err EParse -> prepare PA flt = Err EParse.
  Proof. intro H. unfold prepare. rewrite H. reflexivity. Qed.
End Malformed.

(* ------------------------------------------------------------------ why the projection comes last *)
Section ProjectAfter.
  Variable X : value -> value -> bool.
  Variable E : cexpr -> row -> bool.
  Variable B : cexpr -> bool.

  Lemma eval3_missing e r : (exists c, In c (fields e) /\ lookup c r = None) -> eval3 X E e r = None.
  Proof.
    induction e as [op c lit|c vals|a IH|a IHa b IHb|c|c|b]; simpl; intros [c0 [I L]].
    - destruct I as [<-|[]]. rewrite L. reflexivity.
    - destruct I as [<-|[]]. rewrite L. reflexivity.
    - rewrite IH by eauto. reflexivity.
    - apply in_app_or in I. destruct I as [I|I].
      + rewrite IHa by eauto. reflexivity.
      + rewrite IHb by eauto. destruct (eval3 X E a r); reflexivity.
    - destruct I as [<-|[]]. rewrite L. reflexivity.
    - destruct I as [<-|[]]. rewrite L. reflexivity.
    - contradiction.
  Qed.

  Lemma lookup_proj_none cs r c : ~ In c cs -> lookup c (proj cs r) = None.
  Proof.
    unfold proj. induction cs as [|a cs IH]; simpl; intro NI; auto.
    destruct (Z.eqb_spec c a); [exfalso; apply NI; auto|]. apply IH. intro; apply NI; auto.
  Qed.

  Theorem project_first_fails sch cs e rows c :
    valid_cols sch (Some cs) -> In c (fields e) -> ~ In c cs -> rows <> [] ->
    read_project_first X E B sch (Some cs) (Some e) rows = Err EEval.
  Proof.
    intros V I NI NE. unfold read_project_first. rewrite select_valid by auto. simpl.
    unfold apply_filter. simpl. destruct (B e); [reflexivity|].
    destruct rows as [|r rs]; [contradiction|]. simpl.
    rewrite eval3_missing; auto. exists c. split; auto. apply lookup_proj_none; auto.
  Qed.

  (* the compiled form of one expression reads its own column only *)
  Lemma compile_fields PA e ce : compile PA e = Ok ce -> forall c, In c (fields ce) -> c = fcol e.
  Proof.
    destruct e as [c0 op sv lv]. unfold compile, condition, of_fexpr; simpl.
    destruct op; simpl;
      try (unfold mk_cmp; destruct (PA (AVal sv)); [|discriminate]; intros [= <-] c; simpl; intuition);
      try (intros [= <-] c; simpl; intuition);
      (destruct (is_empty_list (not_none lv));
       [intros [= <-] c; simpl; intuition
       |unfold mk_is_in; destruct (PA (AList (not_none lv))); simpl; [|discriminate]; intros [= <-] c; simpl; intuition]).
  Qed.
End ProjectAfter.

(* ------------------------------------------------------------------ summary lemmas used by Props/C12.v *)
(* the literal pyarrow has to accept when the expression of a well-shaped fexpr is built *)
Definition literal_of (e : fexpr) : option parg :=
  match fop_ e with
  | IN | NOT_IN => match not_none (flval e) with [] => None | vs => Some (AList vs) end
  | IS_NULL | IS_NOT_NULL => None
  | _ => Some (AVal (fsval e))
  end.

(* a well-shaped expression fails to compile only when pyarrow refuses its literal (pa.scalar of the
   comparison value, pa.array of the non-empty in / not_in value set) *)
Lemma compile_err PA e k :
  compile PA e = Err k -> k = EBuild /\ exists a, literal_of e = Some a /\ PA a = false.
Proof.
  destruct e as [c op sv lv]. unfold compile, condition, of_fexpr, literal_of; simpl.
  destruct op; simpl; try discriminate;
    try (unfold mk_cmp; destruct (PA (AVal sv)) eqn:P; [discriminate|]; intros [= <-]; split; eauto);
    (destruct (not_none lv) as [|w ws] eqn:NN; simpl; [discriminate|];
     unfold mk_is_in; destruct (PA (AList (w :: ws))) eqn:P; simpl; [discriminate|];
     intros [= <-]; split; eauto).
Qed.

Lemma compile_ok PA e :
  (forall a, literal_of e = Some a -> PA a = true) -> exists ce, compile PA e = Ok ce.
Proof.
  intro H. destruct (compile PA e) as [ce|k] eqn:C; eauto.
  apply compile_err in C. destruct C as [_ [a [L P]]]. rewrite (H a L) in P. discriminate.
Qed.

Section Summary.
  Variable X : value -> value -> bool.
  Variable E : cexpr -> row -> bool.
  Variable B : cexpr -> bool.
  Variable PA : parg -> bool.
  Variable sch : list Z.
  Variable ids : list (Z * Z).

  Theorem api_agree bounds split v cols flt files :
    valid_cols sch cols -> (forall l, concat (split l) = l) ->
    let reference := scan_table X E B PA sch ids bounds true cols flt files in
    scan_table X E B PA sch ids bounds v cols flt files = reference
    /\ flat (scan_batches X E B PA sch ids bounds split cols flt files) = reference
    /\ iter_records X E B PA sch ids bounds cols flt files = reference.
  Proof.
    intros V S. cbv zeta. repeat split.
    - apply scan_verify_irrelevant; auto.
    - apply batches_agree; auto.
    - apply iter_agree; auto.
  Qed.

  Theorem api_sql split v cols flt files ps ce es :
    prepare PA flt = Ok (ps, ce) ->
    map to_fexpr ps = map Some es ->
    valid_cols sch cols -> (forall l, concat (split l) = l) ->
    NoDup (map snd ids) -> (forall f, In f files -> wf_file ids (frows f)) ->
    refused B ce = false ->
    (forall e f r, ce = Some e -> In f files -> In r (frows f) -> eval3 X E e r <> None) ->
    let answer := Ok (sel cols (filter (row_selected X es) (concat (map frows files)))) in
    scan_table X E B PA sch ids (stored_bounds ids) v cols flt files = answer
    /\ flat (scan_batches X E B PA sch ids (stored_bounds ids) split cols flt files) = answer
    /\ iter_records X E B PA sch ids (stored_bounds ids) cols flt files = answer.
  Proof.
    intros P Sh V S ND WF NB NR. cbv zeta.
    pose proof (scan_spec X E B PA sch ids true cols flt files ps ce es P Sh V ND WF NB NR) as R.
    destruct (api_agree (stored_bounds ids) split v cols flt files V S) as [A1 [A2 A3]].
    cbv zeta in *. rewrite A1, A2, A3. auto.
  Qed.

  (* when pyarrow refuses the expression on a file that is read -- at BINDING (then the file need not have a row), or
     on one of its rows -- EVERY API raises *)
  Theorem refused_raises_everywhere bounds split v cols flt files ps e f :
    prepare PA flt = Ok (ps, Some e) -> valid_cols sch cols -> (forall l, concat (split l) = l) ->
    In f (prune_p ids bounds ps files) -> pyarrow_refuses X E B e (frows f) ->
    scan_table X E B PA sch ids bounds v cols flt files = Err EEval
    /\ flat (scan_batches X E B PA sch ids bounds split cols flt files) = Err EEval
    /\ iter_records X E B PA sch ids bounds cols flt files = Err EEval.
  Proof.
    intros P V S I N.
    pose proof (scan_raises X E B PA sch ids bounds true cols flt files ps e f P V I N) as R.
    destruct (api_agree bounds split v cols flt files V S) as [A1 [A2 A3]].
    cbv zeta in *. rewrite A1, A2, A3. auto.
  Qed.
End Summary.

(* ------------------------------------------------------------------ a data file without rows
   Why _iter_file_batches must show the EMPTY table of a file without rows to pyarrow: without that check
   (`file_batches_unchecked`, the code before the repair) the batch APIs evaluate nothing on such a file and return no
   rows, while scan() raises on an expression pyarrow cannot bind -- the APIs disagree. *)
Theorem unchecked_batches_disagree :
  exists (X : value -> value -> bool) (E : cexpr -> row -> bool) (B : cexpr -> bool) (PA : parg -> bool)
         (sch : list Z) (ids : list (Z * Z)) (bounds : file -> list (Z * value) * list (Z * value))
         (cols : option (list Z)) (flt : pyfilter) (files : list file),
    valid_cols sch cols
    /\ scan_table X E B PA sch ids bounds true cols flt files = Err EEval
    /\ flat (scan_batches_unchecked X E B PA sch ids bounds (chunk 1000) cols flt files) = Ok []
    /\ flat (scan_batches X E B PA sch ids bounds (chunk 1000) cols flt files) = Err EEval.
Proof.
  exists (fun _ _ => false), (fun _ _ => false), (fun _ => true), (fun _ => true), [0], [(0, 1)], (fun _ => ([], [])),
         None, [(0, CPlain (AVal (VStr [120])))], [ {| frows := []; fcs := true |} ].
  split; [exact I|]. vm_compute. auto.
Qed.

(* ------------------------------------------------------------------ in / not_in need a list *)
Lemma parse_in f : forall ps c cd, parse f = Ok ps -> In (c, cd) f -> forall p, In p (meaning c cd) -> In p ps.
Proof.
  induction f as [|[c0 cd0] f IH]; simpl; intros ps c cd P I p Ip; [contradiction|].
  rewrite parse_one_spec in P. destruct (well_formed cd0); simpl in P; [|discriminate].
  destruct (parse f) as [ps'|] eqn:Pf; simpl in P; [|discriminate]. injection P as <-.
  apply in_or_app. destruct I as [[= -> ->]|I]; [left; exact Ip|right; eapply IH; eauto].
Qed.

Lemma mapM_in_err {A R} (g : A -> res R) l a k : In a l -> g a = Err k -> exists k', mapM g l = Err k'.
Proof.
  induction l as [|a0 l IH]; simpl; [contradiction|]. intros [->|I] Ga.
  - rewrite Ga. simpl. eauto.
  - destruct (g a0); simpl; [|eauto]. destruct (IH I Ga) as [k' ->]. simpl. eauto.
Qed.

Lemma spelled_value_set s op : (op = IN \/ op = NOT_IN) -> sql_meaning s = Some op -> spelled s = Some (SOp op).
Proof.
  intros Hop M. unfold spelled.
  assert (N : forall k, String.eqb s k = true -> sql_meaning s = sql_meaning k)
    by (intros k Q; apply String.eqb_eq in Q; rewrite Q; reflexivity).
  destruct (String.eqb s "between") eqn:Q1; [rewrite (N _ Q1) in M; vm_compute in M; destruct Hop; subst; discriminate|].
  destruct (String.eqb s "is_null") eqn:Q2; [rewrite (N _ Q2) in M; vm_compute in M; destruct Hop; subst; discriminate|].
  destruct (String.eqb s "isnull") eqn:Q3; [rewrite (N _ Q3) in M; vm_compute in M; destruct Hop; subst; discriminate|].
  destruct (String.eqb s "is_not_null") eqn:Q4; [rewrite (N _ Q4) in M; vm_compute in M; destruct Hop; subst; discriminate|].
  destruct (String.eqb s "notnull") eqn:Q5; [rewrite (N _ Q5) in M; vm_compute in M; destruct Hop; subst; discriminate|].
  destruct (String.eqb s "isnotnull") eqn:Q6; [rewrite (N _ Q6) in M; vm_compute in M; destruct Hop; subst; discriminate|].
  cbn [orb]. rewrite M. reflexivity.
Qed.

Lemma spelled_in_not_in s :
  sql_meaning s = Some IN \/ sql_meaning s = Some NOT_IN -> exists op, (op = IN \/ op = NOT_IN) /\ spelled s = Some (SOp op).
Proof. intros [M|M]; [exists IN|exists NOT_IN]; (split; [auto|apply spelled_value_set; auto]). Qed.

(* a SCALAR where in / not_in take a list is never "a set of one", and a MAPPING is not the set of its keys: the parser
   refuses both -- hence every API on every table (malformed_raises_everywhere) *)
Theorem value_set_scalar_raises PA f c s v :
  In (c, CPair (OpStr s) (AVal v)) f -> (sql_meaning (lower s) = Some IN \/ sql_meaning (lower s) = Some NOT_IN) ->
  prepare PA f = Err EParse.
Proof.
  intros I M. destruct (spelled_in_not_in _ M) as [op [Hop Sp]].
  assert (W : well_formed (CPair (OpStr s) (AVal v)) = false).
  { unfold well_formed. rewrite Sp. destruct Hop as [-> | ->]; reflexivity. }
  unfold prepare. rewrite (malformed_parse_error f c _ I W). reflexivity.
Qed.

Theorem value_set_mapping_raises PA f c s vs :
  In (c, CPairIter (OpStr s) IMap vs) f -> (sql_meaning (lower s) = Some IN \/ sql_meaning (lower s) = Some NOT_IN) ->
  prepare PA f = Err EParse.
Proof.
  intros I M. destruct (spelled_in_not_in _ M) as [op [Hop Sp]].
  assert (W : well_formed (CPairIter (OpStr s) IMap vs) = false).
  { unfold well_formed. rewrite Sp. destruct Hop as [-> | ->]; reflexivity. }
  unfold prepare. rewrite (malformed_parse_error f c _ I W). reflexivity.
Qed.

(* ------------------------------------------------------------------ value sets of every iterable kind *)
(* two conditions that differ only in WHAT HOLDS the in / not_in value set: some iterable that is not a mapping -- a set,
   a dict view, a range, an iterator or a generator that can be read only once -- against the list of the same values *)
Inductive same_cond : cond -> cond -> Prop :=
| sc_same cd : same_cond cd cd
| sc_iter s ik vs :
    ik <> IMap -> (sql_meaning (lower s) = Some IN \/ sql_meaning (lower s) = Some NOT_IN) ->
    same_cond (CPairIter (OpStr s) ik vs) (CPair (OpStr s) (AList vs)).

Definition same_filter (f f' : pyfilter) : Prop := Forall2 (fun x y => fst x = fst y /\ same_cond (snd x) (snd y)) f f'.

Lemma parse_one_same c cd cd' : same_cond cd cd' -> parse_one c cd = parse_one c cd'.
Proof.
  intros [cd0|s ik vs NM M]; [reflexivity|].
  destruct (spelled_in_not_in _ M) as [op [Hop Sp]].
  rewrite !parse_one_spec. unfold well_formed, meaning. rewrite Sp.
  destruct Hop as [-> | ->]; destruct ik; try reflexivity; contradiction.
Qed.

(* the FilterExpressions -- hence the expression every API evaluates AND the expressions file pruning reads -- are those
   of the list: the value set is read once, when the filter is parsed *)
Theorem parse_same f f' : same_filter f f' -> parse f = parse f'.
Proof.
  induction 1 as [|[c cd] [c' cd'] f f' [Hc Hs] _ IH]; [reflexivity|].
  simpl in Hc, Hs. subst c'. simpl. rewrite (parse_one_same c cd cd' Hs), IH. reflexivity.
Qed.

Section ValueSetKind.
  Variable X : value -> value -> bool.
  Variable E : cexpr -> row -> bool.
  Variable B : cexpr -> bool.
  Variable PA : parg -> bool.
  Variable sch : list Z.
  Variable ids : list (Z * Z).
  Variable bounds : file -> list (Z * value) * list (Z * value).

  Theorem value_set_kind_irrelevant f f' :
    same_filter f f' ->
    forall v split cols files,
      scan_table X E B PA sch ids bounds v cols f files = scan_table X E B PA sch ids bounds v cols f' files
      /\ scan_batches X E B PA sch ids bounds split cols f files = scan_batches X E B PA sch ids bounds split cols f' files
      /\ iter_records X E B PA sch ids bounds cols f files = iter_records X E B PA sch ids bounds cols f' files.
  Proof.
    intros S v split cols files. pose proof (parse_same f f' S) as P.
    unfold iter_records, scan_table, scan_batches, prepare. rewrite P. auto.
  Qed.
End ValueSetKind.

(* WHY the value set has to be read once: what the two readers of the unrepaired code saw of a one-shot iterable -- the
   expression builder (first iteration) every value, file pruning (second iteration) none *)
Theorem one_shot_second_reading_empty vs : iterate IOnce vs 0 = vs /\ iterate IOnce vs 1 = [] /\ iterate IAgain vs 1 = vs.
Proof. repeat split. Qed.

(* ------------------------------------------------------------------ the empty projection *)
Theorem api_agree_empty_projection_refuted :
  ~ (forall (X : value -> value -> bool) (E : cexpr -> row -> bool) (B : cexpr -> bool) (PA : parg -> bool)
            (sch : list Z) (ids : list (Z * Z)) (bounds : file -> list (Z * value) * list (Z * value))
            (split : list row -> list (list row)) (v : bool) (cs : list Z) (flt : pyfilter) (files : list file),
       (forall c, In c cs -> In c sch) -> (forall l, concat (split l) = l) ->
       flat (scan_batches X E B PA sch ids bounds split (Some cs) flt files) = scan_table X E B PA sch ids bounds v (Some cs) flt files).
Proof.
  intro H.
  specialize (H (fun _ _ => false) (fun _ _ => false) (fun _ => false) (fun _ => true) [0] [(0, 1)] (fun _ => ([], []))
                (chunk 1) true [] [] [ {| frows := [ [(0, VInt 1)] ]; fcs := true |} ]).
  assert (S : forall l : list row, concat (chunk 1 l) = l) by (intro l; apply chunk_concat; lia).
  specialize (H (fun c F => match F with end) S). vm_compute in H. discriminate.
Qed.

(* ------------------------------------------------------------------ when pyarrow evaluates *)
(* A sufficient condition for the "pyarrow does not refuse" hypothesis of api_sql: every column the
   expression reads exists, scalar literals are comparable with the cells (or NULL is involved), and
   pyarrow refuses nothing beyond the Python-incomparable pairs (E = nothing). *)
Fixpoint typed (e : cexpr) (r : row) : Prop :=
  match e with
  | Cmp _ c (AVal l) => exists v, lookup c r = Some v /\ (is_null v = true \/ is_null l = true \/ vcmp v l <> None)
  | Cmp _ _ (AList _) => False
  | IsIn c _ | IsValid c | IsNull c => lookup c r <> None
  | Not a => typed a r
  | And a b => typed a r /\ typed b r
  | Scalar _ => True
  end.

Lemma typed_defined X e r : typed e r -> eval3 X (fun _ _ => false) e r <> None.
Proof.
  induction e as [op c lit|c vals|a IH|a IHa b IHb|c|c|b]; simpl.
  - destruct lit as [l|vs]; [|contradiction]. intros [v [L H]]. rewrite L. unfold eval_cmp.
    destruct (is_null v); simpl; [discriminate|]. destruct (is_null l); simpl; [discriminate|].
    destruct H as [H|[H|H]]; try discriminate. destruct (vcmp v l); [discriminate|congruence].
  - destruct (lookup c r); [discriminate|congruence].
  - intro T. specialize (IH T). destruct (eval3 X _ a r); [discriminate|congruence].
  - intros [Ta Tb]. specialize (IHa Ta). specialize (IHb Tb).
    destruct (eval3 X _ a r); [|congruence]. destruct (eval3 X _ b r); [discriminate|congruence].
  - destruct (lookup c r); [discriminate|congruence].
  - destruct (lookup c r); [discriminate|congruence].
  - discriminate.
Qed.

(* ------------------------------------------------------------------ NOT IN and NULLs in the value set
   The property text says "in/not_in never match NULL" about the CELL; Table.scan documents that a NULL in the value set
   "matches nothing and is dropped".  That is NOT the SQL standard's reading of `v NOT IN (w1, ..., NULL)`: there
   NOT (v = w1 OR ... OR v = NULL) is UNKNOWN when no wi matches, and the row is not selected.  `sql3_not_in` is the
   standard's three-valued value; the library (and `selected`, the specification of this check) selects exactly the rows on
   which it is TRUE plus those on which it is UNKNOWN only because of NULLs in the value set. *)
Definition sql3_not_in (X : value -> value -> bool) (v : value) (vals : list value) : tv :=
  if is_null v then TN
  else if existsb (fun w => negb (is_null w) && in_eq X v w) vals then TF
  else if existsb is_null vals then TN
  else TT.

Theorem not_in_vs_sql3 X v vals :
  selected X NOT_IN v VNull vals = true
  <-> sql3_not_in X v vals = TT \/ (sql3_not_in X v vals = TN /\ is_null v = false /\ existsb is_null vals = true).
Proof.
  unfold selected, sql3_not_in. destruct (is_null v); [intuition discriminate|].
  destruct (existsb (fun w => negb (is_null w) && in_eq X v w) vals); simpl; [intuition discriminate|].
  destruct (existsb is_null vals); intuition.
Qed.

(* 4 NOT IN (3, NULL): selected here, UNKNOWN (not selected) by the SQL standard *)
Theorem not_in_null_differs_from_sql :
  forall X, selected X NOT_IN (VInt 4) VNull [VInt 3; VNull] = true /\ sql3_not_in X (VInt 4) [VInt 3; VNull] = TN.
Proof. intro X. vm_compute. auto. Qed.
