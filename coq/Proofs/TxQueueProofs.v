(* Proofs/TxQueueProofs.v -- what one attempt of Transaction.commit hands to the commit protocol is the WHOLE operation
   queue: every appended file, every path to delete, the largest cutoff -- and nothing else.  Over the regenerated
   partition (Gen/GenFileOps.v gen_partition); that every attempt of the retry loop recomputes it from the unchanged
   queue and that nothing edits the result afterwards are two facts counted on the source (gen_partition_per_attempt,
   gen_partition_args_kept). *)
From Coq Require Import ZArith List Bool Lia.
Require Import DS.Model.MetaBase DS.Model.Meta DS.Model.MetaPy DS.Gen.GenFileOps DS.Proofs.FileOpsGenProofs.
Import ListNotations.
Open Scope Z_scope.

Lemma tx_adds_spec ops f : In f (tx_adds ops) <-> exists fs, In (TAppend fs) ops /\ In f fs.
Proof.
  unfold tx_adds. rewrite in_flat_map. split.
  - intros [o [Ho Hf]]. destruct o as [fs|ps|c]; try contradiction. exists fs. split; assumption.
  - intros [fs [Ho Hf]]. exists (TAppend fs). split; assumption.
Qed.

Lemma tx_dels_spec ops p : In p (tx_dels ops) <-> exists ps, In (TDelete ps) ops /\ In p ps.
Proof.
  unfold tx_dels. rewrite in_flat_map. split.
  - intros [o [Ho Hf]]. destruct o as [fs|ps|c]; try contradiction. exists ps. split; assumption.
  - intros [ps [Ho Hf]]. exists (TDelete ps). split; assumption.
Qed.

Definition expire_step (acc : option Z) (o : txop) : option Z :=
  match o with TExpire c => Some (match acc with None => c | Some a => Z.max a c end) | _ => acc end.

Lemma expire_fold_ge ops : forall acc a, acc = Some a -> exists e, fold_left expire_step ops acc = Some e /\ a <= e.
Proof.
  induction ops as [|o ops IH]; intros acc a Ha; cbn [fold_left].
  - exists a. split; [exact Ha | lia].
  - destruct o as [fs|ps|c]; cbn [expire_step]; try (apply IH; exact Ha).
    subst acc. destruct (IH (Some (Z.max a c)) (Z.max a c) eq_refl) as [e [He Hle]]. exists e. split; [exact He | lia].
Qed.

Lemma expire_fold_covers ops : forall acc c, In (TExpire c) ops -> exists e, fold_left expire_step ops acc = Some e /\ c <= e.
Proof.
  induction ops as [|o ops IH]; intros acc c Hin; [contradiction|]. cbn [fold_left].
  destruct Hin as [-> | Hin].
  - cbn [expire_step]. destruct acc as [a|].
    + destruct (expire_fold_ge ops (Some (Z.max a c)) (Z.max a c) eq_refl) as [e [He Hle]]. exists e. split; [exact He | lia].
    + destruct (expire_fold_ge ops (Some c) c eq_refl) as [e [He Hle]]. exists e. split; [exact He | lia].
  - apply IH. exact Hin.
Qed.

Lemma expire_fold_none ops : (forall c, ~ In (TExpire c) ops) -> fold_left expire_step ops None = None.
Proof.
  induction ops as [|o ops IH]; intros H; [reflexivity|]. cbn [fold_left].
  destruct o as [fs|ps|c]; cbn [expire_step].
  - apply IH. intros c Hc. apply (H c). right. exact Hc.
  - apply IH. intros c Hc. apply (H c). right. exact Hc.
  - exfalso. apply (H c). left. reflexivity.
Qed.

(* The whole queue, nothing more: *)
Lemma partition_whole_queue ops :
  let '(a, d, e) := gen_partition ops in
  (forall f, In f a <-> exists fs, In (TAppend fs) ops /\ In f fs)
  /\ (forall p, In p d <-> exists ps, In (TDelete ps) ops /\ In p ps)
  /\ (forall c, In (TExpire c) ops -> exists e', e = Some e' /\ c <= e')
  /\ ((forall c, ~ In (TExpire c) ops) -> e = None).
Proof.
  rewrite gen_partition_agrees. repeat split.
  - apply tx_adds_spec.
  - apply tx_adds_spec.
  - apply tx_dels_spec.
  - apply tx_dels_spec.
  - intros c Hc. apply (expire_fold_covers ops None c Hc).
  - intros H. apply expire_fold_none. exact H.
Qed.

(* The two counted source facts, as computed on the current source. *)
Lemma attempt_facts_hold : gen_partition_per_attempt = true /\ gen_partition_args_kept = true.
Proof. split; reflexivity. Qed.
