(* Proofs/HintProofs.v -- pointer parsing, rendering and recovery (C10), code-point level. *)
From Coq Require Import ZArith NArith Lia ZifyBool List Bool.
Require Import DS.Model.HintPrim DS.Gen.GenHint DS.Model.Hint.
Import ListNotations.
Open Scope N_scope.

(* ------------------------------------------------------------------ parse never raises *)
Lemma parse_total : forall d, exists r, parse_hint d = PRet r.
Proof.
  intro d. unfold parse_hint, gen_parse_hint.
  repeat match goal with
         | |- exists r, PRet _ = PRet r => eexists; reflexivity
         | |- context [match ?x with _ => _ end] => destruct x
         end.
Qed.

(* ------------------------------------------------------------------ decimal digits *)
Definition dval (acc : N) (ds : list N) : N := fold_left (fun a d => 10 * a + d) ds acc.

Lemma dig_fuel_val : forall f n acc, n < 2 ^ N.of_nat f -> dval 0 (dig_fuel f n acc) = dval n acc.
Proof.
  induction f as [|f IH]; intros n acc Hn.
  - change (2 ^ N.of_nat 0) with 1 in Hn. assert (n = 0) by lia. subst. reflexivity.
  - cbn [dig_fuel]. destruct (N.eqb_spec (n / 10) 0) as [E|E].
    + unfold dval; cbn [fold_left]. f_equal.
      pose proof (N.div_mod n 10). lia.
    + rewrite IH.
      * unfold dval; cbn [fold_left]. f_equal. pose proof (N.div_mod n 10). lia.
      * rewrite Nat2N.inj_succ, N.pow_succ_r' in Hn.
        apply N.div_lt_upper_bound; lia.
Qed.

Lemma digits_val : forall n, dval 0 (digits_of n) = n.
Proof.
  intro n. unfold digits_of. rewrite dig_fuel_val.
  - reflexivity.
  - rewrite N2Nat.id. apply N.size_gt.
Qed.

Lemma dig_fuel_lt10 : forall f n acc, Forall (fun d => d < 10) acc -> Forall (fun d => d < 10) (dig_fuel f n acc).
Proof.
  induction f as [|f IH]; intros n acc H; cbn [dig_fuel].
  - constructor; [apply N.mod_lt; lia|exact H].
  - destruct (n / 10 =? 0).
    + constructor; [apply N.mod_lt; lia|exact H].
    + apply IH. constructor; [apply N.mod_lt; lia|exact H].
Qed.

Lemma digits_lt10 : forall n, Forall (fun d => d < 10) (digits_of n).
Proof. intro n. apply dig_fuel_lt10. constructor. Qed.

Lemma dig_fuel_nonempty : forall f n acc, dig_fuel f n acc <> [].
Proof.
  induction f as [|f IH]; intros n acc; cbn [dig_fuel].
  - discriminate.
  - destruct (n / 10 =? 0); [discriminate|apply IH].
Qed.

Lemma digits_nonempty : forall n, digits_of n <> [].
Proof. intro n. apply dig_fuel_nonempty. Qed.

Lemma digits_inj : forall a b, digits_of a = digits_of b -> a = b.
Proof. intros a b H. rewrite <- (digits_val a), <- (digits_val b), H. reflexivity. Qed.

(* ------------------------------------------------------------------ classification of rendered characters *)
Lemma digit_cp_dec : forall d, d < 10 -> dec (digit_cp d) = Some d.
Proof.
  intros d H. unfold digit_cp, acp, ascii_digit; cbn [dec].
  replace ((48 <=? 48 + d) && (48 + d <=? 57)) with true by lia.
  f_equal. lia.
Qed.

Lemma digit_cp_dig : forall d, d < 10 -> dig (digit_cp d) = true.
Proof. intros d H. unfold digit_cp, acp, ascii_digit; cbn [dig]. lia. Qed.

Lemma digit_cp_sp : forall d, d < 10 -> sp (digit_cp d) = false.
Proof. intros d H. unfold digit_cp, acp, ascii_space; cbn [sp]. lia. Qed.

Lemma digit_cp_code : forall d, code (digit_cp d) = 48 + d.
Proof. reflexivity. Qed.

Lemma hex_cp_hex : forall h, h < 16 -> is_hex (hex_cp h) = true.
Proof. intros h H. unfold is_hex, hex_cp, acp; cbn [code]. destruct (N.ltb_spec h 10); lia. Qed.

Lemma hex_cp_sp : forall h, h < 16 -> sp (hex_cp h) = false.
Proof. intros h H. unfold hex_cp, acp, ascii_space; cbn [sp]. destruct (N.ltb_spec h 10); lia. Qed.

Lemma dec_value_digits : forall ds acc, Forall (fun d => d < 10) ds ->
  dec_value acc (map digit_cp ds) = Some (dval acc ds).
Proof.
  induction ds as [|d ds IH]; intros acc H; [reflexivity|].
  inversion H as [|? ? Hd Hds]; subst. cbn [map dec_value]. rewrite digit_cp_dec by assumption.
  rewrite IH by assumption. reflexivity.
Qed.

Lemma map_digits_not_empty : forall v, is_empty (map digit_cp (digits_of v)) = false.
Proof.
  intro v. destruct (digits_of v) eqn:E; [exfalso; exact (digits_nonempty v E)|reflexivity].
Qed.

Lemma py_int_digits : forall v, printable v = true -> py_int (map digit_cp (digits_of v)) = Some v.
Proof.
  intros v Hp. unfold py_int. rewrite map_digits_not_empty, map_length.
  unfold printable in Hp. rewrite Hp.
  rewrite dec_value_digits by apply digits_lt10. rewrite digits_val. reflexivity.
Qed.

(* ------------------------------------------------------------------ strip *)
Lemma lstrip_nospace : forall l, Forall (fun c => sp c = false) l -> lstrip l = l.
Proof. intros l H. destruct H as [|c l Hc Hl]; [reflexivity|]. cbn [lstrip]. rewrite Hc. reflexivity. Qed.

Lemma strip_nospace : forall l, Forall (fun c => sp c = false) l -> strip l = l.
Proof.
  intros l H. unfold strip, rstrip. rewrite (lstrip_nospace l H).
  rewrite lstrip_nospace; [apply rev_involutive|].
  apply Forall_forall. intros c Hc. rewrite <- in_rev in Hc. rewrite Forall_forall in H. auto.
Qed.

Lemma Forall_map_lt : forall (P : cp -> Prop) (Q : N -> Prop) (f : N -> cp) l,
  (forall x, Q x -> P (f x)) -> Forall Q l -> Forall P (map f l).
Proof. intros P Q f l H HF. induction HF; constructor; auto. Qed.

Lemma wf_id_spec : forall id, wf_id id = true -> length id = 8%nat /\ Forall (fun h => h < 16) id.
Proof.
  intros id H. unfold wf_id in H. apply andb_prop in H. destruct H as [H1 H2].
  split; [apply Nat.eqb_eq; exact H1|].
  rewrite forallb_forall in H2. apply Forall_forall. intros x Hx. specialize (H2 x Hx). lia.
Qed.

Lemma render_nospace : forall v id, wf_id id = true -> Forall (fun c => sp c = false) (render_name v id).
Proof.
  intros v id Hid. destruct (wf_id_spec id Hid) as [_ Hh]. unfold render_name.
  constructor; [reflexivity|].
  apply Forall_app; split.
  - eapply Forall_map_lt; [|apply digits_lt10]. intros; apply digit_cp_sp; assumption.
  - constructor; [reflexivity|]. apply Forall_app; split.
    + eapply Forall_map_lt; [|exact Hh]. intros; apply hex_cp_sp; assumption.
    + vm_compute. repeat constructor.
Qed.

(* ------------------------------------------------------------------ the matcher on rendered names *)
Lemma span_dec_digits : forall ds c rest, Forall (fun d => d < 10) ds -> is_dec c = false ->
  span_dec (map digit_cp ds ++ c :: rest) = (map digit_cp ds, c :: rest).
Proof.
  induction ds as [|d ds IH]; intros c rest H Hc; cbn [map app span_dec].
  - rewrite Hc. reflexivity.
  - inversion H; subst. unfold is_dec at 1. rewrite digit_cp_dec by assumption.
    rewrite IH by assumption. reflexivity.
Qed.

Lemma take_hex_render : forall id rest, Forall (fun h => h < 16) id ->
  take_hex (length id) (map hex_cp id ++ rest) = Some rest.
Proof.
  induction id as [|h id IH]; intros rest H; [reflexivity|].
  inversion H; subst. cbn [length map app take_hex]. rewrite hex_cp_hex by assumption. apply IH; assumption.
Qed.

Lemma re_match_render : forall v id, wf_id id = true ->
  re_match (render_name v id) = Some (map digit_cp (digits_of v)).
Proof.
  intros v id Hid. destruct (wf_id_spec id Hid) as [Hlen Hh].
  unfold render_name, re_match. cbn [code acp]. rewrite N.eqb_refl.
  rewrite span_dec_digits; [|apply digits_lt10|reflexivity].
  rewrite map_digits_not_empty. cbn [code acp]. rewrite N.eqb_refl. rewrite <- Hlen.
  rewrite take_hex_render by assumption. reflexivity.
Qed.

Lemma isdigit_render : forall v id, py_isdigit (render_name v id) = false.
Proof. intros. reflexivity. Qed.

(* what commit() / initialize_table() write into the pointer parses back to itself *)
Lemma parse_write : forall v id, printable v = true -> wf_id id = true ->
  parse_hint (Some (render_name v id)) = PRet (Some (v, render_name v id)).
Proof.
  intros v id Hp Hid. unfold parse_hint, gen_parse_hint.
  rewrite (strip_nospace _ (render_nospace v id Hid)).
  rewrite isdigit_render, (re_match_render v id Hid), (py_int_digits v Hp).
  reflexivity.
Qed.

(* the legacy pointer form: a bare version number names v<N>.metadata.json *)
Lemma parse_legacy : forall v, printable v = true ->
  parse_hint (Some (map digit_cp (digits_of v)))
  = PRet (Some (v, lit [118] ++ map digit_cp (digits_of v) ++ lit suffix_codes)).
Proof.
  intros v Hp. unfold parse_hint, gen_parse_hint.
  rewrite strip_nospace by (eapply Forall_map_lt; [|apply digits_lt10]; intros; apply digit_cp_sp; assumption).
  assert (Hd : py_isdigit (map digit_cp (digits_of v)) = true).
  { unfold py_isdigit. rewrite map_digits_not_empty. cbn [negb andb].
    apply forallb_forall. intros c Hc.
    apply in_map_iff in Hc. destruct Hc as [d [<- Hd]]. apply digit_cp_dig.
    pose proof (digits_lt10 v) as F. rewrite Forall_forall in F. auto. }
  rewrite map_digits_not_empty, Hd, (py_int_digits v Hp). reflexivity.
Qed.
