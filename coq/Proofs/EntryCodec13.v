(* Proofs/EntryCodec13.v -- the manifest ENTRY codec regenerated from FileManager.create_manifest_file / read_manifest_file
   (Gen/GenEntryCodec.v), instantiated with the REAL primitive codecs of the bounds and their keys:
     enc / dec       the regenerated bound codec (Gen/GenBound.v through Model/Bound.v), inverse law = BoundProofs.bound_roundtrip
     str_of / int_of Python str(int) / int(str) (Model/FieldKey.v), inverse law = FieldKeyProofs.kdec_str_of_Z
   so that the two hypotheses Proofs/EntryCodecProofs.v leaves open (int(str(k)) = k, dec (enc v) = v) are discharged and the
   round trip "write as ADDED, read, carry over as EXISTING in a rewritten manifest, read" is a theorem about int field ids
   and boundable values only.  (ManifestCodec's names are used qualified: they overlap with Model/ManifestPrim.v's.) *)
From Coq Require Import ZArith List Bool String.
Require Import DS.Model.Value DS.Model.BoundPrim DS.Gen.GenBound DS.Model.Bound DS.Model.FieldKey
               DS.Proofs.BoundProofs DS.Proofs.FieldKeyProofs.
Require DS.Model.ManifestCodec DS.Gen.GenEntryCodec DS.Proofs.EntryCodecProofs.
Import ListNotations.
Open Scope Z_scope.

Definition ebound13 : Type := (string * jpayload)%type.

(* the `record = {...}` literal of create_manifest_file / the DataFile read_manifest_file builds, over the real codecs *)
Definition write_entry13 (safe_int pstr : Z -> Z) :=
  GenEntryCodec.gen_write_entry value ebound13 (list Z) enc str_of_Z safe_int pstr.
Definition read_entry13 := GenEntryCodec.gen_read_entry value ebound13 (list Z) dec int_or_0.

Definition bounds_boundable (df : ManifestCodec.datafile value) : Prop := EntryCodecProofs.bounds_ok value boundable df.

Theorem entry_rewrite_real_codecs (safe_int pstr : Z -> Z) :
  (forall z, safe_int z = z) ->
  forall (id : Z) (sq : option Z) (id' : Z) (sq' : option Z) (df : ManifestCodec.datafile value), bounds_boundable df ->
  let once := read_entry13 (write_entry13 safe_int pstr GenEntryCodec.gen_status_added id sq df) in
  let twice := read_entry13 (write_entry13 safe_int pstr GenEntryCodec.gen_status_existing id' sq' once) in
  ManifestCodec.df_lower once = ManifestCodec.norm_map (ManifestCodec.df_lower df)
  /\ ManifestCodec.df_upper once = ManifestCodec.norm_map (ManifestCodec.df_upper df)
  /\ ManifestCodec.df_lower twice = ManifestCodec.norm_map (ManifestCodec.df_lower df)
  /\ ManifestCodec.df_upper twice = ManifestCodec.norm_map (ManifestCodec.df_upper df)
  /\ ManifestCodec.df_path twice = ManifestCodec.df_path df.
Proof.
  intros S id sq id' sq' df B once twice.
  pose proof (EntryCodecProofs.rewrite_preserves value ebound13 (list Z) enc dec str_of_Z int_or_0 safe_int pstr
                int_or_0_str_of_Z boundable bound_roundtrip S id sq id' sq' df B) as R.
  cbv zeta in R. destruct R as [_ [L [U [P _]]]].
  pose proof (EntryCodecProofs.added_entry_roundtrip value ebound13 (list Z) enc dec str_of_Z int_or_0 safe_int pstr
                int_or_0_str_of_Z boundable bound_roundtrip S id sq df B) as O.
  subst once twice. unfold read_entry13, write_entry13.
  split; [rewrite O; reflexivity|]. split; [rewrite O; reflexivity|]. split; [exact L|]. split; [exact U|exact P].
Qed.
