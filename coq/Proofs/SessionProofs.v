(* Proofs/SessionProofs.v -- sessions on one handle: names handed out by a listing come back in (C17).

   Model/Path.v run_session.  Main results:
     session_step_at              the outcome of a step is run_entry of ITS tree and of the string its argument denotes;
                                  no other part of the past enters (a handle keeps no memory of what it listed)
     session_inside               every step that returns touches only link-free locations under the canonical root of its tree
     session_names_wellformed     every name any listing of a session handed out is a non-empty '..'-free relative string
     session_listed_name_rejected a step whose argument is a LISTED NAME that the kernel walks out of the root (a file symlink
                                  inside the root pointing outside: os.walk reports it among the files) is Err Security, for
                                  every entry point of the regenerated table
     listed_name_rejected         the same for a single listing followed by one use *)
From Coq Require Import ZArith List Bool Lia.
Require Import DS.Model.Path DS.Gen.GenPath DS.Proofs.PathProofs DS.Proofs.KernelAgree.
Import ListNotations.
Open Scope Z_scope.

(* ------------------------------------------------------------------ structure of run_session *)
Lemma fold_session_length : forall d kf cwd dirs base steps acc,
  length (fold_left (session_step d kf cwd dirs base) steps acc) = (length acc + length steps)%nat.
Proof.
  intros d kf cwd dirs base steps. induction steps as [|s steps IH]; intro acc; simpl; [lia|].
  rewrite IH. unfold session_step. rewrite app_length. simpl. lia.
Qed.

Lemma fold_session_prefix : forall d kf cwd dirs base steps acc,
  firstn (length acc) (fold_left (session_step d kf cwd dirs base) steps acc) = acc.
Proof.
  intros d kf cwd dirs base steps. induction steps as [|s steps IH]; intro acc; simpl.
  - apply firstn_all.
  - specialize (IH (session_step d kf cwd dirs base acc s)).
    assert (L : length (session_step d kf cwd dirs base acc s) = S (length acc)).
    { unfold session_step. rewrite app_length. simpl. lia. }
    rewrite L in IH.
    assert (F : firstn (length acc) (firstn (S (length acc)) (fold_left (session_step d kf cwd dirs base) steps (session_step d kf cwd dirs base acc s)))
                = firstn (length acc) (session_step d kf cwd dirs base acc s)) by (rewrite IH; reflexivity).
    rewrite firstn_firstn in F. rewrite Nat.min_l in F by lia. rewrite F.
    unfold session_step. rewrite firstn_app. rewrite firstn_all. rewrite Nat.sub_diag. simpl. apply app_nil_r.
Qed.

Lemma nth_error_firstn_lt : forall (A : Type) (l : list A) n i, (i < n)%nat -> nth_error (firstn n l) i = nth_error l i.
Proof.
  intros A l. induction l as [|a l IH]; intros n i H; destruct n; destruct i; simpl; try reflexivity; try lia.
  apply IH. lia.
Qed.

Lemma run_session_length : forall d kf cwd dirs base steps,
  length (run_session d kf cwd dirs base steps) = length steps.
Proof. intros. unfold run_session. rewrite fold_session_length. reflexivity. Qed.

Lemma run_session_app : forall d kf cwd dirs base pre post,
  run_session d kf cwd dirs base (pre ++ post)
  = fold_left (session_step d kf cwd dirs base) post (run_session d kf cwd dirs base pre).
Proof. intros. unfold run_session. apply fold_left_app. Qed.

(* what was computed for the first steps is not changed by later steps *)
Lemma run_session_prefix : forall d kf cwd dirs base pre post,
  firstn (length pre) (run_session d kf cwd dirs base (pre ++ post)) = run_session d kf cwd dirs base pre.
Proof.
  intros. rewrite run_session_app. rewrite <- (run_session_length d kf cwd dirs base pre). apply fold_session_prefix.
Qed.

(* THE STEP LAW: the outcome of the step after `pre` *)
Lemma session_step_at : forall d kf cwd dirs base pre s post,
  nth_error (run_session d kf cwd dirs base (pre ++ s :: post)) (length pre)
  = Some (session_out d kf cwd dirs base (run_session d kf cwd dirs base pre) s).
Proof.
  intros d kf cwd dirs base pre s post.
  replace (pre ++ s :: post) with ((pre ++ [s]) ++ post) by (rewrite <- app_assoc; reflexivity).
  assert (P := run_session_prefix d kf cwd dirs base (pre ++ [s]) post).
  assert (E : run_session d kf cwd dirs base (pre ++ [s])
              = run_session d kf cwd dirs base pre ++ [session_out d kf cwd dirs base (run_session d kf cwd dirs base pre) s]).
  { rewrite run_session_app. reflexivity. }
  rewrite E in P. rewrite app_length in P. simpl in P.
  assert (N : nth_error (firstn (length pre + 1) (run_session d kf cwd dirs base ((pre ++ [s]) ++ post))) (length pre)
              = Some (session_out d kf cwd dirs base (run_session d kf cwd dirs base pre) s)).
  { rewrite P. rewrite nth_error_app2 by (rewrite run_session_length; lia).
    rewrite run_session_length, Nat.sub_diag. reflexivity. }
  rewrite nth_error_firstn_lt in N by lia. exact N.
Qed.

Lemma nth_error_split_at : forall (A : Type) (l : list A) i x, nth_error l i = Some x ->
  l = firstn i l ++ x :: skipn (S i) l /\ length (firstn i l) = i.
Proof.
  intros A l. induction l as [|a l IH]; intros i x H; destruct i; simpl in *; try discriminate.
  - inversion H. subst. split; reflexivity.
  - destruct (IH _ _ H) as [E L]. split; [rewrite <- E; reflexivity|rewrite L; reflexivity].
Qed.

(* the same, addressed by index *)
Lemma session_out_at : forall d kf cwd dirs base (steps : list sstep) i (s : sstep),
  nth_error steps i = Some s ->
  nth_error (run_session d kf cwd dirs base steps) i
  = Some (session_out d kf cwd dirs base (run_session d kf cwd dirs base (firstn i steps)) s).
Proof.
  intros d kf cwd dirs base steps i s H. destruct (nth_error_split_at _ _ _ _ H) as [E L].
  pose proof (session_step_at d kf cwd dirs base (firstn i steps) s (skipn (S i) steps)) as S0.
  rewrite <- E in S0. rewrite L in S0. exact S0.
Qed.

(* ------------------------------------------------------------------ the names a session hands out *)
Lemma listed_names_wellformed : forall d kf t cwd base ep p r,
  In r (listed_names d kf t cwd base ep p) -> names r /\ r <> [] /\ is_abs r = false.
Proof.
  intros d kf t cwd base ep p r H. unfold listed_names in H.
  destruct ep; try contradiction.
  destruct (list_files d kf t cwd base p) as [rs|e] eqn:E; [|contradiction].
  destruct (list_files_ok _ _ _ _ _ _ _ _ E H) as [rb [q [_ [_ [N [Ne _]]]]]].
  split; [exact N|]. split; [exact Ne|].
  destruct r as [|c r']; [contradiction Ne; reflexivity|].
  unfold names in N. simpl in N. apply andb_prop in N. destruct N as [Nc _].
  unfold is_abs. destruct r'; [reflexivity|].
  unfold is_name, is_skip in Nc. destruct (c =? 0); [discriminate|reflexivity].
Qed.

Lemma session_names_wellformed : forall d kf cwd dirs base (steps : list sstep) i o ns r,
  nth_error (run_session d kf cwd dirs base steps) i = Some (o, ns) -> In r ns ->
  names r /\ r <> [] /\ is_abs r = false.
Proof.
  intros d kf cwd dirs base steps i o ns r H Hin.
  assert (Hi : (i < length steps)%nat).
  { rewrite <- (run_session_length d kf cwd dirs base). apply nth_error_Some. congruence. }
  destruct (nth_error steps i) as [[[t ep] a]|] eqn:Es; [|apply nth_error_None in Es; lia].
  rewrite (session_out_at _ _ _ _ _ _ _ _ Es) in H. inversion H as [H1]. clear H.
  unfold session_out in H1. destruct (sderef _ a) as [p|]; inversion H1; subst; [|contradiction].
  eapply listed_names_wellformed. eassumption.
Qed.

(* a listed argument denotes a well-formed name *)
Lemma sderef_listed_wellformed : forall d kf cwd dirs base steps i k r,
  sderef (run_session d kf cwd dirs base steps) (SListed i k) = Some r -> names r /\ r <> [] /\ is_abs r = false.
Proof.
  intros d kf cwd dirs base steps i k r H. simpl in H.
  destruct (nth_error (run_session d kf cwd dirs base steps) i) as [[o ns]|] eqn:E; [|discriminate].
  eapply session_names_wellformed; [exact E|]. eapply nth_error_In. exact H.
Qed.

(* ------------------------------------------------------------------ every step of every session stays inside *)
Lemma session_inside : forall d kf cwd base (steps : list sstep) i t ep g a accs ns,
  nth_error steps i = Some (t, ep, a) ->
  In (ep, g) gen_entry_guards ->
  nth_error (run_session d kf cwd gen_table_dirs base steps) i = Some (Some (Ok accs), ns) ->
  exists p rb q, sderef (run_session d kf cwd gen_table_dirs base (firstn i steps)) a = Some p
    /\ realpath d t cwd base = Ok rb
    /\ guard_result d t cwd gen_table_dirs base rb g p = Ok q
    /\ Forall (fun x => (snd x = q \/ snd x = parent q) /\ touch_ok t rb x) accs.
Proof.
  intros d kf cwd base steps i t ep g a accs ns Hs Hg Hr.
  rewrite (session_out_at _ _ _ _ _ _ _ _ Hs) in Hr. inversion Hr as [H1]. clear Hr.
  unfold session_out in H1.
  match type of H1 with match ?x with _ => _ end = _ => destruct x as [p|] eqn:Ed end; [|discriminate H1].
  assert (H2 : run_entry d t cwd gen_table_dirs base ep p = Ok accs) by congruence. exists p.
  destruct (run_entry_ok d t cwd base ep g p accs Hg H2) as [rb [q [A [B C0]]]].
  exists rb, q. split; [reflexivity|]. repeat split; assumption.
Qed.

(* ------------------------------------------------------------------ rejection carries over to every entry point *)
Lemma run_entry_rejects : forall d t cwd dirs base ep p rb,
  is_abs p = false -> realpath d t cwd base = Ok rb ->
  resolve d t cwd base p = Err Security ->
  run_entry d t cwd dirs base ep p = Err Security.
Proof.
  intros d t cwd dirs base ep p rb Hrel Hb Hr. unfold run_entry. rewrite Hb.
  assert (Ha : arrow_path d t cwd dirs base p = Err Security).
  { unfold arrow_path. rewrite Hb. rewrite Hrel. simpl. exact Hr. }
  destruct ep; cbv beta iota zeta; rewrite ?Hr, ?Ha; reflexivity.
Qed.

(* a single listing followed by one use of a returned name *)
Lemma listed_name_rejected : forall d kf t cwd dirs base prefix rs r ep kf' l rb,
  list_files d kf t cwd base prefix = Ok rs -> In r rs ->
  (count_links t <= d)%nat ->
  kwalk kf' t [] (tl (absolutize cwd (join_for_resolve base r))) = Ok l ->
  realpath d t cwd base = Ok rb -> is_prefix rb l = false ->
  run_entry d t cwd dirs base ep r = Err Security.
Proof.
  intros d kf t cwd dirs base prefix rs r ep kf' l rb Hl Hin Hd Hk Hb Hout.
  assert (W : names r /\ r <> [] /\ is_abs r = false).
  { apply (listed_names_wellformed d kf t cwd base EpList prefix r). unfold listed_names. rewrite Hl. exact Hin. }
  destruct W as [_ [_ Hrel]].
  eapply run_entry_rejects; [exact Hrel|exact Hb|].
  eapply kernel_outside_rejected; eassumption.
Qed.

(* in a session: step j uses the k-th name of step i's listing; the tree current at step j decides *)
Lemma session_listed_name_rejected : forall d kf cwd dirs base (steps : list sstep) j t ep i k r kf' l rb,
  nth_error steps j = Some (t, ep, SListed i k) ->
  sderef (run_session d kf cwd dirs base (firstn j steps)) (SListed i k) = Some r ->
  (count_links t <= d)%nat ->
  kwalk kf' t [] (tl (absolutize cwd (join_for_resolve base r))) = Ok l ->
  realpath d t cwd base = Ok rb -> is_prefix rb l = false ->
  exists ns, nth_error (run_session d kf cwd dirs base steps) j = Some (Some (Err Security), ns).
Proof.
  intros d kf cwd dirs base steps j t ep i k r kf' l rb Hs Hd Hc Hk Hb Hout.
  rewrite (session_out_at _ _ _ _ _ _ _ _ Hs). unfold session_out. rewrite Hd.
  destruct (sderef_listed_wellformed _ _ _ _ _ _ _ _ _ Hd) as [_ [_ Hrel]].
  eexists. f_equal. f_equal. f_equal.
  eapply run_entry_rejects; [exact Hrel|exact Hb|].
  eapply kernel_outside_rejected; eassumption.
Qed.

(* a session whose arguments are all literals is a history *)
Lemma session_of_literals_is_history : forall d kf cwd dirs base (steps : list hstep),
  map fst (run_session d kf cwd dirs base (map (fun s : hstep => let '(t, ep, p) := s in (t, ep, SLit p)) steps))
  = map Some (run_history d cwd dirs base steps).
Proof.
  intros d kf cwd dirs base steps. unfold run_session.
  assert (G : forall acc, map fst (fold_left (session_step d kf cwd dirs base)
                                     (map (fun s : hstep => let '(t, ep, p) := s in (t, ep, SLit p)) steps) acc)
                          = map fst acc ++ map Some (run_history d cwd dirs base steps)).
  { induction steps as [|[[t ep] p] steps IH]; intro acc; simpl.
    - rewrite app_nil_r. reflexivity.
    - rewrite IH. unfold session_step. rewrite map_app. simpl. rewrite <- app_assoc. reflexivity. }
  rewrite G. reflexivity.
Qed.
