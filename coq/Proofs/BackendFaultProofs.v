(* Proofs/BackendFaultProofs.v -- S3StorageBackend over a failing store (Model/BackendFault.v): transient faults within
   the retry budget, injected before or AFTER a request took effect at any request of any operation of any history,
   change neither a result nor the store -- as long as the request that would be the LAST attempt of an operation is
   answered (s3_faulty_masks_partial).  Without that proviso the statement is false of the code as it is
   (s3_faulty_masks_refuted): a not-found answer is retried like a transient error and uses up the budget, so one
   transient fault on the (max_retries+1)-th request of a read of a missing key surfaces instead of the not-found.
   The conditional PUT of write_file_cas is not under the retry: a fault on it surfaces at once (cas_put_fault_surfaces). *)
From Coq Require Import List Bool Ascii String Arith ZArith Lia.
Require Import DS.Model.Str DS.Gen.GenS3 DS.Gen.GenRange DS.Model.Range DS.Model.Backend DS.Model.Retry DS.Model.BackendTrace DS.Model.BackendFault.
Require Import DS.Proofs.StrProofs DS.Proofs.RangeProofs DS.Proofs.RetryProofs DS.Proofs.BackendProofs.
Import ListNotations.
Local Arguments Ascii.eqb : simpl never.
Local Open Scope nat_scope.

(* ================================================================ plans *)
(* a transient error: retryable and not permanent by the library's classification (RetryProofs.transient_exn) *)
Definition fault_ok (e : exn) : Prop :=
  transient_exn e /\ match e with ClientError c => member c nf_codes = false | _ => True end.
Definition plan_transient (pl : fplan) : Prop := forall w e, In (Some (w, e)) pl -> fault_ok e.

Lemma nfaults_some : forall f pl, nfaults_f (Some f :: pl) = S (nfaults_f pl).
Proof. reflexivity. Qed.
Lemma nfaults_none : forall pl, nfaults_f (None :: pl) = nfaults_f pl.
Proof. reflexivity. Qed.
Lemma nfaults_nil : nfaults_f [] = 0.
Proof. reflexivity. Qed.

Lemma plan_transient_tl : forall x pl, plan_transient (x :: pl) -> plan_transient pl.
Proof. intros x pl H w e Hin. apply (H w e). right. exact Hin. Qed.

Lemma plan_transient_nil : plan_transient [].
Proof. intros w e []. Qed.

Lemma plan_transient_skipn : forall n pl, plan_transient pl -> plan_transient (skipn n pl).
Proof.
  induction n as [|n IH]; intros pl H; [exact H|]. destruct pl as [|x pl]; [exact H|]. cbn [skipn]. apply IH.
  eapply plan_transient_tl. exact H.
Qed.

Lemma nfaults_skipn : forall n pl, nfaults_f (skipn n pl) <= nfaults_f pl.
Proof.
  induction n as [|n IH]; intro pl; [cbn [skipn]; lia|]. destruct pl as [|x pl]; [cbn [skipn]; lia|]. cbn [skipn].
  specialize (IH pl). unfold nfaults_f in *. cbn [filter]. destruct (is_fault x); cbn [List.length]; lia.
Qed.

Lemma nfaults_zero_nth : forall pl n, nfaults_f pl = 0 -> nth n pl None = None.
Proof.
  induction pl as [|x pl IH]; intros n H; [destruct n; reflexivity|]. unfold nfaults_f in *. cbn [filter] in H.
  destruct x as [f|]; cbn [is_fault] in H; [discriminate H|]. destruct n; [reflexivity|]. cbn [nth]. apply IH. exact H.
Qed.

Lemma member_false_neq : forall c l x, member c l = false -> In x l -> str_eqb c x = false.
Proof.
  induction l as [|a l IH]; intros x H Hin; [destruct Hin|]. cbn [member] in H. apply orb_false_iff in H. destruct H as [H1 H2].
  destruct Hin as [<-|Hin]; [exact H1|apply IH; assumption].
Qed.

Lemma fault_transient : forall e, fault_ok e -> fx_transient (XExn e) = true.
Proof.
  intros e [He _]. unfold fx_transient, fx_exn, classify, is_permanent.
  destruct e; cbn [transient_exn] in He; try reflexivity; try contradiction. rewrite He. reflexivity.
Qed.

Lemma notfound_transient : fx_transient XNotFound = true.
Proof. reflexivity. Qed.

Lemma conv_fault : forall (V : Type) code e, In code nf_codes -> fault_ok e -> @conv V code (inr (XExn e)) = inr (XExn e).
Proof.
  intros V code e Hc [_ He]. unfold conv. destruct e; try reflexivity. rewrite (member_false_neq _ _ code He Hc). reflexivity.
Qed.

(* ================================================================ the retry loop around an attempt that succeeds when unhindered *)
(* att, started in any state satisfying I, either runs through (value v, final state bf, no more faults left than
   before) or is ended by an injected fault, in a state that again satisfies I, with one fault fewer ahead *)
Definition att_spec {V : Type} (att : attempt V) (I : bucket -> Prop) (v : V) (bf : bucket) : Prop :=
  forall b pl, I b -> plan_transient pl ->
    (exists pl', att b pl = (inl v, bf, pl') /\ plan_transient pl' /\ nfaults_f pl' <= nfaults_f pl)
    \/ (exists e b' pl', att b pl = (inr (XExn e), b', pl') /\ fault_ok e /\ I b' /\ plan_transient pl' /\ S (nfaults_f pl') <= nfaults_f pl).

Lemma retry_f_masks : forall (V : Type) (att : attempt V) (I : bucket -> Prop) (v : V) (bf : bucket), att_spec att I v bf ->
  forall budget b pl, I b -> plan_transient pl -> nfaults_f pl <= budget ->
  exists pl', retry_f budget att b pl = (inl v, bf, pl') /\ plan_transient pl' /\ nfaults_f pl' <= nfaults_f pl.
Proof.
  intros V att I v bf Hs. induction budget as [|n IH]; intros b pl HI Ht Hn.
  - destruct (Hs b pl HI Ht) as [[pl' [E [Ht' Hn']]]|[e [b' [pl' [E [He [HI' [Ht' Hn']]]]]]]]; [|lia].
    exists pl'. cbn [retry_f]. rewrite E. auto.
  - destruct (Hs b pl HI Ht) as [[pl' [E [Ht' Hn']]]|[e [b' [pl' [E [He [HI' [Ht' Hn']]]]]]]].
    + exists pl'. cbn [retry_f]. rewrite E. auto.
    + cbn [retry_f]. rewrite E. rewrite (fault_transient e He).
      destruct (IH b' pl' HI' Ht' ltac:(lia)) as [pl'' [E2 [Ht2 Hn2]]]. exists pl''. rewrite E2.
      split; [reflexivity|]. split; [assumption|lia].
Qed.

(* one request whose unhindered answer is v and whose effect, from any state of I, is bf (again in I) *)
Lemma request_good : forall (V : Type) (ans : bucket -> V + fx) (eff : bucket -> bucket) (I : bucket -> Prop) (v : V) (bf : bucket),
  (forall b, I b -> ans b = inl v /\ eff b = bf) -> I bf -> att_spec (request ans eff) I v bf.
Proof.
  intros V ans eff I v bf H Hbf b pl HI Ht. destruct (H b HI) as [Ea Ee].
  destruct pl as [|[[w e]|] pl']; cbn [request].
  - left. exists []. rewrite Ea, Ee. split; [reflexivity|]. split; [exact plan_transient_nil|lia].
  - right. pose proof (Ht w e (or_introl eq_refl)) as He. pose proof (plan_transient_tl _ _ Ht) as Ht'.
    destruct w.
    + exists e, b, pl'. split; [reflexivity|]. split; [exact He|]. split; [exact HI|]. split; [exact Ht'|]. rewrite nfaults_some. lia.
    + exists e, bf, pl'. rewrite Ea, Ee. split; [reflexivity|]. split; [exact He|]. split; [exact Hbf|]. split; [exact Ht'|]. rewrite nfaults_some. lia.
  - left. exists pl'. rewrite Ea, Ee. split; [reflexivity|]. split; [eapply plan_transient_tl; exact Ht|].
    rewrite nfaults_none. lia.
Qed.

Lemma amap_spec : forall (V W : Type) (f : V + fx -> W + fx) (att : attempt V) (I : bucket -> Prop) (v : V) (w : W) (bf : bucket),
  att_spec att I v bf -> f (inl v) = inl w -> (forall e, fault_ok e -> f (inr (XExn e)) = inr (XExn e)) ->
  att_spec (amap f att) I w bf.
Proof.
  intros V W f att I v w bf Hs Hv He b pl HI Ht. unfold amap.
  destruct (Hs b pl HI Ht) as [[pl' [E R]]|[e [b' [pl' [E [Hf R]]]]]]; rewrite E.
  - left. exists pl'. rewrite Hv. split; [reflexivity|exact R].
  - right. exists e, b', pl'. rewrite (He e Hf). split; [reflexivity|]. split; [exact Hf|exact R].
Qed.

(* ================================================================ the retry loop around an attempt that answers not-found *)
(* every attempt fails with something the loop retries and leaves the store alone; an unhindered attempt answers
   not-found: the loop runs out, and what surfaces is the outcome of its last attempt *)
Lemma retry_f_runs_out : forall (V : Type) (att : attempt V) (b : bucket),
  (forall pl, plan_transient pl ->
     exists x, att b pl = (inr x, b, tl pl) /\ fx_transient x = true /\ (hd None pl = None -> x = XNotFound)) ->
  forall budget pl, plan_transient pl -> nth budget pl None = None ->
  retry_f budget att b pl = (inr XNotFound, b, skipn (S budget) pl).
Proof.
  intros V att b H. induction budget as [|n IH]; intros pl Ht Hn.
  - destruct (H pl Ht) as [x [E [Hx Hh]]]. cbn [retry_f]. rewrite E.
    assert (hd None pl = None) as Hhd by (destruct pl; [reflexivity|exact Hn]).
    rewrite (Hh Hhd). cbn [fx_transient]. rewrite notfound_transient. destruct pl; reflexivity.
  - destruct (H pl Ht) as [x [E [Hx _]]]. cbn [retry_f]. rewrite E, Hx.
    rewrite (IH (tl pl)).
    + destruct pl; reflexivity.
    + destruct pl; [exact plan_transient_nil|eapply plan_transient_tl; exact Ht].
    + destruct pl; [destruct n; reflexivity|exact Hn].
Qed.

(* a read-type request (no effect) that the store refuses with a not-found code the closure translates *)
Lemma request_notfound : forall (V : Type) (ans : bucket -> V + fx) (code c : str) (b : bucket),
  ans b = inr (XExn (ClientError c)) -> str_eqb c code = true -> In code nf_codes ->
  forall pl, plan_transient pl ->
    exists x, amap (conv code) (request ans (fun b => b)) b pl = (inr x, b, tl pl) /\ fx_transient x = true /\ (hd None pl = None -> x = XNotFound).
Proof.
  intros V ans code c b Ea Ec Hin pl Ht. unfold amap. destruct pl as [|[[w e]|] pl']; cbn [request tl hd].
  - exists XNotFound. rewrite Ea. cbn [conv]. rewrite Ec. auto.
  - pose proof (Ht w e (or_introl eq_refl)) as He. destruct w.
    + exists (XExn e). rewrite (conv_fault V code e Hin He). split; [reflexivity|]. split; [apply fault_transient; exact He|discriminate].
    + exists XNotFound. rewrite Ea. cbn [conv]. rewrite Ec. split; [reflexivity|]. split; [reflexivity|reflexivity].
  - exists XNotFound. rewrite Ea. cbn [conv]. rewrite Ec. auto.
Qed.

(* ================================================================ idempotence of the effects *)
Lemma upsert_idem : forall (k : str) (v : bytes) (l : bucket), upsert str_eqb k v (upsert str_eqb k v l) = upsert str_eqb k v l.
Proof.
  induction l as [|[k2 v2] l IH]; cbn [upsert].
  - rewrite str_eqb_refl. reflexivity.
  - destruct (str_eqb k k2) eqn:E; cbn [upsert]; [rewrite str_eqb_refl; reflexivity|]. rewrite E, IH. reflexivity.
Qed.

Lemma filter_idem : forall {X : Type} (p : X -> bool) (l : list X), filter p (filter p l) = filter p l.
Proof.
  induction l as [|a l IH]; [reflexivity|]. cbn [filter]. destruct (p a) eqn:E; [cbn [filter]; rewrite E, IH; reflexivity|exact IH].
Qed.

Lemma remove_idem : forall (k : str) (l : bucket), remove str_eqb k (remove str_eqb k l) = remove str_eqb k l.
Proof. intros k l. unfold remove. apply filter_idem. Qed.

(* ================================================================ pages *)
Lemma walk_spec : forall n pl, plan_transient pl ->
  (exists pl', walk n pl = (None, pl') /\ plan_transient pl' /\ nfaults_f pl' <= nfaults_f pl)
  \/ (exists e pl', walk n pl = (Some e, pl') /\ fault_ok e /\ plan_transient pl' /\ S (nfaults_f pl') <= nfaults_f pl).
Proof.
  induction n as [|n IH]; intros pl Ht; cbn [walk].
  - left. exists pl. auto.
  - destruct pl as [|[[w e]|] pl'].
    + left. exists []. split; [reflexivity|]. split; [exact plan_transient_nil|lia].
    + right. exists e, pl'. split; [reflexivity|]. split; [exact (Ht w e (or_introl eq_refl))|]. split; [eapply plan_transient_tl; exact Ht|].
      rewrite nfaults_some. lia.
    + pose proof (plan_transient_tl _ _ Ht) as Ht'. destruct (IH pl' Ht') as [[pl'' [E [T N]]]|[e [pl'' [E [He [T N]]]]]].
      * left. exists pl''. split; [exact E|]. split; [exact T|]. rewrite nfaults_none. exact N.
      * right. exists e, pl''. split; [exact E|]. split; [exact He|]. split; [exact T|]. rewrite nfaults_none. exact N.
Qed.

Lemma att_list_spec : forall page P b, att_spec (att_list page P) (eq b) (s3_list_objects b P) b.
Proof.
  intros page P b b' pl <- Ht. unfold att_list.
  destruct (walk_spec (pages (List.length (s3_list_objects b P)) page) pl Ht) as [[pl' [E R]]|[e [pl' [E [He R]]]]]; rewrite E.
  - left. exists pl'. split; [reflexivity|exact R].
  - right. exists e, b, pl'. split; [reflexivity|]. split; [exact He|]. split; [reflexivity|exact R].
Qed.

(* ================================================================ exists *)
Lemma exists_fault : forall e, fault_ok e ->
  match e with ClientError c => negb (str_eqb c gen_code_exists_notfound) = true | _ => True end.
Proof.
  intros e [_ He]. destruct e; try exact I. rewrite (member_false_neq _ _ gen_code_exists_notfound He); [reflexivity|].
  right. left. reflexivity.
Qed.

Lemma att_exists_present : forall k b v, lookup str_eqb k b = Some v -> att_spec (att_exists k) (eq b) true b.
Proof.
  intros k b v El b' pl <- Ht. unfold att_exists.
  assert (raw_head k b = inl v) as Ea by (unfold raw_head, s3_head_object; rewrite El; reflexivity).
  destruct pl as [|[[w e]|] pl']; cbn [request].
  - left. exists []. rewrite Ea. split; [reflexivity|]. split; [exact plan_transient_nil|lia].
  - right. pose proof (Ht w e (or_introl eq_refl)) as He. pose proof (exists_fault e He) as Hx. exists e, b, pl'.
    assert (S (nfaults_f pl') <= nfaults_f (Some (w, e) :: pl')) as Hn by (rewrite nfaults_some; lia).
    pose proof (plan_transient_tl _ _ Ht) as Ht'.
    destruct w; [|rewrite Ea]; (destruct e; [rewrite Hx| | | |]; (split; [reflexivity|]; split; [exact He|]; split; [reflexivity|]; split; [exact Ht'|exact Hn])).
  - left. exists pl'. rewrite Ea. split; [reflexivity|]. split; [eapply plan_transient_tl; exact Ht|]. rewrite nfaults_none. lia.
Qed.

Lemma att_exists_absent : forall k b, lookup str_eqb k b = None -> ends_with k (lit "/") = false -> att_spec (att_exists k) (eq b) false b.
Proof.
  intros k b El Hd b' pl <- Ht. unfold att_exists.
  assert (raw_head k b = inr (XExn (ClientError (lit "404")))) as Ea by (unfold raw_head, s3_head_object; rewrite El; reflexivity).
  assert (negb (str_eqb (lit "404") gen_code_exists_notfound) = false) as Ec by reflexivity.
  destruct pl as [|[[w e]|] pl']; cbn [request].
  - left. exists []. rewrite Ea, Ec, Hd. split; [reflexivity|]. split; [exact plan_transient_nil|lia].
  - pose proof (Ht w e (or_introl eq_refl)) as He. pose proof (exists_fault e He) as Hx.
    assert (S (nfaults_f pl') <= nfaults_f (Some (w, e) :: pl')) as Hn by (rewrite nfaults_some; lia).
    pose proof (plan_transient_tl _ _ Ht) as Ht'.
    destruct w.
    + right. exists e, b, pl'. destruct e; [rewrite Hx| | | |]; (split; [reflexivity|]; split; [exact He|]; split; [reflexivity|]; split; [exact Ht'|exact Hn]).
    + (* the store's own 404 wins over a fault after the request: the answer is the unhindered one *)
      left. exists pl'. rewrite Ea, Ec, Hd. split; [reflexivity|]. split; [exact Ht'|lia].
  - left. exists pl'. rewrite Ea, Ec, Hd. split; [reflexivity|]. split; [eapply plan_transient_tl; exact Ht|]. rewrite nfaults_none. lia.
Qed.

(* ================================================================ the reader under faults *)
Lemma in_range_served : forall (v : bytes) f l, in_range v (f, l) -> exists d, server_range v f l = Some d.
Proof.
  intros v f l [H1 [H2 H3]]. cbn [fst snd] in *. unfold server_range.
  replace ((0 <=? f)%Z && (f <=? l)%Z && (f <? zlen v)%Z) with true; [eexists; reflexivity|].
  symmetry. rewrite !andb_true_iff, !Z.leb_le, Z.ltb_lt. lia.
Qed.

Section Reader.
  Variable budget : nat.
  Variable k : str.
  Variable b : bucket.
  Variable v : bytes.
  Hypothesis Hk : lookup str_eqb k b = Some v.

  Lemma att_range_spec : forall f l d, server_range v f l = Some d -> att_spec (att_range k f l) (eq b) d b.
  Proof.
    intros f l d Hd. unfold att_range. apply request_good; [|reflexivity]. intros b' <-. rewrite Hk, Hd. split; reflexivity.
  Qed.

  Lemma rf_get_f : forall pos r pl, (0 <= pos)%Z -> plan_transient pl -> nfaults_f pl <= budget ->
    (match r with Some fl => in_range v fl | None => True end) ->
    exists pl',
      (match r with
       | None => (inl (pos, RData []), pl)
       | Some (first, last) =>
         match retry_f budget (att_range k first last) b pl with
         | (inl d, _, pl') => (inl ((pos + zlen d)%Z, RData d), pl')
         | (inr x, _, pl') => (inr (fx_exn x), pl')
         end
       end) = (inl (let '(p, o, _) := rf_get (server_range v) pos r in (p, o)), pl')
      /\ plan_transient pl' /\ nfaults_f pl' <= nfaults_f pl.
  Proof.
    intros pos r pl Hpos Ht Hn Hr. destruct r as [[f l]|]; cbn [rf_get].
    - destruct (in_range_served v f l Hr) as [d Hd]. rewrite Hd.
      destruct (retry_f_masks _ _ _ _ _ (att_range_spec f l d Hd) budget b pl eq_refl Ht Hn) as [pl' [E R]]. rewrite E.
      exists pl'. split; [reflexivity|exact R].
    - exists pl. split; [reflexivity|]. split; [exact Ht|lia].
  Qed.

  Lemma rf_step_f_masks : forall pos o pl, (0 <= pos)%Z -> wf_rop o -> plan_transient pl -> nfaults_f pl <= budget ->
    exists pl', rf_step_f budget (zlen v) k b pos o pl = (inl (file_step v pos o), pl')
                /\ plan_transient pl' /\ nfaults_f pl' <= nfaults_f pl /\ (0 <= fst (file_step v pos o))%Z.
  Proof.
    intros pos o pl Hpos Ho Ht Hn. pose proof (rf_step_equiv v pos o Hpos Ho) as Hs. unfold rf_step in Hs.
    destruct o as [off w|n| |]; cbn [rf_step_f rf_step_on] in *.
    - destruct (rf_seek (zlen v) pos off w) as [p ob] eqn:Es. destruct Hs as [Hf [Hp _]].
      exists pl. rewrite Hf. cbn [fst]. split; [reflexivity|]. split; [exact Ht|]. split; [lia|exact Hp].
    - set (r := gen_rf_readinto pos (zlen v) n) in *.
      assert (match r with Some fl => in_range v fl | None => True end) as Hr.
      { destruct r as [[f l]|]; [|exact I]. cbn [rf_get] in Hs. destruct (server_range v f l); destruct Hs as [_ [_ [Hr _]]]; inversion Hr; assumption. }
      destruct (rf_get_f pos r pl Hpos Ht Hn Hr) as [pl' [E [Ht' Hn']]]. exists pl'. rewrite E.
      destruct (rf_get (server_range v) pos r) as [[p ob] rs]. destruct Hs as [Hf [Hp _]]. rewrite Hf. cbn [fst]. split; [reflexivity|]. split; [exact Ht'|]. split; [exact Hn'|exact Hp].
    - set (r := gen_rf_readall pos (zlen v)) in *.
      assert (match r with Some fl => in_range v fl | None => True end) as Hr.
      { destruct r as [[f l]|]; [|exact I]. cbn [rf_get] in Hs. destruct (server_range v f l); destruct Hs as [_ [_ [Hr _]]]; inversion Hr; assumption. }
      destruct (rf_get_f pos r pl Hpos Ht Hn Hr) as [pl' [E [Ht' Hn']]]. exists pl'. rewrite E.
      destruct (rf_get (server_range v) pos r) as [[p ob] rs]. destruct Hs as [Hf [Hp _]]. rewrite Hf. cbn [fst]. split; [reflexivity|]. split; [exact Ht'|]. split; [exact Hn'|exact Hp].
    - destruct Hs as [Hf [Hp _]]. exists pl. rewrite Hf. cbn [fst]. split; [reflexivity|]. split; [exact Ht|]. split; [lia|exact Hp].
  Qed.

  Lemma run_rf_f_masks : forall prog pos pl, (0 <= pos)%Z -> Forall wf_rop prog -> plan_transient pl -> nfaults_f pl <= budget ->
    exists pl', run_rf_f budget (zlen v) k b pos prog pl = (inl (run_file v pos prog), pl') /\ plan_transient pl' /\ nfaults_f pl' <= nfaults_f pl.
  Proof.
    induction prog as [|o prog IH]; intros pos pl Hpos Hw Ht Hn; cbn [run_rf_f run_file].
    - exists pl. split; [reflexivity|]. split; [exact Ht|lia].
    - inversion Hw as [|? ? Ho Hw']; subst.
      destruct (rf_step_f_masks pos o pl Hpos Ho Ht Hn) as [pl1 [E1 [Ht1 [Hn1 Hp1]]]]. rewrite E1.
      destruct (file_step v pos o) as [pos' ob]. cbn [fst] in Hp1.
      destruct (IH pos' pl1 Hp1 Hw' Ht1 ltac:(lia)) as [pl2 [E2 [Ht2 Hn2]]]. rewrite E2.
      destruct (run_file v pos' prog) as [os final]. exists pl2. split; [reflexivity|]. split; [exact Ht2|lia].
  Qed.
End Reader.

(* ================================================================ the backend over a failing store refines the spec *)
Definition cas_clean (o : op key) (pl : fplan) : Prop := match o with WriteCas _ _ => nfaults_f pl = 0 | _ => True end.

(* within the budget: only transient faults, at most `budget` of them over all requests of the operation; the
   conditional PUT of a CAS write is not under the retry, so a CAS write is considered fault-free *)
Definition op_plan_within (budget : nat) (o : op key) (pl : fplan) : Prop :=
  plan_transient pl /\ nfaults_f pl <= budget /\ cas_clean o pl.
(* ... and the request that would be the operation's last attempt (index `budget`) is answered *)
Definition op_plan_ok (budget : nat) (o : op key) (pl : fplan) : Prop :=
  op_plan_within budget o pl /\ nth budget pl None = None.

Fixpoint plans_within (budget : nat) (ops : list (op key)) (plans : list fplan) : Prop :=
  match ops with [] => True | o :: ops' => op_plan_within budget o (hd [] plans) /\ plans_within budget ops' (tl plans) end.
Fixpoint plans_ok (budget : nat) (ops : list (op key)) (plans : list fplan) : Prop :=
  match ops with [] => True | o :: ops' => op_plan_ok budget o (hd [] plans) /\ plans_ok budget ops' (tl plans) end.

Lemma fault_okb_sound : forall e, fault_okb e = true -> fault_ok e.
Proof.
  intros e H. destruct e; cbn [fault_okb] in H; try discriminate; try (split; exact I).
  apply andb_true_iff in H. destruct H as [H1 H2]. apply negb_true_iff in H1. apply negb_true_iff in H2. split; assumption.
Qed.

Lemma plan_transientb_sound : forall pl, plan_transientb pl = true -> plan_transient pl.
Proof.
  intros pl H w e Hin. unfold plan_transientb in H. rewrite forallb_forall in H. apply fault_okb_sound. exact (H _ Hin).
Qed.

Lemma op_plan_withinb_sound : forall budget o pl, op_plan_withinb budget o pl = true -> op_plan_within budget o pl.
Proof.
  intros budget o pl H. unfold op_plan_withinb in H. apply andb_true_iff in H. destruct H as [H H3]. apply andb_true_iff in H. destruct H as [H1 H2].
  split; [apply plan_transientb_sound; exact H1|]. split; [apply Nat.leb_le; exact H2|].
  destruct o; cbn [cas_clean]; try exact I. apply Nat.eqb_eq. exact H3.
Qed.

Lemma op_plan_okb_sound : forall budget o pl, op_plan_okb budget o pl = true -> op_plan_ok budget o pl.
Proof.
  intros budget o pl H. unfold op_plan_okb in H. apply andb_true_iff in H. destruct H as [H1 H2].
  split; [apply op_plan_withinb_sound; exact H1|]. destruct (nth budget pl None); [discriminate|reflexivity].
Qed.

Lemma plans_okb_sound : forall budget ops plans, plans_okb budget ops plans = true -> plans_ok budget ops plans.
Proof.
  induction ops as [|o ops IH]; intros plans H; [exact I|]. cbn [plans_okb] in H. apply andb_true_iff in H. destruct H as [H1 H2].
  split; [apply op_plan_okb_sound; exact H1|apply IH; exact H2].
Qed.

Lemma plans_withinb_sound : forall budget ops plans, plans_withinb budget ops plans = true -> plans_within budget ops plans.
Proof.
  induction ops as [|o ops IH]; intros plans H; [exact I|]. cbn [plans_withinb] in H. apply andb_true_iff in H. destruct H as [H1 H2].
  split; [apply op_plan_withinb_sound; exact H1|apply IH; exact H2].
Qed.

Section S3F.
  Variable budget : nat.
  Variable page : nat.
  Variable pfx : str.
  Variable F : bucket.
  Hypothesis HF : foreign_ok pfx F.
  Notation s3k := (s3k pfx).
  Notation km := (km pfx).
  Notation B st := (F ++ map km st).

  Lemma nf_read : In gen_code_read_notfound nf_codes. Proof. left. reflexivity. Qed.
  Lemma nf_size : In gen_code_size_notfound nf_codes. Proof. right. right. left. reflexivity. Qed.
  Lemma nf_mtime : In gen_code_mtime_notfound nf_codes. Proof. right. right. right. left. reflexivity. Qed.
  Lemma nf_open : In gen_code_open_notfound nf_codes. Proof. do 4 right. left. reflexivity. Qed.
  Lemma nf_readtag : In gen_code_readtag_notfound nf_codes. Proof. do 5 right. left. reflexivity. Qed.

  (* GET of a key that holds v / holds nothing, under the retry *)
  Lemma get_present : forall code st k v pl, In code nf_codes -> wf_store st -> Forall wf_seg k -> lookup key_eqb k st = Some v ->
    plan_transient pl -> nfaults_f pl <= budget ->
    exists pl', retry_f budget (att_get code (s3k k)) (B st) pl = (inl v, B st, pl') /\ plan_transient pl' /\ nfaults_f pl' <= nfaults_f pl.
  Proof.
    intros code st k v pl Hc Hs Hk El Ht Hn. unfold att_get.
    eapply (retry_f_masks _ _ (eq (B st))); [|reflexivity|exact Ht|exact Hn].
    eapply amap_spec; [apply request_good; [|reflexivity]|reflexivity|intros e He; apply conv_fault; assumption].
    intros b <-. unfold raw_get, s3_get_object. rewrite (s3_lookup pfx F HF st k Hs Hk), El. split; reflexivity.
  Qed.

  Lemma get_absent : forall code st k pl, In code nf_codes -> str_eqb (lit "NoSuchKey") code = true ->
    wf_store st -> Forall wf_seg k -> lookup key_eqb k st = None ->
    plan_transient pl -> nth budget pl None = None ->
    retry_f budget (att_get code (s3k k)) (B st) pl = (inr XNotFound, B st, skipn (S budget) pl).
  Proof.
    intros code st k pl Hc Hcode Hs Hk El Ht Hn. unfold att_get. apply retry_f_runs_out; [|exact Ht|exact Hn].
    intros pl0 Ht0. apply (request_notfound _ _ code (lit "NoSuchKey")); try assumption.
    unfold raw_get, s3_get_object. rewrite (s3_lookup pfx F HF st k Hs Hk), El. reflexivity.
  Qed.

  Lemma head_present : forall code st k v pl, In code nf_codes -> wf_store st -> Forall wf_seg k -> lookup key_eqb k st = Some v ->
    plan_transient pl -> nfaults_f pl <= budget ->
    exists pl', retry_f budget (att_head code (s3k k)) (B st) pl = (inl v, B st, pl') /\ plan_transient pl' /\ nfaults_f pl' <= nfaults_f pl.
  Proof.
    intros code st k v pl Hc Hs Hk El Ht Hn. unfold att_head.
    eapply (retry_f_masks _ _ (eq (B st))); [|reflexivity|exact Ht|exact Hn].
    eapply amap_spec; [apply request_good; [|reflexivity]|reflexivity|intros e He; apply conv_fault; assumption].
    intros b <-. unfold raw_head, s3_head_object. rewrite (s3_lookup pfx F HF st k Hs Hk), El. split; reflexivity.
  Qed.

  Lemma head_absent : forall code st k pl, In code nf_codes -> str_eqb (lit "404") code = true ->
    wf_store st -> Forall wf_seg k -> lookup key_eqb k st = None ->
    plan_transient pl -> nth budget pl None = None ->
    retry_f budget (att_head code (s3k k)) (B st) pl = (inr XNotFound, B st, skipn (S budget) pl).
  Proof.
    intros code st k pl Hc Hcode Hs Hk El Ht Hn. unfold att_head. apply retry_f_runs_out; [|exact Ht|exact Hn].
    intros pl0 Ht0. apply (request_notfound _ _ code (lit "404")); try assumption.
    unfold raw_head, s3_head_object. rewrite (s3_lookup pfx F HF st k Hs Hk), El. reflexivity.
  Qed.

  Lemma nofault_request : forall (V : Type) (ans : bucket -> V + fx) eff b pl, nfaults_f pl = 0 ->
    exists pl', request ans eff b pl = (ans b, eff b, pl').
  Proof.
    intros V ans eff b pl H. destruct pl as [|[f|] pl']; cbn [request].
    - exists []. reflexivity.
    - unfold nfaults_f in H. cbn [filter is_fault List.length] in H. discriminate H.
    - exists pl'. reflexivity.
  Qed.

  Lemma s3_f_sim_step : forall st o pl, wf_keys st -> wf_op o -> op_plan_ok budget o pl ->
    exists pl', s3_step_f budget page pfx (B st) (map_op join o) pl
                = (B (fst (spec_step st o)), pl', inl (snd (spec_step st o))).
  Proof.
    intros st o pl Hst Ho [[Ht [Hn Hcas]] Hlast]. pose proof (wf_keys_store st Hst) as Hs.
    destruct o as [k v|k|k|d|k|k|k|k prog|k|k v|k]; cbn [map_op s3_step_f spec_step fst snd wf_op cas_clean] in *;
      try (destruct Ho as [Hne Hk]; rewrite (get_key_join pfx k Hk); fold (s3k k)).
    - (* Write: a PUT that landed before its answer was lost is simply repeated *)
      pose (bf := upsert str_eqb (s3k k) v (B st)).
      destruct (retry_f_masks unit (att_put (s3k k) v) (fun b => b = B st \/ b = bf) tt bf) with (budget := budget) (b := B st) (pl := pl)
        as [pl' [E _]]; [|left; reflexivity|exact Ht|exact Hn|].
      + unfold att_put. apply request_good; [|right; reflexivity]. intros b [->| ->]; (split; [reflexivity|]); unfold s3_put_object; [reflexivity|apply upsert_idem].
      + rewrite E. exists pl'. unfold bf. rewrite (s3_upsert pfx F HF st k v Hs Hk). reflexivity.
    - (* Read *)
      destruct (lookup key_eqb k st) as [v|] eqn:El.
      + destruct (get_present _ st k v pl nf_read Hs Hk El Ht Hn) as [pl' [E _]]. rewrite E. exists pl'. reflexivity.
      + rewrite (get_absent _ st k pl nf_read eq_refl Hs Hk El Ht Hlast). eexists. reflexivity.
    - (* Exists *)
      unfold has. destruct (lookup key_eqb k st) as [v|] eqn:El.
      + destruct (retry_f_masks _ _ _ _ _ (att_exists_present (s3k k) (B st) v ltac:(rewrite (s3_lookup pfx F HF st k Hs Hk); exact El)) budget (B st) pl eq_refl Ht Hn)
          as [pl' [E _]]. rewrite E. exists pl'. reflexivity.
      + destruct (retry_f_masks _ _ _ _ _ (att_exists_absent (s3k k) (B st) ltac:(rewrite (s3_lookup pfx F HF st k Hs Hk); exact El) (key_not_dirlike pfx k (conj Hne Hk))) budget (B st) pl eq_refl Ht Hn)
          as [pl' [E _]]. rewrite E. exists pl'. reflexivity.
    - (* ListDir: the whole listing is redone *)
      destruct (retry_f_masks _ _ _ _ _ (att_list_spec page (gen_list_prefix pfx (join d)) (B st)) budget (B st) pl eq_refl Ht Hn) as [pl' [E _]].
      rewrite E. exists pl'. cbn [res_of]. rewrite (s3_listing pfx F HF st d Hst Ho). reflexivity.
    - (* Delete *)
      pose (bf := remove str_eqb (s3k k) (B st)).
      destruct (retry_f_masks unit (att_delete (s3k k)) (fun b => b = B st \/ b = bf) tt bf) with (budget := budget) (b := B st) (pl := pl)
        as [pl' [E _]]; [|left; reflexivity|exact Ht|exact Hn|].
      + unfold att_delete. apply request_good; [|right; reflexivity]. intros b [->| ->]; (split; [reflexivity|]); unfold s3_delete_object; [reflexivity|apply remove_idem].
      + rewrite E. exists pl'. unfold bf. rewrite (s3_remove pfx F HF st k Hs Hk). reflexivity.
    - (* Size *)
      destruct (lookup key_eqb k st) as [v|] eqn:El.
      + destruct (head_present _ st k v pl nf_size Hs Hk El Ht Hn) as [pl' [E _]]. rewrite E. exists pl'. reflexivity.
      + rewrite (head_absent _ st k pl nf_size eq_refl Hs Hk El Ht Hlast). eexists. reflexivity.
    - (* Mtime *)
      destruct (lookup key_eqb k st) as [v|] eqn:El.
      + destruct (head_present _ st k v pl nf_mtime Hs Hk El Ht Hn) as [pl' [E _]]. rewrite E. exists pl'. reflexivity.
      + rewrite (head_absent _ st k pl nf_mtime eq_refl Hs Hk El Ht Hlast). eexists. reflexivity.
    - (* Open: get_size under its retry, then every ranged GET under its own *)
      destruct Ho as [[Hne Hk] Hprog]. unfold s3_open_f, gen_open_size_path, gen_open_key. rewrite (get_key_join pfx k Hk). fold (s3k k).
      destruct (lookup key_eqb k st) as [v|] eqn:El.
      + destruct (head_present _ st k v pl nf_size Hs Hk El Ht Hn) as [pl1 [E1 [Ht1 Hn1]]]. rewrite E1.
        change (size_of v) with (zlen v).
        destruct (run_rf_f_masks budget (s3k k) (B st) v ltac:(rewrite (s3_lookup pfx F HF st k Hs Hk); exact El) prog 0%Z pl1 ltac:(lia) Hprog Ht1 ltac:(lia))
          as [pl2 [E2 _]]. rewrite E2. unfold file_obs. destruct (run_file v 0 prog) as [os final]. exists pl2. reflexivity.
      + rewrite (head_absent _ st k pl nf_size eq_refl Hs Hk El Ht Hlast). eexists. reflexivity.
    - (* Stream *)
      destruct (lookup key_eqb k st) as [v|] eqn:El.
      + destruct (get_present _ st k v pl nf_open Hs Hk El Ht Hn) as [pl' [E _]]. rewrite E. exists pl'. reflexivity.
      + rewrite (get_absent _ st k pl nf_open eq_refl Hs Hk El Ht Hlast). eexists. reflexivity.
    - (* WriteCas, fault-free: the tag just read matches *)
      cbv zeta. destruct (lookup key_eqb k st) as [cur|] eqn:El.
      + destruct (get_present _ st k cur pl nf_readtag Hs Hk El Ht Hn) as [pl1 [E1 [_ Hn1]]]. rewrite E1.
        destruct (nofault_request unit
                    (fun b => match s3_put_if b (s3k k) (Some cur) v with Some _ => inl tt | None => inr (XExn (ClientError (lit "PreconditionFailed"))) end)
                    (fun b => match s3_put_if b (s3k k) (Some cur) v with Some b' => b' | None => b end) (B st) pl1 ltac:(lia)) as [pl2 E2].
        rewrite E2. unfold s3_put_if. rewrite (s3_lookup pfx F HF st k Hs Hk), El. cbn [tag_matches]. rewrite str_eqb_refl.
        rewrite (s3_upsert pfx F HF st k v Hs Hk). exists pl2. reflexivity.
      + rewrite (get_absent _ st k pl nf_readtag eq_refl Hs Hk El Ht Hlast).
        destruct (nofault_request unit
                    (fun b => match s3_put_if b (s3k k) None v with Some _ => inl tt | None => inr (XExn (ClientError (lit "PreconditionFailed"))) end)
                    (fun b => match s3_put_if b (s3k k) None v with Some b' => b' | None => b end) (B st) (skipn (S budget) pl)
                    ltac:(pose proof (nfaults_skipn (S budget) pl); lia)) as [pl2 E2].
        rewrite E2. unfold s3_put_if. rewrite (s3_lookup pfx F HF st k Hs Hk), El. cbn [tag_matches].
        rewrite (s3_upsert pfx F HF st k v Hs Hk). exists pl2. reflexivity.
    - (* ReadTag *)
      destruct (lookup key_eqb k st) as [v|] eqn:El.
      + destruct (get_present _ st k v pl nf_readtag Hs Hk El Ht Hn) as [pl' [E _]]. rewrite E. exists pl'. reflexivity.
      + rewrite (get_absent _ st k pl nf_readtag eq_refl Hs Hk El Ht Hlast). eexists. reflexivity.
  Qed.

  Lemma s3_f_sim_run : forall ops st plans, wf_keys st -> Forall wf_op ops -> plans_ok budget ops plans ->
    fst (run_f budget page pfx (B st) (map (map_op join) ops) plans) = map inl (snd (run spec_step st ops)).
  Proof.
    induction ops as [|o ops IH]; intros st plans Hst Hops Hpl; [reflexivity|].
    inversion Hops as [|? ? Ho Hops']; subst. destruct Hpl as [Hp Hpl']. cbn [map run_f run].
    destruct (s3_f_sim_step st o (hd [] plans) Hst Ho Hp) as [pl' E]. rewrite E.
    destruct (s3_sim_step pfx F HF st o Hst Ho) as [_ Hst'].
    destruct (spec_step st o) as [st' ob] eqn:Es. cbn [fst snd] in *.
    specialize (IH st' (tl plans) Hst' Hops' Hpl').
    destruct (run_f budget page pfx (B st') (map (map_op join) ops) (tl plans)) as [rs bf].
    destruct (run spec_step st' ops) as [st2 os2]. cbn [fst snd map] in *. rewrite IH. reflexivity.
  Qed.
End S3F.

(* every history, every prefix, any foreign objects, any page size; transient faults before or after the effect at any
   request of any operation, at most max_retries per operation, the request with index max_retries answered:
   the results are those of the contract (and of the fault-free backend, and of the local backend) *)
Theorem s3_faulty_masks_partial : forall (page : nat) (raw_prefix : str) (F : bucket) (ops : list (op key)) (plans : list fplan),
  foreign_ok (gen_init_prefix raw_prefix) F -> Forall wf_op ops -> plans_ok gen_max_retries ops plans ->
  run_s3_f page raw_prefix F ops plans = map inl (run_spec ops).
Proof.
  intros page raw F ops plans HF Hops Hpl. unfold run_s3_f, run_spec.
  pose proof (s3_f_sim_run gen_max_retries page (gen_init_prefix raw) F HF ops [] plans (Forall_nil _) Hops Hpl) as H.
  simpl in H. rewrite app_nil_r in H. exact H.
Qed.

(* the hypothesis of the property's sentence, nothing else: every operation's plan holds transient faults only, at most
   max_retries of them -- whichever operation it is (a CAS write too), whichever request they hit *)
Definition plans_budget (budget : nat) (plans : list fplan) : Prop :=
  Forall (fun pl => plan_transient pl /\ nfaults_f pl <= budget) plans.

Lemma plans_budgetb_sound : forall budget plans, plans_budgetb budget plans = true -> plans_budget budget plans.
Proof.
  induction plans as [|pl plans IH]; intro H; [constructor|]. cbn [plans_budgetb] in H. apply andb_true_iff in H. destruct H as [H1 H2].
  unfold op_plan_budgetb in H1. apply andb_true_iff in H1. destruct H1 as [Ht Hn].
  constructor; [split; [apply plan_transientb_sound; exact Ht|apply Nat.leb_le; exact Hn]|apply IH; exact H2].
Qed.

(* the statement the property asks for: "transient S3 errors within the retry budget are masked without changing results" *)
Definition s3_faulty_masks_full : Prop :=
  forall (page : nat) (raw_prefix : str) (F : bucket) (ops : list (op key)) (plans : list fplan),
  foreign_ok (gen_init_prefix raw_prefix) F -> Forall wf_op ops -> plans_budget gen_max_retries plans ->
  run_s3_f page raw_prefix F ops plans = map inl (run_spec ops).

(* ... weakened by ONE of the two provisos of s3_faulty_masks_partial at a time: each is still false *)
(* (a) CAS writes fault-free, any request of the other operations may fail *)
Definition s3_faulty_masks_full_modulo_cas : Prop :=
  forall (page : nat) (raw_prefix : str) (F : bucket) (ops : list (op key)) (plans : list fplan),
  foreign_ok (gen_init_prefix raw_prefix) F -> Forall wf_op ops -> plans_within gen_max_retries ops plans ->
  run_s3_f page raw_prefix F ops plans = map inl (run_spec ops).
(* (b) the request with index max_retries of every operation answered, CAS writes like every other operation *)
Definition s3_faulty_masks_full_modulo_last_attempt : Prop :=
  forall (page : nat) (raw_prefix : str) (F : bucket) (ops : list (op key)) (plans : list fplan),
  foreign_ok (gen_init_prefix raw_prefix) F -> Forall wf_op ops -> plans_budget gen_max_retries plans ->
  Forall (fun pl => nth gen_max_retries pl None = None) plans ->
  run_s3_f page raw_prefix F ops plans = map inl (run_spec ops).

(* witness 1: read_file("x") on an empty table: max_retries answered requests (each a not-found, retried), then ONE transient
   error on the next request: the transient error surfaces -- the local backend answers not-found *)
Definition refute_ops : list (op key) := [Read [lit "x"]].
Definition refute_plans : list fplan := [repeat None gen_max_retries ++ [Some (FBefore, ClientError (lit "SlowDown"))]].
(* witness 2: write, then the CAS writer on the same key: its tag read is answered, ONE transient error on the conditional
   PUT (not under the retry): it surfaces -- every plan has a single fault, none at index max_retries *)
Definition refute_cas_ops : list (op key) := [Write [lit "x"] (lit "old"); WriteCas [lit "x"] (lit "new")].
Definition refute_cas_plans : list fplan := [[]; [None; Some (FBefore, ClientError (lit "SlowDown"))]].

Lemma refute_within : plans_within gen_max_retries refute_ops refute_plans.
Proof. apply plans_withinb_sound. vm_compute. reflexivity. Qed.
Lemma refute_budget : plans_budget gen_max_retries refute_plans.
Proof. apply plans_budgetb_sound. vm_compute. reflexivity. Qed.
Lemma refute_cas_budget : plans_budget gen_max_retries refute_cas_plans.
Proof. apply plans_budgetb_sound. vm_compute. reflexivity. Qed.
Lemma refute_run : run_s3_f 2 [] [] refute_ops refute_plans = [inr (ClientError (lit "SlowDown"))].
Proof. vm_compute. reflexivity. Qed.
Lemma refute_cas_run : run_s3_f 2 [] [] refute_cas_ops refute_cas_plans = [inl OUnit; inr (ClientError (lit "SlowDown"))].
Proof. vm_compute. reflexivity. Qed.
Lemma refute_wf : Forall wf_op refute_ops.
Proof. repeat constructor; vm_compute; try reflexivity; discriminate. Qed.
Lemma refute_cas_wf : Forall wf_op refute_cas_ops.
Proof. apply wf_opsb_sound. vm_compute. reflexivity. Qed.

Theorem s3_faulty_masks_refuted : ~ s3_faulty_masks_full.
Proof.
  intro H. specialize (H 2 [] [] refute_ops refute_plans). rewrite refute_run in H. discriminate H.
  - intros k [].
  - exact refute_wf.
  - exact refute_budget.
Qed.

(* the same statement refuted by the CAS witness alone (no key that holds nothing is touched) *)
Theorem s3_faulty_masks_refuted_by_cas : ~ s3_faulty_masks_full.
Proof.
  intro H. specialize (H 2 [] [] refute_cas_ops refute_cas_plans). rewrite refute_cas_run in H. discriminate H.
  - intros k [].
  - exact refute_cas_wf.
  - exact refute_cas_budget.
Qed.

Theorem s3_faulty_masks_modulo_cas_refuted : ~ s3_faulty_masks_full_modulo_cas.
Proof.
  intro H. specialize (H 2 [] [] refute_ops refute_plans). rewrite refute_run in H. discriminate H.
  - intros k [].
  - exact refute_wf.
  - exact refute_within.
Qed.

Theorem s3_faulty_masks_modulo_last_attempt_refuted : ~ s3_faulty_masks_full_modulo_last_attempt.
Proof.
  intro H. specialize (H 2 [] [] refute_cas_ops refute_cas_plans). rewrite refute_cas_run in H. discriminate H.
  - intros k [].
  - exact refute_cas_wf.
  - exact refute_cas_budget.
  - repeat constructor.
Qed.

(* write_file_cas is not under the retry: an error on its conditional PUT surfaces with that one request -- not masked,
   and when it was injected AFTER the effect the object is written although the caller saw the error *)
Theorem cas_put_fault_surfaces : forall (budget page : nat) (pfx : str) (b : bucket) (p : str) (cur v : bytes) (w : fwhen) (e : exn) (rest : fplan),
  lookup str_eqb (gen_get_s3_key pfx p) b = Some cur ->
  (match e with ClientError c => member c gen_cas_conflict_codes = false | _ => True end) ->
  s3_step_f budget page pfx b (WriteCas p v) (None :: Some (w, e) :: rest)
  = (match w with FBefore => b | FAfter => s3_put_object b (gen_get_s3_key pfx p) v end, rest, inr e).
Proof.
  intros budget page pfx b p cur v w e rest El He. cbn [s3_step_f]. cbv zeta.
  assert (retry_f budget (att_get gen_code_readtag_notfound (gen_get_s3_key pfx p)) b (None :: Some (w, e) :: rest)
          = (inl cur, b, Some (w, e) :: rest)) as E.
  { destruct budget; cbn [retry_f att_get amap request]; unfold raw_get, s3_get_object; rewrite El; reflexivity. }
  rewrite E. cbn [request]. unfold s3_put_if. rewrite El. cbn [tag_matches]. rewrite str_eqb_refl.
  destruct w; destruct e; try reflexivity; rewrite He; reflexivity.
Qed.

(* ================================================================ a definitive not-found is retried *)
(* what the code does: read_file / open_file / read_file_with_etag / get_size / get_modified_time / open_seekable of a
   key that holds nothing issue max_retries+1 requests (every one answered not-found) before FileNotFoundError surfaces *)
Theorem not_found_retried : forall (page : nat) (pfx : str) (b : bucket) (p : str),
  has str_eqb (gen_get_s3_key pfx p) b = false ->
  s3_trace page pfx b (Read p) = repeat (RGet (gen_get_s3_key pfx p)) (S gen_max_retries)
  /\ s3_trace page pfx b (Size p) = repeat (RHead (gen_get_s3_key pfx p)) (S gen_max_retries).
Proof. intros page pfx b p H. cbn [s3_trace]. rewrite H. split; reflexivity. Qed.

(* what "surfaces immediately" would mean for the answer of a strongly consistent store that the object does not exist *)
Definition not_found_immediate_full : Prop :=
  forall (page : nat) (pfx : str) (b : bucket) (p : str),
  has str_eqb (gen_get_s3_key pfx p) b = false -> s3_trace page pfx b (Read p) = [RGet (gen_get_s3_key pfx p)].

Theorem not_found_immediate_refuted : ~ not_found_immediate_full.
Proof. intro H. specialize (H 2 [] [] (lit "x") eq_refl). vm_compute in H. discriminate H. Qed.
