(* Proofs/GCLiveProofs.v -- fault-free runs: no abort on an undamaged store, and orphans ARE removed. *)
From Coq Require Import ZArith String Ascii List Bool Arith Lia.
Require Import DS.Model.PyStr DS.Gen.GenNorm DS.Model.GC DS.Proofs.PyStrProofs DS.Proofs.GCNormProofs DS.Proofs.GCProofs.
Import ListNotations.
Open Scope string_scope.
Open Scope Z_scope.

Definition undamaged (snaps : list string) (st : store) : Prop :=
  (forall k, ref_list snaps k -> exists ms, list_at st k ms) /\
  (forall k, ref_manifest snaps st k -> exists es, manifest_at st k es).

(* ------------------------------------------------------------------ fault-free primitives *)
Lemma nf_exists : forall g k, do_exists no_faults g k =
  (Some (is_some (lookup k (g_store g))), mkG (S (g_calls g)) (g_store g) ((KExists k, None) :: g_trace g)).
Proof. reflexivity. Qed.
Lemma nf_stat : forall g k, do_stat no_faults g k =
  (option_map mtime (lookup k (g_store g)), mkG (S (g_calls g)) (g_store g) ((KStat k, None) :: g_trace g)).
Proof. reflexivity. Qed.
Lemma nf_read : forall g k, do_read no_faults g k =
  (option_map body (lookup k (g_store g)), mkG (S (g_calls g)) (g_store g) ((KRead k, None) :: g_trace g)).
Proof. reflexivity. Qed.
Lemma nf_listdir : forall g p, do_listdir no_faults g p =
  (Some (list_dir p (g_store g)), mkG (S (g_calls g)) (g_store g) ((KListDir p, None) :: g_trace g)).
Proof. reflexivity. Qed.
Lemma nf_delete : forall g k, do_delete no_faults g k =
  (Some tt, mkG (S (g_calls g)) (remove_key k (g_store g)) ((KDelete k, None) :: g_trace g)).
Proof. reflexivity. Qed.

Lemma read_one_nf : forall w g k xs, holds w (g_store g) k xs -> exists g', read_one w no_faults g k = (Some xs, g').
Proof.
  intros w g k xs H. unfold read_one. rewrite nf_exists.
  assert (L: exists ob, lookup k (g_store g) = Some ob /\ as_w w (body ob) = Some xs) by (destruct w; exact H).
  destruct L as [ob [L B]]. rewrite L. cbn [is_some]. rewrite nf_exists. cbn [g_store]. rewrite L. cbn [is_some].
  unfold do_open, tick, no_faults. cbn [g_store g_calls g_trace]. rewrite L.
  unfold read_fallback, do_read, tick. cbn [g_store g_calls g_trace]. rewrite L. cbn [option_map].
  destruct w, (body ob) as [|[|] ?|[|] ?|?| | | |? [|]]; simpl in B; inversion B; subst; simpl; eauto.
Qed.

Lemma read_all_nf : forall w ks g, (forall k, In k ks -> exists xs, holds w (g_store g) k xs) ->
  exists ys g', read_all w no_faults g ks = (Some ys, g').
Proof.
  intros w ks. induction ks as [|k r IH]; intros g H; simpl.
  - eauto.
  - destruct (H k (or_introl eq_refl)) as [xs Hx]. destruct (read_one_nf w g k xs Hx) as [g1 E1]. rewrite E1.
    pose proof (read_one_store _ _ _ _ _ _ E1) as S1.
    destruct (IH g1) as [ys [g2 E2]].
    { intros k2 Hk2. rewrite S1. apply H. right. exact Hk2. }
    rewrite E2. eauto.
Qed.

(* ------------------------------------------------------------------ sweep: no abort, and liveness *)
Lemma sweep_loop_no_abort : forall tp cutoff keep o ks g dels,
  (forall k, In k ks -> escapes (normalize_path tp k) = false) ->
  fst (fst (sweep_loop tp cutoff keep o g ks dels)) = false.
Proof.
  intros tp cutoff keep o ks. induction ks as [|k r IH]; intros g dels H; simpl; [reflexivity|].
  rewrite (H k (or_introl eq_refl)).
  assert (H': forall k0, In k0 r -> escapes (normalize_path tp k0) = false) by (intros; apply H; right; assumption).
  destruct (str_mem (normalize_path tp k) keep); [apply IH; exact H'|].
  destruct (do_stat o g k) as [[t|] g1]; [|apply IH; exact H'].
  destruct (t <? cutoff); [|apply IH; exact H'].
  destruct (do_delete o g1 k) as [[u|] g2]; apply IH; exact H'.
Qed.

Lemma sweep_loop_live : forall tp cutoff keep ks g dels dels' g',
  sweep_loop tp cutoff keep no_faults g ks dels = (false, dels', g') ->
  forall k ob, In k ks -> str_mem (normalize_path tp k) keep = false -> lookup k (g_store g) = Some ob -> mtime ob < cutoff ->
  In k dels'.
Proof.
  intros tp cutoff keep ks. induction ks as [|k0 r IH]; intros g dels dels' g' H k ob Hin Hm L Old; [contradiction|].
  cbn [sweep_loop] in H. cbv zeta in H. destruct (escapes (normalize_path tp k0)); [discriminate|].
  destruct (string_dec k k0) as [->|NE].
  - rewrite Hm in H. rewrite nf_stat, L in H. cbn [option_map] in H.
    assert (E: (mtime ob <? cutoff) = true) by (apply Z.ltb_lt; exact Old). rewrite E, nf_delete in H.
    apply sweep_loop_spec in H. destruct H as [_ [_ [_ I4]]]. apply I4. left. reflexivity.
  - destruct Hin as [E|Hin]; [congruence|].
    destruct (str_mem (normalize_path tp k0) keep); [eapply IH; eauto|].
    rewrite nf_stat in H. destruct (lookup k0 (g_store g)) as [ob0|] eqn:L0; cbn [option_map] in H.
    + destruct (mtime ob0 <? cutoff).
      * rewrite nf_delete in H. eapply IH; eauto. cbn [g_store]. rewrite lookup_remove_other by exact NE. exact L.
      * eapply IH; eauto.
    + eapply IH; eauto.
Qed.

Lemma sweep_nf_live : forall tp grace now keep g prefix dels dels' g',
  sweep tp grace now keep no_faults g prefix dels = (false, dels', g') ->
  forall k ob, startswith (prefix ++ "/") k = true -> str_mem (normalize_path tp k) keep = false ->
  lookup k (g_store g) = Some ob -> mtime ob < now - grace -> In k dels'.
Proof.
  intros tp grace now keep g prefix dels dels' g' H k ob Hp Hm L Old. unfold sweep in H. rewrite nf_listdir in H.
  eapply sweep_loop_live; eauto. apply in_list_dir. split; [eapply lookup_In_keys; eauto|exact Hp].
Qed.

Lemma sweep_nf_no_abort : forall tp grace now keep g prefix dels,
  (startswith "data/" (prefix ++ "/") = true \/ startswith "metadata/" (prefix ++ "/") = true) ->
  fst (fst (sweep tp grace now keep no_faults g prefix dels)) = false.
Proof.
  intros tp grace now keep g prefix dels HP. unfold sweep. rewrite nf_listdir. apply sweep_loop_no_abort.
  intros k Hk. apply in_list_dir in Hk. destruct Hk as [_ Hk].
  assert (TR: table_relative k).
  { apply startswith_spec in Hk. destruct Hk as [r ->]. destruct HP as [HP|HP]; [left|right];
      apply startswith_spec in HP; destruct HP as [q ->]; rewrite append_assoc; apply startswith_app. }
  rewrite norm_table_relative by exact TR. apply table_relative_not_escape. exact TR.
Qed.

(* ------------------------------------------------------------------ fault-free protection is exactly the live set *)
Lemma markers_loop_nf_prot : forall tp cutoff ms g prot prot' g',
  markers_loop tp cutoff no_faults g ms prot = (prot', g') ->
  markers_wf (g_store g) -> NoDup ms ->
  (forall mp, In mp ms -> startswith (INFLIGHT_PATH ++ "/") mp = true /\ exists ob, lookup mp (g_store g) = Some ob) ->
  forall k, In k prot' -> In k prot \/
    exists mk ob, lookup mk (g_store g) = Some ob /\ is_marker_key mk /\ cutoff <= mtime ob /\ marker_denotes mk ob k.
Proof.
  intros tp cutoff ms. induction ms as [|mp r IH]; intros g prot prot' g' H W ND HM k Hk.
  - simpl in H. inversion H; subst. auto.
  - cbn [markers_loop] in H. cbv zeta in H. destruct (HM mp (or_introl eq_refl)) as [Hp [ob L]].
    assert (TR: table_relative mp) by (apply listed_inflight_relative; exact Hp).
    rewrite norm_table_relative in H by exact TR. rewrite nf_stat, L in H. cbn [option_map] in H.
    inversion ND as [|? ? Hnotin ND']; subst.
    assert (HM1: forall mp0, In mp0 r -> startswith (INFLIGHT_PATH ++ "/") mp0 = true /\ exists ob0, lookup mp0 (g_store g) = Some ob0)
      by (intros; apply HM; right; assumption).
    destruct (negb (endswith INFLIGHT_SUFFIX (basename mp))) eqn:EE.
    { eapply IH in H; eauto. }
    apply negb_false_iff in EE.
    destruct (marker_targets tp no_faults _ mp (basename mp)) as [T g2] eqn:ET.
    pose proof (marker_targets_store _ _ _ _ _ _ _ ET) as S2. cbn [g_store] in S2.
    assert (TD: forall k0, In k0 T -> marker_denotes mp ob k0).
    { intros k0 Hk0. unfold marker_targets in ET. rewrite nf_read in ET. cbn [g_store] in ET. rewrite L in ET. cbn [option_map] in ET.
      unfold marker_denotes. destruct (body ob) as [| | |[t|]| | | |? ?] eqn:B; try (inversion ET; subst; rewrite marker_fallback_covers in Hk0; exact Hk0).
      destruct (nonempty t) eqn:N; inversion ET; subst.
      - destruct Hk0 as [<-|[]]. apply norm_wf_ref. unfold wf_ref. eapply name_candidates_relative. eapply W; eauto. split; assumption.
      - rewrite marker_fallback_covers in Hk0. exact Hk0. }
    destruct (cutoff <=? mtime ob) eqn:EA.
    + assert (R: In k (T ++ prot)%list \/ exists mk ob', lookup mk (g_store g2) = Some ob' /\ is_marker_key mk /\ cutoff <= mtime ob' /\ marker_denotes mk ob' k).
      { apply (IH g2 (T ++ prot)%list prot' g' H); auto.
        - rewrite S2. exact W.
        - intros mp0 Hin. rewrite S2. auto. }
      destruct R as [R|R].
      * apply in_app_or in R. destruct R as [R|R]; [|auto]. right. exists mp, ob. split; [exact L|]. split; [split; assumption|].
        split; [apply Z.leb_le; exact EA|auto].
      * right. destruct R as [mk [ob' [L' R]]]. rewrite S2 in L'. eauto.
    + rewrite nf_delete in H.
      match type of H with markers_loop _ _ _ ?g3 _ _ = _ =>
        assert (R: In k prot \/ exists mk ob', lookup mk (g_store g3) = Some ob' /\ is_marker_key mk /\ cutoff <= mtime ob' /\ marker_denotes mk ob' k)
      end.
      { apply (IH _ prot prot' g' H); auto.
        - cbn [g_store]. rewrite S2. eapply markers_wf_le; [apply store_le_remove|exact W].
        - intros mp0 Hin. cbn [g_store]. rewrite S2. destruct (HM1 mp0 Hin) as [A [ob0 B]]. split; [exact A|].
          exists ob0. rewrite lookup_remove_other; [exact B|]. intros ->. contradiction. }
      destruct R as [R|R]; [auto|]. right. destruct R as [mk [ob' [L' R]]]. cbn [g_store] in L'. rewrite S2 in L'.
      apply store_le_remove in L'. eauto.
Qed.

Lemma NoDup_filter : forall (A : Type) (f : A -> bool) (l : list A), NoDup l -> NoDup (filter f l).
Proof.
  intros A f l H. induction H as [|x l Hx H IH]; simpl; [constructor|].
  destruct (f x); [constructor; [rewrite filter_In; tauto|exact IH]|exact IH].
Qed.

Lemma load_protection_nf : forall tp timeout now g, exists prot g', load_protection tp timeout now no_faults g = (Some prot, g').
Proof.
  intros. unfold load_protection. rewrite nf_listdir.
  destruct (markers_loop tp (now - timeout) no_faults _ (list_dir INFLIGHT_PATH (g_store g)) []) as [p g2]. eauto.
Qed.

Lemma load_protection_nf_live : forall tp timeout now g prot g',
  load_protection tp timeout now no_faults g = (Some prot, g') -> markers_wf (g_store g) -> NoDup (map fst (g_store g)) ->
  forall k, In k prot -> live_target now timeout (g_store g) k.
Proof.
  intros tp timeout now g prot g' H W ND k Hk. unfold load_protection in H. rewrite nf_listdir in H.
  destruct (markers_loop tp (now - timeout) no_faults _ (list_dir INFLIGHT_PATH (g_store g)) []) as [p g2] eqn:EM.
  inversion H; subst p g2. eapply markers_loop_nf_prot in EM; eauto.
  - destruct EM as [[]|[mk [ob [L [M [F D]]]]]]. exists mk, ob. auto.
  - apply NoDup_filter. exact ND.
  - intros mp Hmp. apply in_list_dir in Hmp. destruct Hmp as [A B]. split; [exact B|]. apply In_keys_lookup. exact A.
Qed.

(* ------------------------------------------------------------------ phases, fault-free *)
Lemma list_at_le' : forall a b k ms, store_le a b -> list_at a k ms -> list_at b k ms.
Proof. intros a b k ms L [ob [H1 H2]]. exists ob. split; [apply L; exact H1|exact H2]. Qed.
Lemma manifest_at_le' : forall a b k es, store_le a b -> manifest_at a k es -> manifest_at b k es.
Proof. intros a b k es L [ob [H1 H2]]. exists ob. split; [apply L; exact H1|exact H2]. Qed.

Lemma referenced_le : forall snaps st st1, store_le st1 st ->
  (forall k, ref_manifest snaps st1 k -> ref_manifest snaps st k) /\ (forall k, ref_data snaps st1 k -> ref_data snaps st k).
Proof.
  intros snaps st st1 LE. split.
  - intros k [l [ms [m [H1 [H2 [H3 [H4 [H5 E]]]]]]]]. exists l, ms, m. repeat split; auto. eapply list_at_le'; eauto.
  - intros k [l [ms [m [es [e [H1 [H2 [H3 [H4 [H5 [H6 [H7 E]]]]]]]]]]]]. exists l, ms, m, es, e. repeat split; auto;
      [eapply list_at_le'; eauto|eapply manifest_at_le'; eauto].
Qed.

Lemma undamaged_transfer : forall now timeout snaps st st1, wf_store snaps st -> only_markers_removed now timeout st st1 ->
  undamaged snaps st -> undamaged snaps st1.
Proof.
  intros now timeout snaps st st1 WF O [UL UM]. pose proof O as [LE _]. destruct (referenced_le snaps st st1 LE) as [RM _]. split.
  - intros k R. destruct (UL k R) as [ms [ob [L B]]]. exists ms, ob. split; [|exact B]. eapply omr_keeps_meta; eauto.
    destruct R as [l [H1 [H2 ->]]]. exact (wf_snaps _ _ WF l H1 H2).
  - intros k R. destruct (UM k (RM k R)) as [es [ob [L B]]]. exists es, ob. split; [|exact B]. eapply omr_keeps_meta; eauto.
    destruct (RM k R) as [l [ms [m [H1 [H2 [[obl [Ll Bl]] [H4 [H5 ->]]]]]]]]. exact (wf_lists _ _ WF _ _ _ _ Ll Bl H4 H5).
Qed.

Lemma reach_nf : forall tp snaps g, wf_store snaps (g_store g) -> undamaged snaps (g_store g) ->
  exists rl rm rd g', reach tp no_faults snaps g = (ROk rl rm rd, g').
Proof.
  intros tp snaps g WF [UL UM]. unfold reach.
  destruct (read_all_nf WList (norm_set tp snaps) g) as [mp [g1 RL]].
  { intros k Hk. apply (lists_exact tp snaps (g_store g) WF) in Hk. destruct (UL k Hk) as [ms Hms]. exists ms. exact Hms. }
  rewrite RL. assert (S1: g_store g1 = g_store g) by (exact (read_all_store _ _ _ _ _ _ RL)).
  destruct (read_all_nf WManifest (norm_set tp mp) g1) as [es [g2 RM]].
  { intros k Hk. apply (manifests_exact tp snaps (g_store g) WF no_faults g g1 mp eq_refl RL) in Hk. destruct (UM k Hk) as [xs Hxs]. exists xs. rewrite S1. exact Hxs. }
  rewrite RM. eauto.
Qed.

Lemma sweeps_nf_done : forall tp grace now rl rm rd prot g, r_out (sweeps tp grace now no_faults rl rm rd prot g) = Done.
Proof.
  intros. unfold sweeps.
  pose proof (sweep_nf_no_abort tp grace now (rd ++ prot) g DATA_PREFIX [] (or_introl eq_refl)) as N1.
  destruct (sweep tp grace now (rd ++ prot) no_faults g DATA_PREFIX []) as [[b1 d1] g4]. cbn [fst] in N1. subst b1.
  pose proof (sweep_nf_no_abort tp grace now ((rm ++ rl) ++ prot) g4 MANIFESTS_PREFIX d1 (or_intror eq_refl)) as N2.
  destruct (sweep tp grace now ((rm ++ rl) ++ prot) no_faults g4 MANIFESTS_PREFIX d1) as [[b2 d2] g5]. cbn [fst] in N2. subst b2.
  reflexivity.
Qed.

Lemma sweeps_nf_live : forall tp grace now rl rm rd prot g k ob,
  lookup k (g_store g) = Some ob ->
  startswith (DATA_PREFIX ++ "/") k = true \/ startswith (MANIFESTS_PREFIX ++ "/") k = true ->
  ~ In k rd -> ~ In k rm -> ~ In k rl -> ~ In k prot -> mtime ob < now - grace ->
  In k (r_deleted (sweeps tp grace now no_faults rl rm rd prot g)).
Proof.
  intros tp grace now rl rm rd prot g k ob L Hpre ND NM NL NP Old.
  assert (TR: table_relative k) by (destruct Hpre; [apply listed_data_relative|apply listed_manifests_relative]; assumption).
  pose proof (sweeps_nf_done tp grace now rl rm rd prot g) as DONE. unfold sweeps in *.
  destruct (sweep tp grace now (rd ++ prot) no_faults g DATA_PREFIX []) as [[b1 d1] g4] eqn:SW1.
  destruct b1; [discriminate|].
  destruct (sweep tp grace now ((rm ++ rl) ++ prot) no_faults g4 MANIFESTS_PREFIX d1) as [[b2 d2] g5] eqn:SW2.
  destruct b2; [discriminate|]. cbn [r_deleted].
  pose proof (sweep_spec _ _ _ _ _ _ _ _ _ _ _ SW1) as [A1 [_ [A3 _]]].
  pose proof (sweep_spec _ _ _ _ _ _ _ _ _ _ _ SW2) as [_ [_ [_ B4]]].
  destruct Hpre as [Hp|Hp].
  - apply B4. eapply (sweep_nf_live _ _ _ _ _ _ _ _ _ SW1); eauto.
    rewrite norm_table_relative by exact TR. apply str_mem_false. intro Hin. apply in_app_or in Hin. tauto.
  - assert (L4: lookup k (g_store g4) = Some ob).
    { destruct (lookup k (g_store g4)) as [ob4|] eqn:E.
      - apply A1 in E. congruence.
      - destruct (A3 k ob L E) as [_ [Hd| ->]]; [|discriminate]. exfalso.
        apply startswith_spec in Hd. destruct Hd as [r ->]. discriminate. }
    eapply (sweep_nf_live _ _ _ _ _ _ _ _ _ SW2); eauto.
    rewrite norm_table_relative by exact TR. apply str_mem_false. intro Hin. apply in_app_or in Hin. destruct Hin as [Hin|Hin]; [|tauto].
    apply in_app_or in Hin. tauto.
Qed.

(* ------------------------------------------------------------------ theorems *)
Theorem gc_no_abort_from : forall mf tp grace now timeout snaps g0,
  wf_store snaps (g_store g0) -> undamaged snaps (g_store g0) -> r_out (gc_run_from mf tp grace now timeout no_faults snaps g0) = Done.
Proof.
  intros mf tp grace now timeout snaps g0 WF U. unfold gc_run_from. destruct mf.
  - destruct (load_protection_nf tp timeout now g0) as [prot [g1 LP]]. rewrite LP.
    pose proof (load_protection_omr _ _ _ _ _ _ _ LP (wf_store_markers _ _ WF)) as O.
    pose proof (load_protection_sub _ _ _ _ _ _ _ LP) as SUB.
    assert (WF1: wf_store snaps (g_store g1)) by (destruct O; eapply wf_store_le; eauto; eapply sub_nodup; eauto; exact (wf_nodup _ _ WF)).
    destruct (reach_nf tp snaps g1 WF1 (undamaged_transfer _ _ _ _ _ WF O U)) as [rl [rm [rd [g2 RE]]]]. rewrite RE. apply sweeps_nf_done.
  - destruct (reach_nf tp snaps g0 WF U) as [rl [rm [rd [g1 RE]]]]. rewrite RE.
    destruct (load_protection_nf tp timeout now g1) as [prot [g2 LP]]. rewrite LP. apply sweeps_nf_done.
Qed.

Theorem gc_no_abort : forall tp grace now timeout snaps st,
  wf_store snaps st -> undamaged snaps st -> r_out (gc_run tp grace now timeout no_faults snaps st) = Done.
Proof. intros tp grace now timeout snaps st WF U. unfold gc_run. exact (gc_no_abort_from MARKERS_FIRST tp grace now timeout snaps (mkG 0 st []) WF U). Qed.

Theorem gc_live_from : forall mf tp grace now timeout snaps g0,
  wf_store snaps (g_store g0) -> r_out (gc_run_from mf tp grace now timeout no_faults snaps g0) = Done ->
  forall k ob, lookup k (g_store g0) = Some ob ->
    startswith (DATA_PREFIX ++ "/") k = true \/ startswith (MANIFESTS_PREFIX ++ "/") k = true ->
    ~ referenced snaps (g_store g0) k -> ~ live_target now timeout (g_store g0) k -> mtime ob < now - grace ->
    In k (r_deleted (gc_run_from mf tp grace now timeout no_faults snaps g0)).
Proof.
  intros mf tp grace now timeout snaps g0 WF. set (st := g_store g0) in *.
  assert (MW: markers_wf st) by (eapply wf_store_markers; eauto).
  assert (KEEPS: forall g1 k ob, only_markers_removed now timeout st (g_store g1) -> lookup k st = Some ob ->
            startswith (DATA_PREFIX ++ "/") k = true \/ startswith (MANIFESTS_PREFIX ++ "/") k = true -> lookup k (g_store g1) = Some ob).
  { intros g1 k ob [LE RM] L Hpre. destruct (lookup k (g_store g1)) as [ob1|] eqn:E.
    - apply LE in E. congruence.
    - destruct (RM k ob L E) as [_ [M _]]. exfalso. destruct Hpre as [Hp|Hp].
      + rewrite (marker_not_data k M) in Hp. discriminate.
      + rewrite (marker_not_manifests k M) in Hp. discriminate. }
  unfold gc_run_from. destruct mf.
  - destruct (load_protection tp timeout now no_faults g0) as [[prot|] g1] eqn:LP; [|discriminate].
    pose proof (load_protection_nf_live _ _ _ _ _ _ LP MW (wf_nodup _ _ WF)) as PL.
    pose proof (load_protection_omr _ _ _ _ _ _ _ LP MW) as O. pose proof (load_protection_sub _ _ _ _ _ _ _ LP) as SUB.
    assert (WF1: wf_store snaps (g_store g1)) by (destruct O; eapply wf_store_le; eauto; eapply sub_nodup; eauto; exact (wf_nodup _ _ WF)).
    destruct (reach tp no_faults snaps g1) as [[ph rl rm|rl rm rd] g2] eqn:RE; [discriminate|].
    pose proof (reach_store _ _ _ _ _ _ RE) as S2. pose proof (reach_ok _ _ _ _ _ _ _ _ WF1 RE) as RC.
    destruct O as [LE RMV]. destruct (referenced_le snaps st (g_store g1) LE) as [TM TD].
    intros _ k ob L Hpre NR NL Old. apply sweeps_nf_live with (ob := ob); [| exact Hpre | | | | | exact Old].
    + rewrite S2. exact (KEEPS g1 k ob (conj LE RMV) L Hpre).
    + intro Hin. apply NR. right. right. apply TD. exact (rx_data _ _ _ _ _ RC k Hin).
    + intro Hin. apply NR. right. left. apply TM. exact (rx_manifests _ _ _ _ _ RC k Hin).
    + intro Hin. apply NR. left. exact (rx_lists _ _ _ _ _ RC k Hin).
    + intro Hin. apply NL. apply PL. exact Hin.
  - destruct (reach tp no_faults snaps g0) as [[ph rl rm|rl rm rd] g1] eqn:RE; [discriminate|].
    pose proof (reach_store _ _ _ _ _ _ RE) as S1. pose proof (reach_ok _ _ _ _ _ _ _ _ WF RE) as RC. fold st in RC.
    destruct (load_protection tp timeout now no_faults g1) as [[prot|] g2] eqn:LP; [|discriminate].
    assert (MW1: markers_wf (g_store g1)) by (rewrite S1; exact MW).
    assert (ND1: NoDup (map fst (g_store g1))) by (rewrite S1; exact (wf_nodup _ _ WF)).
    pose proof (load_protection_nf_live _ _ _ _ _ _ LP MW1 ND1) as PL. rewrite S1 in PL.
    pose proof (load_protection_omr _ _ _ _ _ _ _ LP MW1) as O. rewrite S1 in O.
    intros _ k ob L Hpre NR NL Old. apply sweeps_nf_live with (ob := ob); [| exact Hpre | | | | | exact Old].
    + exact (KEEPS g2 k ob O L Hpre).
    + intro Hin. apply NR. right. right. exact (rx_data _ _ _ _ _ RC k Hin).
    + intro Hin. apply NR. right. left. exact (rx_manifests _ _ _ _ _ RC k Hin).
    + intro Hin. apply NR. left. exact (rx_lists _ _ _ _ _ RC k Hin).
    + intro Hin. apply NL. apply PL. exact Hin.
Qed.

Theorem gc_live : forall tp grace now timeout snaps st,
  wf_store snaps st -> r_out (gc_run tp grace now timeout no_faults snaps st) = Done ->
  forall k ob, lookup k st = Some ob ->
    startswith (DATA_PREFIX ++ "/") k = true \/ startswith (MANIFESTS_PREFIX ++ "/") k = true ->
    ~ referenced snaps st k -> ~ live_target now timeout st k -> mtime ob < now - grace ->
    In k (r_deleted (gc_run tp grace now timeout no_faults snaps st)).
Proof. intros tp grace now timeout snaps st WF. unfold gc_run. exact (gc_live_from MARKERS_FIRST tp grace now timeout snaps (mkG 0 st []) WF). Qed.
