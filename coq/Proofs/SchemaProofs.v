(* Proofs/SchemaProofs.v -- lemmas for property C11 over Model/Schema.v and Gen/GenSchema.v. *)
From Coq Require Import ZArith QArith Qround Qabs List Bool Lia.
Require Import DS.Model.Value DS.Gen.GenPrune DS.Model.Prune DS.Gen.GenSchema DS.Model.Schema.
Require Import DS.Proofs.PruneProofs.
Import ListNotations.
Open Scope Z_scope.

(* ------------------------------------------------------------------ decidable equalities *)
Lemma ptype_eqb_eq a b : ptype_eqb a b = true <-> a = b.
Proof.
  unfold ptype_eqb. split.
  - intro H. apply Z.eqb_eq in H. destruct a, b; simpl in H; try reflexivity; discriminate.
  - intros ->. apply Z.eqb_refl.
Qed.

Lemma atype_eqb_eq a b : atype_eqb a b = true <-> a = b.
Proof.
  unfold atype_eqb. split.
  - intro H. apply Z.eqb_eq in H. destruct a, b; simpl in H; try reflexivity; discriminate.
  - intros ->. apply Z.eqb_refl.
Qed.

Lemma ctype_eqb_eq a : forall b, ctype_eqb a b = true <-> a = b.
Proof.
  induction a as [t|e IH]; destruct b as [u|f]; simpl; split; intro H; try discriminate.
  - apply ptype_eqb_eq in H. subst; reflexivity.
  - inversion H; subst. apply ptype_eqb_eq. reflexivity.
  - apply IH in H. subst; reflexivity.
  - inversion H; subst. apply IH. reflexivity.
Qed.

Lemma catype_eqb_eq a : forall b, catype_eqb a b = true <-> a = b.
Proof.
  induction a as [t|e IH]; destruct b as [u|f]; simpl; split; intro H; try discriminate.
  - apply atype_eqb_eq in H. subst; reflexivity.
  - inversion H; subst. apply atype_eqb_eq. reflexivity.
  - apply IH in H. subst; reflexivity.
  - inversion H; subst. apply IH. reflexivity.
Qed.

Lemma sigv_eqb_eq x y : sigv_eqb x y = true <-> x = y.
Proof.
  destruct x as [a|a|a sa|a], y as [b|b|b sb|b]; simpl; split; intro H; try discriminate.
  - apply Z.eqb_eq in H; subst; auto.
  - inversion H; subst. apply Z.eqb_refl.
  - apply Z.eqb_eq in H; subst; auto.
  - inversion H; subst. apply Z.eqb_refl.
  - apply andb_true_iff in H. destruct H as [Ha Hb]. apply ctype_eqb_eq in Ha. apply Z.eqb_eq in Hb. subst; auto.
  - inversion H; subst. apply andb_true_iff. split; [apply ctype_eqb_eq; auto | apply Z.eqb_refl].
  - apply Bool.eqb_prop in H; subst; auto.
  - inversion H; subst. apply Bool.eqb_reflx.
Qed.

Lemma list_eqb_eq {A} (eqb : A -> A -> bool) :
  (forall a b, eqb a b = true <-> a = b) -> forall x y, list_eqb eqb x y = true <-> x = y.
Proof.
  intros E. induction x as [|a x IH]; destruct y as [|b y]; simpl; split; intro H; try discriminate; auto.
  - apply andb_true_iff in H. destruct H as [H1 H2]. apply E in H1. apply IH in H2. subst; auto.
  - inversion H; subst. apply andb_true_iff. split; [apply E; auto | apply IH; auto].
Qed.

Lemma tuple_eqb_eq x y : tuple_eqb x y = true <-> x = y.
Proof. apply list_eqb_eq. apply sigv_eqb_eq. Qed.

Lemma afield_eqb_eq x y : afield_eqb x y = true <-> x = y.
Proof.
  destruct x as [[n1 t1] b1], y as [[n2 t2] b2]. simpl. split; intro H.
  - apply andb_true_iff in H. destruct H as [H H3]. apply andb_true_iff in H. destruct H as [H1 H2].
    apply Z.eqb_eq in H1. apply catype_eqb_eq in H2. apply Bool.eqb_prop in H3. subst; auto.
  - inversion H; subst. rewrite Z.eqb_refl, Bool.eqb_reflx. simpl. rewrite andb_true_r. apply catype_eqb_eq; auto.
Qed.

Lemma aschema_eqb_eq x y : aschema_eqb x y = true <-> x = y.
Proof. apply list_eqb_eq. apply afield_eqb_eq. Qed.

Lemma map_inj {A B} (f : A -> B) : (forall a b, f a = f b -> a = b) -> forall x y, map f x = map f y -> x = y.
Proof.
  intro I. induction x as [|a x IH]; destruct y as [|b y]; simpl; intro H; try discriminate; auto.
  inversion H. f_equal; auto.
Qed.

(* ------------------------------------------------------------------ the signature (as regenerated) *)
(* The two facts the rest of the development needs from Gen/GenSchema.v: the signature is an ORDERED
   list, and its tuple determines a field completely (id, name, type, required). *)
Lemma sig_field_inj f g : sig_field f = sig_field g -> f = g.
Proof.
  unfold sig_field, sig_comps. simpl. intro H. destruct f, g. simpl in H. inversion H; subst. reflexivity.
Qed.

Lemma accept_schema_eq t a : accept_schema t a = true <-> a = t.
Proof.
  unfold accept_schema, sig_eqb, sig_ordered. split.
  - intro H. apply (list_eqb_eq tuple_eqb tuple_eqb_eq) in H. unfold signature in H.
    apply (map_inj sig_field sig_field_inj) in H. exact H.
  - intros ->. apply (list_eqb_eq tuple_eqb tuple_eqb_eq). reflexivity.
Qed.

(* C11_accept_scans, single step *)
Lemma accept_arrow t a : accept_schema t a = true -> arrow_of a = arrow_of t.
Proof. intro H. apply accept_schema_eq in H. subst. reflexivity. Qed.

(* C11_accept_bounds *)
Lemma accept_bounds t a : accept_schema t a = true ->
  (forall col, fid_in a col = fid_in t col)
  /\ (forall ar rows, bounds_for a ar rows = bounds_for t ar rows)
  /\ (forall r, validate_record a r = validate_record t r).
Proof. intro H. apply accept_schema_eq in H. subst. repeat split. Qed.

(* ------------------------------------------------------------------ generic list facts *)
Lemma lookup_In {A} k (l : list (Z * A)) v : lookup k l = Some v -> In (k, v) l.
Proof.
  induction l as [|[k' v'] l IH]; simpl; intro H; [discriminate|].
  destruct (Z.eqb_spec k k'); [inversion H; subst; left; auto | right; auto].
Qed.

Lemma remove_fresh x l : ~ In x l -> remove x (x :: l) = l.
Proof.
  intro NI. unfold remove. simpl. rewrite Z.eqb_refl. simpl.
  induction l as [|y l IH]; simpl; auto.
  destruct (Z.eqb_spec y x) as [->|NE]; simpl.
  - exfalso. apply NI. left; auto.
  - f_equal. apply IH. intro. apply NI. right; auto.
Qed.

Lemma aschema_eqb_refl a : aschema_eqb a a = true.
Proof. apply aschema_eqb_eq. reflexivity. Qed.

Lemma scan_ok_same (A : aschema) files : (forall f, In f files -> df_arrow f = A) -> scan_ok files = true.
Proof.
  intro H. destruct files as [|f fs]; simpl; auto.
  apply forallb_forall. intros g Hg. rewrite (H g (or_intror Hg)), (H f (or_introl eq_refl)). apply aschema_eqb_refl.
Qed.

(* ------------------------------------------------------------------ the reference predicate *)
(* `representable t v`: the declared type t can hold the Python value v without altering it
   (None apart: nullability is a property of the field, not of the type).  Written from the
   property text, independently of the code's admission test value_fits.
   Ints offered to float / double columns are handed to pyarrow, which stores them only when exact:
   that side is part of conv_sound (the stored value is the number z itself). *)
Definition int_range (t : ptype) (z : Z) : Prop :=
  match t with T_int => - 2 ^ 31 <= z < 2 ^ 31 | _ => - 2 ^ 63 <= z < 2 ^ 63 end.

Definition representable (t : ptype) (v : pyval) : Prop :=
  match v with
  | PV VNull => True
  | POther => False
  | PList _ => False
  | PBytes _ => t = T_binary \/ t = T_fixed
  | PV w =>
    match t with
    | T_boolean => exists b, w = VBool b
    | T_int | T_long =>
      exists z, int_range t z /\ (w = VInt z \/ exists q, w = VFlt (Fin q) /\ (q == inject_Z z)%Q)
    | T_float =>
      (exists z, w = VInt z) \/ (exists f, w = VFlt f /\ match f with Fin q => (Qabs q < inject_Z (2 ^ 128 - 2 ^ 103))%Q | _ => True end)
    | T_double => (exists z, w = VInt z) \/ (exists f, w = VFlt f)
    | T_string | T_uuid => exists s, w = VStr s
    | T_date => exists d, w = VDate d
    | T_time => exists u, w = VTime u
    | T_timestamp => exists u, w = VTs u
    | T_binary | T_fixed => False
    end
  end.

Lemma f32_finite_abs q : f32_finite q = true -> (Qabs q < inject_Z (2 ^ 128 - 2 ^ 103))%Q.
Proof.
  unfold f32_finite, f32_limit. intro H.
  repeat (apply andb_true_iff in H; destruct H as [H ?]).
  apply Qle_bool_iff in H. apply Qle_bool_iff in H1.
  apply negb_true_iff in H0. apply negb_true_iff in H2.
  assert (N1 : ~ (q == inject_Z (2 ^ 128 - 2 ^ 103))%Q) by (intro E; apply Qeq_bool_iff in E; congruence).
  assert (N2 : ~ (q == inject_Z (- (2 ^ 128 - 2 ^ 103)))%Q) by (intro E; apply Qeq_bool_iff in E; congruence).
  assert (L1 : (q < inject_Z (2 ^ 128 - 2 ^ 103))%Q) by (apply Qle_lteq in H; destruct H; [auto | contradiction]).
  assert (L2 : (inject_Z (- (2 ^ 128 - 2 ^ 103)) < q)%Q).
  { apply Qle_lteq in H1. destruct H1 as [|E]; [auto | exfalso; apply N2; symmetry; exact E]. }
  apply Qabs_Qlt_condition. split; [|exact L1].
  setoid_replace (- inject_Z (2 ^ 128 - 2 ^ 103))%Q with (inject_Z (- (2 ^ 128 - 2 ^ 103))); [exact L2|].
  rewrite inject_Z_opp. reflexivity.
Qed.

Lemma range_int z : (int_min T_int <=? z) && (z <=? int_max T_int) = true -> int_range T_int z.
Proof. intro H. apply andb_true_iff in H. destruct H as [H1 H2]. simpl in *. lia. Qed.
Lemma range_long z : (int_min T_long <=? z) && (z <=? int_max T_long) = true -> int_range T_long z.
Proof. intro H. apply andb_true_iff in H. destruct H as [H1 H2]. simpl in *. lia. Qed.

Lemma fits_representable t v : value_fits t v = true -> representable t v.
Proof.
  destruct v as [w| | |l]; simpl; [| |discriminate|discriminate].
  - destruct w as [|b|z|f|s|u|d|u]; auto; destruct t; simpl; intro H; try discriminate; eauto.
    all: try (exists z; split; [first [apply range_int | apply range_long]; exact H | left; reflexivity]).
    all: try (right; exists f; split; [reflexivity|]; destruct f; auto; apply f32_finite_abs; exact H).
    all: destruct f as [q| | |]; try discriminate;
      apply andb_true_iff in H; destruct H as [H H3]; apply andb_true_iff in H; destruct H as [H1 H2];
      exists (Qfloor q); (split; [first [apply range_int | apply range_long]; apply andb_true_iff; split; assumption|]);
      right; exists q; split; auto; unfold q_integral in H1; apply Qeq_bool_iff in H1; exact H1.
  - destruct t; intro H; try discriminate; auto.
Qed.

(* a list<e> column holds None or a list whose every element the element type can hold *)
Fixpoint representable_c (c : ctype) (v : pyval) : Prop :=
  match c with
  | CPrim t => representable t v
  | CList e => match v with PV VNull => True | PList l => Forall (representable_c e) l | _ => False end
  end.

Lemma fits_representable_c c : forall v, value_fits_c c v = true -> representable_c c v.
Proof.
  induction c as [t|e IH]; intros v H; simpl in *.
  - apply fits_representable. exact H.
  - destruct v as [[| | | | | | |]| | |l]; try discriminate; auto.
    apply Forall_forall. intros x Hx. apply IH. rewrite forallb_forall in H. exact (H x Hx).
Qed.

(* ------------------------------------------------------------------ the append machine *)
Arguments remove : simpl never.

Section MachineProofs.
  Variable conv : catype -> pyval -> option pyval.
  Variable ts : ischema.
  Let T := sfields ts.
  Let A := arrow_of T.

  (* a data file as every accepted append of this table writes it *)
  Definition file_ok (f : dfile) : Prop :=
    df_arrow f = A
    /\ (df_lo f, df_hi f) = bounds_for T A (df_rows f)
    /\ (exists rs, convert conv A rs = Some (df_rows f)).

  Definition cache_ok (c : cache) : Prop := forall k a, In (k, a) c -> a = A.

  Record Inv (w : world) : Prop := {
    inv_schema : w_schema w = Some ts;
    inv_caches : forall h c, In (h, c) (w_caches w) -> cache_ok c;
    inv_files : forall snap f, In snap (w_snaps w) -> In f snap -> file_ok f;
    inv_store : forall x, In x (w_store w) -> x < w_next w
  }.

  Lemma inv_init : Inv (init (Some ts)).
  Proof. constructor; simpl; auto; intros; contradiction. Qed.

  Lemma resolve_fields arg s : resolve (Some ts) arg = inl s -> sfields s = T.
  Proof.
    unfold resolve. destruct arg as [a|].
    - destruct (accept_schema (sfields ts) (sfields a)) eqn:Acc; intro H; inversion H; subst.
      apply accept_schema_eq in Acc. exact Acc.
    - intro H; inversion H; subst; reflexivity.
  Qed.

  Lemma cache_of_ok w h : Inv w -> cache_ok (cache_of w h).
  Proof.
    intro I. unfold cache_of. destruct (lookup h (w_caches w)) as [c|] eqn:L.
    - apply lookup_In in L. exact (inv_caches w I h c L).
    - intros k a [].
  Qed.

  (* the cache is keyed by schema_id only -- and still every answer is the table's Arrow schema *)
  Lemma create_ok c s a c' : cache_ok c -> sfields s = T -> create_arrow_schema c s = (a, c') -> a = A /\ cache_ok c'.
  Proof.
    intros C F. unfold create_arrow_schema. destruct (lookup (sid s) c) as [x|] eqn:L; intro H; inversion H; subst.
    - split; [|exact C]. apply lookup_In in L. exact (C _ _ L).
    - rewrite F. split; [reflexivity|]. intros k b [E|I]; [inversion E; reflexivity | exact (C _ _ I)].
  Qed.

  Lemma current_in w f : In f (current w) -> exists snap, In snap (w_snaps w) /\ In f snap.
  Proof. unfold current. destruct (w_snaps w) as [|s l]; [intros []|]. intro H. exists s. split; [left; auto | exact H]. Qed.

  (* the re-check of the file just written, through a cache that only knows the table's layout, passes *)
  Lemma recheck_ok c : cache_ok c -> exists c2, recheck (Some ts) c A = (c2, true) /\ cache_ok c2.
  Proof.
    intro C. unfold recheck. destruct (create_arrow_schema c ts) as [a2 c2] eqn:E.
    destruct (create_ok _ _ _ _ C eq_refl E) as [Ea C2]. subst a2. exists c2.
    unfold A, T. rewrite aschema_eqb_refl. split; [reflexivity | exact C2].
  Qed.

  Lemma step_inv w e : Inv w -> Inv (fst (step conv w e)).
  Proof.
    intro I. unfold step. rewrite (inv_schema w I).
    destruct (resolve (Some ts) (e_arg e)) as [s|o] eqn:R; [|exact I].
    pose proof (resolve_fields _ _ R) as F.
    destruct (negb (forallb (validate_record (sfields s)) (e_recs e))); [exact I|].
    destruct (create_arrow_schema (cache_of w (e_handle e)) s) as [a c'] eqn:CA.
    destruct (create_ok _ _ _ _ (cache_of_ok w (e_handle e) I) F CA) as [Ea Cc0]. subst a.
    assert (SC : forall c, cache_ok c -> Inv (set_cache w (e_handle e) c)).
    { intros c Cok. constructor; simpl; try apply I. intros h c0 [E|H]; [inversion E; subst; exact Cok | exact (inv_caches w I h c0 H)]. }
    destruct (convert conv A (e_recs e)) as [rows|] eqn:CV; [|exact (SC _ Cc0)].
    rewrite F. destruct (bounds_for T A rows) as [lo hi] eqn:B.
    destruct (recheck_ok c' Cc0) as [c2 [RC Cc]]. rewrite RC. simpl (true && _).
    destruct (e_commit_ok e); simpl.
    - constructor; simpl.
      + apply I.
      + intros h c [E|H]; [inversion E; subst; exact Cc | exact (inv_caches w I h c H)].
      + intros snap f [E|H] Hf.
        * subst snap. apply in_app_or in Hf. destruct Hf as [Hf|[Hf|[]]].
          -- destruct (current_in _ _ Hf) as [sn [H1 H2]]. exact (inv_files w I sn f H1 H2).
          -- subst f. unfold file_ok. simpl. split; [reflexivity|]. split; [symmetry; exact B | exists (e_recs e); exact CV].
        * exact (inv_files w I snap f H Hf).
      + intros x [E|H]; [lia | pose proof (inv_store w I x H); lia].
    - constructor; simpl.
      + apply I.
      + intros h c [E|H]; [inversion E; subst; exact Cc | exact (inv_caches w I h c H)].
      + exact (inv_files w I).
      + intros x Hx. unfold remove in Hx. apply filter_In in Hx. destruct Hx as [[E|H] _]; [lia | pose proof (inv_store w I x H); lia].
  Qed.

  Lemma run_inv es : forall w, Inv w -> Inv (run conv w es).
  Proof. induction es as [|e es IH]; simpl; intros w I; [exact I | apply IH, step_inv, I]. Qed.

  (* C11_history_scans *)
  Lemma inv_scan_ok w : Inv w -> scan_ok (current w) = true.
  Proof.
    intro I. apply (scan_ok_same A). intros f Hf. destruct (current_in _ _ Hf) as [sn [H1 H2]].
    exact (proj1 (inv_files w I sn f H1 H2)).
  Qed.

  Lemma history_scans es : scan_ok (current (run conv (init (Some ts)) es)) = true
                           /\ full_scan (run conv (init (Some ts)) es) <> None.
  Proof.
    pose proof (inv_scan_ok _ (run_inv es _ inv_init)) as H. split; [exact H|].
    unfold full_scan. rewrite H. discriminate.
  Qed.
End MachineProofs.

(* ------------------------------------------------------------------ only what the argument declares matters *)
Definition same_decl (a b : option ischema) : Prop :=
  match a, b with
  | None, None => True
  | Some x, Some y => sid x = sid y /\ sfields x = sfields y
  | _, _ => False
  end.

Lemma step_same_decl conv w e e' :
  e_handle e = e_handle e' -> e_recs e = e_recs e' -> e_commit_ok e = e_commit_ok e' ->
  same_decl (e_arg e) (e_arg e') -> step conv w e = step conv w e'.
Proof.
  destruct e as [h a r c], e' as [h' a' r' c']. simpl. intros -> -> -> D.
  destruct a as [[s f t1]|], a' as [[s' f' t2]|]; simpl in D; try contradiction.
  - destruct D as [-> ->]. unfold step, resolve, create_arrow_schema. simpl.
    destruct (w_schema w) as [ts|]; simpl.
    + destruct (accept_schema (sfields ts) f'); reflexivity.
    + reflexivity.
  - reflexivity.
Qed.

(* ------------------------------------------------------------------ rejected appends leave no trace *)
(* Holds for every table, with or without a persisted schema, and every conversion oracle. *)
Section NoTrace.
  Variable conv : catype -> pyval -> option pyval.

  Definition store_fresh (w : world) : Prop := forall x, In x (w_store w) -> x < w_next w.

  Lemma step_fresh w e : store_fresh w -> store_fresh (fst (step conv w e)).
  Proof.
    intro S. unfold step. destruct (resolve (w_schema w) (e_arg e)) as [s|o]; [|exact S].
    destruct (negb (forallb (validate_record (sfields s)) (e_recs e))); [exact S|].
    destruct (create_arrow_schema (cache_of w (e_handle e)) s) as [a c'].
    destruct (convert conv a (e_recs e)) as [rows|]; [|exact S].
    destruct (bounds_for (sfields s) a rows) as [lo hi].
    destruct (recheck (w_schema w) c' a) as [c2 ok].
    destruct (ok && e_commit_ok e); simpl; unfold store_fresh; simpl.
    - intros x [E|H]; [lia | pose proof (S x H); lia].
    - intros x Hx. unfold remove in Hx. apply filter_In in Hx. destruct Hx as [[E|H] _]; [lia | pose proof (S x H); lia].
  Qed.

  Lemma run_fresh es : forall w, store_fresh w -> store_fresh (run conv w es).
  Proof. induction es as [|e es IH]; simpl; intros w S; [exact S | apply IH, step_fresh, S]. Qed.

  Lemma step_reject w e : store_fresh w -> snd (step conv w e) <> Accepted ->
    let w' := fst (step conv w e) in
    w_schema w' = w_schema w /\ w_snaps w' = w_snaps w /\ w_store w' = w_store w
    /\ full_scan w' = full_scan w
    /\ (forall X fs, filtered_scan X fs w' = filtered_scan X fs w).
  Proof.
    intros S. unfold step. destruct (resolve (w_schema w) (e_arg e)) as [s|o]; [|simpl; auto 6].
    destruct (negb (forallb (validate_record (sfields s)) (e_recs e))); [simpl; auto 6|].
    destruct (create_arrow_schema (cache_of w (e_handle e)) s) as [a c'].
    destruct (convert conv a (e_recs e)) as [rows|]; [|simpl; auto 6].
    destruct (bounds_for (sfields s) a rows) as [lo hi].
    destruct (recheck (w_schema w) c' a) as [c2 ok].
    destruct (ok && e_commit_ok e); simpl; intro H; [contradiction H; reflexivity|].
    assert (R : remove (w_next w) (w_next w :: w_store w) = w_store w).
    { apply remove_fresh. intro Hin. pose proof (S _ Hin). lia. }
    rewrite R. auto 6.
  Qed.

  Lemma reject_no_trace (s0 : option ischema) es e :
    let w := run conv (init s0) es in
    snd (step conv w e) <> Accepted ->
    let w' := fst (step conv w e) in
    w_schema w' = w_schema w /\ w_snaps w' = w_snaps w /\ w_store w' = w_store w
    /\ full_scan w' = full_scan w
    /\ (forall X fs, filtered_scan X fs w' = filtered_scan X fs w).
  Proof.
    intros w H. apply step_reject; [|exact H]. apply run_fresh. intros x [].
  Qed.
End NoTrace.

(* ------------------------------------------------------------------ accepted rows are stored exactly *)
Section Exact.
  Variable rnd32 : Q -> num.
  Variable conv : catype -> pyval -> option pyval.

  (* What is assumed of pyarrow: a value the library ADMITS (value_fits) is stored as canon, or the
     conversion raises.  Nothing is assumed about values the library refuses, nor about when pyarrow
     raises.  Validated against real pyarrow by the correspondence harness on every run. *)
  Definition conv_sound : Prop :=
    forall t v c, value_fits_c t v = true -> conv (arrow_of_ctype t) v = Some c -> c = canon_c rnd32 t v.

  Hypothesis CS : conv_sound.
  Variable ts : ischema.
  Let T := sfields ts.
  Let A := arrow_of T.

  (* the row a scan must return for a supplied record: every column of the table, in table order *)
  Definition canon_row (fs : list field) (r : record) : srow :=
    map (fun f => (fname f, canon_c rnd32 (ftype f) (rget r (fname f)))) fs.

  Lemma conv_row_canon r : forall fs row,
    forallb (fun f => value_fits_c (ftype f) (rget r (fname f))) fs = true ->
    conv_row conv (arrow_of fs) r = Some row -> row = canon_row fs r.
  Proof.
    induction fs as [|f fs IH]; simpl; intros row V H.
    - inversion H; reflexivity.
    - apply andb_true_iff in V. destruct V as [V1 V2].
      destruct (conv (arrow_of_ctype (ftype f)) (rget r (fname f))) as [c|] eqn:C; [|discriminate].
      destruct (conv_row conv (arrow_of fs) r) as [rest|] eqn:R; [|discriminate].
      inversion H; subst. rewrite (CS _ _ _ V1 C). rewrite (IH rest V2 eq_refl). reflexivity.
  Qed.

  Lemma convert_canon : forall rs rows,
    forallb (validate_record T) rs = true -> convert conv A rs = Some rows -> rows = map (canon_row T) rs.
  Proof.
    induction rs as [|r rs IH]; simpl; intros rows V H.
    - inversion H; reflexivity.
    - apply andb_true_iff in V. destruct V as [V1 V2].
      destruct (conv_row conv A r) as [x|] eqn:X; [|discriminate].
      destruct (convert conv A rs) as [xs|] eqn:XS; [|discriminate].
      inversion H; subst. unfold validate_record in V1. apply andb_true_iff in V1. destruct V1 as [_ V1].
      rewrite (conv_row_canon r T x V1 X). rewrite (IH xs V2 eq_refl). reflexivity.
  Qed.

  (* what the property demands of every accepted record *)
  Definition record_ok (r : record) : Prop :=
    (forall k v, In (k, v) r -> key_is_str k = true /\ has_field T k = true)
    /\ forall f, In f T -> (freq f = true -> is_none (rget r (fname f)) = false) /\ representable_c (ftype f) (rget r (fname f)).

  Lemma validate_record_ok r : validate_record T r = true -> record_ok r.
  Proof.
    unfold validate_record. intro H. apply andb_true_iff in H. destruct H as [H H3]. apply andb_true_iff in H. destruct H as [H H2].
    apply andb_true_iff in H. destruct H as [H0 H1].
    split.
    - intros k v Hin. rewrite forallb_forall in H0, H1. split; [exact (H0 (k, v) Hin) | exact (H1 (k, v) Hin)].
    - intros f Hf. rewrite forallb_forall in H2, H3. split.
      + intro Rq. specialize (H2 f Hf). rewrite Rq in H2. simpl in H2. apply negb_true_iff in H2. exact H2.
      + apply fits_representable_c. exact (H3 f Hf).
  Qed.

  Definition step_rows (w : world) (e : event) : list srow :=
    match snd (step conv w e) with Accepted => map (canon_row T) (e_recs e) | _ => [] end.

  Lemma step_exact w e : Inv conv ts w ->
    flat_map df_rows (current (fst (step conv w e))) = flat_map df_rows (current w) ++ step_rows w e
    /\ (snd (step conv w e) = Accepted -> forall r, In r (e_recs e) -> record_ok r).
  Proof.
    intro I. unfold step_rows, step. rewrite (inv_schema conv ts w I).
    destruct (resolve (Some ts) (e_arg e)) as [s|o] eqn:R.
    2:{ assert (NA : o <> Accepted).
        { unfold resolve in R. destruct (e_arg e); [destruct (accept_schema _ _)|]; inversion R; discriminate. }
        destruct o; try (contradiction NA; reflexivity); simpl; rewrite app_nil_r; (split; [reflexivity | discriminate]). }
    pose proof (resolve_fields ts _ _ R) as F. fold T in F.
    destruct (forallb (validate_record (sfields s)) (e_recs e)) eqn:V; simpl.
    2:{ rewrite app_nil_r. split; [reflexivity | discriminate]. }
    destruct (create_arrow_schema (cache_of w (e_handle e)) s) as [a c'] eqn:CA.
    destruct (create_ok ts _ _ _ _ (cache_of_ok conv ts w (e_handle e) I) F CA) as [Ea Cc]. subst a. fold T. fold A.
    destruct (convert conv A (e_recs e)) as [rows|] eqn:CV; simpl.
    2:{ rewrite app_nil_r. split; [reflexivity | discriminate]. }
    rewrite F in *. destruct (bounds_for T A rows) as [lo hi].
    destruct (recheck_ok ts c' Cc) as [c2 [RC _]]. fold T in RC. fold A in RC. unfold recheck in RC. rewrite RC. simpl (true && _).
    destruct (e_commit_ok e); simpl.
    - split.
      + unfold current at 1. simpl. rewrite flat_map_app. simpl. rewrite app_nil_r.
        rewrite (convert_canon _ _ V CV). reflexivity.
      + intros _ r Hr. apply validate_record_ok. rewrite forallb_forall in V. exact (V r Hr).
    - rewrite app_nil_r. split; [reflexivity | discriminate].
  Qed.

  Fixpoint expected (w : world) (es : list event) : list srow :=
    match es with
    | [] => []
    | e :: es' => step_rows w e ++ expected (fst (step conv w e)) es'
    end.

  Lemma run_exact es : forall w, Inv conv ts w ->
    full_scan (run conv w es) = Some (flat_map df_rows (current w) ++ expected w es).
  Proof.
    induction es as [|e es IH]; simpl; intros w I.
    - rewrite app_nil_r. unfold full_scan. rewrite (inv_scan_ok conv ts w I). reflexivity.
    - rewrite (IH _ (step_inv conv ts w e I)). rewrite (proj1 (step_exact w e I)). rewrite app_assoc. reflexivity.
  Qed.

  Lemma exact_history es :
    full_scan (run conv (init (Some ts)) es) = Some (expected (init (Some ts)) es)
    /\ (forall es1 e es2, es = es1 ++ e :: es2 ->
          snd (step conv (run conv (init (Some ts)) es1) e) = Accepted -> forall r, In r (e_recs e) -> record_ok r).
  Proof.
    split.
    - rewrite (run_exact es _ (inv_init conv ts)). reflexivity.
    - intros es1 e es2 _ Acc r Hr.
      exact (proj2 (step_exact _ e (run_inv conv ts es1 _ (inv_init conv ts))) Acc r Hr).
  Qed.
End Exact.

(* ------------------------------------------------------------------ filtered scans (composition with C13) *)
Definition kind_of_atype (a : atype) : kind :=
  match a with
  | A_bool_ => KBool | A_int32 | A_int64 => KInt | A_float32 | A_float64 => KFlt
  | A_string => KStr | A_binary => KStr | A_date32 => KDate | A_time64_us => KTime | A_timestamp_us => KTs
  end.
(* list cells carry no bounds and count as NULL for pruning (bval), like bytes: any kind will do *)
Definition kind_of_catype (a : catype) : kind := match a with APrim p => kind_of_atype p | AList _ => KStr end.

(* An Arrow column holds values of one kind: what pyarrow's conversion returns for an Arrow type is
   None or a value of that type's kind (bytes carry no bounds and count as NULL for pruning). *)
Definition conv_kinds (conv : catype -> pyval -> option pyval) : Prop :=
  forall a v c, conv a v = Some c -> has_kind (kind_of_catype a) (bval c) = true.

Lemma nodup_map_inj {A B} (h : A -> B) l : NoDup (map h l) -> forall x y, In x l -> In y l -> h x = h y -> x = y.
Proof.
  induction l as [|a l IH]; simpl; intros ND x y Hx Hy E; [contradiction|].
  inversion ND as [|? ? NI ND']; subst.
  destruct Hx as [->|Hx], Hy as [->|Hy]; auto.
  - exfalso. apply NI. rewrite E. apply in_map. exact Hy.
  - exfalso. apply NI. rewrite <- E. apply in_map. exact Hx.
Qed.

Lemma nodup_map_filter {A B} (h : A -> B) p l : NoDup (map h l) -> NoDup (map h (filter p l)).
Proof.
  induction l as [|a l IH]; simpl; intro ND; [constructor|].
  inversion ND as [|? ? NI ND']; subst. destruct (p a); simpl; auto.
  constructor; auto. intro H. apply NI. apply in_map_iff in H. destruct H as [x [E Hx]].
  apply filter_In in Hx. apply in_map_iff. exists x. split; [exact E | apply Hx].
Qed.

Lemma lookup_ids_some fs c i : lookup c (ids_of fs) = Some i -> exists f, In f fs /\ fname f = c /\ fid f = i.
Proof.
  induction fs as [|f fs IH]; simpl; intro H; [discriminate|].
  destruct (Z.eqb_spec c (fname f)) as [->|NE].
  - inversion H; subst. exists f. auto.
  - destruct (IH H) as [g [G1 G2]]. exists g. auto.
Qed.

Lemma lookup_ids_in fs f : NoDup (map fname fs) -> In f fs -> lookup (fname f) (ids_of fs) = Some (fid f).
Proof.
  induction fs as [|g fs IH]; simpl; intros ND Hf; [contradiction|].
  inversion ND as [|? ? NI ND']; subst.
  destruct Hf as [->|Hf]; [rewrite Z.eqb_refl; reflexivity|].
  destruct (Z.eqb_spec (fname f) (fname g)) as [E|NE]; [|apply IH; auto].
  exfalso. apply NI. rewrite <- E. apply in_map. exact Hf.
Qed.

Lemma map_snd_ids fs : map snd (ids_of fs) = map fid fs.
Proof. unfold ids_of. rewrite map_map. reflexivity. Qed.

Lemma fmm_filtered p T rows es :
  NoDup (map fname T) -> NoDup (map fid T) ->
  let sub := ids_of (filter p T) in
  file_may_match (fst (file_bounds sub rows)) (snd (file_bounds sub rows)) (ids_of T) es
  = file_may_match (fst (file_bounds sub rows)) (snd (file_bounds sub rows)) sub es.
Proof.
  intros NDn NDi sub. induction es as [|e es IH]; simpl; [reflexivity|].
  destruct (lookup (fcol e) (ids_of T)) as [cid|] eqn:L.
  - destruct (lookup_ids_some _ _ _ L) as [f [Hf [En Ei]]].
    destruct (p f) eqn:P.
    + assert (Ls : lookup (fcol e) sub = Some cid).
      { unfold sub. rewrite <- En, <- Ei. apply lookup_ids_in; [apply nodup_map_filter; exact NDn | apply filter_In; auto]. }
      rewrite Ls. rewrite IH. reflexivity.
    + assert (Ls : lookup (fcol e) sub = None).
      { destruct (lookup (fcol e) sub) as [j|] eqn:Lj; [|reflexivity].
        destruct (lookup_ids_some _ _ _ Lj) as [g [Hg [Gn _]]]. apply filter_In in Hg. destruct Hg as [Hg Pg].
        assert (g = f) by (apply (nodup_map_inj fname T NDn); auto; congruence). subst g. congruence. }
      rewrite Ls.
      assert (NI : ~ In cid (map snd sub)).
      { unfold sub. rewrite map_snd_ids. intro H. apply in_map_iff in H. destruct H as [g [Gi Hg]].
        apply filter_In in Hg. destruct Hg as [Hg Pg].
        assert (g = f) by (apply (nodup_map_inj fid T NDi); auto; congruence). subst g. congruence. }
      destruct (file_bounds_absent sub rows cid NI) as [A1 A2]. rewrite A1. exact IH.
  - assert (Ls : lookup (fcol e) sub = None).
    { destruct (lookup (fcol e) sub) as [j|] eqn:Lj; [|reflexivity].
      destruct (lookup_ids_some _ _ _ Lj) as [g [Hg [Gn _]]]. apply filter_In in Hg. destruct Hg as [Hg _].
      rewrite <- Gn in L. rewrite (lookup_ids_in T g NDn Hg) in L. discriminate. }
    rewrite Ls. exact IH.
Qed.

Section FilterProofs.
  Variable conv : catype -> pyval -> option pyval.
  Hypothesis CK : conv_kinds conv.

  Fixpoint colkind (a : aschema) (c : Z) : kind :=
    match a with
    | [] => KInt
    | (n, t, _) :: a' => if c =? n then kind_of_catype t else colkind a' c
    end.

  Lemma cell_conv_row r c : forall a row, conv_row conv a r = Some row -> has_kind (colkind a c) (cell (vrow row) c) = true.
  Proof.
    induction a as [|[[n t] b] a IH]; simpl; intros row H.
    - inversion H; subst. reflexivity.
    - destruct (conv t (rget r n)) as [cv|] eqn:C; [|discriminate].
      destruct (conv_row conv a r) as [rest|] eqn:R; [|discriminate].
      inversion H; subst. unfold cell. simpl.
      destruct (Z.eqb_spec c n) as [->|NE]; [exact (CK _ _ _ C)|].
      exact (IH rest eq_refl).
  Qed.

  Lemma convert_rows a : forall rs rows, convert conv a rs = Some rows -> forall row, In row rows -> exists r, conv_row conv a r = Some row.
  Proof.
    induction rs as [|r rs IH]; simpl; intros rows H row Hin.
    - inversion H; subst. contradiction.
    - destruct (conv_row conv a r) as [x|] eqn:X; [|discriminate].
      destruct (convert conv a rs) as [xs|] eqn:XS; [|discriminate].
      inversion H; subst. destruct Hin as [->|Hin]; [exists r; exact X | exact (IH xs eq_refl row Hin)].
  Qed.

  Lemma converted_homogeneous a rs rows c : convert conv a rs = Some rows -> homogeneous (column (map vrow rows) c).
  Proof.
    intro H. exists (colkind a c). intros v Hv. unfold column in Hv. rewrite map_map in Hv.
    apply in_map_iff in Hv. destruct Hv as [row [E Hrow]]. subst v.
    destruct (convert_rows a rs rows H row Hrow) as [r Hr]. exact (cell_conv_row r c a row Hr).
  Qed.

  Variable ts : ischema.
  Let T := sfields ts.
  Let A := arrow_of T.
  Hypothesis NDn : NoDup (map fname T).
  Hypothesis NDi : NoDup (map fid T).

  (* a file that pruning skips holds no selected row: for every file whose bounds were computed from its
     content under the table's field ids and whose columns each hold values of one kind *)
  Lemma pruned_bounds_empty X fs lo hi rows : (lo, hi) = bounds_for T A rows ->
    (forall c, homogeneous (column (map vrow rows) c)) ->
    file_may_match lo hi (ids_of T) fs = false ->
    filter (row_selected X fs) (map vrow rows) = [].
  Proof.
    intros Eb Hom M. unfold bounds_for in Eb.
    assert (E1 : lo = fst (file_bounds (bound_ids T A) (map vrow rows))) by (rewrite <- Eb; reflexivity).
    assert (E2 : hi = snd (file_bounds (bound_ids T A) (map vrow rows))) by (rewrite <- Eb; reflexivity).
    rewrite E1, E2 in M. unfold bound_ids in M.
    rewrite (fmm_filtered _ T (map vrow rows) fs NDn NDi) in M.
    apply filter_none. intros r Hr.
    eapply prune_sound; [| |exact M|exact Hr].
    - rewrite map_snd_ids. apply nodup_map_filter. exact NDi.
    - exact Hom.
  Qed.

  Lemma pruned_file_empty X fs f : file_ok conv ts f ->
    file_may_match (df_lo f) (df_hi f) (ids_of T) fs = false ->
    filter (row_selected X fs) (map vrow (df_rows f)) = [].
  Proof.
    intros [Ea [Eb [rs Cv]]] M. fold T in Eb. fold A in Eb, Cv.
    apply (pruned_bounds_empty X fs (df_lo f) (df_hi f)); auto.
    intro c. exact (converted_homogeneous A rs (df_rows f) c Cv).
  Qed.

  Lemma flat_map_prune {F B} (bounds : F -> list (Z * value) * list (Z * value)) ids es (g : F -> list B) files :
    (forall f, In f files -> file_may_match (fst (bounds f)) (snd (bounds f)) ids es = false -> g f = []) ->
    flat_map g (prune bounds ids es files) = flat_map g files.
  Proof.
    intro H. unfold prune. destruct es as [|e es']; [reflexivity|]. destruct files as [|f0 fs0]; [reflexivity|].
    remember (e :: es') as es. remember (f0 :: fs0) as files. clear Heqfiles Heqes f0 fs0 e es'.
    induction files as [|f fs IH]; simpl; auto.
    assert (H' : forall f0, In f0 fs -> file_may_match (fst (bounds f0)) (snd (bounds f0)) ids es = false -> g f0 = [])
      by (intros; apply H; [right|]; auto).
    destruct (file_may_match (fst (bounds f)) (snd (bounds f)) ids es) eqn:M; simpl; rewrite (IH H'); auto.
    rewrite (H f (or_introl eq_refl) M). reflexivity.
  Qed.

  Lemma prune_incl {F} (bounds : F -> list (Z * value) * list (Z * value)) ids es files f :
    In f (prune bounds ids es files) -> In f files.
  Proof.
    unfold prune. destruct es; auto. destruct files; auto. intro H. apply filter_In in H. apply H.
  Qed.

  Lemma filter_flat_map {B C} (p : C -> bool) (h : B -> C) (g : dfile -> list B) files :
    filter p (map h (flat_map g files)) = flat_map (fun f => filter p (map h (g f))) files.
  Proof.
    induction files as [|f fs IH]; simpl; auto. rewrite map_app, filter_app, IH. reflexivity.
  Qed.

  (* the filtered scan of a world all of whose current files carry the table layout and hold no selected row
     whenever pruning skips them *)
  Lemma filtered_scan_files X fs w : w_schema w = Some ts ->
    (forall f, In f (current w) -> df_arrow f = A
       /\ (file_may_match (df_lo f) (df_hi f) (ids_of T) fs = false -> filter (row_selected X fs) (map vrow (df_rows f)) = [])) ->
    filtered_scan X fs w = Some (filter (row_selected X fs) (map vrow (flat_map df_rows (current w)))).
  Proof.
    intros S OK. unfold filtered_scan. rewrite S. fold T.
    rewrite (scan_ok_same A).
    2:{ intros f Hf. apply prune_incl in Hf. exact (proj1 (OK f Hf)). }
    f_equal. rewrite filter_flat_map.
    apply (flat_map_prune (fun f => (df_lo f, df_hi f))). simpl.
    intros f Hf M. exact (proj2 (OK f Hf) M).
  Qed.

  Lemma inv_filter X fs w : Inv conv ts w ->
    filtered_scan X fs w = Some (filter (row_selected X fs) (map vrow (flat_map df_rows (current w)))).
  Proof.
    intro I. apply filtered_scan_files; [exact (inv_schema conv ts w I)|].
    intros f Hf. destruct (current_in _ _ Hf) as [sn [H1 H2]]. pose proof (inv_files conv ts w I sn f H1 H2) as OK.
    split; [exact (proj1 OK) | exact (pruned_file_empty X fs f OK)].
  Qed.
End FilterProofs.

(* ------------------------------------------------------------------ stored bounds are the column's true extremes *)
Lemma has_col_arrow T g : In g T -> has_col (arrow_of T) (fname g) = true.
Proof.
  intro H. unfold has_col, arrow_of. apply existsb_exists. exists (fname g, arrow_of_ctype (ftype g), negb (freq g)).
  split; [apply in_map_iff; exists g; auto | simpl; apply Z.eqb_refl].
Qed.

Section BoundsExact.
  Variable conv : catype -> pyval -> option pyval.
  Variable ts : ischema.
  Let T := sfields ts.
  Let A := arrow_of T.
  Hypothesis NDn : NoDup (map fname T).
  Hypothesis NDi : NoDup (map fid T).

  (* For every file an accepted append wrote and every column that carries bounds: the bound stored under
     the column's TABLE field id is exactly the minimum / maximum of the stored column (as pc.min / pc.max
     define it: NULLs and NaNs skipped) -- never a shortened, rounded or otherwise altered value -- and a
     column without ordinary values stores no bound. *)
  Lemma file_bounds_exact f g : file_ok conv ts f -> In g T -> bounds_skipped_c (ftype g) = false ->
    match bounds_of (column (map vrow (df_rows f)) (fname g)) with
    | Some (mn, mx) => lookup (fid g) (df_lo f) = Some mn /\ lookup (fid g) (df_hi f) = Some mx
    | None => lookup (fid g) (df_lo f) = None /\ lookup (fid g) (df_hi f) = None
    end.
  Proof.
    intros [Ea [Eb _]] Hg Sk. fold T in Eb. fold A in Eb. unfold bounds_for in Eb.
    assert (E1 : df_lo f = fst (file_bounds (bound_ids T A) (map vrow (df_rows f)))) by (rewrite <- Eb; reflexivity).
    assert (E2 : df_hi f = snd (file_bounds (bound_ids T A) (map vrow (df_rows f)))) by (rewrite <- Eb; reflexivity).
    rewrite E1, E2. apply lookup_file_bounds.
    - unfold bound_ids. rewrite map_snd_ids. apply nodup_map_filter. exact NDi.
    - unfold bound_ids. apply lookup_ids_in; [apply nodup_map_filter; exact NDn|].
      apply filter_In. split; [exact Hg|]. unfold A. rewrite (has_col_arrow T g Hg), Sk. reflexivity.
  Qed.

  Lemma inv_bounds_exact w f g : Inv conv ts w -> In f (current w) -> In g T -> bounds_skipped_c (ftype g) = false ->
    match bounds_of (column (map vrow (df_rows f)) (fname g)) with
    | Some (mn, mx) => lookup (fid g) (df_lo f) = Some mn /\ lookup (fid g) (df_hi f) = Some mx
    | None => lookup (fid g) (df_lo f) = None /\ lookup (fid g) (df_hi f) = None
    end.
  Proof.
    intros I Hf. destruct (current_in _ _ Hf) as [sn [H1 H2]]. apply file_bounds_exact. exact (inv_files conv ts w I sn f H1 H2).
  Qed.
End BoundsExact.

Lemma history_bounds_exact conv ts es f g :
  NoDup (map fname (sfields ts)) -> NoDup (map fid (sfields ts)) ->
  In f (current (run conv (init (Some ts)) es)) -> In g (sfields ts) -> bounds_skipped_c (ftype g) = false ->
  match bounds_of (column (map vrow (df_rows f)) (fname g)) with
  | Some (mn, mx) => lookup (fid g) (df_lo f) = Some mn /\ lookup (fid g) (df_hi f) = Some mx
  | None => lookup (fid g) (df_lo f) = None /\ lookup (fid g) (df_hi f) = None
  end.
Proof.
  intros NDn NDi Hf Hg Sk. apply (inv_bounds_exact conv ts NDn NDi (run conv (init (Some ts)) es)); auto.
  apply run_inv. apply inv_init.
Qed.

(* ... and therefore they bound every ordinary value of the column (C13_bounds_true) *)
Lemma history_bounds_true conv ts es f g lo hi :
  NoDup (map fname (sfields ts)) -> NoDup (map fid (sfields ts)) -> conv_kinds conv ->
  In f (current (run conv (init (Some ts)) es)) -> In g (sfields ts) ->
  lookup (fid g) (df_lo f) = Some lo -> lookup (fid g) (df_hi f) = Some hi -> bounds_skipped_c (ftype g) = false ->
  forall r, In r (df_rows f) -> ordinary (cell (vrow r) (fname g)) = true ->
  vle lo (cell (vrow r) (fname g)) /\ vle (cell (vrow r) (fname g)) hi.
Proof.
  intros NDn NDi CK Hf Hg L1 L2 Sk r Hr Or.
  pose proof (history_bounds_exact conv ts es f g NDn NDi Hf Hg Sk) as E.
  assert (I : Inv conv ts (run conv (init (Some ts)) es)) by (apply run_inv; apply inv_init).
  destruct (current_in _ _ Hf) as [sn [H1 H2]]. destruct (inv_files conv ts _ I sn f H1 H2) as [_ [_ [rs Cv]]].
  destruct (bounds_of (column (map vrow (df_rows f)) (fname g))) as [[mn mx]|] eqn:B.
  - destruct E as [E1 E2]. rewrite L1 in E1. rewrite L2 in E2. inversion E1; inversion E2; subst.
    pose proof (bounds_true _ _ _ (converted_homogeneous conv CK _ rs (df_rows f) (fname g) Cv) B) as [BT _].
    apply BT; [|exact Or]. unfold column. rewrite map_map. apply in_map_iff. exists r. auto.
  - destruct E as [E1 _]. rewrite L1 in E1. discriminate.
Qed.

Lemma history_filter conv X ts es fs :
  NoDup (map fname (sfields ts)) -> NoDup (map fid (sfields ts)) -> conv_kinds conv ->
  let w := run conv (init (Some ts)) es in
  filtered_scan X fs w = Some (filter (row_selected X fs) (map vrow (flat_map df_rows (current w)))).
Proof.
  intros NDn NDi CK w. apply (inv_filter conv CK ts NDn NDi). apply run_inv. apply inv_init.
Qed.
