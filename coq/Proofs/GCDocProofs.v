(* Proofs/GCDocProofs.v -- the collector over documents (Model/GCDoc.v): a document whose structure lost what
   reachability is decided from is REFUSED (the collection raises having deleted nothing), and a collection that runs
   worked from ALL the document's snapshots / entries -- nothing defaulted, nothing skipped.

   The lemmas of the first part are generic in the shape (induction over items / fields); the `gen_*` lemmas read the
   demands off the REGENERATED shapes (Gen/GenDoc.v) by computation: when the source stops demanding a section they
   no longer check, and the theorems of Props/C07.v stated through them are unproved. *)
From Coq Require Import ZArith List Bool String Ascii Lia.
Require Import DS.Model.PyStr DS.Gen.GenNorm DS.Model.GC DS.Model.Doc DS.Gen.GenDoc DS.Model.GCDoc.
Require Import DS.Proofs.GCProofs DS.Proofs.GCFaultProofs.
Import ListNotations.
Open Scope string_scope.
Open Scope Z_scope.

Section Generic.
  Variable ext : string -> jv -> bool.

  Lemma req_ok_field : forall req fs k s,
    req_ok ext req fs = true -> field_shape k req = Some s -> exists x, assoc k fs = Some x /\ accepts ext s x = true.
  Proof.
    induction req as [|k' s' r IH]; intros fs k s Hok Hf; simpl in Hf; [discriminate|].
    simpl in Hok. apply andb_true_iff in Hok. destruct Hok as [H1 H2].
    destruct (String.eqb k k') eqn:E.
    - apply String.eqb_eq in E. subst k'. inversion Hf; subst s'. destruct (assoc k fs) as [x|]; [|discriminate].
      exists x. split; [reflexivity|exact H1].
    - eapply IH; eauto.
  Qed.

  Lemma accepts_rec_field : forall sh v k s,
    accepts ext sh v = true -> field_shape k (shape_req sh) = Some s ->
    exists fs x, v = JObj fs /\ assoc k fs = Some x /\ accepts ext s x = true.
  Proof.
    intros sh v k s Ha Hf. destruct sh; simpl in Hf; try discriminate.
    simpl in Ha. destruct v; try discriminate. apply andb_true_iff in Ha. destruct Ha as [Hr _].
    destruct (req_ok_field _ _ _ _ Hr Hf) as [x [A B]]. exists fs, x. auto.
  Qed.

  Lemma accepts_strict_seq : forall item v, accepts ext (SSeq true item) v = true -> exists l, v = JArr l /\ forallb (accepts ext item) l = true.
  Proof. intros item v H. simpl in H. destruct v; try discriminate. exists l. auto. Qed.

  Lemma accepts_str : forall v, accepts ext SStr v = true -> exists s, v = JStr s.
  Proof. intros v H. destruct v; try discriminate. eauto. Qed.

  (* every item accepted by a record shape that demands a string at k carries one *)
  Lemma items_strings : forall item k l,
    field_shape k (shape_req item) = Some SStr -> forallb (accepts ext item) l = true -> exists ps, strings_at k l = Some ps.
  Proof.
    intros item k l Hf. induction l as [|it r IH]; intro H; [exists []; reflexivity|].
    simpl in H. apply andb_true_iff in H. destruct H as [H1 H2]. destruct (IH H2) as [ps Hps].
    destruct (accepts_rec_field _ _ _ _ H1 Hf) as [fs [x [-> [A B]]]]. destruct (accepts_str _ B) as [s ->].
    exists (s :: ps). simpl. rewrite A, Hps. reflexivity.
  Qed.

  Lemma demands_section_strings_sound : forall sh sec k d,
    demands_section_strings sh sec k = true -> accepts ext sh d = true ->
    exists items ps, py_getitem d sec = Some (JArr items) /\ strings_at k items = Some ps.
  Proof.
    intros sh sec k d D A. unfold demands_section_strings in D.
    destruct (field_shape sec (shape_req sh)) as [s|] eqn:F; [|discriminate].
    destruct s as [| | | |strict item|]; try discriminate. destruct strict; [|discriminate].
    destruct (field_shape k (shape_req item)) as [s2|] eqn:F2; [|discriminate]. destruct s2; try discriminate.
    destruct (accepts_rec_field _ _ _ _ A F) as [fs [x [-> [As Ax]]]].
    destruct (accepts_strict_seq _ _ Ax) as [l [-> Hl]].
    destruct (items_strings _ _ _ F2 Hl) as [ps Hps]. exists l, ps. split; [exact As|exact Hps].
  Qed.
End Generic.

(* ---- strings_at: every item contributes exactly its string *)
Lemma strings_at_spec : forall k items ps, strings_at k items = Some ps ->
  Forall2 (fun it p => py_getitem it k = Some (JStr p)) items ps.
Proof.
  intros k items. induction items as [|it r IH]; intros ps H; simpl in H.
  - inversion H. constructor.
  - destruct (py_getitem it k) as [v|] eqn:G; [|discriminate]. destruct v; try discriminate.
    destruct (strings_at k r) as [ss|] eqn:S; [|discriminate]. inversion H; subst. constructor; [exact G|apply IH; reflexivity].
Qed.

Lemma strings_at_none : forall k items it, In it items -> (forall s, py_getitem it k <> Some (JStr s)) -> strings_at k items = None.
Proof.
  intros k items it. induction items as [|a r IH]; intros Hin Hn; [destruct Hin|]. simpl.
  destruct Hin as [->|Hin].
  - destruct (py_getitem it k) as [v|] eqn:G; [|reflexivity]. destruct v; try reflexivity. exfalso. eapply Hn; eauto.
  - rewrite (IH Hin Hn). destruct (py_getitem a k) as [v|]; [destruct v|]; reflexivity.
Qed.

Lemma strings_at2_spec : forall k1 k2 recs ps, strings_at2 k1 k2 recs = Some ps ->
  Forall2 (fun r p => exists h, py_getitem r k1 = Some h /\ py_getitem h k2 = Some (JStr p)) recs ps.
Proof.
  intros k1 k2 recs. induction recs as [|r rest IH]; intros ps H; simpl in H.
  - inversion H. constructor.
  - destruct (py_getitem r k1) as [h|] eqn:G1; [|discriminate].
    destruct (py_getitem h k2) as [v|] eqn:G2; [|discriminate]. destruct v; try discriminate.
    destruct (strings_at2 k1 k2 rest) as [ss|] eqn:S; [|discriminate]. inversion H; subst.
    constructor; [exists h; auto|apply IH; reflexivity].
Qed.

Lemma strings_at2_none : forall k1 k2 recs r, In r recs ->
  (forall h s, py_getitem r k1 = Some h -> py_getitem h k2 <> Some (JStr s)) -> strings_at2 k1 k2 recs = None.
Proof.
  intros k1 k2 recs r. induction recs as [|a rest IH]; intros Hin Hn; [destruct Hin|]. simpl.
  destruct Hin as [->|Hin].
  - destruct (py_getitem r k1) as [h|] eqn:G1; [|reflexivity].
    destruct (py_getitem h k2) as [v|] eqn:G2; [|reflexivity]. destruct v; try reflexivity. exfalso. eapply Hn; eauto.
  - rewrite (IH Hin Hn). destruct (py_getitem a k1) as [h|]; [|reflexivity]. destruct (py_getitem h k2) as [v|]; [destruct v|]; reflexivity.
Qed.

(* ---- the regenerated demands (computed on Gen/GenDoc.v) *)
Lemma gen_metadata_demands_snapshot_lists : demands_section_strings gen_metadata_shape gen_snapshots_key gen_manifest_list_key = true.
Proof. reflexivity. Qed.

Lemma gen_list_record_demands_path : demands_key gen_list_record_shape gen_list_path_key = true.
Proof. reflexivity. Qed.

Lemma gen_manifest_record_demands_path :
  match field_shape gen_manifest_file_key (shape_req gen_manifest_record_shape) with
  | Some h => demands_key h gen_manifest_path_key
  | None => false
  end = true.
Proof. reflexivity. Qed.

(* ---- the metadata document *)
Lemma accepted_metadata_names_all_lists : forall ext d, accepts ext gen_metadata_shape d = true ->
  exists items, py_getitem d gen_snapshots_key = Some (JArr items) /\ strings_at gen_manifest_list_key items = Some (doc_lists d).
Proof.
  intros ext d A.
  destruct (demands_section_strings_sound ext _ _ _ d gen_metadata_demands_snapshot_lists A) as [items [ps [G S]]].
  exists items. split; [exact G|]. unfold doc_lists, section_strings. rewrite G, S. reflexivity.
Qed.

(* a document that does not say which manifest lists its snapshots have -- the section is missing, null, not a list, or a
   snapshot carries no string there -- is refused: the collection raises having deleted nothing *)
Lemma lost_section_refused : forall ext tp grace now timeout o d st,
  section_strings gen_snapshots_key gen_manifest_list_key d = None ->
  collect_doc ext tp grace now timeout o d st = DocRefused.
Proof.
  intros ext tp grace now timeout o d st H. unfold collect_doc.
  destruct (accepts ext gen_metadata_shape d) eqn:A; [|reflexivity]. exfalso.
  destruct (accepted_metadata_names_all_lists ext d A) as [items [G S]].
  unfold section_strings in H. rewrite G, S in H. discriminate.
Qed.

Lemma doc_fail_closed : forall ext tp grace now timeout o d st,
  wf_store (doc_lists d) st ->
  match collect_doc ext tp grace now timeout o d st with
  | DocRefused => doc_deleted (collect_doc ext tp grace now timeout o d st) = []
  | DocRun r =>
      (exists items, py_getitem d gen_snapshots_key = Some (JArr items)
                     /\ Forall2 (fun it l => py_getitem it gen_manifest_list_key = Some (JStr l)) items (doc_lists d))
      /\ gc_safe_spec now grace timeout (doc_lists d) st r
  end.
Proof.
  intros ext tp grace now timeout o d st W. unfold collect_doc.
  destruct (accepts ext gen_metadata_shape d) eqn:A; [|reflexivity].
  destruct (negb COLLECT_CHECKS_CURRENT_SNAPSHOT || current_listed d); [|reflexivity]. split.
  - destruct (accepted_metadata_names_all_lists ext d A) as [items [G S]]. exists items. split; [exact G|apply strings_at_spec; exact S].
  - apply gc_safe_all_faults. exact W.
Qed.

(* ---- the current snapshot.  collect() refuses a metadata whose current_snapshot_id names none of the snapshots it lists:
   read off the source (Gen/GenNorm.v; false when collect() makes no such check -- then the two lemmas below are unproved) *)
Lemma collect_checks_current_snapshot : COLLECT_CHECKS_CURRENT_SNAPSHOT = true.
Proof. reflexivity. Qed.

Lemma dangling_current_refused : forall ext tp grace now timeout o d st,
  current_listed d = false -> collect_doc ext tp grace now timeout o d st = DocRefused.
Proof.
  intros ext tp grace now timeout o d st H. unfold collect_doc. rewrite collect_checks_current_snapshot, H.
  destruct (accepts ext gen_metadata_shape d); reflexivity.
Qed.

(* the same in the specification's words: a document with a dangling current_snapshot_id is refused (CURRENT_UNSET_NUM, the
   number the source compares with, is -1: by computation) *)
Lemma dangling_not_listed : forall d, dangling_current d -> current_listed d = false.
Proof.
  intros d [c [items [Gc [Gs [Nn [N1 Hno]]]]]]. unfold current_listed. rewrite Gc, Gs.
  apply orb_false_iff. split.
  - unfold current_unset. destruct c; try exact N1. contradiction.
  - destruct (existsb (snapshot_has_id c) items) eqn:E; [|reflexivity]. exfalso.
    apply existsb_exists in E. destruct E as [it [Hin Hid]]. unfold snapshot_has_id in Hid.
    destruct (py_getitem it gen_snapshot_id_key) as [i|] eqn:Gi; [|discriminate].
    rewrite (Hno it Hin i Gi) in Hid. discriminate.
Qed.

Lemma dangling_current_doc_refused : forall ext tp grace now timeout o d st,
  dangling_current d -> collect_doc ext tp grace now timeout o d st = DocRefused.
Proof. intros. apply dangling_current_refused. apply dangling_not_listed. assumption. Qed.

Lemma Forall2_in_l : forall (A B : Type) (P : A -> B -> Prop) l m x, Forall2 P l m -> In x l -> exists y, In y m /\ P x y.
Proof.
  intros A B P l m x F. induction F as [|a b l m Pab F IH]; intro Hin; [destruct Hin|].
  destruct Hin as [->|Hin]; [exists b; split; [left; reflexivity|exact Pab]|].
  destruct (IH Hin) as [y [Hy Py]]. exists y. split; [right; exact Hy|exact Py].
Qed.

(* a collection that RUNS worked from the manifest list of the document's current snapshot (or the document says that
   there is no snapshot yet): the current snapshot is one of the listed snapshots, and its list is among the lists the run
   keeps (doc_lists d; gc_safe_spec for them is doc_fail_closed) *)
Lemma run_protects_current : forall ext tp grace now timeout o d st r,
  collect_doc ext tp grace now timeout o d st = DocRun r ->
  exists c items, py_getitem d gen_current_snapshot_key = Some c /\ py_getitem d gen_snapshots_key = Some (JArr items)
    /\ (current_unset c = true
        \/ exists it l, In it items /\ snapshot_has_id c it = true
                        /\ py_getitem it gen_manifest_list_key = Some (JStr l) /\ In l (doc_lists d)).
Proof.
  intros ext tp grace now timeout o d st r H. unfold collect_doc in H.
  destruct (accepts ext gen_metadata_shape d) eqn:A; [|discriminate].
  rewrite collect_checks_current_snapshot in H. cbn [negb orb] in H.
  destruct (current_listed d) eqn:C; [|discriminate]. clear H. unfold current_listed in C.
  destruct (py_getitem d gen_current_snapshot_key) as [c|]; [|discriminate].
  destruct (accepted_metadata_names_all_lists ext d A) as [items [G S]]. rewrite G in C.
  exists c, items. split; [reflexivity|]. split; [exact G|].
  apply orb_true_iff in C. destruct C as [C|C]; [left; exact C|right].
  apply existsb_exists in C. destruct C as [it [Hin Hid]].
  destruct (Forall2_in_l _ _ _ _ _ it (strings_at_spec _ _ _ S) Hin) as [l [Hl Pl]].
  exists it, l. auto.
Qed.

(* ---- legacy JSON lists / manifests: the section the document consists of *)
Lemma gen_list_json_demands_section : demands_list_section gen_list_json_shape gen_list_json_key = true.
Proof. reflexivity. Qed.
Lemma gen_manifest_json_demands_section : demands_list_section gen_manifest_json_shape gen_manifest_json_key = true.
Proof. reflexivity. Qed.

Lemma demands_list_section_sound : forall ext sh sec d,
  demands_list_section sh sec = true -> accepts ext sh d = true -> exists l, py_getitem d sec = Some (JArr l).
Proof.
  intros ext sh sec d D A. unfold demands_list_section in D.
  destruct (field_shape sec (shape_req sh)) as [s|] eqn:F; [|discriminate].
  destruct s as [| | | |strict item|]; try discriminate. destruct strict; [|discriminate].
  destruct (accepts_rec_field ext _ _ _ _ A F) as [fs [x [-> [As Ax]]]].
  destruct (accepts_strict_seq ext _ _ Ax) as [l [-> _]]. exists l. exact As.
Qed.

(* a JSON document whose section is missing, null or anything but a list is no list / no manifest *)
Lemma list_json_section_lost : forall ext d,
  (forall l, py_getitem d gen_list_json_key <> Some (JArr l)) -> as_list (list_json_content ext d) = None.
Proof.
  intros ext d H. unfold list_json_content. destruct (accepts ext gen_list_json_shape d) eqn:A; [|reflexivity]. exfalso.
  destruct (demands_list_section_sound ext _ _ d gen_list_json_demands_section A) as [l G]. exact (H l G).
Qed.

Lemma manifest_json_section_lost : forall ext d,
  (forall l, py_getitem d gen_manifest_json_key <> Some (JArr l)) -> as_manifest (manifest_json_content ext d) = None.
Proof.
  intros ext d H. unfold manifest_json_content. destruct (accepts ext gen_manifest_json_shape d) eqn:A; [|reflexivity]. exfalso.
  destruct (demands_list_section_sound ext _ _ d gen_manifest_json_demands_section A) as [l G]. exact (H l G).
Qed.

(* ---- manifest lists and manifests given as records *)
Lemma list_records_readable : forall ext recs ps, as_list (list_records_content ext recs) = Some ps ->
  forallb (accepts ext gen_list_record_shape) recs = true
  /\ Forall2 (fun r p => py_getitem r gen_list_path_key = Some (JStr p)) recs ps.
Proof.
  intros ext recs ps H. unfold list_records_content in H.
  destruct (forallb (accepts ext gen_list_record_shape) recs) eqn:A; [|discriminate].
  destruct (strings_at gen_list_path_key recs) as [qs|] eqn:S; [|discriminate].
  simpl in H. inversion H; subst. split; [reflexivity|apply strings_at_spec; exact S].
Qed.

Lemma manifest_records_readable : forall ext recs ps, as_manifest (manifest_records_content ext recs) = Some ps ->
  forallb (accepts ext gen_manifest_record_shape) recs = true
  /\ Forall2 (fun r p => exists h, py_getitem r gen_manifest_file_key = Some h /\ py_getitem h gen_manifest_path_key = Some (JStr p)) recs ps.
Proof.
  intros ext recs ps H. unfold manifest_records_content in H.
  destruct (forallb (accepts ext gen_manifest_record_shape) recs) eqn:A; [|discriminate].
  destruct (strings_at2 gen_manifest_file_key gen_manifest_path_key recs) as [qs|] eqn:S; [|discriminate].
  simpl in H. inversion H; subst. split; [reflexivity|apply strings_at2_spec; exact S].
Qed.

Lemma forallb_false_in : forall (A : Type) (f : A -> bool) l x, In x l -> f x = false -> forallb f l = false.
Proof.
  intros A f l x. induction l as [|a r IH]; intros Hin Hf; [destruct Hin|]. simpl. destruct Hin as [->|Hin].
  - rewrite Hf. reflexivity.
  - rewrite (IH Hin Hf). apply andb_false_r.
Qed.

(* a record the reader refuses, or an entry that does not name its manifest as a string, makes the list unreadable *)
Lemma list_records_damaged : forall ext recs r, In r recs ->
  accepts ext gen_list_record_shape r = false \/ (forall s, py_getitem r gen_list_path_key <> Some (JStr s)) ->
  as_list (list_records_content ext recs) = None.
Proof.
  intros ext recs r Hin [H|H]; unfold list_records_content.
  - rewrite (forallb_false_in _ _ _ _ Hin H). reflexivity.
  - rewrite (strings_at_none _ _ _ Hin H). destruct (forallb _ recs); reflexivity.
Qed.

Lemma manifest_records_damaged : forall ext recs r, In r recs ->
  accepts ext gen_manifest_record_shape r = false
  \/ (forall h s, py_getitem r gen_manifest_file_key = Some h -> py_getitem h gen_manifest_path_key <> Some (JStr s)) ->
  as_manifest (manifest_records_content ext recs) = None.
Proof.
  intros ext recs r Hin [H|H]; unfold manifest_records_content.
  - rewrite (forallb_false_in _ _ _ _ Hin H). reflexivity.
  - rewrite (strings_at2_none _ _ _ _ Hin H). destruct (forallb _ recs); reflexivity.
Qed.

(* the key the paths come from is subscripted by the reader: a record without it is refused *)
Lemma list_record_without_path_refused : forall ext r, py_getitem r gen_list_path_key = None -> accepts ext gen_list_record_shape r = false.
Proof.
  intros ext r H. destruct (accepts ext gen_list_record_shape r) eqn:A; [|reflexivity]. exfalso.
  pose proof gen_list_record_demands_path as D. unfold demands_key in D.
  destruct (field_shape gen_list_path_key (shape_req gen_list_record_shape)) as [s|] eqn:F; [|discriminate].
  destruct (accepts_rec_field ext _ _ _ _ A F) as [fs [x [-> [As _]]]]. simpl in H. congruence.
Qed.

Theorem structured_damage_aborts : forall ext tp grace now timeout o snaps st k ob recs r,
  wf_store snaps st -> lookup k st = Some ob -> In r recs ->
  (ref_list snaps k /\ body ob = list_records_content ext recs
     /\ (accepts ext gen_list_record_shape r = false \/ forall s, py_getitem r gen_list_path_key <> Some (JStr s)))
  \/ (ref_manifest snaps st k /\ body ob = manifest_records_content ext recs
     /\ (accepts ext gen_manifest_record_shape r = false
         \/ forall h s, py_getitem r gen_manifest_file_key = Some h -> py_getitem h gen_manifest_path_key <> Some (JStr s))) ->
  aborted_before_sweep (gc_run tp grace now timeout o snaps st) /\ r_deleted (gc_run tp grace now timeout o snaps st) = [].
Proof.
  intros ext tp grace now timeout o snaps st k ob recs r W L Hin H. apply (damage_aborts tp grace now timeout o snaps st k W).
  destruct H as [[R [B D]]|[R [B D]]]; [left|right]; (split; [exact R|]).
  - unfold damaged_list. rewrite L, B. eapply list_records_damaged; eauto.
  - unfold damaged_manifest. rewrite L, B. eapply manifest_records_damaged; eauto.
Qed.

(* a reachable legacy JSON list / manifest that lost its section aborts the collection before the first sweep *)
Theorem json_section_lost_aborts : forall ext tp grace now timeout o snaps st k ob d,
  wf_store snaps st -> lookup k st = Some ob ->
  (ref_list snaps k /\ body ob = list_json_content ext d /\ forall l, py_getitem d gen_list_json_key <> Some (JArr l))
  \/ (ref_manifest snaps st k /\ body ob = manifest_json_content ext d /\ forall l, py_getitem d gen_manifest_json_key <> Some (JArr l)) ->
  aborted_before_sweep (gc_run tp grace now timeout o snaps st) /\ r_deleted (gc_run tp grace now timeout o snaps st) = [].
Proof.
  intros ext tp grace now timeout o snaps st k ob d W L H. apply (damage_aborts tp grace now timeout o snaps st k W).
  destruct H as [[R [B D]]|[R [B D]]]; [left|right]; (split; [exact R|]).
  - unfold damaged_list. rewrite L, B. apply list_json_section_lost. exact D.
  - unfold damaged_manifest. rewrite L, B. apply manifest_json_section_lost. exact D.
Qed.
