(* Proofs/MarkerKeyProofs.v -- marker identity (C06 / C07).

   Model/GCRace.v and Model/TxMarkers.v give every file its OWN marker (`g_marker : tid -> bool`, `hold f`).  That is a fact
   about the code only if the key _register_inflight writes is an injective function of the file's table-relative path:
   `register_marker_path_injective` (Proofs/GCHistProofs.v) proves it of the REGENERATED function (Gen/GenNorm.v).  Here: the
   naming the library used before the repair (marker keyed by the BASENAME), written down by hand, for which both facts fail --
   the witnesses are the audit's files. *)
From Coq Require Import String Ascii List Bool.
Require Import DS.Model.PyStr DS.Gen.GenNorm DS.Model.GC.
Import ListNotations.
Open Scope string_scope.

(* transaction.py before the repair: marker_name = file_path.rsplit("/", 1)[-1] *)
Definition basename_marker_path (file_path : string) : string :=
  INFLIGHT_PATH ++ ("/" ++ (basename file_path ++ ".inflight")).
(* garbage_collector.py before the repair: the guess made from the marker's name *)
Definition basename_marker_fallback (basename_ : string) : list string :=
  let name := py_drop_end (String.length ".inflight") basename_ in ["data/" ++ name; "metadata/manifests/" ++ name].

(* two different files, one marker: the second registration finds "its" marker held and writes nothing; the file is
   adopted UNMARKED (Model/GCRace.v gstep_unrepaired's TAdoptBare, for which C06 fails: C06_unmarked_adoption_refuted) *)
Lemma basename_marker_collides :
  exists f g, resolve f <> resolve g /\ append_accepts_path (fun s => s) f = true /\ append_accepts_path (fun s => s) g = true
              /\ basename_marker_path f = basename_marker_path g.
Proof. exists "data/p1/x.parquet", "data/p2/x.parquet". repeat split; try reflexivity. discriminate. Qed.

(* an accepted file in a sub-directory is NOT among the paths guessed from its marker's name *)
Lemma basename_marker_fallback_misses :
  exists f, append_accepts_path (fun s => s) f = true
            /\ ~ In (resolve f) (basename_marker_fallback (basename (basename_marker_path f))).
Proof.
  exists "data/p1/x.parquet". split; [reflexivity|]. vm_compute. intros [H|[H|[]]]; discriminate.
Qed.
