(* Proofs/GCViewProofs.v -- the content a reader gets from a retained snapshot (Model/GCView.v snap_view) is the same
   after every step of every sequential history of Model/GCHist.v, collections with arbitrary faults included.
   Rests on: new files get fresh keys (valid_commit), ageing changes no body, a collection deletes nothing that a
   retained snapshot references (GCProofs.gc_safe_all_faults), the writer-form invariant (GCHistProofs.history_invariant). *)
From Coq Require Import ZArith String Ascii List Bool Arith Lia.
Require Import DS.Model.PyStr DS.Gen.GenNorm DS.Model.GC DS.Model.GCHist DS.Model.GCView.
Require Import DS.Proofs.PyStrProofs DS.Proofs.GCNormProofs DS.Proofs.GCProofs DS.Proofs.GCFaultProofs DS.Proofs.GCHistProofs.
Import ListNotations.
Open Scope string_scope.
Open Scope Z_scope.
Open Scope list_scope.

(* ------------------------------------------------------------------ all_some *)
Lemma all_some_map_mono : forall (A B : Type) (f g : A -> option B) xs v,
  (forall x y, In x xs -> f x = Some y -> g x = Some y) -> all_some (map f xs) = Some v -> all_some (map g xs) = Some v.
Proof.
  intros A B f g xs. induction xs as [|x r IH]; intros v H E; simpl in *; [exact E|].
  destruct (f x) as [y|] eqn:Fx; [|discriminate].
  destruct (all_some (map f r)) as [ys|] eqn:Fr; [|discriminate].
  rewrite (H x y (or_introl eq_refl) Fx). rewrite (IH ys); [exact E| |reflexivity].
  intros x0 y0 Hin. apply H. right. exact Hin.
Qed.

Lemma all_some_total : forall (A B : Type) (f : A -> option B) xs,
  (forall x, In x xs -> exists y, f x = Some y) -> exists v, all_some (map f xs) = Some v.
Proof.
  intros A B f xs. induction xs as [|x r IH]; intro H; simpl; [eexists; reflexivity|].
  destruct (H x (or_introl eq_refl)) as [y ->]. destruct IH as [ys ->]; [intros x0 Hin; apply H; right; exact Hin|].
  eexists; reflexivity.
Qed.

(* ------------------------------------------------------------------ a view depends only on the bodies of what it references *)
Definition keeps (a b : store) (P : key -> Prop) : Prop :=
  forall k ob, P k -> lookup k a = Some ob -> exists ob', lookup k b = Some ob' /\ body ob' = body ob.

Lemma keeps_le : forall a b P, store_le a b -> keeps a b P.
Proof. intros a b P L k ob _ H. exists ob. split; [apply L; exact H|reflexivity]. Qed.

Lemma referenced_mono : forall s1 s2 st k, (forall x, In x s1 -> In x s2) -> referenced s1 st k -> referenced s2 st k.
Proof.
  intros s1 s2 st k Sub [R|[R|R]].
  - left. destruct R as [l [H1 H2]]. exists l. split; [apply Sub; exact H1|exact H2].
  - right. left. destruct R as [l [ms [m [H1 H2]]]]. exists l, ms, m. split; [apply Sub; exact H1|exact H2].
  - right. right. destruct R as [l [ms [m [es [e [H1 H2]]]]]]. exists l, ms, m, es, e. split; [apply Sub; exact H1|exact H2].
Qed.

Lemma snap_view_keeps : forall a b l v, nonempty l = true ->
  keeps a b (referenced [l] a) -> snap_view a l = Some v -> snap_view b l = Some v.
Proof.
  intros a b l v N K E. unfold snap_view in *.
  destruct (lookup (resolve l) a) as [ob|] eqn:L; [|discriminate].
  destruct (as_list (body ob)) as [ms|] eqn:B; [|discriminate].
  assert (LA: list_at a (resolve l) ms) by (exists ob; auto).
  destruct (K (resolve l) ob) as [ob' [L' B']]; [left; exists l; repeat split; auto; left; reflexivity|exact L|].
  rewrite L', B', B.
  eapply all_some_map_mono; [|exact E].
  intros m y Hm Em. apply filter_In in Hm. destruct Hm as [Hm Nm].
  unfold manifest_view in *.
  destruct (lookup (resolve m) a) as [ob2|] eqn:L2; [|discriminate].
  destruct (as_manifest (body ob2)) as [es|] eqn:B2; [|discriminate].
  destruct (all_some (map (data_view a) es)) as [ds|] eqn:D; [|discriminate].
  assert (MA: manifest_at a (resolve m) es) by (exists ob2; auto).
  destruct (K (resolve m) ob2) as [ob2' [L2' B2']]; [right; left; exists l, ms, m; repeat split; auto; left; reflexivity|exact L2|].
  rewrite L2', B2', B2.
  rewrite (all_some_map_mono _ _ (data_view a) (data_view b) es ds); [exact Em| |exact D].
  intros e z He Ez. unfold data_view in *.
  destruct (lookup (resolve e) a) as [ob3|] eqn:L3; [|discriminate].
  destruct (K (resolve e) ob3) as [ob3' [L3' B3']];
    [right; right; exists l, ms, m, es, e; repeat split; auto; left; reflexivity|exact L3|].
  rewrite L3', B3'. exact Ez.
Qed.

(* a fully present snapshot has a view *)
Lemma present_view : forall st l, nonempty l = true -> snapshot_present st l -> exists v, snap_view st l = Some v.
Proof.
  intros st l N P. destruct (P N) as [ms [[ob [L B]] H]]. unfold snap_view. rewrite L, B.
  apply all_some_total. intros m Hm. apply filter_In in Hm. destruct Hm as [Hm Nm].
  destruct (H m Hm Nm) as [es [[ob2 [L2 B2]] H2]]. unfold manifest_view. rewrite L2, B2.
  destruct (all_some_total _ _ (data_view st) es) as [ds ->]; [|eexists; reflexivity].
  intros e He. specialize (H2 e He). unfold present in H2. unfold data_view.
  destruct (lookup (resolve e) st) as [ob3|]; [eexists; reflexivity|contradiction].
Qed.

(* ------------------------------------------------------------------ a collection keeps what retained snapshots reference *)
Lemma collect_keeps : forall tp grace now timeout o snaps st, wf_store snaps st ->
  keeps st (g_store (r_final (gc_run tp grace now timeout o snaps st))) (referenced snaps st).
Proof.
  intros tp grace now timeout o snaps st W k ob R L.
  set (r := gc_run tp grace now timeout o snaps st).
  pose proof (gc_safe_all_faults tp grace now timeout o snaps st W) as S. fold r in S.
  pose proof (gs_store_le _ _ _ _ _ _ S) as LE.
  exists ob. split; [|reflexivity].
  destruct (lookup k (g_store (r_final r))) as [ob'|] eqn:E.
  - apply LE in E. congruence.
  - exfalso. destruct (gs_store _ _ _ _ _ _ S k ob L E) as [D|[_ [M _]]].
    + destruct (gs_deleted _ _ _ _ _ _ S k D) as [NR _]. contradiction.
    + (* a marker key is under metadata/inflight/: never referenced *)
      apply startswith_spec in M. destruct M as [q ->]. destruct R as [R|[R|R]].
      * destruct R as [l [H1 [H2 E2]]]. pose proof (wf_snaps _ _ W l H1 H2) as X. unfold wf_meta_ref in X. rewrite <- E2 in X. discriminate.
      * destruct R as [l [ms [m [H1 [H2 [[ob2 [L2 B2]] [H4 [H5 E2]]]]]]]]. pose proof (wf_lists _ _ W _ _ _ _ L2 B2 H4 H5) as X.
        unfold wf_meta_ref in X. rewrite <- E2 in X. discriminate.
      * destruct R as [l [ms [m [es [e [H1 [H2 [H3 [H4 [H5 [[ob2 [L2 B2]] [H7 E2]]]]]]]]]]]]. pose proof (wf_manifests _ _ W _ _ _ _ L2 B2 H7) as X.
        unfold wf_data_ref in X. rewrite <- E2 in X. discriminate.
Qed.

(* ------------------------------------------------------------------ one step of a history *)
Lemma valid_commit_fresh : forall h newdata newmans kept lname lmt, valid_commit h newdata newmans kept lname lmt = true ->
  forall k, In k (map fst (new_objects newdata newmans kept lname lmt)) -> lookup k (h_store h) = None.
Proof.
  intros h newdata newmans kept lname lmt V k Hk. unfold valid_commit in V. cbv zeta in V.
  apply andb_true_iff in V. destruct V as [V _]. apply andb_true_iff in V. destruct V as [V _].
  apply andb_true_iff in V. destruct V as [_ V2]. rewrite forallb_forall in V2. specialize (V2 k Hk).
  apply negb_true_iff in V2. apply has_key_false. exact V2.
Qed.

Lemma step_keeps : forall h op l, hinv h -> In l (h_lists h) ->
  keeps (h_store h) (h_store (hstep h op)) (referenced [l] (h_store h)).
Proof.
  intros h op l I Hl.
  destruct op as [sid newdata newmans kept lname lmt expire|keep|sid|name mt mmt|k garbage mt|k mt|tp grace now timeout o]; cbn [hstep].
  - destruct (valid_commit h newdata newmans kept lname lmt) eqn:V; [|apply keeps_le; apply store_le_refl].
    cbn [h_store]. apply keeps_le. apply fresh_store_le. eapply valid_commit_fresh; eauto.
  - cbn [h_store]. apply keeps_le. apply store_le_refl.
  - cbn [h_store]. apply keeps_le. apply store_le_refl.
  - destruct (negb (has_char slash name) && negb (has_key (data_key name) (h_store h)) && negb (has_key (register_marker_path (data_key name)) (h_store h))) eqn:C;
      [|apply keeps_le; apply store_le_refl].
    apply andb_true_iff in C. destruct C as [C C3]. apply andb_true_iff in C. destruct C as [_ C2].
    apply negb_true_iff in C2, C3. apply has_key_false in C2, C3. cbn [h_store]. apply keeps_le.
    apply (fresh_store_le [(register_marker_path (data_key name), _); (data_key name, _)] (h_store h)).
    intros k0 [<-|[<-|[]]]; assumption.
  - destruct ((startswith "data/" k || startswith "metadata/manifests/" k) && negb (has_key k (h_store h))) eqn:C;
      [|apply keeps_le; apply store_le_refl].
    apply andb_true_iff in C. destruct C as [_ C]. apply negb_true_iff in C. apply has_key_false in C. cbn [h_store]. apply keeps_le.
    apply (fresh_store_le [(k, _)] (h_store h)). intros k0 [<-|[]]. exact C.
  - cbn [h_store]. intros k0 ob _ L. apply touch_body'. exact L.
  - cbn [h_store]. destruct I as [W _]. intros k0 ob R L.
    apply (collect_keeps tp grace now timeout o (h_lists h) (h_store h) W k0 ob); [|exact L].
    eapply referenced_mono; [|exact R]. intros x [<-|[]]. exact Hl.
Qed.

Lemma view_step : forall h op l v, hinv h -> In l (h_lists h) -> nonempty l = true ->
  snap_view (h_store h) l = Some v -> snap_view (h_store (hstep h op)) l = Some v.
Proof. intros h op l v I Hl N E. eapply snap_view_keeps; eauto. apply step_keeps; assumption. Qed.

(* ------------------------------------------------------------------ manifest-list references of the model's writers are never empty *)
Definition lists_ne (h : hstate) : Prop := forall l, In l (h_lists h) -> nonempty l = true.

Lemma lists_ne_step : forall h op, lists_ne h -> lists_ne (hstep h op).
Proof.
  intros h op I. destruct op as [sid newdata newmans kept lname lmt expire|keep|sid|name mt mmt|k garbage mt|k mt|tp grace now timeout o]; cbn [hstep].
  - destruct (valid_commit h newdata newmans kept lname lmt); [|exact I].
    assert (J: forall l, In l (map snd (h_snaps h ++ [(sid, man_key lname)])) -> nonempty l = true).
    { intros l Hl. rewrite map_app in Hl. apply in_app_or in Hl. destruct Hl as [Hl|[<-|[]]]; [apply I; exact Hl|reflexivity]. }
    destruct expire as [keep|]; unfold lists_ne, h_lists; cbn [h_snaps]; [|exact J].
    intros l Hl. apply J. eapply in_map_snd_filter; eauto.
  - unfold lists_ne, h_lists; cbn [h_snaps]. intros l Hl. apply I. eapply in_map_snd_filter; eauto.
  - unfold lists_ne, h_lists; cbn [h_snaps]. intros l Hl. apply I. eapply in_map_snd_filter; eauto.
  - destruct (negb (has_char slash name) && negb (has_key (data_key name) (h_store h)) && negb (has_key (register_marker_path (data_key name)) (h_store h))); exact I.
  - destruct ((startswith "data/" k || startswith "metadata/manifests/" k) && negb (has_key k (h_store h))); exact I.
  - exact I.
  - exact I.
Qed.

Lemma lists_ne_run : forall ops h, lists_ne h -> lists_ne (fold_left hstep ops h).
Proof. induction ops as [|op r IH]; intros h I; simpl; [exact I|]. apply IH. apply lists_ne_step. exact I. Qed.

Lemma lists_ne_hist : forall ops, lists_ne (run_hist ops).
Proof. intro ops. apply lists_ne_run. intros l []. Qed.

Lemma hinv_run : forall ops h, hinv h -> hinv (fold_left hstep ops h).
Proof. induction ops as [|op r IH]; intros h I; simpl; [exact I|]. apply IH. apply hinv_step. exact I. Qed.

(* ------------------------------------------------------------------ the theorems *)
Lemma view_along : forall ops h l v, hinv h -> nonempty l = true -> retained_along h ops l ->
  snap_view (h_store h) l = Some v -> snap_view (h_store (fold_left hstep ops h)) l = Some v.
Proof.
  induction ops as [|op r IH]; intros h l v I N R E; simpl; [exact E|].
  destruct R as [Hl R]. apply IH; auto.
  - apply hinv_step. exact I.
  - apply view_step; assumption.
Qed.

(* every snapshot retained after a history has a content, and ANY next step leaves it as it is *)
Theorem retained_view_step : forall (ops : list hop) (op : hop) (l : string),
  In l (h_lists (run_hist ops)) ->
  exists v, snap_view (h_store (run_hist ops)) l = Some v /\ snap_view (h_store (run_hist (ops ++ [op]))) l = Some v.
Proof.
  intros ops op l Hl. pose proof (history_invariant ops) as I. pose proof (lists_ne_hist ops l Hl) as N.
  destruct (present_view _ _ N (proj2 I l Hl)) as [v E]. exists v. split; [exact E|].
  unfold run_hist. rewrite fold_left_app. cbn [fold_left]. apply view_step; assumption.
Qed.

(* ... and so does any continuation along which it stays retained *)
Theorem retained_view_stable : forall (ops1 ops2 : list hop) (l : string),
  In l (h_lists (run_hist ops1)) -> retained_along (run_hist ops1) ops2 l ->
  exists v, snap_view (h_store (run_hist ops1)) l = Some v /\ snap_view (h_store (run_hist (ops1 ++ ops2))) l = Some v.
Proof.
  intros ops1 ops2 l Hl R. pose proof (history_invariant ops1) as I. pose proof (lists_ne_hist ops1 l Hl) as N.
  destruct (present_view _ _ N (proj2 I l Hl)) as [v E]. exists v. split; [exact E|].
  unfold run_hist. rewrite fold_left_app. apply view_along; assumption.
Qed.
