(* Proofs/BoundProofs.v -- bounds survive the manifest round trip type-faithfully (C13). *)
From Coq Require Import ZArith List Bool String.
Require Import DS.Model.Value DS.Model.BoundPrim DS.Gen.GenBound DS.Model.Bound.

Lemma bound_roundtrip v : boundable v = true -> dec (enc v) = v.
Proof.
  unfold boundable, dec, enc, gen_encode, gen_decode_tag.
  destruct v as [|b|z|f|s|us|d|us]; simpl; intro H; try discriminate; reflexivity.
Qed.
