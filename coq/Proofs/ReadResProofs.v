(* Proofs/ReadResProofs.v -- what the counts regenerated into Gen/GenReadRes.v say (C02).
   Every lemma is a computation on the regenerated values: after a library change that makes a read API
   resolve the pointer more than once, or a transaction attempt reach the commit protocol more than once,
   this file stops compiling and the C02 theorems that cite it are reported as unproved. *)
From Coq Require Import List String Arith Bool.
Require Import DS.Gen.GenReadRes.
Import ListNotations.
Local Open Scope string_scope.

(* the greatest number of pointer resolutions any read API makes in one call *)
Definition read_budget : nat := fold_right Nat.max 0%nat (map (fun p => snd (snd p)) read_api_resolutions).

Lemma read_budget_one : read_budget = 1%nat.
Proof. reflexivity. Qed.

Lemma read_apis_covered :
  map fst read_api_resolutions = ["scan"; "to_pandas"; "scan_batches"; "iter_records"; "iter_pandas"; "row_count"].
Proof. reflexivity. Qed.

Lemma every_read_api_resolves_once : forall api lo hi,
  In (api, (lo, hi)) read_api_resolutions -> lo = 1%nat /\ hi = 1%nat.
Proof.
  intros api lo hi H.
  assert (F : forallb (fun p => Nat.eqb (fst (snd p)) 1 && Nat.eqb (snd (snd p)) 1) read_api_resolutions = true) by reflexivity.
  rewrite forallb_forall in F. specialize (F _ H). simpl in F.
  apply andb_prop in F. destruct F as [A B]. apply Nat.eqb_eq in A. apply Nat.eqb_eq in B. auto.
Qed.

Lemma txn_one_commit_per_attempt : txn_commits_per_attempt = (1, 1)%nat.
Proof. reflexivity. Qed.

Lemma delete_snapshot_at_most_one_commit : snd delete_snapshot_commits = 1%nat.
Proof. reflexivity. Qed.

Lemma api_single_resolution :
  map fst read_api_resolutions = ["scan"; "to_pandas"; "scan_batches"; "iter_records"; "iter_pandas"; "row_count"]
  /\ forall api lo hi, In (api, (lo, hi)) read_api_resolutions -> lo = 1%nat /\ hi = 1%nat.
Proof. exact (conj read_apis_covered every_read_api_resolves_once). Qed.
