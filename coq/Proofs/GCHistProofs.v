(* Proofs/GCHistProofs.v -- the writer-form invariant and "every retained snapshot is fully present" hold after
   every sequential history (induction over the operation list), collections with arbitrary faults included. *)
From Coq Require Import ZArith String Ascii List Bool Arith Lia.
Require Import DS.Model.PyStr DS.Gen.GenNorm DS.Model.GC DS.Model.GCHist.
Require Import DS.Proofs.PyStrProofs DS.Proofs.GCNormProofs DS.Proofs.GCProofs DS.Proofs.GCFaultProofs.
Require Import DS.Proofs.GCAcceptProofs.
Import ListNotations.
Open Scope string_scope.
Open Scope Z_scope.
Open Scope list_scope.

(* ------------------------------------------------------------------ generic store facts *)
Lemma lookup_app : forall k a b, lookup k (a ++ b) = match lookup k a with Some ob => Some ob | None => lookup k b end.
Proof.
  intros k a b. induction a as [|[k' o] r IH]; simpl; [reflexivity|]. destruct (String.eqb k k'); [reflexivity|exact IH].
Qed.

Lemma lookup_none_notin : forall k st, lookup k st = None <-> ~ In k (map fst st).
Proof.
  intros k st. split.
  - intros H Hin. apply In_keys_lookup in Hin. destruct Hin as [ob E]. congruence.
  - intro H. destruct (lookup k st) as [ob|] eqn:E; [|reflexivity]. exfalso. apply H. eapply lookup_In_keys; eauto.
Qed.

Lemma has_key_false : forall k st, has_key k st = false <-> lookup k st = None.
Proof. intros. unfold has_key. rewrite str_mem_false, lookup_none_notin. tauto. Qed.

Lemma has_key_true : forall k st, has_key k st = true <-> exists ob, lookup k st = Some ob.
Proof.
  intros. unfold has_key. rewrite str_mem_In. split.
  - apply In_keys_lookup.
  - intros [ob E]. eapply lookup_In_keys; eauto.
Qed.

Lemma NoDup_lookup : forall st k ob, NoDup (map fst st) -> In (k, ob) st -> lookup k st = Some ob.
Proof.
  induction st as [|[k' o] r IH]; intros k ob ND Hin; [contradiction|]. simpl in *. inversion ND; subst.
  destruct Hin as [E|Hin].
  - inversion E; subst. rewrite string_eqb_refl. reflexivity.
  - destruct (String.eqb k k') eqn:E.
    + apply String.eqb_eq in E. subst. exfalso. apply H1. apply in_map_iff. exists (k', ob). auto.
    + apply IH; assumption.
Qed.

Lemma NoDup_app' : forall (A : Type) (a b : list A), NoDup a -> NoDup b -> (forall x, In x a -> ~ In x b) -> NoDup (a ++ b).
Proof.
  intros A a b Ha Hb Hd. induction Ha as [|x a Hx Ha IH]; simpl; [exact Hb|]. constructor.
  - intro Hin. apply in_app_or in Hin. destruct Hin as [Hin|Hin]; [contradiction|]. apply (Hd x); [left; reflexivity|exact Hin].
  - apply IH. intros y Hy. apply Hd. right. exact Hy.
Qed.

Lemma gc_run_sub : forall tp grace now timeout o snaps st,
  sub_store (g_store (r_final (gc_run tp grace now timeout o snaps st))) st.
Proof. intros. unfold gc_run. exact (gc_run_from_sub MARKERS_FIRST tp grace now timeout o snaps (mkG 0 st [])). Qed.

(* ------------------------------------------------------------------ lifting facts along store extensions *)
Lemma list_at_le : forall a b k ms, store_le a b -> list_at a k ms -> list_at b k ms.
Proof. intros a b k ms L [ob [H1 H2]]. exists ob. split; [apply L; exact H1|exact H2]. Qed.
Lemma manifest_at_le : forall a b k es, store_le a b -> manifest_at a k es -> manifest_at b k es.
Proof. intros a b k es L [ob [H1 H2]]. exists ob. split; [apply L; exact H1|exact H2]. Qed.
Lemma present_le : forall a b k, store_le a b -> present a k -> present b k.
Proof.
  intros a b k L H. unfold present in *. destruct (lookup k a) as [ob|] eqn:E; [|contradiction]. apply L in E. congruence.
Qed.

Lemma snapshot_present_le : forall a b l, store_le a b -> snapshot_present a l -> snapshot_present b l.
Proof.
  intros a b l L H N. destruct (H N) as [ms [H1 H2]]. exists ms. split; [eapply list_at_le; eauto|].
  intros m Hm Nm. destruct (H2 m Hm Nm) as [es [H3 H4]]. exists es. split; [eapply manifest_at_le; eauto|].
  intros e He. eapply present_le; eauto.
Qed.

Lemma list_at_fun : forall st k a b, list_at st k a -> list_at st k b -> a = b.
Proof. intros st k a b [o1 [L1 B1]] [o2 [L2 B2]]. congruence. Qed.

Lemma resolve_man_key : forall n, resolve (man_key n) = man_key n.
Proof. intro n. reflexivity. Qed.
Lemma resolve_data_key : forall n, resolve (data_key n) = data_key n.
Proof. intro n. reflexivity. Qed.
Lemma man_key_meta : forall n, startswith "metadata/manifests/" (man_key n) = true.
Proof. intro n. unfold man_key. apply startswith_app. Qed.

Lemma in_map_snd_filter : forall (f : Z * string -> bool) l x, In x (map snd (filter f l)) -> In x (map snd l).
Proof.
  intros f l x H. apply in_map_iff in H. destruct H as [p [E Hp]]. apply filter_In in Hp. apply in_map_iff. exists p. tauto.
Qed.

(* fewer retained snapshots, same store *)
Lemma hinv_fewer : forall st snaps snaps' cur cur',
  hinv (mkH st snaps cur) -> (forall l, In l (map snd snaps') -> In l (map snd snaps)) -> hinv (mkH st snaps' cur').
Proof.
  intros st snaps snaps' cur cur' [W P] Sub. unfold hinv, h_lists in *. cbn [h_store h_snaps] in *. split.
  - destruct W as [W1 W2 W3 W4 W5]. constructor; auto.
  - intros l Hl. apply P. apply Sub. exact Hl.
Qed.

(* new files with fresh keys: nothing that was there changes *)
Lemma fresh_store_le : forall news st, (forall k, In k (map fst news) -> lookup k st = None) -> store_le st (news ++ st).
Proof.
  intros news st F k ob L. rewrite lookup_app. destruct (lookup k news) as [ob'|] eqn:E; [|exact L].
  exfalso. apply lookup_In_keys in E. apply F in E. congruence.
Qed.

(* ------------------------------------------------------------------ touch *)
Lemma lookup_touch : forall k mt st k', lookup k' (touch k mt st) =
  match lookup k' st with Some ob => Some (if String.eqb k k' then mkObj mt (body ob) else ob) | None => None end.
Proof.
  intros k mt st k'. induction st as [|[k2 o] r IH]; simpl; [reflexivity|].
  destruct (String.eqb k k2) eqn:E; simpl.
  - destruct (String.eqb k' k2) eqn:E2; [|exact IH]. apply String.eqb_eq in E, E2. subst. rewrite string_eqb_refl. reflexivity.
  - destruct (String.eqb k' k2) eqn:E2; [|exact IH]. apply String.eqb_eq in E2. subst. rewrite E. reflexivity.
Qed.

Lemma touch_keys : forall k mt st, map fst (touch k mt st) = map fst st.
Proof. intros. unfold touch. rewrite map_map. apply map_ext. intros [k2 o]. simpl. destruct (String.eqb k k2); reflexivity. Qed.

Lemma touch_body : forall k mt st k' ob', lookup k' (touch k mt st) = Some ob' -> exists ob, lookup k' st = Some ob /\ body ob = body ob'.
Proof.
  intros k mt st k' ob' H. rewrite lookup_touch in H. destruct (lookup k' st) as [ob|]; [|discriminate]. exists ob. split; [reflexivity|].
  inversion H. destruct (String.eqb k k'); reflexivity.
Qed.

Lemma touch_body' : forall k mt st k' ob, lookup k' st = Some ob -> exists ob', lookup k' (touch k mt st) = Some ob' /\ body ob' = body ob.
Proof.
  intros k mt st k' ob H. rewrite lookup_touch, H. eexists. split; [reflexivity|]. destruct (String.eqb k k'); reflexivity.
Qed.

Lemma hinv_touch : forall h k mt, hinv h -> hinv (mkH (touch k mt (h_store h)) (h_snaps h) (h_cur h)).
Proof.
  intros [st snaps cur] k mt [W P]. unfold hinv, h_lists in *. cbn [h_store h_snaps] in *. split.
  - destruct W as [W1 W2 W3 W4 W5]. constructor.
    + rewrite touch_keys. exact W1.
    + exact W2.
    + intros k0 ob' ms m L B. apply touch_body in L. destruct L as [ob [L E]]. rewrite <- E in B. eauto.
    + intros k0 ob' es e L B. apply touch_body in L. destruct L as [ob [L E]]. rewrite <- E in B. eauto.
    + intros mk ob' t L M B. apply touch_body in L. destruct L as [ob [L E]]. rewrite <- E in B. eauto.
  - intros l Hl N. destruct (P l Hl N) as [ms [[ob [L B]] H2]].
    destruct (touch_body' k mt st _ _ L) as [ob' [L' E']]. exists ms. split; [exists ob'; split; [exact L'|congruence]|].
    intros m Hm Nm. destruct (H2 m Hm Nm) as [es [[ob2 [L2 B2]] H4]].
    destruct (touch_body' k mt st _ _ L2) as [ob2' [L2' E2']]. exists es. split; [exists ob2'; split; [exact L2'|congruence]|].
    intros e He. specialize (H4 e He). unfold present in *. destruct (lookup (resolve e) st) as [ob3|] eqn:L3; [|contradiction].
    destruct (touch_body' k mt st _ _ L3) as [ob3' [L3' _]]. congruence.
Qed.

(* ------------------------------------------------------------------ one new plain file (orphan / data file) *)
Lemma hinv_add_plain : forall h k ob, hinv h -> lookup k (h_store h) = None -> as_list (body ob) = None -> as_manifest (body ob) = None ->
  (forall t, body ob <> CMarker (Some t)) -> hinv (mkH ((k, ob) :: h_store h) (h_snaps h) (h_cur h)).
Proof.
  intros [st snaps cur] k ob [W P] F NL NM NK. unfold hinv, h_lists in *. cbn [h_store h_snaps] in *.
  assert (LE: store_le st ((k, ob) :: st)).
  { apply (fresh_store_le [(k, ob)] st). intros k0 [<-|[]]. exact F. }
  assert (INV: forall k0 ob0, lookup k0 ((k, ob) :: st) = Some ob0 -> (k0 = k /\ ob0 = ob) \/ lookup k0 st = Some ob0).
  { intros k0 ob0 H. simpl in H. destruct (String.eqb k0 k) eqn:E; [left; apply String.eqb_eq in E; inversion H; auto|right; exact H]. }
  split.
  - destruct W as [W1 W2 W3 W4 W5]. constructor.
    + simpl. constructor; [apply lookup_none_notin; exact F|exact W1].
    + exact W2.
    + intros k0 ob0 ms m L B. destruct (INV _ _ L) as [[-> ->]|L0]; [congruence|eauto].
    + intros k0 ob0 es e L B. destruct (INV _ _ L) as [[-> ->]|L0]; [congruence|eauto].
    + intros mk ob0 t L M B. destruct (INV _ _ L) as [[-> ->]|L0]; [exfalso; eapply NK; eauto|eauto].
  - intros l Hl. eapply snapshot_present_le; eauto.
Qed.

(* ------------------------------------------------------------------ an open transaction: marker + data file *)
Lemma suffix_no_slash : has_char slash INFLIGHT_SUFFIX = false.
Proof. reflexivity. Qed.

Lemma basename_noslash : forall x, has_char slash x = false -> basename x = x.
Proof.
  intros [|a r] H; [reflexivity|]. cbn [has_char] in H. apply orb_false_iff in H. destruct H as [H1 H2].
  cbn [basename]. rewrite H2, H1. reflexivity.
Qed.

Lemma basename_app_noslash : forall s x, has_char slash x = false -> basename (s ++ x) = (basename s ++ x)%string.
Proof.
  induction s as [|a r IH]; intros x H.
  - apply basename_noslash. exact H.
  - cbn [append basename]. rewrite has_char_app, H, orb_false_r.
    destruct (has_char slash r); [apply IH; exact H|]. destruct (Ascii.eqb a slash); reflexivity.
Qed.

(* The key of the marker the REGENERATED _register_inflight writes spells the WHOLE table-relative path of the registered file,
   and the payload is that path. *)
Lemma register_marker_keyed : forall f,
  register_marker_path f = ((INFLIGHT_PATH ++ "/") ++ (resolve f ++ INFLIGHT_SUFFIX))%string
  /\ register_marker_payload f = resolve f.
Proof. intro f. split; reflexivity. Qed.

Lemma keyed_of_registered : forall t,
  py_drop_end (String.length INFLIGHT_SUFFIX)
              (py_drop (String.length (INFLIGHT_PATH ++ "/")) ((INFLIGHT_PATH ++ "/") ++ (t ++ INFLIGHT_SUFFIX))) = t.
Proof. intro t. rewrite py_drop_app. apply py_drop_end_app. discriminate. Qed.

(* marker identity = the whole table-relative path: two files share a marker only if they are the same file *)
Theorem register_marker_path_injective : forall f g, register_marker_path f = register_marker_path g -> resolve f = resolve g.
Proof.
  intros f g H. rewrite (proj1 (register_marker_keyed f)), (proj1 (register_marker_keyed g)) in H.
  rewrite <- (keyed_of_registered (resolve f)), <- (keyed_of_registered (resolve g)), H. reflexivity.
Qed.

(* The writer's marker naming and the collector's fallback agree, for EVERY file a transaction can register: any file whose
   table-relative path lies under data/ or metadata/ -- in ANY sub-directory.  The marker the regenerated _register_inflight
   writes for it is a marker for the collector (under INFLIGHT_PATH, name ending in ".inflight"), and what the collector
   protects when that marker's PAYLOAD cannot be used (the regenerated marker_fallback of the marker's key) is EXACTLY the
   file the writer registered (the reader's resolution of the payload the writer stored).  With markers named after the
   file's basename this is unprovable (false for data/p1/x.parquet: Props/C07.v). *)
Theorem registered_marker_fallback_covers : forall f, table_relative (resolve f) ->
  is_marker_key (register_marker_path f)
  /\ name_candidates (register_marker_path f) = [resolve (register_marker_payload f)]
  /\ marker_fallback (register_marker_path f) (basename (register_marker_path f)) = [resolve (register_marker_payload f)].
Proof.
  intros f TR. destruct (register_marker_keyed f) as [P Q].
  assert (R: resolve (register_marker_payload f) = resolve f) by (rewrite Q; apply lstrip_c_idem).
  assert (NC: name_candidates (register_marker_path f) = [resolve f]).
  { rewrite P. unfold name_candidates. cbv zeta. rewrite keyed_of_registered.
    destruct TR as [D|M]; [rewrite D; reflexivity|rewrite M, orb_true_r; reflexivity]. }
  split; [|split].
  - rewrite P. split; [apply (startswith_app (INFLIGHT_PATH ++ "/"))|].
    rewrite <- (append_assoc (INFLIGHT_PATH ++ "/") (resolve f) INFLIGHT_SUFFIX).
    rewrite basename_app_noslash by reflexivity. apply endswith_app.
  - rewrite R. exact NC.
  - rewrite marker_fallback_covers, R. exact NC.
Qed.

Theorem accepted_marker_fallback_covers : forall normpath f, append_accepts_path normpath f = true ->
  is_marker_key (register_marker_path f)
  /\ marker_fallback (register_marker_path f) (basename (register_marker_path f)) = [resolve (register_marker_payload f)]
  /\ startswith "data/" (resolve (register_marker_payload f)) = true.
Proof.
  intros np f A. pose proof (accepts_under_data np f A) as D. unfold wf_data_ref in D.
  destruct (registered_marker_fallback_covers f (or_introl D)) as [K [_ F]].
  split; [exact K|]. split; [exact F|].
  rewrite (proj2 (register_marker_keyed f)). unfold resolve at 1. rewrite lstrip_c_idem. exact D.
Qed.

Lemma open_tx_marker : forall name, has_char slash name = false ->
  register_marker_path (data_key name) = ((INFLIGHT_PATH ++ "/") ++ (data_key name ++ INFLIGHT_SUFFIX))%string
  /\ register_marker_payload (data_key name) = data_key name
  /\ In (resolve (register_marker_payload (data_key name))) (name_candidates (register_marker_path (data_key name))).
Proof.
  intros name _. split; [reflexivity|]. split; [reflexivity|].
  assert (TR: table_relative (resolve (data_key name))) by (left; rewrite resolve_data_key; apply startswith_app).
  destruct (registered_marker_fallback_covers _ TR) as [_ [NC _]]. rewrite NC. left. reflexivity.
Qed.

Lemma hinv_open_tx : forall h name mt mmt, hinv h -> has_char slash name = false ->
  lookup (data_key name) (h_store h) = None -> lookup (register_marker_path (data_key name)) (h_store h) = None ->
  hinv (mkH ((register_marker_path (data_key name), mkObj mmt (CMarker (Some (register_marker_payload (data_key name)))))
             :: (data_key name, mkObj mt CData) :: h_store h) (h_snaps h) (h_cur h)).
Proof.
  intros h name mt mmt I NS F1 F2.
  assert (I1: hinv (mkH ((data_key name, mkObj mt CData) :: h_store h) (h_snaps h) (h_cur h))).
  { apply hinv_add_plain; auto. intros t. discriminate. }
  destruct (open_tx_marker name NS) as [P [Q C]].
  destruct I1 as [W Pz]. unfold hinv, h_lists in *. cbn [h_store h_snaps] in *.
  set (st1 := (data_key name, mkObj mt CData) :: h_store h) in *. set (mk := register_marker_path (data_key name)) in *.
  assert (F: lookup mk st1 = None).
  { unfold st1. simpl. destruct (String.eqb mk (data_key name)) eqn:E; [|exact F2]. apply String.eqb_eq in E. rewrite P in E. discriminate. }
  assert (LE: store_le st1 ((mk, mkObj mmt (CMarker (Some (register_marker_payload (data_key name))))) :: st1)).
  { apply (fresh_store_le [(mk, _)] st1). intros k0 [<-|[]]. exact F. }
  assert (INV: forall k0 ob0, lookup k0 ((mk, mkObj mmt (CMarker (Some (register_marker_payload (data_key name))))) :: st1) = Some ob0 ->
            (k0 = mk /\ ob0 = mkObj mmt (CMarker (Some (register_marker_payload (data_key name))))) \/ lookup k0 st1 = Some ob0).
  { intros k0 ob0 H. simpl in H. destruct (String.eqb k0 mk) eqn:E; [left; apply String.eqb_eq in E; inversion H; auto|right; exact H]. }
  split.
  - destruct W as [W1 W2 W3 W4 W5]. constructor.
    + cbn [map fst]. constructor; [exact (proj1 (lookup_none_notin mk st1) F)|exact W1].
    + exact W2.
    + intros k0 ob0 ms m L B. destruct (INV _ _ L) as [[E1 E2]|L0]; [rewrite E2 in B; discriminate|eauto].
    + intros k0 ob0 es e L B. destruct (INV _ _ L) as [[E1 E2]|L0]; [rewrite E2 in B; discriminate|eauto].
    + intros mk0 ob0 t L M B N. destruct (INV _ _ L) as [[E1 E2]|L0]; [|eauto].
      rewrite E2 in B. cbn [body] in B. inversion B; subst t. rewrite E1. exact C.
  - intros l Hl. eapply snapshot_present_le; eauto.
Qed.

(* ------------------------------------------------------------------ a collection (any faults) keeps the invariant *)
Lemma hinv_collect : forall h tp grace now timeout o, hinv h ->
  hinv (mkH (g_store (r_final (gc_run tp grace now timeout o (h_lists h) (h_store h)))) (h_snaps h) (h_cur h)).
Proof.
  intros [st snaps cur] tp grace now timeout o [W P]. unfold hinv, h_lists in *. cbn [h_store h_snaps] in *.
  set (r := gc_run tp grace now timeout o (map snd snaps) st).
  pose proof (gc_safe_all_faults tp grace now timeout o (map snd snaps) st W) as S. fold r in S.
  pose proof (gs_store_le _ _ _ _ _ _ S) as LE.
  assert (KEEP: forall k ob, lookup k st = Some ob -> referenced (map snd snaps) st k -> lookup k (g_store (r_final r)) = Some ob).
  { intros k ob L R. destruct (lookup k (g_store (r_final r))) as [ob'|] eqn:E.
    - apply LE in E. congruence.
    - exfalso. destruct (gs_store _ _ _ _ _ _ S k ob L E) as [D|[_ [M _]]].
      + destruct (gs_deleted _ _ _ _ _ _ S k D) as [NR _]. contradiction.
      + (* a marker key is under metadata/inflight/: never referenced *)
        apply startswith_spec in M. destruct M as [q ->]. destruct R as [R|[R|R]].
        * destruct R as [l [H1 [H2 E2]]]. pose proof (wf_snaps _ _ W l H1 H2) as X. unfold wf_meta_ref in X. rewrite <- E2 in X. discriminate.
        * destruct R as [l [ms [m [H1 [H2 [[ob2 [L2 B2]] [H4 [H5 E2]]]]]]]]. pose proof (wf_lists _ _ W _ _ _ _ L2 B2 H4 H5) as X.
          unfold wf_meta_ref in X. rewrite <- E2 in X. discriminate.
        * destruct R as [l [ms [m [es [e [H1 [H2 [H3 [H4 [H5 [[ob2 [L2 B2]] [H7 E2]]]]]]]]]]]]. pose proof (wf_manifests _ _ W _ _ _ _ L2 B2 H7) as X.
          unfold wf_data_ref in X. rewrite <- E2 in X. discriminate. }
  split.
  - destruct W as [W1 W2 W3 W4 W5]. constructor.
    + destruct (gc_run_sub tp grace now timeout o (map snd snaps) st) as [f E]. fold r in E. rewrite E. apply NoDup_map_filter. exact W1.
    + exact W2.
    + intros k ob ms m L B. apply LE in L. eauto.
    + intros k ob es e L B. apply LE in L. eauto.
    + intros mk ob t L M B. apply LE in L. eauto.
  - intros l Hl N. destruct (P l Hl N) as [ms [[ob [L B]] H2]].
    assert (RL: ref_list (map snd snaps) (resolve l)) by (exists l; auto).
    exists ms. split; [exists ob; split; [apply KEEP; [exact L|left; exact RL]|exact B]|].
    intros m Hm Nm. destruct (H2 m Hm Nm) as [es [[ob2 [L2 B2]] H4]].
    assert (RM: ref_manifest (map snd snaps) st (resolve m)).
    { exists l, ms, m. repeat split; auto. exists ob. auto. }
    exists es. split; [exists ob2; split; [apply KEEP; [exact L2|right; left; exact RM]|exact B2]|].
    intros e He. specialize (H4 e He). unfold present in *. destruct (lookup (resolve e) st) as [ob3|] eqn:L3; [|contradiction].
    rewrite (KEEP _ _ L3); [discriminate|]. right. right. exists l, ms, m, es, e. repeat split; auto; [exists ob|exists ob2]; auto.
Qed.

(* ------------------------------------------------------------------ a commit *)
Lemma cur_manifests_in : forall h m, In m (cur_manifests h) ->
  exists l ms, In l (h_lists h) /\ nonempty l = true /\ list_at (h_store h) (resolve l) ms /\ In m ms.
Proof.
  intros h m H. unfold cur_manifests in H. destruct (h_cur h) as [c|]; [|contradiction].
  destruct (find (fun p => fst p =? c) (h_snaps h)) as [p|] eqn:F; [|contradiction]. apply find_some in F. destruct F as [F _].
  destruct (nonempty (snd p)) eqn:N; [|contradiction].
  destruct (lookup (resolve (snd p)) (h_store h)) as [ob|] eqn:L; [|contradiction].
  destruct (as_list (body ob)) as [ms|] eqn:B; [|contradiction].
  exists (snd p), ms. split; [apply in_map; exact F|]. split; [exact N|]. split; [exists ob; auto|exact H].
Qed.

Lemma news_shape : forall newdata newmans kept lname lmt k ob,
  In (k, ob) (new_objects newdata newmans kept lname lmt) ->
  (exists p, In p newdata /\ k = data_key (fst p) /\ body ob = CData)
  \/ (exists p, In p newmans /\ k = man_key (fst (fst p)) /\ body ob = CManifest FAvro (snd (fst p)))
  \/ (k = man_key lname /\ body ob = CList FAvro (kept ++ map (fun p => man_key (fst (fst p))) newmans)).
Proof.
  intros newdata newmans kept lname lmt k ob H. unfold new_objects in H.
  apply in_app_or in H. destruct H as [H|H].
  - left. apply in_map_iff in H. destruct H as [p [E Hp]]. inversion E; subst. exists p. auto.
  - apply in_app_or in H. destruct H as [H|H].
    + right. left. apply in_map_iff in H. destruct H as [p [E Hp]]. inversion E; subst. exists p. auto.
    + right. right. destruct H as [E|[]]. inversion E; subst. auto.
Qed.

Lemma hinv_commit0 : forall h sid newdata newmans kept lname lmt,
  hinv h -> valid_commit h newdata newmans kept lname lmt = true ->
  hinv (mkH (new_objects newdata newmans kept lname lmt ++ h_store h) (h_snaps h ++ [(sid, man_key lname)]) (Some sid)).
Proof.
  intros [st snaps cur] sid newdata newmans kept lname lmt [W P] V.
  unfold valid_commit in V. cbv zeta in V. cbn [h_store] in V.
  apply andb_true_iff in V. destruct V as [V V4]. apply andb_true_iff in V. destruct V as [V V3].
  apply andb_true_iff in V. destruct V as [V1 V2].
  set (news := new_objects newdata newmans kept lname lmt) in *.
  apply nodupb_sound in V1. rewrite forallb_forall in V2, V3, V4.
  assert (FR: forall k, In k (map fst news) -> lookup k st = None).
  { intros k Hk. apply has_key_false. specialize (V2 k Hk). apply negb_true_iff in V2. exact V2. }
  assert (LE: store_le st (news ++ st)) by (apply fresh_store_le; exact FR).
  assert (NEW: forall k ob, In (k, ob) news -> lookup k (news ++ st) = Some ob).
  { intros k ob Hin. rewrite lookup_app. rewrite (NoDup_lookup news k ob V1 Hin). reflexivity. }
  assert (INV: forall k ob, lookup k (news ++ st) = Some ob -> In (k, ob) news \/ lookup k st = Some ob).
  { intros k ob H. rewrite lookup_app in H. destruct (lookup k news) as [ob'|] eqn:E; [|right; exact H].
    left. inversion H; subst. apply lookup_In. exact E. }
  assert (KEPT: forall m, In m kept -> exists l ms, In l (map snd snaps) /\ nonempty l = true /\ list_at st (resolve l) ms /\ In m ms).
  { intros m Hm. specialize (V4 m Hm). apply str_mem_In in V4. apply cur_manifests_in in V4. exact V4. }
  unfold hinv, h_lists in *. cbn [h_store h_snaps] in *.
  assert (LISTS: forall l, In l (map snd (snaps ++ [(sid, man_key lname)])) -> In l (map snd snaps) \/ l = man_key lname).
  { intros l Hl. rewrite map_app in Hl. apply in_app_or in Hl. destruct Hl as [Hl|[<-|[]]]; auto. }
  split.
  - destruct W as [W1 W2 W3 W4 W5]. constructor.
    + rewrite map_app. apply NoDup_app'; auto. intros k Hk Hin. apply FR in Hk. apply lookup_none_notin in Hk. contradiction.
    + intros l Hl N. destruct (LISTS l Hl) as [Ho| ->]; [auto|]. unfold wf_meta_ref. rewrite resolve_man_key. apply man_key_meta.
    + intros k ob ms m L B Hm Nm. destruct (INV _ _ L) as [Hin|L0]; [|eauto].
      destruct (news_shape _ _ _ _ _ _ _ Hin) as [[p [_ [_ E]]]|[[p [_ [_ E]]]|[_ E]]]; rewrite E in B; try discriminate.
      cbn [as_list] in B. inversion B; subst ms. apply in_app_or in Hm. destruct Hm as [Hm|Hm].
      * destruct (KEPT m Hm) as [l [ms0 [H1 [H2 [[ob0 [L0 B0]] H4]]]]]. eauto.
      * apply in_map_iff in Hm. destruct Hm as [p [<- _]]. unfold wf_meta_ref. rewrite resolve_man_key. apply man_key_meta.
    + intros k ob es e L B He. destruct (INV _ _ L) as [Hin|L0]; [|eauto].
      destruct (news_shape _ _ _ _ _ _ _ Hin) as [[p [_ [_ E]]]|[[p [Hp [_ E]]]|[_ E]]]; rewrite E in B; try discriminate.
      cbn [as_manifest] in B. inversion B; subst es. specialize (V3 p Hp). rewrite forallb_forall in V3. specialize (V3 e He).
      apply andb_true_iff in V3. destruct V3 as [V3 _]. exact (accepts_under_data _ _ V3).
    + intros mk ob t L M B N. destruct (INV _ _ L) as [Hin|L0]; [|eauto].
      destruct (news_shape _ _ _ _ _ _ _ Hin) as [[p [_ [_ E]]]|[[p [_ [_ E]]]|[_ E]]]; rewrite E in B; discriminate.
  - intros l Hl. destruct (LISTS l Hl) as [Ho| ->]; [eapply snapshot_present_le; eauto|].
    intros _. rewrite resolve_man_key.
    exists (kept ++ map (fun p => man_key (fst (fst p))) newmans). split.
    { eexists. split; [apply NEW; unfold news, new_objects; apply in_or_app; right; apply in_or_app; right; left; reflexivity|reflexivity]. }
    intros m Hm Nm. apply in_app_or in Hm. destruct Hm as [Hm|Hm].
    + destruct (KEPT m Hm) as [l [ms0 [H1 [H2 [H3 H4]]]]]. destruct (P l H1 H2) as [ms1 [Q1 Q2]].
      assert (ms1 = ms0) by (eapply list_at_fun; eauto). subst ms1.
      destruct (Q2 m H4 Nm) as [es [Q3 Q4]]. exists es. split; [eapply manifest_at_le; eauto|].
      intros e He. eapply present_le; eauto.
    + apply in_map_iff in Hm. destruct Hm as [p [<- Hp]]. rewrite resolve_man_key. exists (snd (fst p)). split.
      { eexists. split; [apply NEW; unfold news, new_objects; apply in_or_app; right; apply in_or_app; left;
                         apply in_map_iff; exists p; split; [reflexivity|exact Hp]|reflexivity]. }
      intros e He. specialize (V3 p Hp). rewrite forallb_forall in V3. specialize (V3 e He).
      apply andb_true_iff in V3. destruct V3 as [_ V3]. apply orb_true_iff in V3. destruct V3 as [V3|V3].
      * apply has_key_true in V3. destruct V3 as [ob L]. unfold present. rewrite (LE _ _ L). discriminate.
      * apply str_mem_In in V3. apply in_map_iff in V3. destruct V3 as [q [E Hq]]. unfold present.
        rewrite (NEW (resolve e) (mkObj (snd q) CData)); [discriminate|].
        unfold news, new_objects. apply in_or_app. left. apply in_map_iff. exists q. split; [rewrite E; reflexivity|exact Hq].
Qed.

(* ------------------------------------------------------------------ every step, every history *)
Lemma hinv_step : forall h op, hinv h -> hinv (hstep h op).
Proof.
  intros h op I. destruct op as [sid newdata newmans kept lname lmt expire|keep|sid|name mt mmt|k garbage mt|k mt|tp grace now timeout o]; cbn [hstep].
  - destruct (valid_commit h newdata newmans kept lname lmt) eqn:V; [|exact I].
    pose proof (hinv_commit0 h sid newdata newmans kept lname lmt I V) as I0. destruct expire as [keep|]; [|exact I0].
    eapply hinv_fewer; [exact I0|]. intros l Hl. eapply in_map_snd_filter; eauto.
  - destruct h as [st snaps cur]. eapply hinv_fewer; [exact I|]. intros l Hl. eapply in_map_snd_filter; eauto.
  - destruct h as [st snaps cur]. eapply hinv_fewer; [exact I|]. intros l Hl. eapply in_map_snd_filter; eauto.
  - destruct (negb (has_char slash name) && negb (has_key (data_key name) (h_store h)) && negb (has_key (register_marker_path (data_key name)) (h_store h))) eqn:C; [|exact I].
    apply andb_true_iff in C. destruct C as [C C3]. apply andb_true_iff in C. destruct C as [C1 C2].
    apply negb_true_iff in C1, C2, C3. apply has_key_false in C2, C3. apply hinv_open_tx; auto.
  - destruct ((startswith "data/" k || startswith "metadata/manifests/" k) && negb (has_key k (h_store h))) eqn:C; [|exact I].
    apply andb_true_iff in C. destruct C as [_ C]. apply negb_true_iff in C. apply has_key_false in C.
    apply hinv_add_plain; auto; destruct garbage; try reflexivity; intros t; discriminate.
  - apply hinv_touch. exact I.
  - apply hinv_collect. exact I.
Qed.

Lemma hinv_init : hinv hinit.
Proof.
  split.
  - constructor; simpl; try (intros; contradiction); try (intros; discriminate). constructor.
  - intros l [].
Qed.

Theorem history_invariant : forall ops, hinv (run_hist ops).
Proof.
  intro ops. unfold run_hist. generalize hinit hinv_init. induction ops as [|op r IH]; intros h I; simpl; [exact I|].
  apply IH. apply hinv_step. exact I.
Qed.

(* the decidable invariant the harness evaluates on real directories implies the one the theorem is about *)
Lemma snapshot_presentb_sound : forall st l, snapshot_presentb st l = true -> snapshot_present st l.
Proof.
  intros st l H N. unfold snapshot_presentb in H. rewrite N in H. cbn [negb orb] in H.
  destruct (lookup (resolve l) st) as [ob|] eqn:L; [|discriminate].
  destruct (as_list (body ob)) as [ms|] eqn:B; [|discriminate].
  exists ms. split; [exists ob; auto|]. rewrite forallb_forall in H.
  intros m Hm Nm. specialize (H m Hm). rewrite Nm in H. cbn [negb orb] in H.
  destruct (lookup (resolve m) st) as [ob2|] eqn:L2; [|discriminate].
  destruct (as_manifest (body ob2)) as [es|] eqn:B2; [|discriminate].
  exists es. split; [exists ob2; auto|]. rewrite forallb_forall in H.
  intros e He. specialize (H e He). apply has_key_true in H. destruct H as [ob3 L3]. unfold present. congruence.
Qed.

Lemma hinvb_sound : forall snaps st cur, hinvb (map snd snaps) st = true -> hinv (mkH st snaps cur).
Proof.
  intros snaps st cur H. unfold hinvb in H. apply andb_true_iff in H. destruct H as [H1 H2]. split.
  - apply wf_storeb_sound. exact H1.
  - intros l Hl. apply snapshot_presentb_sound. rewrite forallb_forall in H2. apply H2. exact Hl.
Qed.

(* ------------------------------------------------------------------ the generic commit is not vacuous: the append of
   Table.append_records (any of the three canonical spellings of the new file's path) with fresh names always satisfies the
   side conditions, so it really extends the history *)
Lemma resolve_spell : forall sp n, resolve (spell sp (data_key n)) = data_key n.
Proof. intros sp n. destruct sp as [|[|sp]]; reflexivity. Qed.

Lemma forallb_str_mem_self : forall l, forallb (fun m => str_mem m l) l = true.
Proof. intro l. apply forallb_forall. intros m H. apply str_mem_In. exact H. Qed.

Lemma append_inj_l : forall p a b : string, (p ++ a)%string = (p ++ b)%string -> a = b.
Proof. induction p; simpl; intros a0 b H; [exact H|]. inversion H. auto. Qed.

Lemma op_append_valid : forall h sid name sp mname lname mt,
  lookup (data_key name) (h_store h) = None -> lookup (man_key mname) (h_store h) = None -> lookup (man_key lname) (h_store h) = None ->
  mname <> lname ->
  match op_append h sid name sp mname lname mt with
  | HCommit _ nd nm kept ln lmt _ => valid_commit h nd nm kept ln lmt = true
  | _ => False
  end.
Proof.
  intros h sid name sp mname lname mt F1 F2 F3 NE. unfold op_append, valid_commit. cbv zeta.
  unfold new_objects. cbn [map app fst snd].
  rewrite !andb_true_iff. repeat split.
  - cbn [nodupb]. rewrite !andb_true_iff. repeat split; try reflexivity.
    apply negb_true_iff. apply str_mem_false. intros [E|[]]. apply append_inj_l in E. congruence.
  - cbn [forallb]. rewrite (proj2 (has_key_false _ _) F1), (proj2 (has_key_false _ _) F2), (proj2 (has_key_false _ _) F3). reflexivity.
  - cbn [forallb fst snd]. rewrite resolve_spell. rewrite !andb_true_iff. repeat split; try reflexivity.
    + apply (accepts_data_key literal_normpath _ name); [apply resolve_spell|reflexivity].
    + apply orb_true_iff. right. apply str_mem_In. left. reflexivity.
  - apply forallb_str_mem_self.
Qed.

(* ------------------------------------------------------------------ a path that is not literally the key of an existing file is
   never committed: an alias spelling ("data//f", "data/./f", "data/x/../f" name the file data/f only to a filesystem) makes
   the commit step a no-op -- independently of anything else about the table (there is no schema in this model at all) *)
Lemma commit_alias_rejected : forall h sid newdata newmans kept lname lmt expire mn es mt e,
  In (mn, es, mt) newmans -> In e es ->
  has_key (resolve e) (h_store h) = false -> str_mem (resolve e) (map (fun q => data_key (fst q)) newdata) = false ->
  hstep h (HCommit sid newdata newmans kept lname lmt expire) = h.
Proof.
  intros h sid newdata newmans kept lname lmt expire mn es mt e Hm He K1 K2. cbn [hstep].
  destruct (valid_commit h newdata newmans kept lname lmt) eqn:V; [|reflexivity]. exfalso.
  unfold valid_commit in V. cbv zeta in V. apply andb_true_iff in V. destruct V as [V _]. apply andb_true_iff in V. destruct V as [_ V3].
  rewrite forallb_forall in V3. specialize (V3 _ Hm). cbn [fst snd] in V3. rewrite forallb_forall in V3. specialize (V3 e He).
  apply andb_true_iff in V3. destruct V3 as [_ V3]. rewrite K1, K2 in V3. discriminate.
Qed.
