(* Proofs/GCRaceDropProofs.v -- a transaction that drops the marker of a file it still publishes loses the file. *)
From Coq Require Import ZArith List Bool Arith.
Require Import DS.Model.GCRaceBase DS.Gen.GenGCRace DS.Model.GCRace DS.Model.GCRaceDrop.
Import ListNotations.
Open Scope Z_scope.

Lemma dropped_marker_loses_file :
  exists evs w, grun_strict_dropping (ginit []) evs = Some w
    /\ g_swept w 0%nat = false /\ g_ref w 0%nat = true /\ g_present w 0%nat = false /\ g_deleted w = [0%nat]
    /\ g_now w - g_start w < 3600000.
Proof.
  exists dropping_counterexample. eexists. split; [vm_compute; reflexivity|]. vm_compute. repeat split; reflexivity.
Qed.

(* the same events on the machine of the code as it is: the marker stays (no drop), the deletion is refused *)
Lemma kept_marker_keeps_file :
  let evs := [TStage 0%nat (-36000000); Tick 1; TAdoptMark 0%nat; TAdopt 0%nat; Tick 1;
              GAnnounce; Tick 1; GMarks 86400000; Tick 1; GMeta; Tick 1; GList 3600000] in
  let w := grun (ginit []) evs in
  grun_strict (ginit []) evs 0 = inl w /\ gstep w (GDel 0%nat) = None /\ g_mtime w 0%nat < g_cutoff w.
Proof. vm_compute. repeat split; reflexivity. Qed.

(* outside the dropped step the two machines are the same machine *)
Lemma gstep_dropping_agrees : forall w e, (forall t, e <> TAbandon t) -> gstep_dropping w e = gstep w e.
Proof. intros w e H. destruct e; try reflexivity. exfalso. apply (H t). reflexivity. Qed.
