(* Proofs/TxSettleProofs.v -- Model/TxSettle.v: a transaction that settles a failed commit-point write outside the lock
   tells its caller nothing the version chain contradicts, for every schedule, iff its policy never contradicts the
   published history; the policy of the regenerated handler table is such a policy; "is the current version ours?" is not. *)
From Coq Require Import ZArith List Bool Arith Lia.
Require Import DS.Model.CommitBase DS.Gen.GenCommit DS.Model.Commit DS.Model.FlipFault DS.Model.TxSettle.
Require Import DS.Proofs.CommitProofs DS.Proofs.FlipFaultProofs.
Import ListNotations.

(* ------------------------------------------------------------------ finished committers stay finished *)
Lemma step_pdone_stable c w e w' a o : step c w e = Some w' -> a_pc (w_actors w a) = PDone o -> a_pc (w_actors w' a) = PDone o.
Proof.
  intros St PC. destruct (Nat.eq_dec a (e_actor e)) as [->|NE].
  - eapply step_done_stable; eauto.
  - destruct (step_cases _ _ _ _ St) as [Oth _]. cbv zeta in Oth. rewrite (Oth a NE). exact PC.
Qed.

Lemma xstep_pdone_stable c atomic X x X' a o : cas c = true -> XK X -> xstep_p true c atomic X x = Some X' ->
  a_pc (w_actors (xw X) a) = PDone o -> a_pc (w_actors (xw X') a) = PDone o.
Proof.
  intros CAS K H PC. destruct (xstep_world _ _ _ _ _ CAS K H) as [E|[e St]].
  - rewrite E. exact PC.
  - eapply step_pdone_stable; eauto.
Qed.

Lemma memb_In a l : memb a l = true <-> In a l.
Proof.
  unfold memb. rewrite existsb_exists. split.
  - intros [x [I E]]. apply Nat.eqb_eq in E. subst x. exact I.
  - intro I. exists a. split; [exact I | apply Nat.eqb_refl].
Qed.

Lemma memb_false a l : memb a l = false <-> ~ In a l.
Proof.
  split.
  - intros E I. apply memb_In in I. rewrite I in E. discriminate.
  - intro N. destruct (memb a l) eqn:E; [|reflexivity]. exfalso. apply N. apply memb_In. exact E.
Qed.

Lemma set_rep_same a r f : set_rep a r f a = Some r.
Proof. unfold set_rep. rewrite Nat.eqb_refl. reflexivity. Qed.
Lemma set_rep_other a b r f : b <> a -> set_rep a r f b = f b.
Proof. intro NE. unfold set_rep. destruct (Nat.eqb b a) eqn:E; [apply Nat.eqb_eq in E; contradiction | reflexivity]. Qed.

(* ------------------------------------------------------------------ the invariant *)
Record TI (c : cfg) (T : tworld) : Prop := {
  TI_x : XAll c (t_x T);
  TI_failed : forall a, t_rep T a = Some RepFailed -> a_pc (w_actors (xw (t_x T)) a) = PDone Aborted;
  TI_success : forall a, t_rep T a = Some RepSuccess -> a_pc (w_actors (xw (t_x T)) a) = PDone AbortedPost;
  TI_deleted : forall a, In a (t_deleted T) -> a_pc (w_actors (xw (t_x T)) a) = PDone Aborted }.

Lemma hist_flipped c X a : XAll c X -> (In a (map snd (w_hist (xw X))) <-> flipped (a_pc (w_actors (xw X) a)) = true).
Proof. intros [_ _ I _ _]. symmetry. apply (AI_flip _ _ _ _ _ _ (I_actor c (xw X) I a)). Qed.

(* the exception has left commit(): the committer is finished, and its commit is in the chain exactly when the store had
   applied the write *)
Lemma settled_pc c X a : XAll c X -> In a (x_failed X) -> x_err X a = None ->
  (in_history (xw X) a = false /\ a_pc (w_actors (xw X) a) = PDone Aborted)
  \/ (in_history (xw X) a = true /\ a_pc (w_actors (xw X) a) = PDone AbortedPost).
Proof.
  intros A F E. pose proof (hist_flipped c X a A) as HF. destruct A as [_ J _ _ _].
  destruct (J a) as [_ [_ J3]]. destruct (J3 E F) as [P|P]; [left|right]; (split; [|exact P]).
  - apply memb_false. intro I. apply HF in I. rewrite P in I. discriminate.
  - apply memb_In. apply HF. rewrite P. reflexivity.
Qed.

Lemma tstep_TI pol c atomic T t T' : cas c = true -> sound_policy pol -> TI c T -> tstep pol c atomic T t = Some T' -> TI c T'.
Proof.
  intros CAS SP [A Fl Su De] H. destruct t as [x|a].
  - simpl in H. destruct (xstep_p true c atomic (t_x T) x) as [X'|] eqn:St; [|discriminate]. inversion H; subst T'; clear H.
    assert (K : XK (t_x T)) by apply A.
    constructor; simpl.
    + eapply xstep_all; eauto.
    + intros a R. eapply xstep_pdone_stable; eauto.
    + intros a R. eapply xstep_pdone_stable; eauto.
    + intros a R. eapply xstep_pdone_stable; eauto.
  - unfold tstep in H. cbv zeta in H.
    destruct (memb a (x_failed (t_x T))) eqn:MF; [|discriminate].
    destruct (x_err (t_x T) a) eqn:EE; [discriminate|].
    destruct (t_rep T a) eqn:TR; [discriminate|]. simpl in H.
    apply memb_In in MF. pose proof (settled_pc c (t_x T) a A MF EE) as SPC.
    destruct (SP (names_ours (xw (t_x T)) (w_actors (xw (t_x T)) a)) (in_history (xw (t_x T)) a)) as [SL SN].
    destruct (pol (names_ours (xw (t_x T)) (w_actors (xw (t_x T)) a)) (in_history (xw (t_x T)) a)) eqn:V;
      inversion H; subst T'; clear H; constructor; simpl; auto.
    + intros b R. destruct (Nat.eq_dec b a) as [->|NE]; [rewrite set_rep_same in R; discriminate | rewrite set_rep_other in R by exact NE; auto].
    + intros b R. destruct (Nat.eq_dec b a) as [->|NE]; [|rewrite set_rep_other in R by exact NE; auto].
      specialize (SL eq_refl). destruct SPC as [[E _]|[_ P]]; [rewrite E in SL; discriminate | exact P].
    + intros b R. destruct (Nat.eq_dec b a) as [->|NE]; [|rewrite set_rep_other in R by exact NE; auto].
      specialize (SN eq_refl). destruct SPC as [[_ P]|[E _]]; [exact P | rewrite E in SN; discriminate].
    + intros b R. destruct (Nat.eq_dec b a) as [->|NE]; [rewrite set_rep_same in R; discriminate | rewrite set_rep_other in R by exact NE; auto].
    + intros b [<-|I]; [|auto].
      specialize (SN eq_refl). destruct SPC as [[_ P]|[E _]]; [exact P | rewrite E in SN; discriminate].
    + intros b R. destruct (Nat.eq_dec b a) as [->|NE]; [rewrite set_rep_same in R; discriminate | rewrite set_rep_other in R by exact NE; auto].
    + intros b R. destruct (Nat.eq_dec b a) as [->|NE]; [rewrite set_rep_same in R; discriminate | rewrite set_rep_other in R by exact NE; auto].
Qed.

Lemma trun_cons pol c atomic T t ts : trun pol c atomic T (t :: ts) = trun pol c atomic (tstep_skip pol c atomic T t) ts.
Proof. reflexivity. Qed.

Lemma trun_TI pol c atomic T ts : cas c = true -> sound_policy pol -> TI c T -> TI c (trun pol c atomic T ts).
Proof.
  intros CAS SP. revert T. induction ts as [|t ts IH]; intros T I; [exact I|].
  rewrite trun_cons. unfold tstep_skip. destruct (tstep pol c atomic T t) as [T'|] eqn:St; [|apply IH; exact I].
  apply IH. eapply tstep_TI; eauto.
Qed.

Lemma tinit_TI c m0 kind mr : TI c (tinit (init_world m0 kind mr)).
Proof. constructor; simpl; try (intros; discriminate); [apply xinit_all | intros a []]. Qed.

Lemma TI_consistent c T : TI c T -> settle_consistent T.
Proof.
  intros [A Fl Su De] a. cbv zeta. pose proof (hist_flipped c (t_x T) a A) as HF. repeat split.
  - intros R I. apply HF in I. rewrite (Fl a R) in I. discriminate.
  - intro R. apply HF. rewrite (Su a R). reflexivity.
  - intros D I. apply HF in I. rewrite (De a D) in I. discriminate.
Qed.

(* ------------------------------------------------------------------ the statements of Props/C01.v *)
Lemma settle_sound pol c atomic m0 kind mr ts : cas c = true -> sound_policy pol ->
  settle_consistent (trun pol c atomic (tinit (init_world m0 kind mr)) ts).
Proof. intros CAS SP. eapply TI_consistent. apply trun_TI; [exact CAS | exact SP | apply tinit_TI]. Qed.

(* the regenerated handler for a commit-point write that failed on conditional-write storage: keeps the files, answers
   "unknown" -- it never contradicts the history because it never asserts anything *)
Lemma gen_policy_cas_unknown atomic last tip inh : gen_policy true atomic last tip inh = VUnknown.
Proof. destruct atomic, last; reflexivity. Qed.

Lemma gen_policy_sound atomic last : sound_policy (gen_policy true atomic last).
Proof. intros tip inh. rewrite gen_policy_cas_unknown. split; discriminate. Qed.

Lemma gen_trun_deletes_nothing c atomic last ts : forall T0, t_deleted T0 = [] ->
  t_deleted (trun (gen_policy true atomic last) c atomic T0 ts) = [].
Proof.
  induction ts as [|t ts IH]; intros T0 D; [exact D|].
  rewrite trun_cons. apply IH. unfold tstep_skip. destruct (tstep _ c atomic T0 t) as [T'|] eqn:St; [|exact D].
  destruct t as [x|a]; simpl in St.
  - destruct (xstep_p true c atomic (t_x T0) x); [|discriminate]. inversion St; subst T'. exact D.
  - destruct (memb a (x_failed (t_x T0)) && unset (x_err (t_x T0) a) && unset (t_rep T0 a)); [|discriminate].
    rewrite gen_policy_cas_unknown in St. inversion St; subst T'. exact D.
Qed.

Lemma regenerated_settle_sound c atomic last m0 kind mr ts : cas c = true ->
  let T := trun (gen_policy (cas c) atomic last) c atomic (tinit (init_world m0 kind mr)) ts in
  settle_consistent T /\ t_deleted T = [].
Proof.
  intros CAS T. subst T. rewrite CAS. split; [apply settle_sound; [exact CAS | apply gen_policy_sound]|].
  apply gen_trun_deletes_nothing. reflexivity.
Qed.

(* ------------------------------------------------------------------ "is the current version ours?" is not a settle policy *)
(* committer 0's conditional write is applied, the response is lost; its exception leaves commit() (lock released); committer 1
   reads the version committer 0 published, commits on top of it; only now committer 0's transaction reads the pointer back:
   the tip is committer 1's.  It concludes "did not take effect", deletes its data files and reports a definite failure --
   while its commit is in the chain every later version was built on. *)
Definition tip_witness : list tevent :=
  [ TX (xev 0 (EBegin 0)); TX (xev 0 (ELockTry true)); TX (xev 0 (EValidate 0 true)); TX (xev 0 (EMetaW 100)); TX (xev 0 (EFence true));
    TX (XFlipErr 0 true); TX (XUnwind 0);
    TX (xev 1 (EBegin 1)); TX (xev 1 (ELockTry true)); TX (xev 1 (EValidate 1 true)); TX (xev 1 (EMetaW 101)); TX (xev 1 (EFence true));
    TX (xev 1 (EFlip true)); TX (xev 1 ERelease);
    TSettle 0 ]%nat.
Definition tip_cfg := {| cas := true; lockkind := Lease |}.
Definition tip_m0 := {| m_ops := []; m_cur := 1; m_lu := 100%Z |}.
Definition tip_world := trun tip_policy tip_cfg false (tinit (init_world tip_m0 (fun _ => KFresh) (fun _ => 50%nat))) tip_witness.

Lemma tip_witness_accepted :
  match trun_strict tip_policy tip_cfg false (tinit (init_world tip_m0 (fun _ => KFresh) (fun _ => 50%nat))) tip_witness 0 with
  | inl T => t_rep T 0%nat = Some RepFailed /\ t_deleted T = [0%nat] /\ map snd (w_hist (xw (t_x T))) = [0%nat; 1%nat]
             /\ a_pc (w_actors (xw (t_x T)) 1%nat) = PDone Success
  | inr _ => False
  end.
Proof. vm_compute. repeat split; reflexivity. Qed.

Lemma tip_policy_refuted :
  ~ (forall c atomic m0 kind mr ts, cas c = true -> settle_consistent (trun tip_policy c atomic (tinit (init_world m0 kind mr)) ts)).
Proof.
  intro F. specialize (F tip_cfg false tip_m0 (fun _ => KFresh) (fun _ => 50%nat) tip_witness eq_refl 0%nat).
  cbv zeta in F. destruct F as [F _]. apply F; vm_compute; auto.
Qed.

(* without the interleaved commit the same policy answers correctly: the defect needs the second writer *)
Lemma tip_policy_alone_lands :
  match trun_strict tip_policy tip_cfg false (tinit (init_world tip_m0 (fun _ => KFresh) (fun _ => 50%nat)))
          (firstn 7 tip_witness ++ [TSettle 0%nat]) 0 with
  | inl T => t_rep T 0%nat = Some RepSuccess /\ t_deleted T = []
  | inr _ => False
  end.
Proof. vm_compute. split; reflexivity. Qed.

(* non-vacuity of the positive statement: under the regenerated policy the same schedule is accepted, the settle step runs, the
   caller is told "ambiguous", nothing is deleted, and the commit IS in the chain *)
Lemma gen_witness_accepted :
  match trun_strict (gen_policy true false false) tip_cfg false (tinit (init_world tip_m0 (fun _ => KFresh) (fun _ => 50%nat))) tip_witness 0 with
  | inl T => t_rep T 0%nat = Some RepAmbiguous /\ t_deleted T = [] /\ map snd (w_hist (xw (t_x T))) = [0%nat; 1%nat]
  | inr _ => False
  end.
Proof. vm_compute. repeat split; reflexivity. Qed.
