(* Proofs/S3KeyProofs.v -- the object-store key mapping keeps every key under the table prefix (C17).
   Stated over Gen/GenS3.v, which translator/gen_s3.py regenerates from S3StorageBackend._get_s3_key and
   list_files on every run.  S3 keys are opaque strings: no segment of the path ('..', '.', '') is
   interpreted, the bytes of the path after its leading slashes are appended verbatim. *)
From Coq Require Import List Bool Ascii String.
Require Import DS.Model.Str DS.Gen.GenS3 DS.Proofs.StrProofs.
Import ListNotations.

Lemma s3_key_verbatim : forall prefix path, nonempty prefix = true ->
  gen_get_s3_key prefix path = (prefix ++ lit "/") ++ lstrip_slash path.
Proof. intros prefix path H. unfold gen_get_s3_key. rewrite H. rewrite app_assoc. reflexivity. Qed.

Lemma s3_key_no_prefix : forall path, gen_get_s3_key [] path = lstrip_slash path.
Proof. reflexivity. Qed.

Lemma s3_key_under_prefix : forall prefix path, nonempty prefix = true ->
  starts_with (gen_get_s3_key prefix path) (prefix ++ lit "/") = true.
Proof. intros prefix path H. rewrite (s3_key_verbatim prefix path H). apply starts_with_app. Qed.

Lemma starts_with_app_l : forall a b p, starts_with a p = true -> starts_with (a ++ b) p = true.
Proof.
  intros a b p H. apply starts_with_spec in H. destruct H as [t ->]. rewrite <- app_assoc. apply starts_with_app.
Qed.

Lemma s3_list_prefix_under_prefix : forall prefix path, nonempty prefix = true ->
  starts_with (gen_list_prefix prefix path) (prefix ++ lit "/") = true.
Proof.
  intros prefix path H. unfold gen_list_prefix.
  destruct (nonempty (gen_get_s3_key prefix path) && negb (ends_with (gen_get_s3_key prefix path) (lit "/"))).
  - apply starts_with_app_l. apply s3_key_under_prefix. exact H.
  - apply s3_key_under_prefix. exact H.
Qed.
