(* Proofs/C01Statements.v -- the lemmas Props/C01.v closes its theorems with (`exact <lemma>`), assembled from
   Proofs/CommitProofs.v, CommitGenProofs.v, CommitMetaProofs.v, CommitRetryProofs.v.  (The statements over the failing-write machine -- refused-although-applied
   writes, the settle step -- and the lock layer without the fork hypothesis are in Proofs/C01ResentProofs.v.) *)
From Coq Require Import ZArith List Bool Arith Lia Sorted.
Require Import DS.Model.CommitBase DS.Gen.GenCommit DS.Model.Commit DS.Proofs.CommitGenProofs DS.Proofs.CommitProofs.
Require Import DS.Model.CommitMeta DS.Proofs.CommitMetaProofs DS.Proofs.CommitRetryProofs.
Require DS.Model.Meta DS.Model.MetaSpec.
Import ListNotations.
Open Scope Z_scope.

Lemma c01_serializable : forall c m0 kind mr evs, sound c ->
  let w := run c (init_world m0 kind mr) evs in
  m_ops (file w (w_ptr w)) = m_ops m0 ++ map snd (w_hist w).
Proof. intros. apply reach_serializable. assumption. Qed.

Lemma c01_serializable_tables : forall c m0 kind mr evs (T0 : Meta.state) (op_of : aid -> Meta.op), sound c ->
  let w := run c (init_world m0 kind mr) evs in
  table_of T0 op_of (file w (w_ptr w)) = Meta.run (table_of T0 op_of m0) (flip_ops op_of w).
Proof. exact reach_serializable_tables. Qed.

Lemma c01_acked_exactly_once : forall c m0 kind mr evs, sound c ->
  let w := run c (init_world m0 kind mr) evs in
  NoDup (map snd (w_hist w))
  /\ forall a, a_pc (w_actors w a) = PDone Success -> In a (map snd (w_hist w)).
Proof.
  intros c m0 kind mr evs S w. split; [apply reach_once; assumption|].
  intros a H. apply (reach_acked c m0 kind mr evs S a). fold w. rewrite H. reflexivity.
Qed.

Lemma c01_raised_not_reflected : forall c m0 kind mr evs, sound c ->
  let w := run c (init_world m0 kind mr) evs in
  forall a, (a_pc (w_actors w a) = PDone Conflict \/ a_pc (w_actors w a) = PDone Aborted -> ~ In a (map snd (w_hist w)))
         /\ (In a (map snd (w_hist w)) ->
             a_pc (w_actors w a) = PFlipped \/ a_pc (w_actors w a) = PDone Success \/ a_pc (w_actors w a) = PDone AbortedPost).
Proof.
  intros c m0 kind mr evs S w a. pose proof (reach_acked c m0 kind mr evs S a) as F. fold w in F. split.
  - intros [H|H] In; apply F in In; rewrite H in In; discriminate.
  - intro In. apply F in In. destruct (a_pc (w_actors w a)) as [| | | | | | | |[]]; simpl in In; try discriminate; auto.
Qed.

Lemma c01_version_chain_linear : forall c m0 kind mr evs, sound c ->
  let w := run c (init_world m0 kind mr) evs in
  chain_ok (w_files w) 0%nat (w_hist w) /\ w_ptr w = lastv 0%nat (w_hist w).
Proof.
  intros c m0 kind mr evs S w. destruct (reach_inv c m0 kind mr evs S) as [I _]. split; apply I.
Qed.

Lemma c01_snapshot_chain : forall c m0 kind mr evs (t0 f0 : Z) (ops0 : list Meta.op) (op_of : aid -> Meta.op),
  sound c -> m_ops m0 = [] ->
  (forall l : list aid, NoDup l -> MetaSpec.fresh_ops f0 (ops0 ++ map op_of l)) ->
  let w := run c (init_world m0 kind mr) evs in
  let T := Meta.md (table_of (MetaSpec.replay t0 f0 ops0) op_of (file w (w_ptr w))) in
  let H := MetaSpec.hist_of t0 f0 (ops0 ++ flip_ops op_of w) in
  MetaSpec.WF H T
  /\ StronglySorted Z.lt (map Meta.seq (MetaSpec.retained_in_commit_order H T))
  /\ map snd (Meta.slog T) = map Meta.sid (MetaSpec.retained_in_commit_order H T)
  /\ (forall s, In s (Meta.snaps T) ->
        exists h, In h (MetaSpec.retained_in_commit_order H T) /\ Meta.sid h = Meta.sid s /\ Meta.seq h = Meta.seq s).
Proof. intros c m0 kind mr evs t0 f0 ops0 op_of S M0 F. exact (reach_snapshot_chain c m0 kind mr evs t0 f0 ops0 op_of S M0 F). Qed.

Lemma c01_skeleton_regenerated :
  model_path true = gen_commit_path_cas /\ model_path false = gen_commit_path_plain
  /\ (forall cc cl bc bl, gen_stamp_eqb cc cl bc bl = true <-> (cc = bc /\ cl = bl))
  /\ (forall now cl, cl < gen_new_lu now cl)
  /\ (forall c w b (now : Z), a_pc (w_actors w b) = PIdle -> (lockkind c = GrantAll \/ w_lock w = None) ->
       exists evs w',
         flat_map (actions_of (cas c)) (map e_kind evs) = (if cas c then gen_commit_path_cas else gen_commit_path_plain)
         /\ Forall (fun e => e_actor e = b) evs
         /\ run_strict c w ({| e_actor := b; e_kind := EBegin (w_ptr w) |} :: evs) 0 = inl w'
         /\ a_pc (w_actors w' b) = PDone Success /\ w_ptr w' = length (w_files w)).
Proof.
  split; [exact model_path_cas_regenerated|]. split; [exact model_path_plain_regenerated|].
  split; [exact gen_stamp_eqb_spec|]. split; [exact gen_new_lu_gt|]. exact regenerated_skeleton_runs.
Qed.

(* the retry budget: the handler table, its use by `step`, and what it implies for every run in which the committers
   start with the REGENERATED budget *)
Lemma c01_conflict_retried :
  gen_tx_on XConflict false = TxRetry /\ gen_tx_on XConflict true = TxRollbackDelete /\ (0 < gen_max_retries)%nat
  /\ (forall e last, gen_tx_on e last <> TxPropagate)
  /\ (forall c w e w', e_kind e = ERelease -> a_pc (w_actors w (e_actor e)) = PConflict -> step c w e = Some w' ->
        let s := w_actors w (e_actor e) in
        match gen_tx_on XConflict (negb (Nat.ltb (S (a_attempt s)) (a_maxr s))) with
        | TxRetry => a_pc (w_actors w' (e_actor e)) = PIdle /\ a_attempt (w_actors w' (e_actor e)) = S (a_attempt s)
        | TxRollbackDelete => a_pc (w_actors w' (e_actor e)) = PDone Conflict
        | _ => False
        end)
  /\ (forall c m0 kind evs a,
        let s := w_actors (run c (init_world m0 kind (fun _ => gen_max_retries)) evs) a in
        (a_attempt s < gen_max_retries)%nat /\ (a_pc s = PDone Conflict -> S (a_attempt s) = gen_max_retries)).
Proof.
  destruct conflict_retries as [A [B C]]. split; [exact A|]. split; [exact B|]. split; [exact C|].
  split; [exact every_class_finishes|]. split; [exact release_after_conflict_follows_table|].
  intros c m0 kind evs a. exact (conflict_reported_when_exhausted c m0 kind (fun _ => gen_max_retries) evs a C).
Qed.

