(* Proofs/MetaGenProofs.v -- the hand-written metadata mutators of Model/Meta.v (which carry the C15 / C09 proofs)
   are EQUAL, for all inputs, to the definitions the translator regenerates from the source on every run
   (Gen/GenMeta.v: Transaction._make_expire_mutator, SnapshotManager._apply_retention, _most_recent_snapshot_id,
   get_snapshot_by_timestamp, MetadataManager._append_metadata_log). *)
From Coq Require Import ZArith List Bool Arith Lia.
Require Import DS.Model.MetaBase DS.Model.Meta DS.Model.MetaPy DS.Gen.GenMeta.
Import ListNotations.
Open Scope Z_scope.

Lemma filter_ext_all {A} (f g : A -> bool) l : (forall x, f x = g x) -> filter f l = filter g l.
Proof. intro H. induction l as [|x l IH]; simpl; [reflexivity|]. rewrite H, IH. reflexivity. Qed.

Lemma with_snaps_same m : with_snaps m (cur m) (snaps m) (slog m) = m.
Proof. destruct m; reflexivity. Qed.

Lemma neg_slice_pos {A} n (xs : list A) : 1 <= n -> py_neg_slice n xs = lastn (Z.to_nat n) xs.
Proof. intro H. unfold py_neg_slice. destruct (n <=? 0) eqn:E; [apply Z.leb_le in E; lia | reflexivity]. Qed.

Lemma existsb_find {A} (f : A -> bool) l : existsb f l = match find f l with Some _ => true | None => false end.
Proof. induction l as [|x l IH]; simpl; [reflexivity|]. destruct (f x); [reflexivity | exact IH]. Qed.

(* ---- expire *)
Lemma gen_expire_agrees cutoff m : gen_expire cutoff m = expire cutoff m.
Proof.
  unfold gen_expire, expire. cbv zeta.
  rewrite (filter_ext_all (fun s => (ts s >=? cutoff) || opt_eqb (Some (sid s)) (cur m))
                          (fun s => (cutoff <=? ts s) || opt_eqb (Some (sid s)) (cur m))).
  - reflexivity.
  - intro s. rewrite Z.geb_leb. reflexivity.
Qed.

(* ---- _apply_retention *)
Lemma gen_apply_retention_agrees m : gen_apply_retention m = apply_retention m.
Proof.
  unfold gen_apply_retention, apply_retention. destruct (retention m) as [|n|]; try reflexivity.
  destruct ((n <? 1) || (Z.of_nat (length (snaps m)) <=? n)) eqn:G; [apply with_snaps_same|].
  apply orb_false_iff in G. destruct G as [G1 _]. apply Z.ltb_ge in G1.
  cbv zeta. rewrite (neg_slice_pos n _ G1).
  destruct (cur m) as [c|]; cbn [py_is_not_none py_in_ints andb negb opt_eqb py_ids_add].
  Show.
  - change (fun s : snap => sid s) with sid. rewrite existsb_find.
    destruct (memZ c (map sid (lastn (Z.to_nat n) (sort_ts (snaps m))))); cbn [negb andb]; [reflexivity|].
    destruct (find (fun s : snap => sid s =? c) (snaps m)); reflexivity.
  - reflexivity.
Qed.

(* ---- _most_recent_snapshot_id, get_snapshot_by_timestamp, _append_metadata_log *)
Lemma gen_most_recent_agrees m : gen_most_recent m = PyOk (most_recent m).
Proof.
  unfold gen_most_recent, most_recent, sids. cbv zeta. change (fun s : snap => sid s) with sid.
  destruct (snaps m) as [|s0 rest]; [reflexivity|].
  cbn [map py_empty negb py_max_ts].
  destruct (find (fun entry : Z * Z => memZ (snd entry) (sid s0 :: map sid rest)) (rev (slog m))); reflexivity.
Qed.

Lemma last_of_prefix_scan t l acc : py_last_of_prefix (fun s => ts s <=? t) l acc = scan_upto t l acc.
Proof. revert acc. induction l as [|s l IH]; intro acc; simpl; [reflexivity|]. destruct (ts s <=? t); [apply IH | reflexivity]. Qed.

Lemma gen_by_timestamp_agrees m t : gen_by_timestamp (snaps m) t = by_timestamp m t.
Proof. unfold gen_by_timestamp, by_timestamp. cbv zeta. apply last_of_prefix_scan. Qed.

Lemma gen_append_mlog_agrees p log bu pf : gen_append_mlog p log bu pf = append_mlog p log bu pf.
Proof.
  unfold gen_append_mlog, append_mlog, py_nonempty_and_last, py_prop_int_or, mlog_max, gen_default_prevmax, DEFAULT_PREVMAX.
  destruct (match rev log with e :: _ => snd e =? pf | [] => false end); [reflexivity|]. cbv zeta.
  set (mx := match p with PInt n => n | _ => 100 end). set (log' := log ++ [(bu, pf)]).
  rewrite Z.geb_leb, Z.gtb_ltb.
  destruct (1 <=? mx) eqn:A; cbn [andb]; [|reflexivity].
  destruct (mx <? Z.of_nat (length log')); [|reflexivity].
  apply neg_slice_pos. apply Z.leb_le. exact A.
Qed.

(* ---- delete_snapshot *)
Lemma remove_first_index id l :
  remove_first id l = option_map (fun i => py_del_at i l) (py_index_where (fun s => sid s =? id) l).
Proof.
  induction l as [|s l IH]; [reflexivity|]. simpl. destruct (sid s =? id); [reflexivity|].
  rewrite IH. destruct (py_index_where (fun s0 => sid s0 =? id) l); reflexivity.
Qed.

Lemma gen_delete_snapshot_agrees m id : gen_delete_snapshot m id = PyOk (delete_snapshot m id).
Proof.
  unfold gen_delete_snapshot, delete_snapshot. cbv zeta. rewrite remove_first_index.
  destruct (py_index_where (fun snapshot => sid snapshot =? id) (snaps m)) as [i|]; [|reflexivity].
  cbn [option_map]. destruct (opt_eqb (cur m) (Some id)); [|reflexivity].
  rewrite gen_most_recent_agrees. reflexivity.
Qed.

(* ---- create_snapshot *)
Lemma forallb_negb_existsb {A} (f : A -> bool) l : forallb (fun x => negb (f x)) l = negb (existsb f l).
Proof. induction l as [|x l IH]; simpl; [reflexivity|]. rewrite IH. destruct (f x); reflexivity. Qed.

Lemma gen_create_snapshot_agrees m id t ml cut :
  gen_create_snapshot m id t ml (Some (match cur m with Some c => c | None => -1 end)) (last_seq m + 1) cut
  = match create_snapshot m id t ml cut with Some m' => PyOk m' | None => PyRaise end.
Proof.
  unfold gen_create_snapshot, create_snapshot, add_snapshot, new_snap. cbv zeta. cbn [sid ts seq].
  destruct cut as [c|].
  - rewrite gen_expire_agrees, forallb_negb_existsb, gen_apply_retention_agrees.
    match goal with |- context [existsb ?f ?l] => destruct (existsb f l) end; reflexivity.
  - rewrite gen_apply_retention_agrees. cbn [snaps]. rewrite existsb_app. cbn [existsb sid]. rewrite Z.eqb_refl, orb_true_r. reflexivity.
Qed.
