(* Proofs/RangeProofs.v -- the range reader (over the seek / readinto / readall kernels regenerated from the
   source, Gen/GenRange.v) is indistinguishable from a plain file and only ever requests bytes that exist. *)
From Coq Require Import List ZArith Bool Lia.
Require Import DS.Gen.GenRange DS.Model.Range.
Import ListNotations.
Open Scope Z_scope.

Section RangeProofs.
  Context {A : Type}.
  Notation robs := (@robs A).

  Lemma zlen_nonneg : forall (l : list A), 0 <= zlen l.
  Proof. intro l. unfold zlen. lia. Qed.

  Lemma zlen_zskipn : forall (l : list A) p, 0 <= p <= zlen l -> zlen (zskipn p l) = zlen l - p.
  Proof. intros l p H. unfold zlen, zskipn in *. rewrite skipn_length. lia. Qed.

  Lemma zskipn_past : forall (l : list A) p, zlen l <= p -> zskipn p l = [].
  Proof. intros l p H. unfold zlen, zskipn in *. apply skipn_all2. lia. Qed.

  Lemma zfirstn_clamp : forall (l : list A) n, 0 <= n -> zfirstn (Z.min n (zlen l)) l = zfirstn n l.
  Proof.
    intros l n H. unfold zfirstn, zlen. destruct (Z.le_ge_cases n (Z.of_nat (length l))) as [Hle|Hge].
    - rewrite Z.min_l by exact Hle. reflexivity.
    - rewrite Z.min_r by lia. rewrite Nat2Z.id, firstn_all. symmetry. apply firstn_all2. lia.
  Qed.

  Lemma zfirstn_all : forall (l : list A), zfirstn (zlen l) l = l.
  Proof. intro l. unfold zfirstn, zlen. rewrite Nat2Z.id. apply firstn_all. Qed.

  (* the regenerated seek kernel is the file's seek: same target arithmetic, negative target refused *)
  Lemma rf_seek_file : forall size pos off w, rf_seek size pos off w = do_seek (A := A) size pos off w.
  Proof.
    intros size pos off w. unfold rf_seek, do_seek, gen_rf_seek. destruct w; cbn [whence_code seek_target]; cbv zeta.
    - change (0 =? 0) with true. cbv iota. destruct (off <? 0); reflexivity.
    - change (1 =? 0) with false. change (1 =? 1) with true. cbv iota. destruct (pos + off <? 0); reflexivity.
    - change (2 =? 0) with false. change (2 =? 1) with false. change (2 =? 2) with true. cbv iota. destruct (size + off <? 0); reflexivity.
    - reflexivity.
  Qed.

  (* a whence that is none of SEEK_SET / SEEK_CUR / SEEK_END is refused, whatever its value *)
  Lemma seek_invalid_whence : forall pos size off c, c <> 0 -> c <> 1 -> c <> 2 -> gen_rf_seek pos size off c = None.
  Proof.
    intros pos size off c H0 H1 H2. unfold gen_rf_seek.
    apply Z.eqb_neq in H0. apply Z.eqb_neq in H1. apply Z.eqb_neq in H2. rewrite H0, H1, H2. reflexivity.
  Qed.

  (* one step: same position and observation as the file; requests (at most one) are in range *)
  Lemma rf_step_equiv : forall (content : list A) pos o, 0 <= pos -> wf_rop o ->
    let '(pos', ob, rs) := rf_step content pos o in
    file_step content pos o = (pos', ob) /\ 0 <= pos' /\ Forall (in_range content) rs /\ (length rs <= 1)%nat.
  Proof.
    intros content pos o Hpos Ho. pose proof (zlen_nonneg content) as Hsz. unfold rf_step.
    destruct o as [off w|n| |]; cbn [rf_step_on file_step wf_rop] in *.
    - (* Seek *)
      rewrite rf_seek_file. unfold do_seek. destruct (seek_target (zlen content) pos off w) as [new|]; [|repeat split; auto].
      destruct (new <? 0) eqn:E; [repeat split; auto|]. apply Z.ltb_ge in E. repeat split; auto.
    - (* ReadInto *)
      unfold gen_rf_readinto. cbv zeta. rewrite Z.geb_leb.
      destruct (n =? 0) eqn:En; cbn [orb rf_get].
      + apply Z.eqb_eq in En. subst n. unfold zfirstn. simpl. rewrite Z.add_0_r. repeat split; auto.
      + apply Z.eqb_neq in En. destruct (zlen content <=? pos) eqn:Ep; cbn [rf_get].
        * apply Z.leb_le in Ep. rewrite (zskipn_past content pos Ep). unfold zfirstn. rewrite firstn_nil. simpl. rewrite Z.add_0_r.
          repeat split; auto.
        * apply Z.leb_gt in Ep. unfold server_range.
          assert (pos <= Z.min (pos + n) (zlen content) - 1) as Hlast by lia.
          replace ((0 <=? pos) && (pos <=? Z.min (pos + n) (zlen content) - 1) && (pos <? zlen content)) with true
            by (symmetry; rewrite !andb_true_iff, !Z.leb_le, Z.ltb_lt; lia).
          replace (Z.min (pos + n) (zlen content) - 1 - pos + 1) with (Z.min n (zlen (zskipn pos content)))
            by (rewrite zlen_zskipn by lia; lia).
          rewrite zfirstn_clamp by lia. split; [reflexivity|]. split; [pose proof (zlen_nonneg (zfirstn n (zskipn pos content))); lia|].
          split; [|simpl; lia]. constructor; [|constructor]. unfold in_range. simpl. lia.
    - (* ReadAll *)
      unfold gen_rf_readall. rewrite Z.geb_leb.
      destruct (zlen content <=? pos) eqn:Ep; cbn [rf_get].
      + apply Z.leb_le in Ep. rewrite (zskipn_past content pos Ep). simpl. rewrite Z.add_0_r. repeat split; auto.
      + apply Z.leb_gt in Ep. unfold server_range.
        replace ((0 <=? pos) && (pos <=? zlen content - 1) && (pos <? zlen content)) with true
          by (symmetry; rewrite !andb_true_iff, !Z.leb_le, Z.ltb_lt; lia).
        replace (zlen content - 1 - pos + 1) with (zlen (zskipn pos content)) by (rewrite zlen_zskipn by lia; lia).
        rewrite zfirstn_all. split; [reflexivity|]. split; [pose proof (zlen_nonneg (zskipn pos content)); lia|].
        split; [|simpl; lia]. constructor; [|constructor]. unfold in_range. simpl. lia.
    - (* Tell *)
      repeat split; auto.
  Qed.

  Lemma run_rf_equiv : forall (content : list A) prog pos, 0 <= pos -> Forall wf_rop prog ->
    let '(obs, final, rs) := run_rf content pos prog in
    run_file content pos prog = (obs, final) /\ Forall (in_range content) rs /\ (length rs <= length prog)%nat.
  Proof.
    intros content prog. unfold run_rf. induction prog as [|o prog IH]; intros pos Hpos Hwf; cbn [run_rf_on run_file].
    - repeat split; auto.
    - inversion Hwf as [|? ? Ho Hwf']; subst.
      pose proof (rf_step_equiv content pos o Hpos Ho) as Hs. unfold rf_step in Hs.
      destruct (rf_step_on (zlen content) (server_range content) pos o) as [[pos' ob] rs]. destruct Hs as [Hf [Hpos' [Hr Hl]]]. rewrite Hf.
      specialize (IH pos' Hpos' Hwf'). destruct (run_rf_on (zlen content) (server_range content) pos' prog) as [[obs final] rs'].
      destruct IH as [Hf' [Hr' Hl']]. rewrite Hf'. split; [reflexivity|]. split; [apply Forall_app; split; assumption|].
      rewrite app_length. simpl. lia.
  Qed.

  (* the reader depends on its source of bytes only through the answers to the ranges it asks for *)
  Lemma run_rf_on_ext : forall size (f g : Z -> Z -> option (list A)), (forall a b, f a b = g a b) ->
    forall prog pos, run_rf_on size f pos prog = run_rf_on size g pos prog.
  Proof.
    intros size f g Hfg. induction prog as [|o prog IH]; intro pos; cbn [run_rf_on]; [reflexivity|].
    assert (rf_step_on size f pos o = rf_step_on size g pos o) as E.
    { destruct o; cbn [rf_step_on]; try reflexivity; unfold rf_get.
      - destruct (gen_rf_readinto pos size n) as [[a b]|]; [rewrite Hfg|]; reflexivity.
      - destruct (gen_rf_readall pos size) as [[a b]|]; [rewrite Hfg|]; reflexivity. }
    rewrite E. destruct (rf_step_on size g pos o) as [[pos' ob] rs]. rewrite IH. reflexivity.
  Qed.

  (* a seek whose target is negative is an error and leaves the position alone *)
  Lemma seek_negative_errs : forall (content : list A) pos off w new,
    seek_target (zlen content) pos off w = Some new -> new < 0 ->
    rf_step content pos (Seek off w) = (pos, RErr, []).
  Proof.
    intros content pos off w new H Hneg. unfold rf_step. cbn [rf_step_on]. rewrite rf_seek_file. unfold do_seek. rewrite H.
    apply Z.ltb_lt in Hneg. rewrite Hneg. reflexivity.
  Qed.

  Theorem range_equiv : forall (content : list A) (prog : list rop), Forall wf_rop prog ->
    let '(obs, final, rs) := run_rf content 0 prog in
    run_file content 0 prog = (obs, final) /\ Forall (in_range content) rs /\ (length rs <= length prog)%nat.
  Proof. intros content prog H. apply run_rf_equiv; [lia|exact H]. Qed.
End RangeProofs.
