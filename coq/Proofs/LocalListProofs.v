(* Proofs/LocalListProofs.v -- a failed listing of the local backend is not an empty one, and a failed marker listing aborts. *)
From Coq Require Import ZArith String List Bool.
Require Import DS.Model.PyStr DS.Gen.GenNorm DS.Model.GC DS.Gen.GenLocalList DS.Model.LocalList DS.Gen.GenGCMarker.
Import ListNotations.
Open Scope string_scope.
Open Scope Z_scope.

(* A listing that returns without raising although something could not be looked at comes ONLY from failures that mean
   "not there": every other failure of the operating system propagates. *)
Lemma local_listing_fails_closed : forall probe walk,
  local_list_outcome probe walk = LShort -> probe = Some true \/ (probe = None /\ walk = Some true).
Proof.
  intros [[|]|] [[|]|]; cbn; intro H; try discriminate H; auto.
Qed.

Lemma local_listing_other_failure_raises : forall walk,
  local_list_outcome (Some false) walk = LRaise /\ local_list_outcome None (Some false) = LRaise.
Proof. intros walk. split; reflexivity. Qed.

(* The collector: a marker listing that raises (any exception class) ends the loading of the in-flight protection with
   "aborted" -- for every oracle, whatever it does afterwards -- and nothing is deleted by it. *)
Lemma marker_listing_raise_aborts : forall tp timeout now (o : oracle) g f,
  o (g_calls g) = Some f -> f <> FBad ->
  gen_marker_listing_failure_aborts = true
  /\ fst (load_protection tp timeout now o g) = None
  /\ g_store (snd (load_protection tp timeout now o g)) = g_store g.
Proof.
  intros tp timeout now o g f HF HB.
  split; [reflexivity|].
  unfold load_protection, do_listdir, tick. rewrite HF.
  destruct f; try (exfalso; apply HB; reflexivity); cbn; split; reflexivity.
Qed.
