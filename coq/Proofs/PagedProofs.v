(* Proofs/PagedProofs.v -- a paginated listing retried as a whole returns exactly the fault-free listing. *)
From Coq Require Import List Bool Arith Lia.
Require Import DS.Model.Retry DS.Model.Paged.
Import ListNotations.

Section PagedProofs.
  Context {A : Type}.
  Notation plan := Paged.plan.

  Lemma attempt_spec : forall (pages : list (list A)) (pl : plan) acc r rest n,
    attempt pages pl acc = (r, rest, n) ->
    (forall f, In (Some f) rest -> In (Some f) pl)
    /\ ((r = inl (acc ++ concat pages) /\ n = length pages /\ nfaults rest <= nfaults pl)
        \/ (exists f, r = inr f /\ In (Some f) pl /\ S (nfaults rest) <= nfaults pl /\ 1 <= n <= length pages)).
  Proof.
    induction pages as [|p ps IH]; intros pl acc r rest n H; cbn [attempt] in H.
    - inversion H; subst. split; [auto|]. left. simpl. rewrite app_nil_r. auto.
    - destruct pl as [|[f|] pl'].
      + destruct (attempt ps [] (acc ++ p)) as [[r' rest'] n'] eqn:E. inversion H; subst.
        destruct (IH _ _ _ _ _ E) as [Hin Hc]. split; [exact Hin|].
        destruct Hc as [[Hr [Hn Hf]]|[f [Hr [Hf _]]]]; [|destruct Hf].
        left. subst. simpl. rewrite <- app_assoc. auto.
      + inversion H; subst. split; [intros g Hg; right; exact Hg|]. right. exists f.
        split; [reflexivity|]. split; [left; reflexivity|]. unfold nfaults. simpl. split; lia.
      + destruct (attempt ps pl' (acc ++ p)) as [[r' rest'] n'] eqn:E. inversion H; subst.
        destruct (IH _ _ _ _ _ E) as [Hin Hc]. split; [intros g Hg; right; apply Hin; exact Hg|].
        destruct Hc as [[Hr [Hn Hf]]|[f [Hr [Hf [Hc Hn]]]]].
        * left. subst. simpl. rewrite <- app_assoc. unfold nfaults in *. simpl. auto.
        * right. exists f. subst. split; [reflexivity|]. split; [right; exact Hf|]. unfold nfaults in *. simpl. lia.
  Qed.

  Lemma script_S : forall fuel (pages : list (list A)) (pl : plan),
    script (S fuel) pages pl = let '(r, rest, n) := attempt pages pl [] in (outcome_of r, n) :: script fuel pages rest.
  Proof. reflexivity. Qed.

  (* transient faults within the budget, on ANY requests of ANY attempts: the listing is exactly the
     fault-free one (no page lost, none duplicated) *)
  Lemma paged_masks_script : forall budget (pages : list (list A)) (pl : plan),
    all_transient pl -> nfaults pl <= budget ->
    exists n, retry budget (map fst (script (S budget) pages pl)) = (Returned (concat pages), n).
  Proof.
    induction budget as [|b IH]; intros pages pl Ht Hn; rewrite script_S.
    - destruct (attempt pages pl []) as [[r rest] n] eqn:E. destruct (attempt_spec _ _ _ _ _ _ E) as [_ [[Hr _]|[f [_ [_ [Hc _]]]]]]; [|lia].
      subst. simpl. eexists. reflexivity.
    - destruct (attempt pages pl []) as [[r rest] n] eqn:E. destruct (attempt_spec _ _ _ _ _ _ E) as [Hin [[Hr _]|[f [Hr [Hf [Hc _]]]]]].
      + subst. simpl. eexists. reflexivity.
      + subst. rewrite (Ht f Hf). cbn [map fst outcome_of retry].
        destruct (IH pages rest (fun g Hg => Ht g (Hin g Hg)) ltac:(lia)) as [m Hm]. rewrite Hm. eexists. reflexivity.
  Qed.

  Theorem paged_masks : forall budget (pages : list (list A)) (pl : plan),
    all_transient pl -> nfaults pl <= budget -> fst (paged_list budget pages pl) = Returned (concat pages).
  Proof.
    intros budget pages pl Ht Hn. unfold paged_list. destruct (paged_masks_script budget pages pl Ht Hn) as [n H].
    rewrite H. reflexivity.
  Qed.

  Lemma attempt_clean_prefix : forall i (pages : list (list A)) f rest acc, i < length pages ->
    attempt pages (repeat None i ++ Some f :: rest) acc = (inr f, rest, S i).
  Proof.
    induction i as [|i IH]; intros pages f rest acc H; destruct pages as [|p ps]; simpl in H; try lia; cbn [repeat app attempt].
    - reflexivity.
    - rewrite (IH ps f rest (acc ++ p)) by lia. reflexivity.
  Qed.

  (* a permanent error on the request for page i of the first attempt surfaces with that very request:
     i+1 requests in all, nothing retried, no partial listing returned *)
  Theorem paged_permanent : forall budget (pages : list (list A)) i rest, i < length pages ->
    paged_list budget pages (repeat None i ++ Some FPermanent :: rest) = (Raised FPermanent, S i).
  Proof.
    intros budget pages i rest H. unfold paged_list. rewrite script_S. rewrite (attempt_clean_prefix i pages FPermanent rest [] H).
    cbn [map fst outcome_of retry firstn snd fold_right]. rewrite Nat.add_0_r. reflexivity.
  Qed.
End PagedProofs.
