(* Proofs/FieldKeyProofs.v -- the key codec of the statistics maps (Model/FieldKey.v):
     int(str(z)) = z for every int z (the decimal rendering and Python's int() parser are inverse);
     hence the writer's / reader's dict comprehensions give back a map keyed by pairwise different INT ids
     unchanged -- same entries, same order, each under its own id;
     and NOT so for ids that are merely pairwise != : 1 and "1" are two keys before and one key after. *)
From Coq Require Import ZArith QArith List Bool Lia FinFun.
Require Import DS.Model.Value DS.Model.FieldKey.
Import ListNotations.
Open Scope Z_scope.

(* ---- digits ---- *)
Definition dstep (a c : Z) : Z := 10 * a + (c - 48).

Lemma is_digit_code d : 0 <= d < 10 -> is_digit (digit_code d) = true.
Proof. intro H. unfold is_digit, digit_code. apply andb_true_iff. split; apply Z.leb_le; lia. Qed.

Lemma dstep_code a d : dstep a (digit_code d) = 10 * a + d.
Proof. unfold dstep, digit_code. lia. Qed.

Lemma digits_acc_all acc l : Forall (fun c => is_digit c = true) l -> digits_acc acc false l = Some (fold_left dstep l acc).
Proof.
  intro F. revert acc. induction F as [|c l Hc F IH]; intro acc; cbn [digits_acc fold_left]; [reflexivity|].
  rewrite Hc. apply IH.
Qed.

Lemma digits_acc_start l : l <> [] -> Forall (fun c => is_digit c = true) l -> digits_acc 0 true l = Some (fold_left dstep l 0).
Proof.
  intros NE F. destruct l as [|c l]; [contradiction|]. inversion F as [|? ? Hc F']; subst.
  cbn [digits_acc fold_left]. rewrite Hc. apply digits_acc_all. exact F'.
Qed.

Lemma render_nonempty f n acc : acc <> [] -> render f n acc <> [].
Proof.
  revert n acc. induction f as [|f IH]; intros n acc NE; cbn [render]; [exact NE|].
  destruct (n <? 10); [discriminate|]. apply IH. discriminate.
Qed.

Lemma render_digits f n acc : 0 <= n -> Forall (fun c => is_digit c = true) acc ->
  Forall (fun c => is_digit c = true) (render f n acc).
Proof.
  revert n acc. induction f as [|f IH]; intros n acc N F; cbn [render]; [exact F|].
  destruct (Z.ltb_spec n 10) as [L|L].
  - constructor; [apply is_digit_code; lia | exact F].
  - apply IH; [apply Z.div_pos; lia|]. constructor; [|exact F].
    apply is_digit_code. apply Z.mod_pos_bound. lia.
Qed.

Lemma render_value f n acc : 0 <= n -> n < 2 ^ Z.of_nat f ->
  fold_left dstep (render f n acc) 0 = fold_left dstep acc n.
Proof.
  revert n acc. induction f as [|f IH]; intros n acc N B; cbn [render].
  - change (2 ^ Z.of_nat 0) with 1 in B. assert (n = 0) by lia. subst. reflexivity.
  - destruct (Z.ltb_spec n 10) as [L|L].
    + cbn [fold_left]. rewrite dstep_code. f_equal.
    + rewrite IH.
      * cbn [fold_left]. rewrite dstep_code. f_equal. symmetry. apply Z_div_mod_eq_full.
      * apply Z.div_pos; lia.
      * rewrite Nat2Z.inj_succ, Z.pow_succ_r in B by lia.
        apply Z.div_lt_upper_bound; [lia|]. lia.
Qed.

Lemma render_first_fuel n : 0 <= n -> n < 2 ^ Z.of_nat (S (Z.to_nat (Z.log2 n))).
Proof.
  intro N. rewrite Nat2Z.inj_succ, Z2Nat.id by apply Z.log2_nonneg.
  destruct (Z.eq_dec n 0) as [->|NZ]; [cbn; lia|].
  apply Z.log2_spec. lia.
Qed.

Lemma str_of_nonneg_spec n : 0 <= n ->
  str_of_nonneg n <> [] /\ Forall (fun c => is_digit c = true) (str_of_nonneg n) /\ fold_left dstep (str_of_nonneg n) 0 = n.
Proof.
  intro N. unfold str_of_nonneg. split; [|split].
  - cbn [render]. destruct (n <? 10); [discriminate|]. apply render_nonempty. discriminate.
  - apply render_digits; [exact N | constructor].
  - rewrite render_value; [reflexivity | exact N | apply render_first_fuel; exact N].
Qed.

Lemma parse_digits_str_of_nonneg n : 0 <= n -> digits_acc 0 true (str_of_nonneg n) = Some n.
Proof.
  intro N. destruct (str_of_nonneg_spec n N) as [NE [F V]]. rewrite (digits_acc_start _ NE F), V. reflexivity.
Qed.

(* ---- nothing to strip, every character modelled ---- *)
Lemma digit_not_space c : is_digit c = true -> is_space c = false.
Proof.
  unfold is_digit, is_space. intro H. apply andb_true_iff in H. destruct H as [A B]. apply Z.leb_le in A, B.
  repeat (apply orb_false_iff; split); try (apply andb_false_iff; (left; apply Z.leb_gt; lia) || (right; apply Z.leb_gt; lia));
    apply Z.eqb_neq; lia.
Qed.

Lemma digit_modelled c : is_digit c = true -> modelled_char c = true.
Proof.
  unfold is_digit, modelled_char. intro H. apply andb_true_iff in H. destruct H as [A B]. apply Z.leb_le in A, B.
  apply orb_true_iff. left. apply Z.ltb_lt. lia.
Qed.

Lemma lstrip_id s : (match s with c :: _ => is_space c = false | [] => True end) -> lstrip s = s.
Proof. destruct s as [|c r]; cbn [lstrip]; [reflexivity|]. intros ->. reflexivity. Qed.

Lemma rstrip_id s : Forall (fun c => is_space c = false) s -> rstrip s = s.
Proof.
  intro F. induction F as [|c r Hc F IH]; cbn [rstrip]; [reflexivity|].
  rewrite IH. destruct r; [rewrite Hc|]; reflexivity.
Qed.

Lemma strip_id s : Forall (fun c => is_space c = false) s -> strip s = s.
Proof.
  intro F. unfold strip. rewrite (rstrip_id s F). apply lstrip_id. destruct F; [exact I|assumption].
Qed.

Lemma str_of_Z_chars z : Forall (fun c => is_space c = false) (str_of_Z z) /\ forallb modelled_char (str_of_Z z) = true.
Proof.
  unfold str_of_Z. destruct (Z.ltb_spec z 0) as [L|L].
  - destruct (str_of_nonneg_spec (- z) ltac:(lia)) as [_ [F _]]. split.
    + constructor; [reflexivity|]. eapply Forall_impl; [|exact F]. apply digit_not_space.
    + cbn [forallb]. change (modelled_char 45) with true. cbn [andb]. apply forallb_forall. intros c I.
      apply digit_modelled. rewrite Forall_forall in F. exact (F c I).
  - destruct (str_of_nonneg_spec z L) as [_ [F _]]. split.
    + eapply Forall_impl; [|exact F]. apply digit_not_space.
    + apply forallb_forall. intros c I. apply digit_modelled. rewrite Forall_forall in F. exact (F c I).
Qed.

Lemma parse_signed_digits l : (match l with c :: _ => is_digit c = true | [] => False end) -> parse_signed l = digits_acc 0 true l.
Proof.
  destruct l as [|c r]; [intros []|]. intro D. unfold parse_signed.
  assert (c <> 45 /\ c <> 43) as [A B].
  { unfold is_digit in D. apply andb_true_iff in D. destruct D as [D1 D2]. apply Z.leb_le in D1, D2. lia. }
  destruct c as [|p|p]; try reflexivity.
  do 6 (destruct p as [p|p|]; try reflexivity); exfalso; lia.
Qed.

(* ---- int(str(z)) = z ---- *)
Theorem kdec_str_of_Z z : kdec (str_of_Z z) = IntOk z.
Proof.
  unfold kdec. destruct (str_of_Z_chars z) as [NS MC]. rewrite MC, (strip_id _ NS).
  unfold str_of_Z. destruct (Z.ltb_spec z 0) as [L|L].
  - cbn [parse_signed]. rewrite parse_digits_str_of_nonneg by lia. cbn [option_map]. f_equal. lia.
  - destruct (str_of_nonneg_spec z L) as [NE [F _]].
    rewrite parse_signed_digits.
    + rewrite parse_digits_str_of_nonneg by exact L. reflexivity.
    + destruct (str_of_nonneg z) as [|c r]; [contradiction|]. inversion F; assumption.
Qed.

Corollary key_codec_inverse z : kenc (VInt z) = Some (str_of_Z z) /\ kdec (str_of_Z z) = IntOk z.
Proof. split; [reflexivity | exact (kdec_str_of_Z z)]. Qed.

Corollary kdec_kenc_int z : option_map kdec (kenc (VInt z)) = Some (IntOk z).
Proof. cbn [kenc option_map]. rewrite kdec_str_of_Z. reflexivity. Qed.

Corollary str_of_Z_inj a b : str_of_Z a = str_of_Z b -> a = b.
Proof. intro E. pose proof (kdec_str_of_Z a) as A. rewrite E, kdec_str_of_Z in A. inversion A. reflexivity. Qed.

(* ---- dict comprehensions over pairwise different keys ---- *)
Lemma codes_eqb_spec a b : codes_eqb a b = true <-> a = b.
Proof.
  revert b. induction a as [|x a IH]; intros [|y b]; cbn [codes_eqb]; split; try discriminate; try reflexivity.
  - intro H. apply andb_true_iff in H. destruct H as [E H]. apply Z.eqb_eq in E. apply IH in H. subst. reflexivity.
  - intro E. inversion E; subst. rewrite Z.eqb_refl. apply IH. reflexivity.
Qed.

Section Dict.
  Variables (K V : Type) (eqb : K -> K -> bool).
  Hypothesis eqb_spec : forall a b, eqb a b = true <-> a = b.

  Lemma dset_fresh k v (d : list (K * V)) : ~ In k (map fst d) -> dset eqb k v d = d ++ [(k, v)].
  Proof.
    induction d as [|[k' v'] d IH]; cbn [dset map fst In app]; intro NI; [reflexivity|].
    destruct (eqb k k') eqn:E; [apply eqb_spec in E; subst; exfalso; apply NI; left; reflexivity|].
    rewrite IH; [reflexivity|]. intro I. apply NI. right. exact I.
  Qed.

  Lemma dict_of_nodup_from (items d : list (K * V)) : NoDup (map fst (d ++ items)) ->
    fold_left (fun d kv => dset eqb (fst kv) (snd kv) d) items d = d ++ items.
  Proof.
    revert d. induction items as [|[k v] items IH]; intros d ND; cbn [fold_left fst snd]; [rewrite app_nil_r; reflexivity|].
    rewrite dset_fresh.
    - rewrite IH; rewrite <- app_assoc; [reflexivity | exact ND].
    - rewrite map_app in ND. cbn [map fst] in ND. apply NoDup_remove_2 in ND. intro I. apply ND. apply in_or_app. left. exact I.
  Qed.

  Lemma dict_of_nodup (items : list (K * V)) : NoDup (map fst items) -> dict_of eqb items = items.
  Proof. intro ND. unfold dict_of. exact (dict_of_nodup_from items [] ND). Qed.
End Dict.

(* ---- the trip on int-keyed maps ---- *)
Definition as_py {A} (m : list (Z * A)) : list (value * A) := map (fun kv => (VInt (fst kv), snd kv)) m.

Lemma map_opt_int {A} (m : list (Z * A)) :
  map_opt (fun kv => option_map (fun s => (s, snd kv)) (kenc (fst kv))) (as_py m) = Some (map (fun kv => (str_of_Z (fst kv), snd kv)) m).
Proof. induction m as [|[k v] m IH]; cbn [as_py map map_opt kenc option_map fst snd]; [reflexivity|]. unfold as_py in IH. rewrite IH. reflexivity. Qed.

Lemma read_keys_int {A} (m : list (Z * A)) : read_keys (map (fun kv => (str_of_Z (fst kv), snd kv)) m) = TripOk m.
Proof. induction m as [|[k v] m IH]; cbn [map read_keys fst snd]; [reflexivity|]. rewrite kdec_str_of_Z, IH. reflexivity. Qed.

Theorem key_trip_int_ids {A} (m : list (Z * A)) : NoDup (map fst m) -> key_trip (as_py m) = TripOk m.
Proof.
  intro ND. unfold key_trip, key_write. rewrite map_opt_int. cbn [option_map].
  rewrite (dict_of_nodup _ _ codes_eqb codes_eqb_spec).
  - unfold key_read. rewrite read_keys_int. rewrite (dict_of_nodup _ _ Z.eqb Z.eqb_eq); [reflexivity | exact ND].
  - rewrite map_map. cbn [fst]. rewrite <- (map_map fst str_of_Z). apply Injective_map_NoDup; [|exact ND].
    intros a b. apply str_of_Z_inj.
Qed.

(* ---- Python == on int ids ---- *)
Lemma py_eqb_int a b : py_eqb (VInt a) (VInt b) = (a =? b).
Proof.
  unfold py_eqb, vcmp. cbn [num_of num_cmp ord_of is_eq]. unfold Qcompare, inject_Z. cbn [Qnum Qden].
  rewrite !Z.mul_1_r. destruct (Z.compare_spec a b) as [E|L|G]; cbn [ord_of is_eq]; symmetry;
    [apply Z.eqb_eq; exact E | apply Z.eqb_neq; lia | apply Z.eqb_neq; lia].
Qed.

Lemma ids_are_ints_shape ks : ids_are_ints ks -> ks = map VInt (int_ids ks).
Proof.
  intro F. induction F as [|k ks Hk F IH]; [reflexivity|]. destruct k; try discriminate Hk. cbn [int_ids map]. rewrite <- IH. reflexivity.
Qed.

Lemma py_set_mem_ints z zs : py_set_mem (VInt z) (map VInt zs) = false -> ~ In z zs.
Proof.
  induction zs as [|y zs IH]; cbn [py_set_mem existsb map In]; [intros _ []|].
  intro H. apply orb_false_iff in H. destruct H as [E H]. rewrite py_eqb_int in E. apply Z.eqb_neq in E.
  intros [->|I]; [apply E; reflexivity | exact (IH H I)].
Qed.

Lemma py_distinct_ints zs : py_distinct (map VInt zs) -> NoDup zs.
Proof.
  induction zs as [|z zs IH]; cbn [map py_distinct]; [constructor|].
  intros [M D]. constructor; [exact (py_set_mem_ints z zs M) | exact (IH D)].
Qed.

Lemma int_keyed_shape {A} (m : list (value * A)) : ids_are_ints (map fst m) -> m = as_py (int_keyed m) /\ map fst (int_keyed m) = int_ids (map fst m).
Proof.
  induction m as [|[k v] m IH]; cbn [map fst]; intro F; [split; reflexivity|].
  inversion F as [|? ? Hk F']; subst. destruct k; try discriminate Hk. destruct (IH F') as [E1 E2].
  cbn [int_keyed as_py map fst snd int_ids]. split; [f_equal; exact E1 | f_equal; exact E2].
Qed.

(* A statistics map keyed by pairwise different INT field ids comes back from the manifest unchanged: the same entries in the
   same order, each under its own id. *)
Theorem bound_keys_roundtrip {A} (m : list (value * A)) :
  ids_are_ints (map fst m) -> py_distinct (map fst m) ->
  key_trip m = TripOk (int_keyed m) /\ m = as_py (int_keyed m).
Proof.
  intros I D. destruct (int_keyed_shape m I) as [E1 E2]. split; [|exact E1].
  rewrite E1 at 1. apply key_trip_int_ids. rewrite E2. apply py_distinct_ints. rewrite <- ids_are_ints_shape; assumption.
Qed.

(* the planner's lookup on the map read back finds, under an int id, exactly the entry stored under it *)
Lemma py_get_int {A} (z : Z) (d : list (Z * A)) : py_get (VInt z) d =
  (fix look (l : list (Z * A)) := match l with [] => None | (k, v) :: r => if z =? k then Some v else look r end) d.
Proof. induction d as [|[k v] d IH]; cbn [py_get]; [reflexivity|]. rewrite py_eqb_int, IH. reflexivity. Qed.

(* the total form the manifest models use: int(str(z)) = z *)
Definition int_or_0 (s : list Z) : Z := match kdec s with IntOk z => z | _ => 0 end.
Lemma int_or_0_str_of_Z z : int_or_0 (str_of_Z z) = z.
Proof. unfold int_or_0. rewrite kdec_str_of_Z. reflexivity. Qed.
