(* Proofs/CommitProofs.v -- the commit machine keeps one linear chain of versions (C01, C08). *)
From Coq Require Import ZArith List Bool Arith Lia.
Require Import DS.Model.CommitBase DS.Gen.GenCommit DS.Model.Commit DS.Proofs.CommitGenProofs.
Import ListNotations.
Open Scope Z_scope.

(* ------------------------------------------------------------------ files and chains *)
Definition nthf (F : list meta) (v : vid) : meta := nth v F {| m_ops := []; m_cur := 0; m_lu := 0 |}.

Lemma file_nthf w v : file w v = nthf (w_files w) v.
Proof. reflexivity. Qed.

Lemma nthf_app F m v : (v < length F)%nat -> nthf (F ++ [m]) v = nthf F v.
Proof. intro H. unfold nthf. apply app_nth1. exact H. Qed.

Lemma nthf_new F m : nthf (F ++ [m]) (length F) = m.
Proof. unfold nthf. rewrite app_nth2 by lia. rewrite Nat.sub_diag. reflexivity. Qed.

(* hist is a chain starting at prev: each flip extends the ops of its predecessor by its actor and
   carries a strictly larger last_updated stamp *)
Fixpoint chain_ok (F : list meta) (prev : vid) (h : list (vid * aid)) : Prop :=
  match h with
  | [] => True
  | (v, a) :: t =>
    m_ops (nthf F v) = m_ops (nthf F prev) ++ [a] /\ m_lu (nthf F prev) < m_lu (nthf F v)
    /\ (v < length F)%nat /\ chain_ok F v t
  end.

Definition lastv (p : vid) (h : list (vid * aid)) : vid := last (map fst h) p.

Lemma lastv_snoc p h v a : lastv p (h ++ [(v, a)]) = v.
Proof. unfold lastv. rewrite map_app. simpl. apply last_last. Qed.

Lemma last_cons_irrel {A} (x : A) l d d' : last (x :: l) d = last (x :: l) d'.
Proof. revert x. induction l as [|y l IH]; intros x; simpl; auto. destruct l; auto. apply (IH y). Qed.

Lemma lastv_cons p v a t : lastv p ((v, a) :: t) = lastv v t.
Proof.
  unfold lastv. simpl. destruct (map fst t) as [|x l]; [reflexivity|].
  apply last_cons_irrel.
Qed.

Lemma chain_ok_snoc F p h v a :
  chain_ok F p h ->
  m_ops (nthf F v) = m_ops (nthf F (lastv p h)) ++ [a] -> m_lu (nthf F (lastv p h)) < m_lu (nthf F v) ->
  (v < length F)%nat -> chain_ok F p (h ++ [(v, a)]).
Proof.
  revert p. induction h as [|[u b] t IH]; intros p C O L V; simpl in *.
  - unfold lastv in *. simpl in *. auto.
  - destruct C as [C1 [C2 [C3 C4]]]. repeat split; auto. apply IH; auto; rewrite lastv_cons in *; auto.
Qed.

Lemma chain_ok_ext F m p h : (p < length F)%nat -> chain_ok F p h -> chain_ok (F ++ [m]) p h.
Proof.
  revert p. induction h as [|[u b] t IH]; intros p P C; simpl in *; auto.
  destruct C as [C1 [C2 [C3 C4]]]. rewrite !nthf_app by assumption.
  repeat split; auto. rewrite app_length. simpl. lia.
Qed.

Lemma chain_ops F p h : chain_ok F p h -> m_ops (nthf F (lastv p h)) = m_ops (nthf F p) ++ map snd h.
Proof.
  revert p. induction h as [|[u b] t IH]; intros p C; simpl in *.
  - unfold lastv. simpl. rewrite app_nil_r. reflexivity.
  - destruct C as [C1 [C2 [C3 C4]]]. rewrite lastv_cons, (IH u C4), C1, <- app_assoc. reflexivity.
Qed.

Lemma chain_lu_lt F p h : chain_ok F p h -> forall v, In v (map fst h) -> m_lu (nthf F p) < m_lu (nthf F v).
Proof.
  revert p. induction h as [|[u b] t IH]; intros p C v Hv; simpl in *; [contradiction|].
  destruct C as [C1 [C2 [C3 C4]]]. destruct Hv as [<-|Hv]; auto.
  specialize (IH u C4 v Hv). lia.
Qed.

Lemma chain_valid F p h : chain_ok F p h -> forall v, In v (map fst h) -> (v < length F)%nat.
Proof.
  revert p. induction h as [|[u b] t IH]; intros p C v Hv; simpl in *; [contradiction|].
  destruct C as [C1 [C2 [C3 C4]]]. destruct Hv as [<-|Hv]; eauto.
Qed.

(* the stamp's last_updated component identifies a committed version *)
Lemma chain_lu_inj F p h : chain_ok F p h ->
  forall u v, In u (p :: map fst h) -> In v (p :: map fst h) -> m_lu (nthf F u) = m_lu (nthf F v) -> u = v.
Proof.
  revert p. induction h as [|[x b] t IH]; intros p C u v Hu Hv E; simpl in *.
  - destruct Hu as [<-|[]], Hv as [<-|[]]. reflexivity.
  - destruct C as [C1 [C2 [C3 C4]]].
    assert (LT : forall z, In z (x :: map fst t) -> m_lu (nthf F p) < m_lu (nthf F z)).
    { intros z [<-|Hz]; auto. pose proof (chain_lu_lt F x t C4 z Hz). lia. }
    destruct Hu as [<-|Hu], Hv as [<-|Hv]; auto.
    + specialize (LT v Hv). lia.
    + specialize (LT u Hu). lia.
    + apply (IH x C4); auto.
Qed.

(* every committed version other than the newest has a strictly smaller stamp than the newest *)
Lemma chain_lu_max F p h : chain_ok F p h ->
  forall u, In u (p :: map fst h) -> u = lastv p h \/ m_lu (nthf F u) < m_lu (nthf F (lastv p h)).
Proof.
  revert p. induction h as [|[x b] t IH]; intros p C u Hu; simpl in *.
  - destruct Hu as [<-|[]]. left. reflexivity.
  - destruct C as [C1 [C2 [C3 C4]]]. rewrite lastv_cons.
    destruct Hu as [<-|Hu].
    + right. destruct (IH x C4 x (or_introl eq_refl)) as [E|L]; [rewrite <- E; auto | lia].
    + apply (IH x C4 u). exact Hu.
Qed.

(* ------------------------------------------------------------------ program-counter classes *)
Definition inV (p : pc) : bool := match p with PValidated | PWritten | PFenced => true | _ => false end.
Definition inW (p : pc) : bool := match p with PWritten | PFenced => true | _ => false end.
Definition inCS (p : pc) : bool :=
  match p with PLocked | PValidated | PWritten | PFenced | PFlipped => true | _ => false end.
Definition flipped (p : pc) : bool := match p with PFlipped | PDone Success | PDone AbortedPost => true | _ => false end.

Definition comm (H : list (vid * aid)) : list vid := 0%nat :: map fst H.
Definition committed (w : world) : list vid := comm (w_hist w).

Definition sound (c : cfg) : Prop := cas c = true \/ lockkind c = Excl.

(* per-actor invariant, over the shared components it depends on *)
Record AInv (c : cfg) (F : list meta) (H : list (vid * aid)) (ptr : vid) (a : aid) (s : astate) : Prop := {
  AI_opid : a_opid s = a;
  AI_base : In (a_base s) (comm H);
  AI_cur : In (a_cur s) (comm H);
  AI_val : inV (a_pc s) = true -> a_cur s = a_base s /\ a_etag s = a_cur s /\ (lockkind c = Excl -> ptr = a_cur s);
  AI_new : inW (a_pc s) = true ->
           (a_new s < length F)%nat /\ ~ In (a_new s) (comm H)
           /\ m_ops (nthf F (a_new s)) = m_ops (nthf F (a_base s)) ++ [a]
           /\ m_lu (nthf F (a_cur s)) < m_lu (nthf F (a_new s));
  AI_flip : flipped (a_pc s) = true <-> In a (map snd H) }.

Record Inv (c : cfg) (w : world) : Prop := {
  I_files : (0 < length (w_files w))%nat;
  I_chain : chain_ok (w_files w) 0%nat (w_hist w);
  I_ptr : w_ptr w = lastv 0%nat (w_hist w);
  I_nodup : NoDup (map snd (w_hist w));
  I_actor : forall a, AInv c (w_files w) (w_hist w) (w_ptr w) a (w_actors w a);
  I_newd : forall a b, a <> b -> inW (a_pc (w_actors w a)) = true -> inW (a_pc (w_actors w b)) = true ->
           a_new (w_actors w a) <> a_new (w_actors w b);
  I_lock : lockkind c = Excl -> forall a, inCS (a_pc (w_actors w a)) = true -> w_lock w = Some a }.

Lemma upd_same a s f : upd a s f a = s.
Proof. unfold upd. rewrite Nat.eqb_refl. reflexivity. Qed.
Lemma upd_other a b s f : b <> a -> upd a s f b = f b.
Proof. unfold upd. intro H. destruct (Nat.eqb_spec b a); [contradiction|reflexivity]. Qed.

Lemma committed_valid c w : Inv c w -> forall v, In v (committed w) -> (v < length (w_files w))%nat.
Proof.
  intros I v [<-|Hv]; [apply I | eapply chain_valid; [apply I | exact Hv]].
Qed.

Lemma last_in {A} (l : list A) d : In (last l d) (d :: l).
Proof.
  induction l as [|x l IH]; simpl; auto.
  destruct l as [|y l']; [right; left; reflexivity|].
  destruct IH as [E|IH]; [left; exact E | right; right; exact IH].
Qed.

Lemma ptr_committed c w : Inv c w -> In (w_ptr w) (committed w).
Proof. intro I. rewrite (I_ptr c w I). unfold committed, comm, lastv. apply last_in. Qed.

Lemma lu_inj c w : Inv c w -> forall u v, In u (committed w) -> In v (committed w) ->
  m_lu (nthf (w_files w) u) = m_lu (nthf (w_files w) v) -> u = v.
Proof. intro I. apply (chain_lu_inj _ _ _ (I_chain c w I)). Qed.

Lemma stamp_eqb_lu a b : stamp_eqb a b = true -> m_lu a = m_lu b.
Proof. intro H. apply stamp_eqb_true in H. apply H. Qed.

(* ------------------------------------------------------------------ frame lemma: only one actor's state and the lock change *)
Lemma inv_frame c w a s' lk :
  Inv c w ->
  AInv c (w_files w) (w_hist w) (w_ptr w) a s' ->
  (inW (a_pc s') = true -> forall b, b <> a -> inW (a_pc (w_actors w b)) = true -> a_new s' <> a_new (w_actors w b)) ->
  (lockkind c = Excl -> forall b, inCS (a_pc (upd a s' (w_actors w) b)) = true -> lk = Some b) ->
  Inv c {| w_ptr := w_ptr w; w_files := w_files w; w_lock := lk; w_hist := w_hist w; w_repl := w_repl w; w_actors := upd a s' (w_actors w) |}.
Proof.
  intros I A N L. constructor; simpl; try apply I.
  - intro b. destruct (Nat.eq_dec b a) as [->|NE]; [rewrite upd_same; exact A | rewrite upd_other by exact NE; apply I].
  - intros x y NE Wx Wy.
    destruct (Nat.eq_dec x a) as [->|Nx], (Nat.eq_dec y a) as [->|Ny]; try contradiction;
      rewrite ?upd_same, ?upd_other in * by assumption.
    + apply N; auto.
    + intro E. apply (N Wy x Nx Wx). symmetry. exact E.
    + apply (I_newd c w I); auto.
  - exact L.
Qed.

(* ------------------------------------------------------------------ small helpers *)
Lemma ainv_pc c F H ptr a s s' :
  AInv c F H ptr a s ->
  a_opid s' = a_opid s -> a_base s' = a_base s -> a_cur s' = a_cur s -> a_etag s' = a_etag s -> a_new s' = a_new s ->
  (inV (a_pc s') = true -> inV (a_pc s) = true) -> (inW (a_pc s') = true -> inW (a_pc s) = true) ->
  flipped (a_pc s') = flipped (a_pc s) ->
  AInv c F H ptr a s'.
Proof.
  intros A E1 E2 E3 E4 E5 V W Fl. destruct A as [A1 A2 A3 A4 A5 A6].
  constructor; rewrite ?E1, ?E2, ?E3, ?E4, ?E5, ?Fl; auto.
Qed.

Lemma ainv_ext c F m H ptr a s :
  AInv c F H ptr a s -> (forall v, In v (comm H) -> (v < length F)%nat) -> AInv c (F ++ [m]) H ptr a s.
Proof.
  intros [A1 A2 A3 A4 A5 A6] Val. constructor; auto.
  intro W. destruct (A5 W) as [B1 [B2 [B3 B4]]].
  rewrite !nthf_app; auto. split; [rewrite app_length; simpl; lia | auto].
Qed.

Lemma nodup_snoc {A} (l : list A) x : NoDup l -> ~ In x l -> NoDup (l ++ [x]).
Proof.
  induction l as [|y l IH]; simpl; intros ND NI.
  - constructor; [intros []|constructor].
  - inversion ND; subst. constructor.
    + rewrite in_app_iff. simpl. intros [H|[H|[]]]; [contradiction | subst; apply NI; left; reflexivity].
    + apply IH; auto.
Qed.

Lemma comm_snoc H v a : forall x, In x (comm (H ++ [(v, a)])) <-> In x (comm H) \/ x = v.
Proof.
  intro x. unfold comm. rewrite map_app. simpl. rewrite in_app_iff. simpl. intuition.
Qed.

Ltac lock_frame I a :=
  let LK := fresh "LK" in let b := fresh "b" in let Hb := fresh "Hb" in let NE := fresh "NE" in
  intros LK b Hb; destruct (Nat.eq_dec b a) as [->|NE];
  [rewrite upd_same in Hb; simpl in Hb; try discriminate
  | rewrite upd_other in Hb by exact NE].

(* ------------------------------------------------------------------ every step preserves the invariant *)
Lemma step_inv c w e w' : sound c -> Inv c w -> step c w e = Some w' -> Inv c w'.
Proof.
  intros Snd I H. unfold step in H.
  remember (e_actor e) as a eqn:Ea. remember (w_actors w a) as s eqn:Es.
  pose proof (I_actor c w I a) as Ia. rewrite <- Es in Ia.
  destruct (e_kind e) as [v|ok| |v ok|now|ok|ok| | | ].
  - (* EBegin *)
    destruct (a_pc s) eqn:PC; try discriminate.
    destruct (Nat.eqb_spec v (w_ptr w)) as [->|]; [|discriminate].
    inversion H; subst w'; clear H. unfold with_actor. apply inv_frame; auto.
    + destruct Ia as [A1 A2 A3 A4 A5 A6]. constructor; simpl; auto.
      * apply (ptr_committed c w I).
      * discriminate.
      * discriminate.
      * rewrite PC in A6. exact A6.
    + simpl. discriminate.
    + lock_frame I a. apply (I_lock c w I LK b Hb).
  - (* ELockTry *)
    destruct (a_pc s) eqn:PC; destruct ok; try discriminate.
    + destruct (lock_free_for c w a) eqn:LF; [|discriminate].
      inversion H; subst w'; clear H. apply inv_frame; auto.
      * eapply ainv_pc; eauto; simpl; rewrite ?PC; auto; discriminate.
      * simpl. discriminate.
      * lock_frame I a.
        -- rewrite LK. reflexivity.
        -- pose proof (I_lock c w I LK b Hb) as L. unfold lock_free_for in LF. rewrite LK, L in LF. discriminate.
    + destruct (lock_free_for c w a); [discriminate|]. inversion H; subst w'. exact I.
  - (* ESteal *)
    assert (HS : match lockkind c with
                 | Lease => Some {| w_ptr := w_ptr w; w_files := w_files w; w_lock := None; w_hist := w_hist w; w_repl := w_repl w; w_actors := w_actors w |}
                 | _ => None end = Some w') by (destruct (a_pc s); exact H).
    clear H. destruct (lockkind c) eqn:LK; try discriminate. inversion HS; subst w'; clear HS.
    constructor; simpl; try apply I. intro LE. rewrite LK in LE. discriminate.
  - (* EValidate *)
    destruct (a_pc s) eqn:PC; try discriminate.
    destruct (Nat.eqb_spec v (w_ptr w)) as [->|]; simpl in H; [|discriminate].
    destruct (Bool.eqb ok (stamp_eqb (file w (w_ptr w)) (file w (a_base s)))) eqn:EQ; [|discriminate].
    apply eqb_prop in EQ. inversion H; subst w'; clear H. unfold with_actor. apply inv_frame; auto.
    + destruct Ia as [A1 A2 A3 A4 A5 A6]. constructor; simpl; auto.
      * apply (ptr_committed c w I).
      * intro V. destruct ok; simpl in V; [|discriminate].
        symmetry in EQ. apply stamp_eqb_lu in EQ. rewrite !file_nthf in EQ.
        split; [|split; auto]. apply (lu_inj c w I); auto. apply (ptr_committed c w I).
      * intro W. destruct ok; simpl in W; discriminate.
      * rewrite PC in A6. destruct ok; exact A6.
    + simpl. destruct ok; discriminate.
    + lock_frame I a.
      * apply (I_lock c w I LK). rewrite <- Es, PC. reflexivity.
      * apply (I_lock c w I LK b Hb).
  - (* EMetaW *)
    destruct (a_pc s) eqn:PC; try discriminate.
    inversion H; subst w'; clear H.
    pose proof (committed_valid c w I) as Val. unfold committed in Val.
    destruct Ia as [A1 A2 A3 A4 A5 A6]. rewrite PC in *.
    destruct (A4 eq_refl) as [V1 [V2 V3]].
    constructor; simpl.
    + rewrite app_length. simpl. lia.
    + apply chain_ok_ext; apply I.
    + apply I.
    + apply I.
    + intro b. destruct (Nat.eq_dec b a) as [->|NE].
      * rewrite upd_same. constructor; simpl; auto.
        -- intros _. rewrite nthf_new. rewrite (nthf_app _ _ (a_base s)) by (apply Val; exact A2).
           rewrite (nthf_app _ _ (a_cur s)) by (apply Val; exact A3).
           split; [rewrite app_length; simpl; lia|]. split.
           ++ intro In. apply Val in In. lia.
           ++ unfold new_meta. simpl. rewrite A1, !file_nthf. split; [reflexivity|apply gen_new_lu_gt].
      * rewrite upd_other by exact NE. apply ainv_ext; [apply I | exact Val].
    + intros x y NE Wx Wy.
      destruct (Nat.eq_dec x a) as [->|Nx], (Nat.eq_dec y a) as [->|Ny]; try contradiction;
        rewrite ?upd_same, ?upd_other in * by assumption; simpl.
      * pose proof (AI_new _ _ _ _ _ _ (I_actor c w I y) Wy) as [B _]. lia.
      * pose proof (AI_new _ _ _ _ _ _ (I_actor c w I x) Wx) as [B _]. lia.
      * apply (I_newd c w I); auto.
    + lock_frame I a.
      * apply (I_lock c w I LK). rewrite <- Es, PC. reflexivity.
      * apply (I_lock c w I LK b Hb).
  - (* EFence *)
    destruct (a_pc s) eqn:PC; try discriminate.
    destruct (Bool.eqb ok (holds c w a)); [|discriminate].
    inversion H; subst w'; clear H. unfold with_actor. apply inv_frame; auto.
    + eapply ainv_pc; eauto; simpl; rewrite ?PC; destruct ok; simpl; auto; discriminate.
    + simpl. destruct ok; simpl; [|discriminate]. intros _ b NE Wb.
      rewrite Es. apply (I_newd c w I a b); auto. rewrite <- Es, PC. reflexivity.
    + lock_frame I a.
      * apply (I_lock c w I LK). rewrite <- Es, PC. reflexivity.
      * apply (I_lock c w I LK b Hb).
  - (* EFlip *)
    destruct (a_pc s) eqn:PC; try discriminate.
    destruct (Bool.eqb ok (if cas c then Nat.eqb (w_ptr w) (a_etag s) else true)) eqn:EQ; [|discriminate].
    apply eqb_prop in EQ. destruct ok.
    + (* the pointer flips *)
      inversion H; subst w'; clear H.
      destruct Ia as [A1 A2 A3 A4 A5 A6]. rewrite PC in *.
      destruct (A4 eq_refl) as [V1 [V2 V3]]. destruct (A5 eq_refl) as [N1 [N2 [N3 N4]]].
      assert (PTR : w_ptr w = a_cur s).
      { destruct Snd as [CAS|EX].
        - rewrite CAS in EQ. symmetry in EQ. apply Nat.eqb_eq in EQ. congruence.
        - apply V3. exact EX. }
      assert (NotIn : ~ In a (map snd (w_hist w))).
      { intro In. apply A6 in In. discriminate. }
      constructor; simpl.
      * apply I.
      * apply chain_ok_snoc; [apply I | | | exact N1]; rewrite <- (I_ptr c w I), PTR; [rewrite N3, V1; reflexivity | exact N4].
      * symmetry. apply lastv_snoc.
      * rewrite map_app. simpl. apply nodup_snoc; [apply I | exact NotIn].
      * intro b. destruct (Nat.eq_dec b a) as [->|NE].
        -- rewrite upd_same. constructor; simpl; auto; try discriminate.
           ++ apply comm_snoc. left. exact A2.
           ++ apply comm_snoc. left. exact A3.
           ++ rewrite map_app, in_app_iff. simpl. intuition.
        -- rewrite upd_other by exact NE. destruct (I_actor c w I b) as [B1 B2 B3 B4 B5 B6].
           constructor; auto.
           ++ apply comm_snoc. left. exact B2.
           ++ apply comm_snoc. left. exact B3.
           ++ intro Vb. destruct (B4 Vb) as [X1 [X2 X3]]. split; [exact X1|]. split; [exact X2|].
              intro EX. exfalso.
              assert (inCS (a_pc (w_actors w b)) = true) as CSb by (destruct (a_pc (w_actors w b)); simpl in *; auto; discriminate).
              assert (inCS (a_pc (w_actors w a)) = true) as CSa by (rewrite <- Es, PC; reflexivity).
              pose proof (I_lock c w I EX b CSb). pose proof (I_lock c w I EX a CSa). congruence.
           ++ intro Wb. destruct (B5 Wb) as [X1 [X2 [X3 X4]]]. repeat split; auto.
              intro In. apply comm_snoc in In. destruct In as [In|E]; [contradiction|].
              apply (I_newd c w I b a NE Wb); [rewrite <- Es, PC; reflexivity | rewrite <- Es; exact E].
           ++ rewrite map_app, in_app_iff. simpl. split; [intro X; left; apply B6; exact X|].
              intros [X|[X|[]]]; [apply B6; exact X | congruence].
      * intros x y NE Wx Wy.
        destruct (Nat.eq_dec x a) as [->|Nx]; [rewrite upd_same in Wx; discriminate|].
        destruct (Nat.eq_dec y a) as [->|Ny]; [rewrite upd_same in Wy; discriminate|].
        rewrite !upd_other in * by assumption. apply (I_newd c w I); auto.
      * lock_frame I a.
        -- apply (I_lock c w I LK). rewrite <- Es, PC. reflexivity.
        -- apply (I_lock c w I LK b Hb).
    + (* CAS conflict *)
      inversion H; subst w'; clear H. unfold with_actor. apply inv_frame; auto.
      * eapply ainv_pc; eauto; simpl; rewrite ?PC; auto; discriminate.
      * simpl. discriminate.
      * lock_frame I a. apply (I_lock c w I LK b Hb).
  - (* ERelease *)
    destruct (a_pc s) eqn:PC; try discriminate.
    + (* after a successful flip *)
      inversion H; subst w'; clear H. apply inv_frame; auto.
      * eapply ainv_pc; eauto; simpl; rewrite ?PC; auto; discriminate.
      * simpl. discriminate.
      * lock_frame I a.
        assert (inCS (a_pc (w_actors w a)) = true) as CSa by (rewrite <- Es, PC; reflexivity).
        pose proof (I_lock c w I LK b Hb). pose proof (I_lock c w I LK a CSa). congruence.
    + (* after a conflict: retry or give up *)
      inversion H; subst w'; clear H. apply inv_frame; auto.
      * eapply ainv_pc; eauto; destruct (Nat.ltb (S (a_attempt s)) (a_maxr s)); simpl; rewrite ?PC; auto; discriminate.
      * destruct (Nat.ltb (S (a_attempt s)) (a_maxr s)); simpl; discriminate.
      * lock_frame I a.
        -- destruct (Nat.ltb (S (a_attempt s)) (a_maxr s)); simpl in Hb; discriminate.
        -- rewrite (I_lock c w I LK b Hb). destruct (Nat.eqb_spec a b); [congruence|reflexivity].
  - (* EAbort: an exception / interrupt escapes; the lock is released by `finally` *)
    destruct (a_pc s) eqn:PC; try discriminate; inversion H; subst w'; clear H; apply inv_frame; auto;
      try (eapply ainv_pc; eauto; simpl; rewrite ?PC; auto; discriminate);
      try (simpl; discriminate);
      (lock_frame I a; rewrite (I_lock c w I LK b Hb); destruct (Nat.eqb_spec a b); [congruence|reflexivity]).
  - (* ECrash: the process dies; the kernel drops an exclusive flock *)
    destruct (a_pc s) eqn:PC; try discriminate; inversion H; subst w'; clear H; apply inv_frame; auto;
      try (eapply ainv_pc; eauto; simpl; rewrite ?PC; auto; discriminate);
      try (simpl; discriminate);
      (lock_frame I a; rewrite LK; rewrite (I_lock c w I LK b Hb); destruct (Nat.eqb_spec a b); [congruence|reflexivity]).
Qed.

(* ------------------------------------------------------------------ the flip replaces exactly the validated version *)
Definition repl_ok (w : world) : Prop := Forall (fun p => fst p = snd p) (w_repl w).

Lemma step_repl_shape c w e w' : step c w e = Some w' ->
  w_repl w' = w_repl w
  \/ (a_pc (w_actors w (e_actor e)) = PFenced
      /\ w_repl w' = w_repl w ++ [(w_ptr w, a_cur (w_actors w (e_actor e)))]
      /\ (if cas c then Nat.eqb (w_ptr w) (a_etag (w_actors w (e_actor e))) else true) = true).
Proof.
  intro H. unfold step in H.
  destruct (e_kind e) as [v|ok| |v ok|now|ok|ok| | | ]; destruct (a_pc (w_actors w (e_actor e))) eqn:PC; try discriminate;
    try (destruct ok);
    repeat match goal with
           | H : (if ?b then _ else _) = Some _ |- _ => destruct b eqn:?; try discriminate
           | H : match lockkind c with _ => _ end = Some _ |- _ => destruct (lockkind c); try discriminate
           end; try (inversion H; subst; left; reflexivity).
  inversion H; subst; simpl. right. split; [reflexivity|]. split; [reflexivity|].
  match goal with E : Bool.eqb true _ = true |- _ => apply eqb_prop in E; symmetry; exact E end.
Qed.

Lemma step_repl c w e w' : sound c -> Inv c w -> repl_ok w -> step c w e = Some w' -> repl_ok w'.
Proof.
  intros Snd I R H. destruct (step_repl_shape _ _ _ _ H) as [E|[PC [E G]]]; unfold repl_ok in *; rewrite E; auto.
  apply Forall_app. split; [exact R|]. constructor; [|constructor]. simpl.
  destruct (I_actor c w I (e_actor e)) as [A1 A2 A3 A4 A5 A6]. rewrite PC in *.
  destruct (A4 eq_refl) as [V1 [V2 V3]].
  destruct Snd as [CAS|EX].
  - rewrite CAS in G. apply Nat.eqb_eq in G. congruence.
  - apply V3. exact EX.
Qed.

(* ------------------------------------------------------------------ all reachable worlds *)
Lemma init_inv c m0 kind mr : Inv c (init_world m0 kind mr).
Proof.
  constructor; simpl; auto.
  - constructor.
  - intro a. constructor; simpl; auto; try discriminate. split; [discriminate | intros []].
  - discriminate.
  - discriminate.
Qed.

Lemma run_cons c w e evs : run c w (e :: evs) = run c (step_skip c w e) evs.
Proof. reflexivity. Qed.

Lemma run_inv c w evs : sound c -> Inv c w -> repl_ok w -> Inv c (run c w evs) /\ repl_ok (run c w evs).
Proof.
  intros Snd. revert w. induction evs as [|e evs IH]; intros w I R; [simpl; auto|].
  rewrite run_cons. unfold step_skip. destruct (step c w e) as [w'|] eqn:St.
  - apply IH; [eapply step_inv; eauto | eapply step_repl; eauto].
  - apply IH; auto.
Qed.

Section Reachable.
  Variables (c : cfg) (m0 : meta) (kind : aid -> curk) (mr : aid -> nat) (evs : list event).
  Hypothesis Snd : sound c.
  Let w := run c (init_world m0 kind mr) evs.

  Lemma reach_inv : Inv c w /\ repl_ok w.
  Proof. apply run_inv; auto. apply init_inv. constructor. Qed.

  Lemma files_zero : forall w0 e w1, step c w0 e = Some w1 -> nthf (w_files w1) 0%nat = nthf (w_files w0) 0%nat \/ w_files w0 = [].
  Proof.
    intros w0 e w1 H. unfold step in H.
    destruct (e_kind e), (a_pc (w_actors w0 (e_actor e))); try discriminate;
      repeat match goal with
             | H : (if ?b then _ else _) = Some _ |- _ => destruct b; try discriminate
             | H : match lockkind c with _ => _ end = Some _ |- _ => destruct (lockkind c); try discriminate
             end; try (inversion H; subst; left; reflexivity).
    inversion H; subst; simpl. destruct (w_files w0) eqn:E; [right; reflexivity|left; reflexivity].
  Qed.

  Lemma run_file0 : forall w0 l, Inv c w0 -> nthf (w_files (run c w0 l)) 0%nat = nthf (w_files w0) 0%nat.
  Proof.
    intros w0 l. revert w0. induction l as [|e l IH]; intros w0 I0; [reflexivity|].
    rewrite run_cons. unfold step_skip. destruct (step c w0 e) as [w1|] eqn:St; [|apply IH; auto].
    rewrite IH by (eapply step_inv; eauto).
    destruct (files_zero _ _ _ St) as [E|E]; auto. pose proof (I_files c w0 I0) as L. rewrite E in L. simpl in L. lia.
  Qed.

  (* the table named by the pointer is exactly the initial table extended by the flips, in order *)
  Lemma reach_serializable : m_ops (file w (w_ptr w)) = m_ops m0 ++ map snd (w_hist w).
  Proof.
    destruct reach_inv as [I _]. rewrite file_nthf, (I_ptr c w I), (chain_ops _ _ _ (I_chain c w I)).
    unfold w. rewrite run_file0 by apply init_inv. reflexivity.
  Qed.

  Lemma reach_once : NoDup (map snd (w_hist w)).
  Proof. destruct reach_inv as [I _]. apply I. Qed.

  Lemma reach_acked a : flipped (a_pc (w_actors w a)) = true <-> In a (map snd (w_hist w)).
  Proof. destruct reach_inv as [I _]. apply (AI_flip _ _ _ _ _ _ (I_actor c w I a)). Qed.

  Lemma reach_chain : chain_ok (w_files w) 0%nat (w_hist w).
  Proof. destruct reach_inv as [I _]. apply I. Qed.

  Lemma reach_repl : Forall (fun p => fst p = snd p) (w_repl w).
  Proof. destruct reach_inv as [_ R]. exact R. Qed.
End Reachable.

(* ------------------------------------------------------------------ the fence (C08) *)
Lemma fence_requires_lock c w e w' :
  lockkind c = Lease -> e_kind e = EFence true -> step c w e = Some w' -> w_lock w = Some (e_actor e).
Proof.
  intros LK EK H. unfold step in H. rewrite EK in H.
  destruct (a_pc (w_actors w (e_actor e))); try discriminate.
  unfold holds in H. rewrite LK in H.
  destruct (w_lock w) as [b|]; simpl in H.
  - destruct (Nat.eqb_spec (e_actor e) b); [congruence | discriminate].
  - discriminate.
Qed.

Lemma fence_failed_conflict c w e w' :
  e_kind e = EFence false -> step c w e = Some w' -> a_pc (w_actors w' (e_actor e)) = PConflict.
Proof.
  intros EK H. unfold step in H. rewrite EK in H.
  destruct (a_pc (w_actors w (e_actor e))); try discriminate.
  destruct (Bool.eqb false (holds c w (e_actor e))); [|discriminate].
  inversion H; subst w'. simpl. rewrite upd_same. reflexivity.
Qed.

(* the only way into PFenced is a fence that succeeded, and the only way to a flip is from PFenced *)
Lemma fenced_only_by_fence c w e w' a :
  step c w e = Some w' -> a_pc (w_actors w' a) = PFenced -> a_pc (w_actors w a) <> PFenced ->
  e_actor e = a /\ e_kind e = EFence true.
Proof.
  intros H P N. unfold step in H.
  destruct (Nat.eq_dec (e_actor e) a) as [E|NE].
  - split; [exact E|]. subst a.
    destruct (e_kind e) as [v|ok| |v ok|now|ok|ok| | | ]; destruct (a_pc (w_actors w (e_actor e))) eqn:PC; try discriminate;
      try (destruct ok);
      repeat match goal with
             | H : (if ?b then _ else _) = Some _ |- _ => destruct b eqn:?; try discriminate
             | H : match lockkind c with _ => _ end = Some _ |- _ => destruct (lockkind c); try discriminate
             end;
      try (inversion H; subst w'; simpl in P; rewrite ?upd_same in P; simpl in P;
           try discriminate; try congruence; try reflexivity);
      try (destruct (Nat.ltb _ _) in P; simpl in P; discriminate).
  - exfalso. apply N.
    destruct (e_kind e) as [v|ok| |v ok|now|ok|ok| | | ]; destruct (a_pc (w_actors w (e_actor e))) eqn:PC; try discriminate;
      try (destruct ok);
      repeat match goal with
             | H : (if ?b then _ else _) = Some _ |- _ => destruct b eqn:?; try discriminate
             | H : match lockkind c with _ => _ end = Some _ |- _ => destruct (lockkind c); try discriminate
             end;
      inversion H; subst w'; simpl in P; rewrite ?upd_other in P by (intro; apply NE; congruence); exact P.
Qed.

Lemma conflict_release_not_success c w e w' :
  e_kind e = ERelease -> a_pc (w_actors w (e_actor e)) = PConflict -> step c w e = Some w' ->
  a_pc (w_actors w' (e_actor e)) = PIdle \/ a_pc (w_actors w' (e_actor e)) = PDone Conflict.
Proof.
  intros EK PC H. unfold step in H. rewrite EK, PC in H. inversion H; subst w'. simpl. rewrite upd_same.
  destruct (Nat.ltb _ _); simpl; auto.
Qed.

(* ------------------------------------------------------------------ what one step can change (used by FaultProofs) *)
Lemma step_cases c w e w' : step c w e = Some w' ->
  let a := e_actor e in let s := w_actors w a in let s' := w_actors w' a in
  (forall b, b <> a -> w_actors w' b = w_actors w b)
  /\ ( (exists now, e_kind e = EMetaW now /\ a_pc s = PValidated /\ w_files w' = w_files w ++ [new_meta w s now]
                    /\ w_hist w' = w_hist w /\ a_pc s' = PWritten /\ a_new s' = length (w_files w) /\ a_base s' = a_base s)
    \/ (e_kind e = EFlip true /\ a_pc s = PFenced /\ w_files w' = w_files w /\ w_hist w' = w_hist w ++ [(a_new s, a)]
        /\ a_pc s' = PFlipped)
    \/ (w_files w' = w_files w /\ w_hist w' = w_hist w /\ a_new s' = a_new s
        /\ (inW (a_pc s') = true -> inW (a_pc s) = true) /\ flipped (a_pc s') = flipped (a_pc s)
        /\ (forall o, a_pc s = PDone o -> a_pc s' = PDone o)) ).
Proof.
  intro H. unfold step in H. cbv zeta.
  destruct (e_kind e) as [v|ok| |v ok|now|ok|ok| | | ]; destruct (a_pc (w_actors w (e_actor e))) eqn:PC; try discriminate;
    try (destruct ok);
    repeat match goal with
           | H : (if ?b then _ else _) = Some _ |- _ => destruct b eqn:?; try discriminate
           | H : match lockkind c with _ => _ end = Some _ |- _ => destruct (lockkind c); try discriminate
           end;
    inversion H; subst w'; clear H; simpl;
    (split; [intros b NE; rewrite ?upd_other by exact NE; reflexivity|]);
    rewrite ?upd_same; simpl;
    try (right; right; rewrite ?PC; simpl; repeat split; auto; try discriminate;
         try (destruct (Nat.ltb _ _); simpl; auto; discriminate); fail);
    try (right; left; repeat split; auto; fail);
    try (left; eexists; repeat split; eauto; fail).
  all: try (right; right; rewrite ?PC; repeat split; auto; intros; try discriminate;
            destruct (Nat.ltb _ _); simpl in *; auto; discriminate).
Qed.

(* ------------------------------------------------------------------ the exclusive lock is held only inside the critical section *)
Definition lockpc (p : pc) : bool := inCS p || match p with PConflict => true | _ => false end.

Definition L1 (c : cfg) (w : world) : Prop :=
  lockkind c = Excl -> forall a, w_lock w = Some a -> lockpc (a_pc (w_actors w a)) = true.

Lemma step_L1 c w e w' : L1 c w -> step c w e = Some w' -> L1 c w'.
Proof.
  intros L H LK b Hb. specialize (L LK). unfold step in H. rewrite LK in H.
  destruct (e_kind e) as [v|ok| |v ok|now|ok|ok| | | ]; destruct (a_pc (w_actors w (e_actor e))) eqn:PC; try discriminate;
    try (destruct ok);
    repeat match goal with
           | H : (if ?x then _ else _) = Some _ |- _ => destruct x eqn:?; try discriminate
           end;
    inversion H; subst w'; clear H; simpl in *;
    try (destruct (Nat.eq_dec b (e_actor e)) as [E|NE];
         [ subst b; rewrite upd_same; simpl; try reflexivity;
           try (destruct (w_lock w) as [b0|] eqn:WL; try discriminate;
                destruct (Nat.eqb_spec (e_actor e) b0); try discriminate; inversion Hb; congruence);
           try (pose proof (L _ Hb) as X; rewrite PC in X; simpl in X; try discriminate; auto; fail);
           try (destruct (Nat.ltb _ _); simpl; auto)
         | rewrite upd_other by exact NE;
           try (apply L; exact Hb);
           try (inversion Hb; congruence);
           try (destruct (w_lock w) as [b0|] eqn:WL; try discriminate;
                destruct (Nat.eqb_spec (e_actor e) b0); try discriminate; inversion Hb; subst; apply L; reflexivity) ]);
    try (apply L; exact Hb).
  all: try (unfold lock_free_for in *; rewrite LK in *; destruct (w_lock w); discriminate).
Qed.

(* ------------------------------------------------------------------ liveness: an idle committer can always run to success *)
Lemma stamp_eqb_refl m : stamp_eqb m m = true.
Proof. apply stamp_eqb_true. split; reflexivity. Qed.

Definition commit_script (b : aid) (ptr : vid) (now : Z) : list event :=
  [ {| e_actor := b; e_kind := EBegin ptr |}; {| e_actor := b; e_kind := ELockTry true |};
    {| e_actor := b; e_kind := EValidate ptr true |}; {| e_actor := b; e_kind := EMetaW now |};
    {| e_actor := b; e_kind := EFence true |}; {| e_actor := b; e_kind := EFlip true |};
    {| e_actor := b; e_kind := ERelease |} ].

Ltac stepsimp := unfold with_actor; unfold step at 1; cbv beta zeta;
  cbn [e_actor e_kind w_actors w_ptr w_files w_lock w_hist w_repl with_actor set_pc
       a_pc a_kind a_opid a_base a_cur a_etag a_new a_attempt a_maxr];
  rewrite ?upd_same;
  cbn [e_actor e_kind w_actors w_ptr w_files w_lock w_hist w_repl with_actor set_pc
       a_pc a_kind a_opid a_base a_cur a_etag a_new a_attempt a_maxr].

Lemma can_commit c w b now :
  a_pc (w_actors w b) = PIdle -> (lockkind c = GrantAll \/ w_lock w = None) ->
  exists w', run_strict c w (commit_script b (w_ptr w) now) 0 = inl w'
             /\ a_pc (w_actors w' b) = PDone Success
             /\ w_hist w' = w_hist w ++ [(length (w_files w), b)]
             /\ w_ptr w' = length (w_files w).
Proof.
  intros PC LF. unfold commit_script, run_strict.
  (* 1. EBegin *)
  stepsimp. rewrite PC, Nat.eqb_refl.
  (* 2. ELockTry *)
  stepsimp.
  assert (LFF : forall acts, lock_free_for c {| w_ptr := w_ptr w; w_files := w_files w; w_lock := w_lock w; w_hist := w_hist w;
                                                 w_repl := w_repl w; w_actors := acts |} b = true).
  { intro acts. unfold lock_free_for. cbn. destruct LF as [G|N]; [rewrite G; reflexivity | rewrite N; destruct (lockkind c); reflexivity]. }
  rewrite LFF.
  (* 3. EValidate *)
  stepsimp. rewrite Nat.eqb_refl. unfold file at 1 2. cbn [w_files andb]. rewrite stamp_eqb_refl. cbn [Bool.eqb].
  (* 4. EMetaW *)
  stepsimp.
  (* 5. EFence *)
  stepsimp.
  assert (HOLD : forall p f h r acts, holds c {| w_ptr := p; w_files := f;
                     w_lock := match lockkind c with GrantAll => w_lock w | _ => Some b end;
                     w_hist := h; w_repl := r; w_actors := acts |} b = true).
  { intros. unfold holds. cbn. destruct (lockkind c); try reflexivity. apply Nat.eqb_refl. }
  rewrite HOLD. cbn [Bool.eqb].
  (* 6. EFlip *)
  stepsimp. rewrite Nat.eqb_refl. replace (Bool.eqb true (if cas c then true else true)) with true by (destruct (cas c); reflexivity).
  (* 7. ERelease *)
  stepsimp.
  eexists. split; [reflexivity|]. cbn [w_actors w_hist w_ptr]. rewrite upd_same. cbn [a_pc].
  repeat split; reflexivity.
Qed.

(* the script of can_commit is the base read followed by the success path whose protocol actions are, by
   CommitGenProofs.model_path_*_regenerated, exactly the skeleton regenerated from MetadataManager.commit *)
Lemma commit_script_kinds b ptr now :
  map e_kind (commit_script b ptr now) = EBegin ptr :: success_events ptr now.
Proof. reflexivity. Qed.

Lemma success_events_actions casb v now : flat_map (actions_of casb) (success_events v now) = model_path casb.
Proof. reflexivity. Qed.

Lemma regenerated_skeleton_runs c w b (now : Z) :
  a_pc (w_actors w b) = PIdle -> (lockkind c = GrantAll \/ w_lock w = None) ->
  exists evs w',
    flat_map (actions_of (cas c)) (map e_kind evs) = (if cas c then gen_commit_path_cas else gen_commit_path_plain)
    /\ Forall (fun e => e_actor e = b) evs
    /\ run_strict c w ({| e_actor := b; e_kind := EBegin (w_ptr w) |} :: evs) 0 = inl w'
    /\ a_pc (w_actors w' b) = PDone Success
    /\ w_ptr w' = length (w_files w).
Proof.
  intros PC LF. destruct (can_commit c w b now PC LF) as [w' [R [S [_ P]]]].
  exists (tl (commit_script b (w_ptr w) now)), w'. split; [|split; [|split; [exact R|split; assumption]]].
  - destruct (cas c); reflexivity.
  - repeat constructor.
Qed.

Lemma run_L1 c w evs : L1 c w -> L1 c (run c w evs).
Proof.
  revert w. induction evs as [|e l IH]; intros w L; [exact L|]. rewrite run_cons. apply IH. unfold step_skip.
  destruct (step c w e) eqn:St; [eapply step_L1; eauto | exact L].
Qed.

Lemma init_L1 c m0 kind mr : L1 c (init_world m0 kind mr).
Proof. intros _ a H. simpl in H. discriminate. Qed.

(* a finished (in particular: dead) operation does not hold the exclusive lock *)
Lemma lock_released c m0 kind mr evs a o :
  lockkind c = Excl -> a_pc (w_actors (run c (init_world m0 kind mr) evs) a) = PDone o ->
  w_lock (run c (init_world m0 kind mr) evs) <> Some a.
Proof.
  intros LK P Hl. pose proof (run_L1 c _ evs (init_L1 c m0 kind mr) LK a Hl) as X. rewrite P in X. discriminate.
Qed.

(* under an exclusive lock: if nobody is inside the critical section the lock is free *)
Lemma lock_free_when_idle c w :
  L1 c w -> lockkind c = Excl -> (forall a, lockpc (a_pc (w_actors w a)) = false) -> w_lock w = None.
Proof.
  intros L LK Idle. destruct (w_lock w) as [a|] eqn:E; auto. pose proof (L LK a E) as X. rewrite Idle in X. discriminate.
Qed.
