(* Proofs/GCRootsProofs.v -- the manifest lists a collection opens (Gen/GenGCRoots.v, regenerated from
   GarbageCollector.collect) are the lists of ALL retained snapshots, whatever their parent links and operation labels;
   they are the roots `norm_set tp snaps` of the hand-written collector model (Model/GC.v reach). *)
From Coq Require Import ZArith String Ascii List Bool Arith Lia.
Require Import DS.Model.PyStr DS.Model.SnapRec DS.Gen.GenNorm DS.Gen.GenGCRoots DS.Model.GC.
Require Import DS.Proofs.PyStrProofs DS.Proofs.GCProofs.
Import ListNotations.
Open Scope string_scope.
Open Scope Z_scope.
Open Scope list_scope.

Lemma in_set_add_str : forall x s k, In k (set_add_str x s) <-> In k s \/ k = x.
Proof.
  intros x s k. unfold set_add_str. destruct (str_mem x s) eqn:E.
  - apply str_mem_In in E. split; [auto|]. intros [H| ->]; assumption.
  - rewrite in_app_iff. simpl. split; [intros [H|[H|[]]]; auto|intros [H|H]; auto].
Qed.


(* one step: the snapshot's list (when it names one) joins the set, normalised; nothing else about the snapshot matters *)
Lemma gc_roots_step_spec : forall tp acc s k,
  In k (gc_roots_step tp acc s) <-> In k acc \/ (nonempty (sr_manifest_list s) = true /\ k = normalize_path tp (sr_manifest_list s)).
Proof.
  intros tp acc s k. unfold gc_roots_step. cbv zeta. destruct (nonempty (sr_manifest_list s)).
  - rewrite in_set_add_str. split; [intros [H|H]; auto|intros [H|[_ H]]; auto].
  - split; [auto|intros [H|[H _]]; [exact H|discriminate]].
Qed.

Lemma gc_roots_fold_spec : forall tp snaps acc k,
  In k (fold_left (gc_roots_step tp) snaps acc) <->
  In k acc \/ exists s, In s snaps /\ nonempty (sr_manifest_list s) = true /\ k = normalize_path tp (sr_manifest_list s).
Proof.
  intros tp snaps. induction snaps as [|s r IH]; intros acc k; simpl.
  - split; [auto|intros [H|[s [[] _]]]; exact H].
  - rewrite IH, gc_roots_step_spec. split.
    + intros [[H|[N E]]|[s0 [H1 H2]]]; [left; exact H|right; exists s; auto|right; exists s0; auto].
    + intros [H|[s0 [[<-|H1] H2]]]; [left; left; exact H|left; right; exact H2|right; exists s0; auto].
Qed.

(* the roots: exactly the normalised list of every retained snapshot that names one -- for ANY parents / operations *)
Theorem roots_every_snapshot : forall (tp : string) (snaps : list snaprec) (k : string),
  In k (gc_list_roots tp snaps) <->
  exists s, In s snaps /\ nonempty (sr_manifest_list s) = true /\ k = normalize_path tp (sr_manifest_list s).
Proof.
  intros tp snaps k. unfold gc_list_roots. rewrite gc_roots_fold_spec. split; [intros [[]|H]; exact H|auto].
Qed.

(* the roots do not depend on ids, parents or operation labels at all *)
Theorem roots_only_lists : forall (tp : string) (a b : list snaprec),
  map sr_manifest_list a = map sr_manifest_list b -> forall k, In k (gc_list_roots tp a) <-> In k (gc_list_roots tp b).
Proof.
  intros tp a b E k. rewrite !roots_every_snapshot.
  assert (X: forall (x y : list snaprec), map sr_manifest_list x = map sr_manifest_list y ->
             (exists s, In s x /\ nonempty (sr_manifest_list s) = true /\ k = normalize_path tp (sr_manifest_list s)) ->
             exists s, In s y /\ nonempty (sr_manifest_list s) = true /\ k = normalize_path tp (sr_manifest_list s)).
  { intros x y Exy [s [H1 [H2 H3]]]. assert (Hin: In (sr_manifest_list s) (map sr_manifest_list y)) by (rewrite <- Exy; apply in_map; exact H1).
    apply in_map_iff in Hin. destruct Hin as [s' [E' H']]. exists s'. rewrite E'. auto. }
  split; apply X; [exact E|symmetry; exact E].
Qed.

(* ... and they are the roots of the hand-written collector model *)
Theorem roots_are_norm_set : forall (tp : string) (snaps : list snaprec) (k : string),
  In k (gc_list_roots tp snaps) <-> In k (norm_set tp (map sr_manifest_list snaps)).
Proof.
  intros tp snaps k. rewrite roots_every_snapshot. split.
  - intros [s [H1 [H2 ->]]]. apply in_norm_set; [apply in_map; exact H1|exact H2].
  - intro H. apply norm_set_inv in H. destruct H as [r [H1 [H2 ->]]]. apply in_map_iff in H1. destruct H1 as [s [<- Hs]]. exists s. auto.
Qed.

(* the model's collection opens exactly these lists (r_reach_lists = the lists whose reading was attempted; it is empty
   only when the run stopped at the marker listing, before the metadata was looked at) *)
Lemma gc_run_from_reach_lists : forall mf tp grace now timeout o snaps g0,
  r_out (gc_run_from mf tp grace now timeout o snaps g0) <> Aborted PhMarkers ->
  r_reach_lists (gc_run_from mf tp grace now timeout o snaps g0) = norm_set tp snaps.
Proof.
  intros mf tp grace now timeout o snaps g0. unfold gc_run_from. destruct mf.
  - destruct (load_protection tp timeout now o g0) as [[prot|] g1]; [|cbn; congruence].
    unfold reach. destruct (read_all WList o g1 (norm_set tp snaps)) as [[mp|] g2]; [|cbn; reflexivity].
    destruct (read_all WManifest o g2 (norm_set tp mp)) as [[en|] g3]; [|cbn; reflexivity].
    unfold sweeps. destruct (sweep tp grace now _ o g3 DATA_PREFIX []) as [[[|] d1] g4]; [cbn; reflexivity|].
    destruct (sweep tp grace now _ o g4 MANIFESTS_PREFIX d1) as [[[|] d2] g5]; cbn; reflexivity.
  - unfold reach. destruct (read_all WList o g0 (norm_set tp snaps)) as [[mp|] g2]; [|cbn; reflexivity].
    destruct (read_all WManifest o g2 (norm_set tp mp)) as [[en|] g3]; [|cbn; reflexivity].
    destruct (load_protection tp timeout now o g3) as [[prot|] g1]; [|cbn; reflexivity].
    unfold sweeps. destruct (sweep tp grace now _ o g1 DATA_PREFIX []) as [[[|] d1] g4]; [cbn; reflexivity|].
    destruct (sweep tp grace now _ o g4 MANIFESTS_PREFIX d1) as [[[|] d2] g5]; cbn; reflexivity.
Qed.

Theorem collect_opens_roots : forall (tp : string) (grace now timeout : Z) (o : oracle) (snaps : list snaprec) (st : store),
  let r := gc_run tp grace now timeout o (map sr_manifest_list snaps) st in
  r_out r <> Aborted PhMarkers -> forall k, In k (r_reach_lists r) <-> In k (gc_list_roots tp snaps).
Proof.
  intros tp grace now timeout o snaps st r H k. subst r. unfold gc_run in *.
  rewrite (gc_run_from_reach_lists _ _ _ _ _ _ _ _ H). symmetry. apply roots_are_norm_set.
Qed.
