(* Proofs/ProcLockProofs.v -- the lock layer of Model/ProcLock.v refines Commit.v's exclusive lock under EVERY
   process topology when the kernel lock belongs to the open file description (flock), and does not when it belongs
   to the process (POSIX record locks).

   Everything before `Section Topology` is about lists of open descriptions; the section fixes an arbitrary topology
   `proc : hid -> pid` and proves the invariant `inv` for every event list, from which the theorems of Props/C01.v
   follow.  The statements are over the discipline `ByDescription`; `gen_disc_is_by_description` says that this is
   the discipline of the primitive the SOURCE uses (Gen/GenFileLock.v, regenerated on every run). *)
From Coq Require Import List Bool Arith Lia.
Require Import DS.Model.ProcLockBase DS.Gen.GenFileLock DS.Model.ProcLock.
Import ListNotations.

Lemma gen_disc_is_by_description : gen_lock_disc = ByDescription.
Proof. reflexivity. Qed.

(* ---- open-description tables *)
Lemma nodup_fst_inj (l : list (fdn * hid)) d a b :
  NoDup (map fst l) -> In (d, a) l -> In (d, b) l -> a = b.
Proof.
  induction l as [|[d' h'] l IH]; simpl; intros ND Ha Hb; [contradiction|].
  inversion ND as [|x xs Hnot ND']; subst.
  destruct Ha as [Ha|Ha], Hb as [Hb|Hb].
  - congruence.
  - inversion Ha; subst. exfalso. apply Hnot. change d with (fst (d, b)). apply in_map. exact Hb.
  - inversion Hb; subst. exfalso. apply Hnot. change d with (fst (d, a)). apply in_map. exact Ha.
  - apply IH; assumption.
Qed.

Lemma opener_in (l : list (fdn * hid)) d h : NoDup (map fst l) -> In (d, h) l -> opener l d = Some h.
Proof.
  induction l as [|[d' h'] l IH]; simpl; intros ND Hin; [contradiction|].
  inversion ND as [|x xs Hnot ND']; subst.
  destruct Hin as [E|Hin].
  - inversion E; subst. rewrite Nat.eqb_refl. reflexivity.
  - destruct (Nat.eqb d' d) eqn:E.
    + apply Nat.eqb_eq in E. subst. exfalso. apply Hnot. change d with (fst (d, h)). apply in_map. exact Hin.
    + apply IH; assumption.
Qed.

Lemma opener_some_in (l : list (fdn * hid)) d h : opener l d = Some h -> In (d, h) l.
Proof.
  induction l as [|[d' h'] l IH]; simpl; intro H; [discriminate|].
  destruct (Nat.eqb d' d) eqn:E.
  - apply Nat.eqb_eq in E. inversion H; subst. left. reflexivity.
  - right. apply IH. exact H.
Qed.

Lemma nodup_fst_filter (f : fdn * hid -> bool) (l : list (fdn * hid)) :
  NoDup (map fst l) -> NoDup (map fst (filter f l)).
Proof.
  induction l as [|x l IH]; simpl; intro ND; [constructor|].
  inversion ND as [|y ys Hnot ND']; subst.
  destruct (f x); simpl; [|apply IH; exact ND'].
  constructor; [|apply IH; exact ND'].
  intro Hin. apply Hnot. apply in_map_iff in Hin. destruct Hin as [z [Ez Hz]].
  apply filter_In in Hz. destruct Hz as [Hz _]. rewrite <- Ez. apply in_map. exact Hz.
Qed.

Lemma in_close_ref (l : list (fdn * hid)) d h d' h' :
  In (d', h') (close_ref l d h) <-> In (d', h') l /\ ~ (d' = d /\ h' = h).
Proof.
  unfold close_ref. rewrite filter_In. simpl. rewrite negb_true_iff, andb_false_iff, !Nat.eqb_neq. split.
  - intros [H [N|N]]; (split; [exact H|]); intros [A B]; contradiction.
  - intros [H N]. split; [exact H|]. destruct (Nat.eq_dec d' d) as [->|Nd]; [|left; exact Nd].
    right. intros ->. apply N. split; reflexivity.
Qed.

(* with one reference per description, closing it removes the description *)
Lemma in_close_ref_nodup (l : list (fdn * hid)) d h d' h' :
  NoDup (map fst l) -> In (d, h) l -> (In (d', h') (close_ref l d h) <-> In (d', h') l /\ d' <> d).
Proof.
  intros ND Hin. rewrite in_close_ref. split; intros [H N]; (split; [exact H|]).
  - intros ->. apply N. split; [reflexivity|]. apply (nodup_fst_inj l d); assumption.
  - intros [A _]. contradiction.
Qed.

Lemma still_open_false (l : list (fdn * hid)) d : still_open l d = false <-> forall h, ~ In (d, h) l.
Proof.
  unfold still_open. split.
  - intros E h Hin. assert (existsb (fun x => Nat.eqb (fst x) d) l = true); [|congruence].
    apply existsb_exists. exists (d, h). split; [exact Hin | simpl; apply Nat.eqb_refl].
  - intro N. destruct (existsb (fun x => Nat.eqb (fst x) d) l) eqn:E; [|reflexivity]. exfalso.
    apply existsb_exists in E. destruct E as [[d' h] [Hin E]]. simpl in E. apply Nat.eqb_eq in E. subst d'. exact (N h Hin).
Qed.

Lemma still_open_close_ref (l : list (fdn * hid)) d h :
  NoDup (map fst l) -> In (d, h) l -> still_open (close_ref l d h) d = false.
Proof.
  intros ND Hin. apply still_open_false. intros h' H'. apply (in_close_ref_nodup l d h d h' ND Hin) in H'. destruct H' as [_ N]. apply N. reflexivity.
Qed.

(* with one reference per description: the description survives a filter iff its reference does *)
Lemma still_open_filter_unique (f : fdn * hid -> bool) (l : list (fdn * hid)) d h :
  NoDup (map fst l) -> In (d, h) l -> still_open (filter f l) d = f (d, h).
Proof.
  intros ND Hin. destruct (f (d, h)) eqn:E.
  - unfold still_open. apply existsb_exists. exists (d, h). split; [apply filter_In; split; assumption | simpl; apply Nat.eqb_refl].
  - apply still_open_false. intros h' H'. apply filter_In in H'. destruct H' as [H' F'].
    assert (h' = h) by (apply (nodup_fst_inj l d); assumption). subst h'. congruence.
Qed.

(* ---- handle states *)
Definition hfd (x : hstate) : option fdn :=
  match x with HOpened d | HRefused d | HHeld d | HUnlocked d => Some d | HIdle | HDead => None end.

Lemma lupd_same f h x : lupd f h x h = x.
Proof. unfold lupd. rewrite Nat.eqb_refl. reflexivity. Qed.

Lemma lupd_other f h x k : k <> h -> lupd f h x k = f k.
Proof. intro N. unfold lupd. apply Nat.eqb_neq in N. rewrite N. reflexivity. Qed.

Section Topology.
Variable proc : hid -> pid.

Notation step := (lstep ByDescription proc).
Notation run := (lrun ByDescription proc).

Record inv (s : lstate) : Prop := {
  i_lt : forall d h, In (d, h) (l_open s) -> d < l_next s;
  i_nodup : NoDup (map fst (l_open s));
  i_fd : forall h d, hfd (l_h s h) = Some d -> In (d, h) (l_open s);
  i_ref : forall d h, In (d, h) (l_open s) -> hfd (l_h s h) = Some d;       (* every open descriptor is one a handle's program is using: an idle handle holds none *)
  i_owner : forall o, l_owner s = Some o -> exists d h, o = OwnD d /\ l_h s h = HHeld d;
  i_held : forall h d, l_h s h = HHeld d -> l_owner s = Some (OwnD d) }.

Lemma inv_init : inv linit.
Proof.
  constructor; simpl; intros; try contradiction; try discriminate. constructor.
Qed.

(* two handles never refer to the same open description *)
Lemma fd_unique s h1 h2 d : inv s -> hfd (l_h s h1) = Some d -> hfd (l_h s h2) = Some d -> h1 = h2.
Proof.
  intros I H1 H2. apply (nodup_fst_inj (l_open s) d); [apply I | apply I; exact H1 | apply I; exact H2].
Qed.

(* KEY: what a handle that does not hold does with ITS description -- closing it after a refused attempt, closing it
   after its own unlock -- never releases the lock of another handle, in whatever process either of them lives *)
Lemma release_by_not_holder s h d :
  inv s -> hfd (l_h s h) = Some d -> (forall d', l_h s h <> HHeld d') ->
  release_by ByDescription proc (l_owner s) d h = l_owner s.
Proof.
  intros I Hd Hn. unfold release_by. destruct (l_owner s) as [o|] eqn:Eo; [|reflexivity].
  destruct (i_owner s I o Eo) as [d0 [h0 [-> Hh0]]]. simpl.
  destruct (Nat.eqb d0 d) eqn:E; [|reflexivity].
  apply Nat.eqb_eq in E. subst d0. exfalso.
  assert (h0 = h) by (apply (fd_unique s h0 h d I); [rewrite Hh0; reflexivity | exact Hd]).
  subst h0. exact (Hn d Hh0).
Qed.

(* closing a descriptor that does not carry the lock leaves the owner alone *)
Lemma close_release_not_holder s h d :
  inv s -> hfd (l_h s h) = Some d -> (forall d', l_h s h <> HHeld d') ->
  close_release ByDescription proc (l_owner s) (close_ref (l_open s) d h) d h = l_owner s.
Proof.
  intros I Hd Hn. unfold close_release.
  rewrite (still_open_close_ref (l_open s) d h (i_nodup s I) (i_fd s I h d Hd)).
  apply release_by_not_holder; assumption.
Qed.

(* an idle handle holds no descriptor: a quiescent fork has nothing to inherit *)
Lemma inherited_idle s h h' : inv s -> l_h s h = HIdle -> inherited (l_open s) h h' = [].
Proof.
  intros I Hi. unfold inherited.
  match goal with |- map _ ?F = [] => destruct F as [|[d k] r] eqn:E; [reflexivity|] end. exfalso.
  assert (Hin : In (d, k) ((d, k) :: r)) by (left; reflexivity).
  rewrite <- E in Hin. apply filter_In in Hin. destruct Hin as [Hin Ek]. simpl in Ek. apply Nat.eqb_eq in Ek. subst k.
  pose proof (i_ref s I d h Hin) as R. rewrite Hi in R. discriminate.
Qed.

Lemma lupd_id (f : hid -> hstate) h x : f h = x -> forall k, lupd f h x k = f k.
Proof. intros E k. unfold lupd. destruct (Nat.eqb k h) eqn:Ek; [apply Nat.eqb_eq in Ek; subst k; symmetry; exact E | reflexivity]. Qed.

(* what a quiescent fork does to the state: nothing (the topology already says where the twin lives) *)
Lemma quiescent_fork_inherits_nothing s h h' s' :
  inv s -> l_h s h = HIdle -> step s (LFork h h') = Some s' ->
  l_open s' = l_open s /\ l_next s' = l_next s /\ l_owner s' = l_owner s /\ forall k, l_h s' k = l_h s k.
Proof.
  intros I Hi St. simpl in St. destruct (l_h s h') eqn:Eh'; try discriminate. rewrite Hi in St.
  destruct (negb (Nat.eqb (proc h) (proc h')) && negb (has_refs (l_open s) h')); [|discriminate].
  inversion St; subst s'; clear St. simpl. rewrite (inherited_idle s h h' I Hi), app_nil_r.
  repeat split. apply lupd_id. exact Eh'.
Qed.

Lemma inv_ext s s' :
  inv s -> l_open s' = l_open s -> l_next s' = l_next s -> l_owner s' = l_owner s -> (forall k, l_h s' k = l_h s k) -> inv s'.
Proof.
  intros I E1 E2 E3 E4. constructor; rewrite ?E1, ?E2, ?E3; try apply I.
  - intros h d. rewrite E4. apply I.
  - intros d h Hin. rewrite E4. apply I. exact Hin.
  - intros o Eo. destruct (i_owner s I o Eo) as [d [h [-> Hh]]]. exists d, h. rewrite E4. auto.
  - intros h d. rewrite E4. apply I.
Qed.

Lemma inv_step s e s' : inv s -> fork_quiescent s e -> step s e = Some s' -> inv s'.
Proof.
  intros I Q St. destruct e as [h k|p|h h'].
  2: { (* LKill *)
    simpl in St. inversion St; subst s'; clear St. unfold refs_after_kill. constructor; simpl.
    + intros d h Hin. apply filter_In in Hin. apply I with h. apply Hin.
    + apply nodup_fst_filter. apply I.
    + intros h d Hd. destruct (in_proc proc p h) eqn:Ep; [discriminate|].
      apply filter_In. split; [apply I; exact Hd | simpl; rewrite Ep; reflexivity].
    + intros d h Hin. apply filter_In in Hin. destruct Hin as [Hin Ep]. simpl in Ep. apply negb_true_iff in Ep. rewrite Ep.
      apply I. exact Hin.
    + intros o Eo. unfold owner_after_kill, refs_after_kill in Eo. destruct (l_owner s) as [o0|] eqn:Eo0; [|discriminate].
      destruct (i_owner s I o0 Eo0) as [d0 [h0 [-> Hh0]]].
      rewrite (still_open_filter_unique _ (l_open s) d0 h0 (i_nodup s I)) in Eo by (apply I; rewrite Hh0; reflexivity).
      simpl in Eo. destruct (in_proc proc p h0) eqn:Ep; [discriminate|]. inversion Eo; subst o.
      exists d0, h0. split; [reflexivity|]. rewrite Ep. exact Hh0.
    + intros h d Hd. destruct (in_proc proc p h) eqn:Ep; [discriminate|].
      unfold owner_after_kill, refs_after_kill. rewrite (i_held s I h d Hd).
      rewrite (still_open_filter_unique _ (l_open s) d h (i_nodup s I)) by (apply I; rewrite Hd; reflexivity).
      simpl. rewrite Ep. reflexivity. }
  2: { (* LFork: quiescent, nothing is inherited *)
    simpl in Q. destruct (quiescent_fork_inherits_nothing s h h' s' I Q St) as [E1 [E2 [E3 E4]]].
    exact (inv_ext s s' I E1 E2 E3 E4). }
  simpl in St.
  destruct k as [|ok| | |]; destruct (l_h s h) as [|d|d|d|d|] eqn:Eh; try discriminate.
  + (* KOpen *)
    inversion St; subst s'; clear St. constructor; simpl.
    * intros d h' [E|Hin]; [inversion E; lia | pose proof (i_lt s I d h' Hin); lia].
    * constructor; [|apply I]. intro Hin. apply in_map_iff in Hin. destruct Hin as [[d' h'] [E Hin]]. simpl in E. subst d'.
      pose proof (i_lt s I _ _ Hin). lia.
    * intros h' d Hd. destruct (Nat.eq_dec h' h) as [->|N].
      -- rewrite lupd_same in Hd. inversion Hd; subst. left. reflexivity.
      -- rewrite lupd_other in Hd by exact N. right. apply I. exact Hd.
    * intros d h' [E|Hin].
      -- inversion E; subst. rewrite lupd_same. reflexivity.
      -- destruct (Nat.eq_dec h' h) as [->|N].
         ++ pose proof (i_ref s I d h Hin) as R. rewrite Eh in R. discriminate.
         ++ rewrite lupd_other by exact N. apply I. exact Hin.
    * intros o Eo. destruct (i_owner s I o Eo) as [d0 [h0 [-> Hh0]]]. exists d0, h0. split; [reflexivity|].
      rewrite lupd_other; [exact Hh0|]. intros ->. rewrite Eh in Hh0. discriminate.
    * intros h' d Hd. destruct (Nat.eq_dec h' h) as [->|N].
      -- rewrite lupd_same in Hd. discriminate.
      -- rewrite lupd_other in Hd by exact N. apply I with h'. exact Hd.
  + (* KTry *)
    destruct (Bool.eqb ok (grants ByDescription proc (l_owner s) d h)) eqn:Eg; [|discriminate].
    apply eqb_prop in Eg. destruct ok.
    * (* granted: nobody owned it *)
      assert (On : l_owner s = None).
      { destruct (l_owner s) as [o|] eqn:Eo; [|reflexivity]. exfalso.
        destruct (i_owner s I o Eo) as [d0 [h0 [-> Hh0]]]. simpl in Eg. symmetry in Eg. apply Nat.eqb_eq in Eg. subst d0.
        assert (h0 = h) by (apply (fd_unique s h0 h d I); [rewrite Hh0 | rewrite Eh]; reflexivity).
        subst h0. rewrite Eh in Hh0. discriminate. }
      inversion St; subst s'; clear St. constructor; simpl.
      -- apply I.
      -- apply I.
      -- intros h' d' Hd. destruct (Nat.eq_dec h' h) as [->|N].
         ++ rewrite lupd_same in Hd. apply I. rewrite Eh. exact Hd.
         ++ rewrite lupd_other in Hd by exact N. apply I. exact Hd.
      -- intros d' h' Hin. destruct (Nat.eq_dec h' h) as [->|N].
         ++ rewrite lupd_same. pose proof (i_ref s I d' h Hin) as R. rewrite Eh in R. exact R.
         ++ rewrite lupd_other by exact N. apply I. exact Hin.
      -- intros o Eo. inversion Eo; subst o. exists d, h. split; [reflexivity | apply lupd_same].
      -- intros h' d' Hd. destruct (Nat.eq_dec h' h) as [->|N].
         ++ rewrite lupd_same in Hd. inversion Hd; subst. reflexivity.
         ++ rewrite lupd_other in Hd by exact N. pose proof (i_held s I h' d' Hd) as Ho. rewrite On in Ho. discriminate.
    * (* refused *)
      inversion St; subst s'; clear St. constructor; simpl.
      -- apply I.
      -- apply I.
      -- intros h' d' Hd. destruct (Nat.eq_dec h' h) as [->|N].
         ++ rewrite lupd_same in Hd. apply I. rewrite Eh. exact Hd.
         ++ rewrite lupd_other in Hd by exact N. apply I. exact Hd.
      -- intros d' h' Hin. destruct (Nat.eq_dec h' h) as [->|N].
         ++ rewrite lupd_same. pose proof (i_ref s I d' h Hin) as R. rewrite Eh in R. exact R.
         ++ rewrite lupd_other by exact N. apply I. exact Hin.
      -- intros o Eo. destruct (i_owner s I o Eo) as [d0 [h0 [-> Hh0]]]. exists d0, h0. split; [reflexivity|].
         rewrite lupd_other; [exact Hh0|]. intros ->. rewrite Eh in Hh0. discriminate.
      -- intros h' d' Hd. destruct (Nat.eq_dec h' h) as [->|N].
         ++ rewrite lupd_same in Hd. discriminate.
         ++ rewrite lupd_other in Hd by exact N. apply I with h'. exact Hd.
  + (* KCloseRefused *)
    assert (Hin0 : In (d, h) (l_open s)) by (apply I; rewrite Eh; reflexivity).
    assert (R : close_release ByDescription proc (l_owner s) (close_ref (l_open s) d h) d h = l_owner s).
    { apply close_release_not_holder; [exact I | rewrite Eh; reflexivity | intros d'; rewrite Eh; discriminate]. }
    unfold close_release in R. inversion St; subst s'; clear St. constructor; cbn [l_open l_next l_owner l_h].
    * intros d' h' Hin. apply in_close_ref in Hin. apply I with h'. apply Hin.
    * apply nodup_fst_filter. apply I.
    * intros h' d' Hd. destruct (Nat.eq_dec h' h) as [->|N].
      -- rewrite lupd_same in Hd. discriminate.
      -- rewrite lupd_other in Hd by exact N. apply in_close_ref. split; [apply I; exact Hd|]. intros [_ E]. contradiction.
    * intros d' h' Hin. apply (in_close_ref_nodup _ d h d' h' (i_nodup s I) Hin0) in Hin. destruct Hin as [Hin Nd].
      destruct (Nat.eq_dec h' h) as [->|N].
      -- pose proof (i_ref s I d' h Hin) as R'. rewrite Eh in R'. inversion R'. congruence.
      -- rewrite lupd_other by exact N. apply I. exact Hin.
    * rewrite R. intros o Eo. destruct (i_owner s I o Eo) as [d0 [h0 [-> Hh0]]]. exists d0, h0. split; [reflexivity|].
      rewrite lupd_other; [exact Hh0|]. intros ->. rewrite Eh in Hh0. discriminate.
    * rewrite R. intros h' d' Hd. destruct (Nat.eq_dec h' h) as [->|N].
      -- rewrite lupd_same in Hd. discriminate.
      -- rewrite lupd_other in Hd by exact N. apply I with h'. exact Hd.
  + (* KUnlock *)
    assert (R : release_by ByDescription proc (l_owner s) d h = None).
    { unfold release_by. rewrite (i_held s I h d Eh). simpl. rewrite Nat.eqb_refl. reflexivity. }
    inversion St; subst s'; clear St. constructor; simpl.
    * apply I.
    * apply I.
    * intros h' d' Hd. destruct (Nat.eq_dec h' h) as [->|N].
      -- rewrite lupd_same in Hd. apply I. rewrite Eh. exact Hd.
      -- rewrite lupd_other in Hd by exact N. apply I. exact Hd.
    * intros d' h' Hin. destruct (Nat.eq_dec h' h) as [->|N].
      -- rewrite lupd_same. pose proof (i_ref s I d' h Hin) as R'. rewrite Eh in R'. exact R'.
      -- rewrite lupd_other by exact N. apply I. exact Hin.
    * rewrite R. intros o Eo. discriminate.
    * intros h' d' Hd. destruct (Nat.eq_dec h' h) as [->|N].
      -- rewrite lupd_same in Hd. discriminate.
      -- rewrite lupd_other in Hd by exact N. exfalso. apply N.
         pose proof (i_held s I h' d' Hd) as O1. pose proof (i_held s I h d Eh) as O2. rewrite O1 in O2. inversion O2; subst d'.
         apply (fd_unique s h' h d I); [rewrite Hd | rewrite Eh]; reflexivity.
  + (* KClose *)
    assert (Hin0 : In (d, h) (l_open s)) by (apply I; rewrite Eh; reflexivity).
    assert (R : close_release ByDescription proc (l_owner s) (close_ref (l_open s) d h) d h = l_owner s).
    { apply close_release_not_holder; [exact I | rewrite Eh; reflexivity | intros d'; rewrite Eh; discriminate]. }
    unfold close_release in R. inversion St; subst s'; clear St. constructor; cbn [l_open l_next l_owner l_h].
    * intros d' h' Hin. apply in_close_ref in Hin. apply I with h'. apply Hin.
    * apply nodup_fst_filter. apply I.
    * intros h' d' Hd. destruct (Nat.eq_dec h' h) as [->|N].
      -- rewrite lupd_same in Hd. discriminate.
      -- rewrite lupd_other in Hd by exact N. apply in_close_ref. split; [apply I; exact Hd|]. intros [_ E]. contradiction.
    * intros d' h' Hin. apply (in_close_ref_nodup _ d h d' h' (i_nodup s I) Hin0) in Hin. destruct Hin as [Hin Nd].
      destruct (Nat.eq_dec h' h) as [->|N].
      -- pose proof (i_ref s I d' h Hin) as R'. rewrite Eh in R'. inversion R'. congruence.
      -- rewrite lupd_other by exact N. apply I. exact Hin.
    * rewrite R. intros o Eo. destruct (i_owner s I o Eo) as [d0 [h0 [-> Hh0]]]. exists d0, h0. split; [reflexivity|].
      rewrite lupd_other; [exact Hh0|]. intros ->. rewrite Eh in Hh0. discriminate.
    * rewrite R. intros h' d' Hd. destruct (Nat.eq_dec h' h) as [->|N].
      -- rewrite lupd_same in Hd. discriminate.
      -- rewrite lupd_other in Hd by exact N. apply I with h'. exact Hd.
Qed.

Lemma inv_step_skip s e : inv s -> fork_quiescent s e -> inv (lstep_skip ByDescription proc s e).
Proof.
  intros I Q. unfold lstep_skip. destruct (step s e) as [s'|] eqn:E; [exact (inv_step s e s' I Q E) | exact I].
Qed.

Lemma inv_run evs : forall s, inv s -> forks_quiescent ByDescription proc s evs -> inv (run s evs).
Proof.
  induction evs as [|e evs IH]; intros s I Q; simpl; [exact I|]. destruct Q as [Q1 Q2].
  apply IH; [apply inv_step_skip; assumption | exact Q2].
Qed.

Lemma reach_inv evs : forks_quiescent ByDescription proc linit evs -> inv (run linit evs).
Proof. apply inv_run. apply inv_init. Qed.

(* ---- consequences of the invariant *)
Lemma inv_exclusive s h1 h2 : inv s -> lholds s h1 -> lholds s h2 -> h1 = h2.
Proof.
  intros I [d1 H1] [d2 H2].
  pose proof (i_held s I h1 d1 H1) as O1. pose proof (i_held s I h2 d2 H2) as O2. rewrite O1 in O2. inversion O2; subst d2.
  apply (fd_unique s h1 h2 d1 I); [rewrite H1 | rewrite H2]; reflexivity.
Qed.

(* the handle's flag and the kernel agree: a handle believes it lholds iff its description is the kernel's owner *)
Lemma inv_flag_iff_view s h : inv s -> (lholds s h <-> lock_view s = Some h).
Proof.
  intro I. unfold lock_view. split.
  - intros [d Hd]. rewrite (i_held s I h d Hd). apply opener_in; [apply I | apply I; rewrite Hd; reflexivity].
  - intro V. destruct (l_owner s) as [o|] eqn:Eo; [|discriminate].
    destruct (i_owner s I o Eo) as [d0 [h0 [-> Hh0]]].
    assert (Op : opener (l_open s) d0 = Some h0) by (apply opener_in; [apply I | apply I; rewrite Hh0; reflexivity]).
    rewrite Op in V. inversion V; subst h0. exists d0. exact Hh0.
Qed.

Lemma view_none s : inv s -> (lock_view s = None <-> forall h, ~ lholds s h).
Proof.
  intro I. split.
  - intros V h Hh. apply (inv_flag_iff_view s h I) in Hh. rewrite V in Hh. discriminate.
  - intro N. destruct (lock_view s) as [h|] eqn:V; [|reflexivity]. exfalso. apply (N h). apply (inv_flag_iff_view s h I). exact V.
Qed.

Lemma view_eq s s' : inv s -> inv s' -> (forall h, lholds s h <-> lholds s' h) -> lock_view s' = lock_view s.
Proof.
  intros I I' Hh. destruct (lock_view s) as [h|] eqn:V.
  - apply (inv_flag_iff_view s' h I'). apply Hh. apply (inv_flag_iff_view s h I). exact V.
  - apply (view_none s' I'). intros h H'. apply Hh in H'. apply (inv_flag_iff_view s h I) in H'. rewrite V in H'. discriminate.
Qed.

Lemma lholds_upd_other s h x k (o : list (fdn * hid)) n ow :
  k <> h -> (lholds {| l_open := o; l_next := n; l_owner := ow; l_h := lupd (l_h s) h x |} k <-> lholds s k).
Proof. intro N. unfold lholds. simpl. rewrite lupd_other by exact N. tauto. Qed.

(* a step that changes the state of handle h only, between two non-holding states, changes nobody's belief *)
Lemma lholds_same_when_not_held s h x (o : list (fdn * hid)) n ow :
  (forall d, l_h s h <> HHeld d) -> (forall d, x <> HHeld d) ->
  forall k, lholds s k <-> lholds {| l_open := o; l_next := n; l_owner := ow; l_h := lupd (l_h s) h x |} k.
Proof.
  intros N1 N2 k. destruct (Nat.eq_dec k h) as [->|N].
  - unfold lholds. simpl. rewrite lupd_same. split; intros [d Hd]; exfalso; [exact (N1 d Hd) | exact (N2 d Hd)].
  - symmetry. apply lholds_upd_other. exact N.
Qed.

Lemma step_view_effect s e s' : inv s -> fork_quiescent s e -> step s e = Some s' -> view_effect proc s e s'.
Proof.
  intros I Q St. pose proof (inv_step s e s' I Q St) as I'.
  destruct e as [h k|p|h h'].
  3: { (* LFork: quiescent, the state is the same *)
    simpl in Q. destruct (quiescent_fork_inherits_nothing s h h' s' I Q St) as [E1 [E2 [E3 E4]]].
    simpl. unfold lock_view. rewrite E1, E3. reflexivity. }
  all: simpl in St.
  - destruct k as [|ok| | |]; destruct (l_h s h) as [|d|d|d|d|] eqn:Eh; try discriminate.
    + (* KOpen *)
      inversion St; subst s'. simpl. apply view_eq; [exact I | exact I' |].
      apply lholds_same_when_not_held; [intro; rewrite Eh|intro]; discriminate.
    + (* KTry *)
      destruct (Bool.eqb ok (grants ByDescription proc (l_owner s) d h)) eqn:Eg; [|discriminate].
      apply eqb_prop in Eg. destruct ok.
      * inversion St; subst s'. simpl. split.
        -- apply (view_none s I). intros h0 [d0 Hh0]. pose proof (i_held s I h0 d0 Hh0) as Ho. rewrite Ho in Eg. simpl in Eg.
           symmetry in Eg. apply Nat.eqb_eq in Eg. subst d0.
           assert (h0 = h) by (apply (fd_unique s h0 h d I); [rewrite Hh0 | rewrite Eh]; reflexivity).
           subst h0. rewrite Eh in Hh0. discriminate.
        -- apply (inv_flag_iff_view _ h I'). exists d. simpl. apply lupd_same.
      * inversion St; subst s'. simpl. split.
        -- destruct (l_owner s) as [o|] eqn:Eo; [|discriminate Eg].
           destruct (i_owner s I o Eo) as [d0 [h0 [-> Hh0]]]. exists h0. split.
           ++ intros ->. rewrite Eh in Hh0. discriminate.
           ++ apply (inv_flag_iff_view s h0 I). exists d0. exact Hh0.
        -- reflexivity.
    + (* KCloseRefused *)
      inversion St; subst s'. simpl. apply view_eq; [exact I | exact I' |].
      apply lholds_same_when_not_held; [intro; rewrite Eh|intro]; discriminate.
    + (* KUnlock *)
      inversion St; subst s'. simpl. split.
      * apply (inv_flag_iff_view s h I). exists d. exact Eh.
      * unfold lock_view. simpl. unfold release_by. rewrite (i_held s I h d Eh). simpl. rewrite Nat.eqb_refl. reflexivity.
    + (* KClose *)
      inversion St; subst s'. simpl. apply view_eq; [exact I | exact I' |].
      apply lholds_same_when_not_held; [intro; rewrite Eh|intro]; discriminate.
  - (* LKill *)
    inversion St; subst s'. simpl.
    destruct (lock_view s) as [h|] eqn:V.
    + apply (inv_flag_iff_view s h I) in V. destruct V as [d Hd]. destruct (in_proc proc p h) eqn:Ep.
      * apply (view_none _ I'). intros h0 [d0 Hh0]. simpl in Hh0. destruct (in_proc proc p h0) eqn:Ep0; [discriminate|].
        assert (h0 = h) by (apply (inv_exclusive s h0 h I); [exists d0; exact Hh0 | exists d; exact Hd]).
        subst h0. rewrite Ep in Ep0. discriminate.
      * apply (inv_flag_iff_view _ h I'). exists d. simpl. rewrite Ep. exact Hd.
    + apply (view_none _ I'). intros h0 [d0 Hh0]. simpl in Hh0. destruct (in_proc proc p h0) eqn:Ep0; [discriminate|].
      apply (proj1 (view_none s I) V h0). exists d0. exact Hh0.
Qed.

(* a holder stays the holder through every event but its own unlock and the death of its own process *)
Lemma step_keeps_holder s e s' h :
  step s e = Some s' -> lholds s h -> e <> LStep h KUnlock -> e <> LKill (proc h) -> lholds s' h.
Proof.
  intros St [d Hd] N1 N2. destruct e as [h0 k|p|h0 h']; simpl in St.
  3: { (* LFork: the twin is a new (idle) handle, not the holder *)
    destruct (l_h s h') eqn:Eh'; try discriminate.
    assert (Nh : h <> h') by (intros ->; rewrite Hd in Eh'; discriminate).
    exists d. destruct (l_h s h0); try discriminate;
      (destruct (negb (Nat.eqb (proc h0) (proc h')) && negb (has_refs (l_open s) h')); [|discriminate]);
      inversion St; subst s'; simpl; rewrite lupd_other by exact Nh; exact Hd. }
  - destruct (Nat.eq_dec h0 h) as [->|N].
    + rewrite Hd in St. destruct k as [|ok| | |]; try discriminate. exfalso. apply N1. reflexivity.
    + exists d.
      destruct k as [|ok| | |]; destruct (l_h s h0) as [|d0|d0|d0|d0|]; try discriminate;
        try (inversion St; subst s'; simpl; rewrite lupd_other by (intro; subst; apply N; reflexivity); exact Hd).
      destruct (Bool.eqb ok (grants ByDescription proc (l_owner s) d0 h0)); [|discriminate].
      destruct ok; inversion St; subst s'; simpl; (rewrite lupd_other by (intro; subst; apply N; reflexivity)); exact Hd.
  - inversion St; subst s'. exists d. simpl. unfold in_proc. destruct (Nat.eqb (proc h) p) eqn:E; [|exact Hd].
    apply Nat.eqb_eq in E. subst p. exfalso. apply N2. reflexivity.
Qed.

(* from a state where the handle is idle and nobody lholds, the granted path of the attempt is enabled and ends holding *)
Lemma free_lock_is_granted s h :
  inv s -> l_h s h = HIdle -> lock_view s = None ->
  exists s', lrun_strict ByDescription proc s (map (LStep h) attempt_granted_events) 0 = inl s' /\ lholds s' h /\ lock_view s' = Some h.
Proof.
  intros I Hi V.
  assert (On : l_owner s = None).
  { destruct (l_owner s) as [o|] eqn:Eo; [|reflexivity]. exfalso.
    destruct (i_owner s I o Eo) as [d0 [h0 [-> Hh0]]].
    assert (lock_view s = Some h0) by (apply (inv_flag_iff_view s h0 I); exists d0; exact Hh0). congruence. }
  simpl. rewrite Hi. simpl. rewrite lupd_same. rewrite On. simpl. eexists. split; [reflexivity|].
  assert (Hh : lholds {| l_open := (l_next s, h) :: l_open s; l_next := S (l_next s); l_owner := Some (OwnD (l_next s));
                        l_h := lupd (lupd (l_h s) h (HOpened (l_next s))) h (HHeld (l_next s)) |} h).
  { exists (l_next s). simpl. apply lupd_same. }
  split; [exact Hh|].
  unfold lock_view. simpl. rewrite Nat.eqb_refl. reflexivity.
Qed.

End Topology.

(* ---- the handle program of the model is the regenerated skeleton of FileLock *)
Lemma attempt_granted_regenerated : flat_map lactions_of attempt_granted_events = gen_attempt_granted.
Proof. reflexivity. Qed.
Lemma attempt_refused_regenerated : flat_map lactions_of attempt_refused_events = gen_attempt_refused.
Proof. reflexivity. Qed.
Lemma release_regenerated : flat_map lactions_of release_events = gen_release.
Proof. reflexivity. Qed.

(* ---- statements over the REGENERATED discipline, for every topology and every event list whose forks are quiescent *)
Lemma gen_lock_exclusive : forall proc evs h1 h2, forks_quiescent gen_lock_disc proc linit evs ->
  let s := lrun gen_lock_disc proc linit evs in lholds s h1 -> lholds s h2 -> h1 = h2.
Proof.
  intros proc evs h1 h2. rewrite gen_disc_is_by_description. intro Q. apply inv_exclusive. apply (reach_inv proc). exact Q.
Qed.

Lemma gen_lock_flag_is_view : forall proc evs h, forks_quiescent gen_lock_disc proc linit evs ->
  let s := lrun gen_lock_disc proc linit evs in lholds s h <-> lock_view s = Some h.
Proof.
  intros proc evs h. rewrite gen_disc_is_by_description. intro Q. apply inv_flag_iff_view. apply (reach_inv proc). exact Q.
Qed.

Lemma gen_lock_refines_excl : forall proc evs e s', forks_quiescent gen_lock_disc proc linit evs ->
  let s := lrun gen_lock_disc proc linit evs in
  fork_quiescent s e -> lstep gen_lock_disc proc s e = Some s' -> view_effect proc s e s'.
Proof.
  intros proc evs e s'. rewrite gen_disc_is_by_description. intro Q. apply step_view_effect. apply reach_inv. exact Q.
Qed.

Lemma gen_lock_keeps_holder : forall proc evs e s' h, forks_quiescent gen_lock_disc proc linit evs ->
  let s := lrun gen_lock_disc proc linit evs in
  fork_quiescent s e -> lstep gen_lock_disc proc s e = Some s' -> lholds s h -> e <> LStep h KUnlock -> e <> LKill (proc h) ->
  lholds s' h /\ lock_view s' = Some h.
Proof.
  intros proc evs e s' h. rewrite gen_disc_is_by_description. intros Q s Qe St Hh N1 N2.
  assert (H' : lholds s' h) by (apply (step_keeps_holder proc s e s' h St Hh N1 N2)).
  split; [exact H'|].
  apply (inv_flag_iff_view s' h); [|exact H'].
  apply (inv_step proc s e s'); [apply reach_inv; exact Q | exact Qe | exact St].
Qed.

Lemma gen_lock_free_is_granted : forall proc evs h, forks_quiescent gen_lock_disc proc linit evs ->
  let s := lrun gen_lock_disc proc linit evs in
  l_h s h = HIdle -> lock_view s = None ->
  exists s', lrun_strict gen_lock_disc proc s (map (LStep h) attempt_granted_events) 0 = inl s' /\ lholds s' h /\ lock_view s' = Some h.
Proof.
  intros proc evs h. rewrite gen_disc_is_by_description. intro Q. apply free_lock_is_granted. apply reach_inv. exact Q.
Qed.

Lemma gen_lock_refinement : forall (proc : hid -> pid) evs, forks_quiescent gen_lock_disc proc linit evs ->
  let s := lrun gen_lock_disc proc linit evs in
  (forall h, lholds s h <-> lock_view s = Some h)
  /\ (forall e s', fork_quiescent s e -> lstep gen_lock_disc proc s e = Some s' -> view_effect proc s e s').
Proof.
  intros proc evs Q s. split; [intro h; exact (gen_lock_flag_is_view proc evs h Q) | intros e s'; exact (gen_lock_refines_excl proc evs e s' Q)].
Qed.

(* an idle handle of the regenerated program holds no descriptor of the lock file, so a worker forked while its
   parent's handle is idle inherits nothing: the fork changes no descriptor table, no owner, no handle state *)
Lemma gen_lock_fork_inherits_nothing : forall (proc : hid -> pid) evs, forks_quiescent gen_lock_disc proc linit evs ->
  let s := lrun gen_lock_disc proc linit evs in
  (forall h d, l_h s h = HIdle -> ~ In (d, h) (l_open s))
  /\ (forall h h' s', l_h s h = HIdle -> lstep gen_lock_disc proc s (LFork h h') = Some s' ->
        l_open s' = l_open s /\ l_next s' = l_next s /\ l_owner s' = l_owner s /\ forall k, l_h s' k = l_h s k).
Proof.
  intros proc evs. rewrite gen_disc_is_by_description. intros Q s.
  pose proof (reach_inv proc evs Q) as I. fold s in I. split.
  - intros h d Hi Hin. pose proof (i_ref s I d h Hin) as R. rewrite Hi in R. discriminate.
  - intros h h' s' Hi St. exact (quiescent_fork_inherits_nothing proc s h h' s' I Hi St).
Qed.

Lemma gen_lock_skeleton :
  gen_lock_disc = ByDescription /\ gen_fence_is_flag = true
  /\ flat_map lactions_of attempt_granted_events = gen_attempt_granted
  /\ flat_map lactions_of attempt_refused_events = gen_attempt_refused
  /\ flat_map lactions_of release_events = gen_release
  /\ (forall (proc : hid -> pid) evs h, forks_quiescent gen_lock_disc proc linit evs ->
        let s := lrun gen_lock_disc proc linit evs in
        l_h s h = HIdle -> lock_view s = None ->
        exists s', lrun_strict gen_lock_disc proc s (map (LStep h) attempt_granted_events) 0 = inl s'
                   /\ lholds s' h /\ lock_view s' = Some h).
Proof.
  split; [exact gen_disc_is_by_description|]. split; [reflexivity|].
  split; [exact attempt_granted_regenerated|]. split; [exact attempt_refused_regenerated|].
  split; [exact release_regenerated | exact gen_lock_free_is_granted].
Qed.
