(* Proofs/PyStrProofs.v -- lemmas about the Python string functions of Model/PyStr.v *)
From Coq Require Import String Ascii List Bool Arith Lia.
Require Import DS.Model.PyStr.
Import ListNotations.
Open Scope string_scope.

Lemma ascii_eqb_refl : forall a, Ascii.eqb a a = true.
Proof. intro a. apply Ascii.eqb_eq. reflexivity. Qed.

Lemma lstrip_c_cons_same : forall c s, lstrip_c c (String c s) = lstrip_c c s.
Proof. intros. simpl. rewrite ascii_eqb_refl. reflexivity. Qed.

Lemma lstrip_c_cons_other : forall c a s, Ascii.eqb a c = false -> lstrip_c c (String a s) = String a s.
Proof. intros c a s H. simpl. rewrite H. reflexivity. Qed.

Lemma lstrip_c_idem : forall c s, lstrip_c c (lstrip_c c s) = lstrip_c c s.
Proof.
  intros c s. induction s as [|a r IH]; simpl; [reflexivity|].
  destruct (Ascii.eqb a c) eqn:E; [exact IH|]. simpl. rewrite E. reflexivity.
Qed.

(* the result of lstrip never starts with the stripped character *)
Lemma lstrip_c_head : forall c s a r, lstrip_c c s = String a r -> Ascii.eqb a c = false.
Proof.
  intros c s. induction s as [|b t IH]; simpl; intros a r H; [discriminate|].
  destruct (Ascii.eqb b c) eqn:E.
  - eapply IH; eauto.
  - inversion H; subst. exact E.
Qed.

Lemma startswith_nil : forall s, startswith "" s = true.
Proof. intros. unfold startswith. destruct s; reflexivity. Qed.

Lemma startswith_cons : forall a p b s, startswith (String a p) (String b s) = Ascii.eqb a b && startswith p s.
Proof.
  intros. unfold startswith. simpl. destruct (ascii_dec a b) as [->|N].
  - rewrite ascii_eqb_refl. reflexivity.
  - apply Ascii.eqb_neq in N. rewrite N. reflexivity.
Qed.

Lemma startswith_app : forall p s, startswith p (p ++ s) = true.
Proof.
  induction p as [|a p IH]; intro s; cbn [append].
  - apply startswith_nil.
  - rewrite startswith_cons, ascii_eqb_refl. cbn [andb]. apply IH.
Qed.

Lemma startswith_spec : forall p s, startswith p s = true <-> exists r, s = p ++ r.
Proof.
  induction p as [|a p IH]; intro s.
  - split; [intros _; exists s; reflexivity| intros _; apply startswith_nil].
  - destruct s as [|b s].
    + split; [discriminate | intros [r H]; discriminate].
    + rewrite startswith_cons. split.
      * intro H. apply andb_true_iff in H. destruct H as [H1 H2]. apply Ascii.eqb_eq in H1. subst b.
        apply IH in H2. destruct H2 as [r ->]. exists r. reflexivity.
      * intros [r H]. simpl in H. inversion H; subst. rewrite ascii_eqb_refl. simpl. apply IH. exists r; reflexivity.
Qed.

Lemma startswith_trans_app : forall p q s, startswith (p ++ q) s = true -> startswith p s = true.
Proof.
  intros p q s H. apply startswith_spec in H. destruct H as [r ->]. apply startswith_spec. exists (q ++ r).
  clear. induction p; simpl; [reflexivity|]. f_equal. exact IHp.
Qed.

Lemma append_assoc : forall a b c : string, (a ++ b) ++ c = a ++ (b ++ c).
Proof. induction a; intros; simpl; [reflexivity|]. f_equal. apply IHa. Qed.

Lemma append_nil_r : forall a : string, a ++ "" = a.
Proof. induction a; simpl; [reflexivity|]. f_equal. exact IHa. Qed.

Lemma length_append : forall a b : string, String.length (a ++ b) = String.length a + String.length b.
Proof. induction a; intros; simpl; [reflexivity|]. f_equal. apply IHa. Qed.

Lemma py_take_app : forall a b, py_take (String.length a) (a ++ b) = a.
Proof. induction a; intros; simpl; [reflexivity|]. f_equal. apply IHa. Qed.

Lemma py_drop_app : forall a b, py_drop (String.length a) (a ++ b) = b.
Proof. induction a; intros; simpl; [reflexivity|]. apply IHa. Qed.

(* (s + x)[: -len(x)] = s for a non-empty x *)
Lemma py_drop_end_app : forall s x, x <> "" -> py_drop_end (String.length x) (s ++ x) = s.
Proof.
  intros s x Hx. unfold py_drop_end. destruct (String.length x) eqn:E.
  - destruct x; [contradiction|discriminate].
  - rewrite length_append, E. replace (String.length s + S n - S n) with (String.length s) by lia.
    apply py_take_app.
Qed.

Lemma string_eqb_refl : forall s, String.eqb s s = true.
Proof. intro. apply String.eqb_eq. reflexivity. Qed.

Lemma endswith_app : forall s x, endswith x (s ++ x) = true.
Proof.
  intros s x. unfold endswith. rewrite length_append.
  replace (String.length s + String.length x - String.length x) with (String.length s) by lia.
  rewrite py_drop_app, string_eqb_refl, andb_true_r. apply Nat.leb_le. lia.
Qed.

Lemma endswith_spec : forall x s, endswith x s = true -> exists r, s = r ++ x.
Proof.
  intros x s H. unfold endswith in H. apply andb_true_iff in H. destruct H as [H1 H2].
  apply String.eqb_eq in H2. exists (py_take (String.length s - String.length x) s).
  rewrite <- H2 at 2. clear. generalize (String.length s - String.length x) as n. intro n. revert s.
  induction n; intro s; simpl; [reflexivity|]. destruct s; simpl; [reflexivity|]. f_equal. apply IHn.
Qed.

Lemma has_char_app : forall c a b, has_char c (a ++ b) = has_char c a || has_char c b.
Proof. induction a; intros; simpl; [reflexivity|]. rewrite IHa. apply orb_assoc. Qed.

(* (dir + "/" + name).rsplit("/", 1)[-1] = name when name has no "/" *)
Lemma basename_join : forall dir name, has_char slash name = false -> basename (dir ++ String slash name) = name.
Proof.
  induction dir as [|a d IH]; intros name H; simpl.
  - rewrite H. reflexivity.
  - rewrite has_char_app. cbn [has_char]. rewrite ascii_eqb_refl. cbn [orb]. rewrite orb_true_r. apply IH. exact H.
Qed.

Lemma basename_no_slash : forall s, has_char slash (basename s) = false.
Proof.
  induction s as [|a r IH]; simpl; [reflexivity|].
  destruct (has_char slash r) eqn:E; [exact IH|].
  destruct (Ascii.eqb a slash) eqn:E2; [exact E|]. simpl. rewrite E2, E. reflexivity.
Qed.

Lemma str_mem_In : forall k l, str_mem k l = true <-> In k l.
Proof.
  intros k l. unfold str_mem. rewrite existsb_exists. split.
  - intros [x [H1 H2]]. apply String.eqb_eq in H2. subst. exact H1.
  - intro H. exists k. split; [exact H|apply string_eqb_refl].
Qed.

Lemma str_mem_false : forall k l, str_mem k l = false <-> ~ In k l.
Proof.
  intros k l. split.
  - intros H HI. apply str_mem_In in HI. congruence.
  - intro H. destruct (str_mem k l) eqn:E; [|reflexivity]. apply str_mem_In in E. contradiction.
Qed.
