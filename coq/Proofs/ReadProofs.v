(* Proofs/ReadProofs.v -- lemmas about Model/Read.v (property C14).
   Structure: (1) monad and primitive facts; (2) soundness of every stage: a stage that returns Ok
   has read exactly what the specification side says is there, and was not flaky at any call site it
   exercised; (3) the property theorems, each derived from (2). *)
From Coq Require Import ZArith NArith List Bool String Lia.
Require Import DS.Gen.GenRead DS.Model.Read.
Import ListNotations.
Open Scope list_scope.
Open Scope Z_scope.

(* ---------------------------------------------------------------- basics *)
Lemma res_cases : forall A (r : res A), (exists a, r = Ok a) \/ (exists e, r = Err e).
Proof. intros A [a|e]; [left|right]; eauto. Qed.

Lemma bind_ok : forall A B (m : M A) (f : A -> M B) b,
  fst (bind m f) = Ok b -> exists a, fst m = Ok a /\ fst (f a) = Ok b.
Proof.
  intros A B m f b H. unfold bind in H. destruct (fst m) as [a|e] eqn:Hm; simpl in H.
  - exists a. split; [reflexivity|exact H].
  - discriminate.
Qed.

Lemma bind_fst_ok : forall A B (m : M A) (f : A -> M B) a, fst m = Ok a -> fst (bind m f) = fst (f a).
Proof. intros A B m f a H. unfold bind. rewrite H. reflexivity. Qed.

Lemma bind_fst_err : forall A B (m : M A) (f : A -> M B) e, fst m = Err e -> fst (bind m f) = Err e.
Proof. intros A B m f e H. unfold bind. rewrite H. reflexivity. Qed.

Lemma bind_snd_ok : forall A B (m : M A) (f : A -> M B) a, fst m = Ok a -> snd (bind m f) = snd m ++ snd (f a).
Proof. intros A B m f a H. unfold bind. rewrite H. reflexivity. Qed.

Lemma bind_snd_err : forall A B (m : M A) (f : A -> M B) e, fst m = Err e -> snd (bind m f) = snd m.
Proof. intros A B m f e H. unfold bind. rewrite H. reflexivity. Qed.

Lemma op_eqb_eq : forall a b, op_eqb a b = true <-> a = b.
Proof. intros [] []; simpl; split; intro H; try reflexivity; discriminate. Qed.

Lemma site_eqb_eq : forall a b, site_eqb a b = true <-> a = b.
Proof.
  intros [o n] [o' n']. unfold site_eqb. simpl. rewrite andb_true_iff, op_eqb_eq, Nat.eqb_eq.
  split; [intros [-> ->]; reflexivity|intro H; inversion H; auto].
Qed.

Lemma site_eqb_refl : forall s, site_eqb s s = true.
Proof. intro s. apply site_eqb_eq. reflexivity. Qed.

(* k is not transiently failing at site s *)
Definition quiet (st : store) (k : key) (s : site) : Prop := forall s' b, st k = Flaky s' b -> s' <> s.

Lemma st_exists_ok : forall st k s ex, fst (st_exists st k s) = Ok ex -> ex = present st k /\ quiet st k s.
Proof.
  intros st k s ex H. unfold st_exists, present, quiet in *. destruct (st k) as [|b|s' b] eqn:Hc; simpl in H.
  - inversion H. split; [reflexivity|intros; discriminate].
  - inversion H. split; [reflexivity|intros; discriminate].
  - destruct (site_eqb s s') eqn:Hs; simpl in H; [discriminate|]. inversion H. split; [reflexivity|].
    intros s'' b' Heq. inversion Heq; subst. intro Hx; subst. rewrite site_eqb_refl in Hs. discriminate.
Qed.

Lemma st_get_ok : forall st k s b, fst (st_get st k s) = Ok b -> cur_bytes st k = Some b /\ quiet st k s.
Proof.
  intros st k s b H. unfold st_get, cur_bytes, quiet in *. destruct (st k) as [|b0|s' b0] eqn:Hc; simpl in H.
  - discriminate.
  - inversion H. split; [reflexivity|intros; discriminate].
  - destruct (site_eqb s s') eqn:Hs; simpl in H; [discriminate|]. inversion H. split; [reflexivity|].
    intros s'' b' Heq. inversion Heq; subst. intro Hx; subst. rewrite site_eqb_refl in Hs. discriminate.
Qed.

Lemma st_get_err : forall st k s e, fst (st_get st k s) = Err e ->
  (e = ENotFound /\ st k = Absent) \/ (e = EIO /\ exists b, st k = Flaky s b).
Proof.
  intros st k s e H. unfold st_get in H. destruct (st k) as [|b0|s' b0] eqn:Hc; simpl in H.
  - inversion H. left. auto.
  - discriminate.
  - destruct (site_eqb s s') eqn:Hs; simpl in H; [|discriminate]. inversion H. right. split; [reflexivity|].
    apply site_eqb_eq in Hs. subst. eauto.
Qed.

Lemma present_cur : forall st k, present st k = true <-> exists b, cur_bytes st k = Some b.
Proof.
  intros st k. unfold present, cur_bytes. destruct (st k); split; intro H; try reflexivity; eauto; try discriminate.
  destruct H as [b H]. discriminate.
Qed.

Lemma present_false : forall st k, present st k = false <-> st k = Absent.
Proof. intros st k. unfold present. destruct (st k); split; intro H; try reflexivity; discriminate. Qed.

(* ---------------------------------------------------------------- mapM *)
Lemma mapM_ok : forall A B (f : A -> M B) l ys, fst (mapM f l) = Ok ys -> Forall2 (fun x y => fst (f x) = Ok y) l ys.
Proof.
  intros A B f l. induction l as [|x tl IH]; intros ys H; simpl in H.
  - inversion H. constructor.
  - apply bind_ok in H. destruct H as [y [Hy H]]. apply bind_ok in H. destruct H as [ys' [Hys H]].
    simpl in H. inversion H; subst. constructor; [exact Hy|apply IH; exact Hys].
Qed.

Lemma mapM_err : forall A B (f : A -> M B) l x e, In x l -> fst (f x) = Err e -> exists e', fst (mapM f l) = Err e'.
Proof.
  intros A B f l x e Hin Hx. destruct (res_cases _ (fst (mapM f l))) as [[ys H]|[e' H]]; [|eauto].
  apply mapM_ok in H. exfalso. induction H as [|x0 y l0 ys0 Hxy _ IH]; [contradiction|].
  destruct Hin as [->|Hin]; [congruence|auto].
Qed.

Lemma mapM_complete : forall A B (f : A -> M B) l ys, Forall2 (fun x y => fst (f x) = Ok y) l ys -> fst (mapM f l) = Ok ys.
Proof.
  intros A B f l ys H. induction H as [|x y l0 ys0 Hxy _ IH]; [reflexivity|].
  simpl. rewrite (bind_fst_ok _ _ _ _ _ Hxy). rewrite (bind_fst_ok _ _ _ _ _ IH). reflexivity.
Qed.

Lemma par_map_fst : forall A B (f : A -> M B) l, fst (par_map f l) = fst (mapM f l).
Proof.
  intros A B f l. unfold par_map. simpl. induction l as [|x tl IH]; [reflexivity|].
  simpl. destruct (fst (f x)) as [y|e] eqn:Hx.
  - rewrite (bind_fst_ok _ _ _ _ _ Hx). rewrite IH. destruct (fst (mapM f tl)) as [ys|e] eqn:Ht.
    + rewrite (bind_fst_ok _ _ _ _ _ Ht). reflexivity.
    + rewrite (bind_fst_err _ _ _ _ _ Ht). reflexivity.
  - rewrite (bind_fst_err _ _ _ _ _ Hx). reflexivity.
Qed.

Lemma par_map_ok : forall A B (f : A -> M B) l ys, fst (par_map f l) = Ok ys -> Forall2 (fun x y => fst (f x) = Ok y) l ys.
Proof. intros A B f l ys H. rewrite par_map_fst in H. apply mapM_ok. exact H. Qed.

(* ---------------------------------------------------------------- resolve *)
Lemma st_list_ok : forall E st r x, fst (st_list E st r) = Ok x -> x = recovered E /\ quiet st METADIR (OpList, r).
Proof.
  intros E st r x H. unfold st_list, quiet in *. destruct (st METADIR) as [| b|s b] eqn:Hc; simpl in H.
  - inversion H. split; [reflexivity|intros; discriminate].
  - inversion H. split; [reflexivity|intros; discriminate].
  - destruct (site_eqb (OpList, r) s) eqn:Hs; simpl in H; [discriminate|]. inversion H. split; [reflexivity|].
    intros s' b' Heq. inversion Heq; subst. intro Hx; subst. rewrite site_eqb_refl in Hs. discriminate.
Qed.

Lemma resolve_ok : forall E st r x, fst (resolve E st r) = Ok x ->
  x = served_meta E st
  /\ (forall mk, resolved E st = Some mk ->
        quiet st mk (OpRead, r) /\ exists b md, cur_bytes st mk = Some b /\ parse_meta E b = Some md /\ x = Some md)
  /\ (forall mk, hinted E st = Some mk -> quiet st mk (OpExists, r)).
Proof.
  intros E st r x H. unfold resolve in H.
  apply bind_ok in H. destruct H as [ex [Hex H]]. apply st_exists_ok in Hex. destruct Hex as [Hex _].
  apply bind_ok in H. destruct H as [hn [Hhn H]].
  assert (Hh : hn = hinted E st).
  { unfold hinted. destruct ex.
    - apply bind_ok in Hhn. destruct Hhn as [b [Hb Hhn]]. apply st_get_ok in Hb. destruct Hb as [Hb _].
      rewrite Hb. simpl in Hhn. inversion Hhn. reflexivity.
    - simpl in Hhn. inversion Hhn. symmetry in Hex. apply present_false in Hex. unfold cur_bytes. rewrite Hex. reflexivity. }
  subst hn. apply bind_ok in H. destruct H as [tg [Htg H]].
  assert (Ht : tg = resolved E st /\ (forall mk, hinted E st = Some mk -> quiet st mk (OpExists, r))).
  { unfold resolved. destruct (hinted E st) as [mk|] eqn:Hhint.
    - apply bind_ok in Htg. destruct Htg as [ex2 [Hex2 Htg]]. apply st_exists_ok in Hex2. destruct Hex2 as [Hex2 Hq].
      rewrite <- Hex2. split; [|intros mk' Heq; inversion Heq; subst; exact Hq].
      destruct ex2; [simpl in Htg; inversion Htg; reflexivity|]. apply st_list_ok in Htg. apply Htg.
    - apply st_list_ok in Htg. split; [apply Htg|intros; discriminate]. }
  destruct Ht as [-> Hq2].
  assert (Hmain : forall mk, resolved E st = Some mk ->
            quiet st mk (OpRead, r) /\ exists b md, cur_bytes st mk = Some b /\ parse_meta E b = Some md /\ x = Some md).
  { intros mk Hmk. rewrite Hmk in H. apply bind_ok in H. destruct H as [b [Hb H]]. apply st_get_ok in Hb.
    destruct Hb as [Hb Hq]. split; [exact Hq|]. exists b.
    destruct (parse_meta E b) as [md|] eqn:Hp; simpl in H; [|discriminate]. exists md. inversion H. auto. }
  split; [|split; [exact Hmain|exact Hq2]].
  unfold served_meta. destruct (resolved E st) as [mk|] eqn:Hres; simpl.
  - destruct (Hmain mk eq_refl) as [_ [b [md [Hb [Hp ->]]]]]. rewrite Hb. simpl. rewrite Hp. reflexivity.
  - simpl in H. inversion H. reflexivity.
Qed.

(* ---------------------------------------------------------------- the Avro-then-JSON reader *)
Lemma caught_eio_cases : forall classes, caught classes (mro_of EIO) = true \/ caught classes (mro_of EIO) = false.
Proof. intro c. destruct (caught c (mro_of EIO)); auto. Qed.

Lemma two_stage_ok : forall A st k (av : bytes -> avro A) (js : bytes -> option A) classes x,
  fst (two_stage st k av js classes) = Ok x ->
  exists b, cur_bytes st k = Some b
    /\ (content av js classes b = Some x \/ (js b = Some x /\ open_fatal js classes b = false /\ st k = Flaky (OpOpen, 0%nat) b))
    /\ quiet st k (OpExists, 1%nat)
    /\ (open_fatal js classes b = true -> quiet st k (OpOpen, 0%nat))
    /\ (falls_back av classes b = true -> quiet st k (OpRead, 0%nat)).
Proof.
  intros A st k av js classes x H. unfold two_stage in H.
  apply bind_ok in H. destruct H as [ex [Hex H]]. apply st_exists_ok in Hex. destruct Hex as [Hex Hq1].
  destruct ex; simpl in H; [|discriminate].
  symmetry in Hex. apply present_cur in Hex. destruct Hex as [b Hb]. exists b. split; [exact Hb|].
  apply bind_ok in H. destruct H as [a [Ha H]].
  unfold avro_stage in Ha.
  destruct (fst (st_get st k (OpOpen, 0%nat))) as [b1|e1] eqn:Hopen.
  - apply st_get_ok in Hopen. destruct Hopen as [Hb1 Hq2]. rewrite Hb in Hb1. inversion Hb1; subst b1.
    unfold content, falls_back.
    destruct (av b) as [a0|mro] eqn:Hav; simpl in Ha.
    + inversion Ha; subst a. simpl in H. inversion H; subst x.
      split; [left; reflexivity|]. split; [exact Hq1|]. split; [intros _; exact Hq2|intro Hx; discriminate].
    + destruct (caught classes mro) eqn:Hc; simpl in Ha; [|discriminate]. inversion Ha; subst a.
      apply bind_ok in H. destruct H as [b2 [Hb2 H]]. apply st_get_ok in Hb2. destruct Hb2 as [Hb2 Hq3].
      rewrite Hb in Hb2. inversion Hb2; subst b2.
      destruct (js b) as [x0|] eqn:Hjs; simpl in H; [|discriminate]. inversion H; subst x0.
      split; [left; reflexivity|]. split; [exact Hq1|]. split; [intros _; exact Hq2|intros _; exact Hq3].
  - apply st_get_err in Hopen. destruct Hopen as [[_ Habs]|[-> [b' Hfl]]].
    + unfold cur_bytes in Hb. rewrite Habs in Hb. discriminate.
    + assert (b' = b) by (unfold cur_bytes in Hb; rewrite Hfl in Hb; inversion Hb; reflexivity). subst b'.
      destruct (caught classes (mro_of EIO)) eqn:Hc; simpl in Ha; [|discriminate]. inversion Ha; subst a.
      apply bind_ok in H. destruct H as [b2 [Hb2 H]]. apply st_get_ok in Hb2. destruct Hb2 as [Hb2 Hq3].
      rewrite Hb in Hb2. inversion Hb2; subst b2.
      destruct (js b) as [x0|] eqn:Hjs; simpl in H; [|discriminate]. inversion H; subst x0.
      assert (Hof : open_fatal js classes b = false) by (unfold open_fatal; rewrite Hc, Hjs; reflexivity).
      split; [right; split; [reflexivity|split; [exact Hof|exact Hfl]]|]. split; [exact Hq1|].
      split; [intro Hx; rewrite Hof in Hx; discriminate|intros _; exact Hq3].
Qed.

Definition quiet_sites (st : store) (k : key) (sites : list site) : Prop := forall s, In s sites -> quiet st k s.

Lemma json_content : forall A (av : bytes -> avro A) (js : bytes -> option A) classes b x,
  (forall b x, js b = Some x -> falls_back av classes b = true) -> js b = Some x -> content av js classes b = Some x.
Proof.
  intros A av js classes b x Hwf Hjs. specialize (Hwf b x Hjs). unfold falls_back, content in *.
  destruct (av b) as [a|mro]; [discriminate|]. rewrite Hwf. exact Hjs.
Qed.

(* the caller's exists() followed by the reader *)
Lemma guarded_reader_ok : forall A st k (av : bytes -> avro A) (js : bytes -> option A) classes e x,
  (forall b x, js b = Some x -> falls_back av classes b = true) ->
  fst (ex <- st_exists st k (OpExists, 0%nat) ;; if negb ex then fail e else two_stage st k av js classes) = Ok x ->
  exists b, cur_bytes st k = Some b /\ content av js classes b = Some x /\ quiet_sites st k (reader_sites av js classes b).
Proof.
  intros A st k av js classes e x Hwf H. apply bind_ok in H. destruct H as [ex [Hex H]].
  apply st_exists_ok in Hex. destruct Hex as [_ Hq0]. destruct ex; simpl in H; [|discriminate].
  apply two_stage_ok in H. destruct H as [b [Hb [Hc [Hq1 [Hq2 Hq3]]]]]. exists b. split; [exact Hb|]. split.
  - destruct Hc as [Hc|[Hjs _]]; [exact Hc|]. eapply json_content; eauto.
  - intros s Hs. unfold reader_sites in Hs. rewrite !in_app_iff in Hs. simpl in Hs.
    destruct Hs as [[<-|[<-|[]]]|[Hs|Hs]]; [exact Hq0|exact Hq1| |].
    + destruct (open_fatal js classes b); [destruct Hs as [<-|[]]; auto|contradiction].
    + destruct (falls_back av classes b); [destruct Hs as [<-|[]]; auto|contradiction].
Qed.

(* ---------------------------------------------------------------- de-duplication *)
Lemma dedupe_aux_in : forall l seen d, In d (dedupe_aux seen l) -> In d l /\ ~ In (dpath d) seen.
Proof.
  induction l as [|x tl IH]; intros seen d H; simpl in H; [contradiction|].
  destruct (existsb (N.eqb (dpath x)) seen) eqn:Hs.
  - apply IH in H. destruct H. split; [right; assumption|assumption].
  - destruct H as [<-|H].
    + split; [left; reflexivity|]. intro Hin. assert (existsb (N.eqb (dpath x)) seen = true); [|congruence].
      apply existsb_exists. exists (dpath x). split; [exact Hin|apply N.eqb_refl].
    + apply IH in H. destruct H as [H1 H2]. split; [right; exact H1|]. intro Hin. apply H2. right. exact Hin.
Qed.

Lemma dedupe_aux_nodup : forall l seen, NoDup (map dpath (dedupe_aux seen l)).
Proof.
  induction l as [|x tl IH]; intro seen; simpl; [constructor|].
  destruct (existsb (N.eqb (dpath x)) seen); [apply IH|].
  simpl. constructor; [|apply IH]. intro Hin. apply in_map_iff in Hin. destruct Hin as [d [Hd Hin]].
  apply dedupe_aux_in in Hin. destruct Hin as [_ Hn]. apply Hn. left. symmetry. exact Hd.
Qed.

Lemma dedupe_aux_covers : forall l seen d, In d l -> ~ In (dpath d) seen ->
  exists d', In d' (dedupe_aux seen l) /\ dpath d' = dpath d.
Proof.
  induction l as [|x tl IH]; intros seen d Hin Hns; [contradiction|]. simpl.
  destruct (existsb (N.eqb (dpath x)) seen) eqn:Hs.
  - destruct Hin as [->|Hin]; [|apply IH; assumption].
    exfalso. apply existsb_exists in Hs. destruct Hs as [p [Hp He]]. apply N.eqb_eq in He. subst p. contradiction.
  - destruct Hin as [->|Hin]; [exists d; split; [left; reflexivity|reflexivity]|].
    destruct (N.eq_dec (dpath d) (dpath x)) as [He|Hne].
    + exists x. split; [left; reflexivity|symmetry; exact He].
    + destruct (IH (dpath x :: seen) d Hin) as [d' [Hd' Hp]]; [intros [Hx|Hx]; [congruence|contradiction]|].
      exists d'. split; [right; exact Hd'|exact Hp].
Qed.

Lemma dedupe_covers : forall l d, In d l -> exists d', In d' (dedupe l) /\ dpath d' = dpath d.
Proof. intros l d H. apply dedupe_aux_covers; [exact H|intros []]. Qed.

Lemma dedupe_nodup : forall l, NoDup (map dpath (dedupe l)).
Proof. intro l. apply dedupe_aux_nodup. Qed.

Lemma dedupe_in : forall l d, In d (dedupe l) -> In d l.
Proof. intros l d H. apply dedupe_aux_in in H. apply H. Qed.

Lemma selected_nodup : forall l d, NoDup (map dpath l) -> In d l -> selected l (dpath d) = Some d.
Proof.
  induction l as [|x tl IH]; intros d Hnd Hin; [contradiction|]. unfold selected. simpl.
  inversion Hnd as [|p ps Hnotin Hnd']; subst. destruct Hin as [->|Hin].
  - rewrite N.eqb_refl. reflexivity.
  - destruct (N.eqb (dpath x) (dpath d)) eqn:He.
    + apply N.eqb_eq in He. exfalso. apply Hnotin. rewrite He. apply in_map. exact Hin.
    + apply IH; assumption.
Qed.

(* ---------------------------------------------------------------- all_some *)
Lemma all_some_forall2 : forall A B (f : A -> option B) l ys, Forall2 (fun x y => f x = Some y) l ys -> all_some (map f l) = Some ys.
Proof. intros A B f l ys H. induction H as [|x y l0 ys0 Hxy _ IH]; [reflexivity|]. simpl. rewrite Hxy, IH. reflexivity. Qed.

Lemma all_some_inv : forall A B (f : A -> option B) l ys, all_some (map f l) = Some ys -> Forall2 (fun x y => f x = Some y) l ys.
Proof.
  intros A B f l. induction l as [|x tl IH]; intros ys H; simpl in H.
  - inversion H. constructor.
  - destruct (f x) as [y|] eqn:Hx; [|discriminate]. destruct (all_some (map f tl)) as [r|] eqn:Ht; [|discriminate].
    inversion H; subst. constructor; auto.
Qed.

Lemma forall2_impl : forall A B (P Q : A -> B -> Prop) l ys, (forall x y, P x y -> Q x y) -> Forall2 P l ys -> Forall2 Q l ys.
Proof. intros A B P Q l ys Himp H. induction H; constructor; auto. Qed.

Lemma forall2_in_l : forall A B (P : A -> B -> Prop) l ys x, Forall2 P l ys -> In x l -> exists y, In y ys /\ P x y.
Proof.
  intros A B P l ys x H. induction H as [|x0 y l0 ys0 Hxy _ IH]; intro Hin; [contradiction|].
  destruct Hin as [->|Hin]; [exists y; split; [left; reflexivity|exact Hxy]|].
  destruct (IH Hin) as [y' [Hy' Hp]]. exists y'. split; [right; exact Hy'|exact Hp].
Qed.

(* ---------------------------------------------------------------- the metadata stage *)
Definition wf_list (E : env) := forall b x, json_list E b = Some x -> falls_back (avro_list E) list_fallback b = true.
Definition wf_man (E : env) := forall b x, json_man E b = Some x -> falls_back (avro_man E) manifest_fallback b = true.

(* a manifest reference that was read successfully *)
Definition manifest_read (E : env) (st : store) (mref : option key) (dfs : list dfile) : Prop :=
  match mref with
  | None => dfs = []
  | Some m => exists b, cur_bytes st m = Some b /\ man_content E b = Some dfs
                        /\ quiet_sites st m (reader_sites (avro_man E) (json_man E) manifest_fallback b)
  end.

Lemma manifest_step_ok : forall E st mref dfs, wf_man E ->
  fst (manifest_step E st mref) = Ok dfs -> manifest_read E st mref dfs.
Proof.
  intros E st [m|] dfs Hwf H; simpl in *.
  - unfold read_manifest in H. apply guarded_reader_ok in H; [exact H|exact Hwf].
  - inversion H. reflexivity.
Qed.

Lemma manifest_read_spec : forall E st mref dfs, manifest_read E st mref dfs -> spec_manifest E st mref = Some dfs.
Proof.
  intros E st [m|] dfs H; simpl in *.
  - destruct H as [b [Hb [Hc _]]]. rewrite Hb. simpl. exact Hc.
  - subst. reflexivity.
Qed.

Definition meta_quiet (E : env) (st : store) (r : nat) : Prop :=
  (forall mk, resolved E st = Some mk -> quiet st mk (OpRead, r)) /\
  (forall mk, hinted E st = Some mk -> quiet st mk (OpExists, r)).

(* what a successful _get_all_data_files has established *)
Definition stage1 (E : env) (st : store) (dfs : list dfile) : Prop :=
  match resolved E st with
  | None => dfs = []
  | Some mk =>
      meta_quiet E st 0 /\
      exists b md, cur_bytes st mk = Some b /\ parse_meta E b = Some md /\
      match find_snap md with
      | None => dfs = [] /\ (mcur md = None \/ mcur md = Some (-1))
      | Some s => exists lb ms dfss,
          cur_bytes st (slist s) = Some lb /\ list_content E lb = Some ms
          /\ quiet_sites st (slist s) (reader_sites (avro_list E) (json_list E) list_fallback lb)
          /\ Forall2 (manifest_read E st) ms dfss /\ dfs = dedupe (List.concat dfss)
      end
  end.

Lemma get_all_ok : forall E st dfs, json_not_avro E -> fst (get_all_data_files E st) = Ok dfs -> stage1 E st dfs.
Proof.
  intros E st dfs [Hwl Hwm] H. unfold get_all_data_files in H.
  apply bind_ok in H. destruct H as [r0 [Hr0 H]]. apply resolve_ok in Hr0. destruct Hr0 as [Hspec [Hres Hhint]].
  unfold stage1. destruct (resolved E st) as [mk|] eqn:Hrs.
  - destruct (Hres mk eq_refl) as [Hq [b [md [Hb [Hp ->]]]]].
    split; [split; [intros mk' Heq; assert (mk' = mk) by congruence; subst mk'; exact Hq|exact Hhint]|].
    exists b, md. split; [exact Hb|]. split; [exact Hp|].
    destruct (find_snap md) as [s|] eqn:Hfs.
    + (* a current snapshot *)
      match type of H with fst (bind ?m ?f) = _ =>
        assert (Hg : exists ms, fst (ex <- st_exists st (slist s) (OpExists, 0%nat) ;; if negb ex then fail EInconsistent else read_list E st (slist s)) = Ok ms
                                /\ fst (dfss <- mapM (manifest_step E st) ms ;; ret (dedupe (List.concat dfss))) = Ok dfs) end.
      { apply bind_ok in H. destruct H as [ex [Hex H]]. destruct ex; simpl in H; [|discriminate].
        apply bind_ok in H. destruct H as [ms [Hms H]]. exists ms. split; [|exact H].
        rewrite (bind_fst_ok _ _ _ _ _ Hex). simpl. exact Hms. }
      destruct Hg as [ms [Hms Hrest]]. unfold read_list in Hms. apply guarded_reader_ok in Hms; [|exact Hwl].
      destruct Hms as [lb [Hlb [Hlc Hlq]]]. apply bind_ok in Hrest. destruct Hrest as [dfss [Hdfss Hrest]].
      simpl in Hrest. inversion Hrest; subst dfs. exists lb, ms, dfss. repeat split; try assumption.
      apply mapM_ok in Hdfss. eapply forall2_impl; [|exact Hdfss]. intros mref d Hd. apply manifest_step_ok; assumption.
    + (* no current snapshot: emptiness decided on the same metadata *)
      destruct (mcur md) as [id|] eqn:Hcur.
      * destruct (id =? -1) eqn:Hid; simpl in H; [|discriminate]. inversion H. apply Z.eqb_eq in Hid. subst. auto.
      * simpl in H. inversion H. auto.
  - (* nothing resolves: the model follows the code and reports no files *)
    assert (Hn : served_meta E st = None) by (unfold served_meta; rewrite Hrs; reflexivity).
    rewrite Hspec, Hn in H. simpl in H. inversion H. reflexivity.
Qed.

(* ---------------------------------------------------------------- data files *)
Lemma read_data_ok : forall E st v df rows, fst (read_data E st v df) = Ok rows ->
  exists b, cur_bytes st (dpath df) = Some b /\ parquet E b = PqOk rows
    /\ quiet st (dpath df) (data_site v df)
    /\ (v = true -> forall d, dsum df = Some d -> sha E b = d).
Proof.
  intros E st v df rows H. unfold read_data in H. apply bind_ok in H. destruct H as [b [Hb H]].
  apply st_get_ok in Hb. destruct Hb as [Hb Hq]. exists b. split; [exact Hb|].
  destruct v; destruct (dsum df) as [d|] eqn:Hd.
  - destruct (N.eqb (sha E b) d) eqn:Hs; simpl in H; [|discriminate].
    destruct (parquet E b) as [rs|p]; simpl in H; [|discriminate]. inversion H; subst.
    split; [reflexivity|]. split; [exact Hq|]. intros _ d' Hd'. inversion Hd'; subst. apply N.eqb_eq. exact Hs.
  - destruct (parquet E b) as [rs|p]; simpl in H; [|discriminate]. inversion H; subst.
    split; [reflexivity|]. split; [exact Hq|]. intros _ d' Hd'. discriminate.
  - destruct (parquet E b) as [rs|p]; simpl in H; [|discriminate]. inversion H; subst.
    split; [reflexivity|]. split; [exact Hq|]. intro Hx; discriminate.
  - destruct (parquet E b) as [rs|p]; simpl in H; [|discriminate]. inversion H; subst.
    split; [reflexivity|]. split; [exact Hq|]. intro Hx; discriminate.
Qed.

Lemma data_stage_ok : forall E st a v dfs rows, fst (data_stage E st a v dfs) = Ok rows ->
  exists tabs, Forall2 (fun df t => fst (read_data E st v df) = Ok t) dfs tabs /\ rows = List.concat tabs.
Proof.
  intros E st a v dfs rows H. unfold data_stage in H.
  destruct a; apply bind_ok in H; destruct H as [tabs [Ht H]]; simpl in H; inversion H; subst; exists tabs;
    (split; [|reflexivity]); first [apply mapM_ok; exact Ht | apply par_map_ok; exact Ht].
Qed.

Lemma run_ok : forall E st a o ans, fst (run E st a o) = Ok ans ->
  exists dfs, fst (get_all_data_files E st) = Ok dfs /\
    if reads_data a
    then exists tabs, Forall2 (fun df t => fst (read_data E st (verify o) df) = Ok t) dfs tabs /\ ans = ARows (List.concat tabs)
    else ans = ACount (fold_right Z.add 0 (map dcount dfs)).
Proof.
  intros E st a o ans H. unfold run in H. apply bind_ok in H. destruct H as [dfs [Hd H]]. exists dfs. split; [exact Hd|].
  destruct a; simpl; try (apply bind_ok in H; destruct H as [rows [Hr H]]; simpl in H; inversion H; subst;
    apply data_stage_ok in Hr; destruct Hr as [tabs [Ht ->]]; exists tabs; split; [exact Ht|reflexivity]).
  simpl in H. inversion H. reflexivity.
Qed.

(* ---------------------------------------------------------------- specification-side facts *)
Lemma served_meta_inv : forall E st md, served_meta E st = Some md ->
  exists mk b, resolved E st = Some mk /\ cur_bytes st mk = Some b /\ parse_meta E b = Some md.
Proof.
  intros E st md H. unfold served_meta, obind in H. destruct (resolved E st) as [mk|]; [|discriminate].
  destruct (cur_bytes st mk) as [b|] eqn:Hb; [|discriminate]. exists mk, b. auto.
Qed.

Lemma stage1_snap : forall E st dfs md s, stage1 E st dfs -> served_meta E st = Some md -> find_snap md = Some s ->
  meta_quiet E st 0 /\
  exists lb ms dfss,
    cur_bytes st (slist s) = Some lb /\ list_content E lb = Some ms
    /\ quiet_sites st (slist s) (reader_sites (avro_list E) (json_list E) list_fallback lb)
    /\ Forall2 (manifest_read E st) ms dfss /\ dfs = dedupe (List.concat dfss)
    /\ spec_dfiles E st s = Some dfs.
Proof.
  intros E st dfs md s H Hm Hs. apply served_meta_inv in Hm. destruct Hm as [mk [b [Hr [Hb Hp]]]].
  unfold stage1 in H. rewrite Hr in H. destruct H as [Hq [b' [md' [Hb' [Hp' H]]]]].
  rewrite Hb in Hb'. inversion Hb'; subst b'. rewrite Hp in Hp'. inversion Hp'; subst md'.
  rewrite Hs in H. destruct H as [lb [ms [dfss [Hlb [Hlc [Hlq [Hf Hd]]]]]]]. split; [exact Hq|].
  exists lb, ms, dfss. repeat split; try assumption.
  unfold spec_dfiles, obind. rewrite Hlb, Hlc.
  rewrite (all_some_forall2 _ _ (spec_manifest E st) ms dfss).
  - rewrite Hd. reflexivity.
  - eapply forall2_impl; [|exact Hf]. intros x y Hxy. apply manifest_read_spec. exact Hxy.
Qed.

Lemma stage1_nosnap : forall E st dfs md, stage1 E st dfs -> served_meta E st = Some md -> find_snap md = None ->
  dfs = [] /\ (mcur md = None \/ mcur md = Some (-1)).
Proof.
  intros E st dfs md H Hm Hs. apply served_meta_inv in Hm. destruct Hm as [mk [b [Hr [Hb Hp]]]].
  unfold stage1 in H. rewrite Hr in H. destruct H as [_ [b' [md' [Hb' [Hp' H]]]]].
  rewrite Hb in Hb'. inversion Hb'; subst b'. rewrite Hp in Hp'. inversion Hp'; subst md'.
  rewrite Hs in H. exact H.
Qed.

Lemma data_rows_spec : forall E st v dfs tabs,
  Forall2 (fun df t => fst (read_data E st v df) = Ok t) dfs tabs -> spec_rows E st dfs = Some (List.concat tabs).
Proof.
  intros E st v dfs tabs H. unfold spec_rows, obind.
  rewrite (all_some_forall2 _ _ (spec_file_rows E st) dfs tabs); [reflexivity|].
  eapply forall2_impl; [|exact H]. intros df t Hd. apply read_data_ok in Hd. destruct Hd as [b [Hb [Hp _]]].
  unfold spec_file_rows, obind. rewrite Hb, Hp. reflexivity.
Qed.

(* ================================================================ C14_never_partial *)
Theorem never_partial : forall E st a o ans md,
  json_not_avro E ->
  out (read_current E st a o) = Ok ans ->
  served_meta E st = Some md ->
  spec_answer E st a md = Some ans
  /\ yielded (read_current E st a o) = match ans with ARows rows => rows | ACount _ => [] end.
Proof.
  intros E st a o ans md Hwf H Hm. unfold read_current in *. simpl in *. split; [|rewrite H; destruct ans; reflexivity].
  apply run_ok in H. destruct H as [dfs [Hg Hd]]. apply get_all_ok in Hg; [|exact Hwf].
  unfold spec_answer. destruct (find_snap md) as [s|] eqn:Hs.
  - destruct (stage1_snap _ _ _ _ _ Hg Hm Hs) as [_ [lb [ms [dfss [_ [_ [_ [_ [_ Hsd]]]]]]]]].
    rewrite Hsd. simpl. destruct (reads_data a).
    + destruct Hd as [tabs [Ht ->]]. rewrite (data_rows_spec _ _ _ _ _ Ht). reflexivity.
    + subst ans. reflexivity.
  - destruct (stage1_nosnap _ _ _ _ Hg Hm Hs) as [-> Hc].
    assert (Hans : ans = if reads_data a then ARows [] else ACount 0).
    { destruct (reads_data a); [|exact Hd]. destruct Hd as [tabs [Ht ->]]. inversion Ht. reflexivity. }
    rewrite Hans. destruct Hc as [-> | ->]; reflexivity.
Qed.

(* ================================================================ C14_fail_closed *)
Lemma reach_list_inv : forall E st k, reach E st RList k ->
  exists md s, served_meta E st = Some md /\ find_snap md = Some s /\ k = slist s.
Proof. intros E st k H. inversion H; subst. eauto. Qed.

Lemma reach_manifest_inv : forall E st m, reach E st RManifest m ->
  exists md s b ms, served_meta E st = Some md /\ find_snap md = Some s /\ cur_bytes st (slist s) = Some b
    /\ list_content E b = Some ms /\ In (Some m) ms.
Proof.
  intros E st m H. inversion H as [| | |l b ms m' Hl Hb Hc Hin|]; subst.
  apply reach_list_inv in Hl. destruct Hl as [md [s [Hm [Hs ->]]]]. exists md, s, b, ms. auto.
Qed.

Lemma reach_data_inv : forall E st k, reach E st RData k ->
  exists md s b ms m mb dfs0 df, served_meta E st = Some md /\ find_snap md = Some s /\ cur_bytes st (slist s) = Some b
    /\ list_content E b = Some ms /\ In (Some m) ms /\ cur_bytes st m = Some mb /\ man_content E mb = Some dfs0
    /\ In df dfs0 /\ k = dpath df.
Proof.
  intros E st k H. inversion H as [| | | |m mb dfs0 df Hm Hmb Hc Hin]; subst.
  apply reach_manifest_inv in Hm. destruct Hm as [md [s [b [ms [H1 [H2 [H3 [H4 H5]]]]]]]].
  exists md, s, b, ms, m, mb, dfs0, df. repeat split; assumption.
Qed.

Lemma healthy_not_damaged : forall E st r k b sites,
  cur_bytes st k = Some b -> ~ unparseable E r b -> quiet_sites st k sites ->
  (forall s b', st k = Flaky s b' -> In s sites) ->
  damaged E st r k -> False.
Proof.
  intros E st r k b sites Hb Hp Hq Hs Hd. destruct Hd as [Ha|b' Hpres Hu|s b' Hf].
  - unfold cur_bytes in Hb. rewrite Ha in Hb. discriminate.
  - unfold cur_bytes in Hb. rewrite Hpres in Hb. inversion Hb; subst. contradiction.
  - specialize (Hs s b' Hf). exact (Hq s Hs s b' Hf eq_refl).
Qed.

Lemma manifest_in_read : forall E st ms dfss m, Forall2 (manifest_read E st) ms dfss -> In (Some m) ms ->
  exists dfs b, In dfs dfss /\ cur_bytes st m = Some b /\ man_content E b = Some dfs
     /\ quiet_sites st m (reader_sites (avro_man E) (json_man E) manifest_fallback b).
Proof.
  intros E st ms dfss m Hf Hin. destruct (forall2_in_l _ _ _ _ _ _ Hf Hin) as [dfs [Hd Hr]].
  simpl in Hr. destruct Hr as [b [Hb [Hc Hq]]]. exists dfs, b. auto.
Qed.

Theorem fail_closed : forall E st a o r k,
  json_not_avro E ->
  reach E st r k -> damaged E st r k -> touched E st a o r k ->
  ~ (r = RMeta /\ hinted E st = Some k /\ st k = Absent) ->
  exists e, out (read_current E st a o) = Err e.
Proof.
  intros E st a o r k Hwf Hreach Hdmg Htouch Hexcl. unfold read_current. simpl.
  destruct (res_cases _ (fst (run E st a o))) as [[ans Hok]|[e He]]; [exfalso|eauto].
  apply run_ok in Hok. destruct Hok as [dfs [Hg Hdata]]. apply get_all_ok in Hg; [|exact Hwf].
  destruct r.
  - (* the metadata file *)
    assert (Hres : resolved E st = Some k).
    { inversion Hreach as [mk Hh|mk Hr| | |]; subst; [|exact Hr].
      unfold resolved. rewrite Hh. destruct (present st k) eqn:Hp; [reflexivity|].
      apply present_false in Hp. exfalso. apply Hexcl. auto. }
    unfold stage1 in Hg. rewrite Hres in Hg. destruct Hg as [[Hq1 Hq2] [b [md [Hb [Hp _]]]]].
    apply (healthy_not_damaged E st RMeta k b (sites_of E st RMeta k b)); try assumption.
    + simpl. congruence.
    + intros s Hs. simpl in Hs. apply in_app_iff in Hs. destruct Hs as [Hs|[<-|[]]]; [|apply Hq1; exact Hres].
      destruct (hinted E st) as [mk|] eqn:Hh; [|contradiction].
      destruct (N.eqb mk k) eqn:He; [|contradiction]. apply N.eqb_eq in He. subst mk.
      destruct Hs as [<-|[]]. apply Hq2. reflexivity.
    + intros s b' Hf. unfold touched in Htouch. rewrite Hf in Htouch.
      assert (b' = b) by (unfold cur_bytes in Hb; rewrite Hf in Hb; inversion Hb; reflexivity). subst. exact Htouch.
  - (* the manifest list *)
    apply reach_list_inv in Hreach. destruct Hreach as [md [s [Hm [Hs ->]]]].
    destruct (stage1_snap _ _ _ _ _ Hg Hm Hs) as [_ [lb [ms [dfss [Hlb [Hlc [Hlq _]]]]]]].
    apply (healthy_not_damaged E st RList (slist s) lb (sites_of E st RList (slist s) lb)); try assumption.
    + simpl. congruence.
    + intros s0 b' Hf. unfold touched in Htouch. rewrite Hf in Htouch.
      assert (b' = lb) by (unfold cur_bytes in Hlb; rewrite Hf in Hlb; inversion Hlb; reflexivity). subst. exact Htouch.
  - (* a manifest *)
    apply reach_manifest_inv in Hreach. destruct Hreach as [md [s [b [ms [Hm [Hs [Hb [Hc Hin]]]]]]]].
    destruct (stage1_snap _ _ _ _ _ Hg Hm Hs) as [_ [lb [ms' [dfss [Hlb [Hlc [_ [Hf _]]]]]]]].
    rewrite Hb in Hlb. inversion Hlb; subst lb. rewrite Hc in Hlc. inversion Hlc; subst ms'.
    destruct (manifest_in_read _ _ _ _ _ Hf Hin) as [dfs0 [mb [_ [Hmb [Hmc Hmq]]]]].
    apply (healthy_not_damaged E st RManifest k mb (sites_of E st RManifest k mb)); try assumption.
    + simpl. congruence.
    + intros s0 b' Hfl. unfold touched in Htouch. rewrite Hfl in Htouch.
      assert (b' = mb) by (unfold cur_bytes in Hmb; rewrite Hfl in Hmb; inversion Hmb; reflexivity). subst. exact Htouch.
  - (* a data file *)
    apply reach_data_inv in Hreach.
    destruct Hreach as [md [s [b [ms [m [mb [dfs0 [df [Hm [Hs [Hb [Hc [Hin [Hmb [Hmc [Hdf ->]]]]]]]]]]]]]]]].
    destruct (stage1_snap _ _ _ _ _ Hg Hm Hs) as [_ [lb [ms' [dfss [Hlb [Hlc [_ [Hf [Hdfs Hspec]]]]]]]]].
    rewrite Hb in Hlb. inversion Hlb; subst lb. rewrite Hc in Hlc. inversion Hlc; subst ms'.
    destruct (manifest_in_read _ _ _ _ _ Hf Hin) as [dfs1 [mb' [Hin1 [Hmb' [Hmc' _]]]]].
    rewrite Hmb in Hmb'. inversion Hmb'; subst mb'. rewrite Hmc in Hmc'. inversion Hmc'; subst dfs1.
    assert (Hcat : In df (List.concat dfss)) by (apply in_concat; exists dfs0; auto).
    destruct (dedupe_covers _ _ Hcat) as [df' [Hdf' Hpath]]. rewrite <- Hdfs in Hdf'.
    destruct Htouch as [Hreads Hsite]. rewrite Hreads in Hdata. destruct Hdata as [tabs [Ht _]].
    destruct (forall2_in_l _ _ _ _ _ _ Ht Hdf') as [t [_ Hrd]]. apply read_data_ok in Hrd.
    destruct Hrd as [db [Hdb [Hpq [Hq _]]]]. rewrite Hpath in Hdb, Hq.
    apply (healthy_not_damaged E st RData (dpath df) db [data_site (verify o) df']); try assumption.
    + simpl. intros [p Hpf]. congruence.
    + intros s0 [<-|[]]. exact Hq.
    + intros s0 b' Hfl. rewrite Hfl in Hsite. left. symmetry. apply (Hsite md s dfs df' Hm Hs Hspec).
      rewrite <- Hpath. apply selected_nodup; [rewrite Hdfs; apply dedupe_nodup|exact Hdf'].
Qed.

(* ================================================================ C14_not_empty *)
Theorem not_empty : forall E st a o md,
  json_not_avro E -> served_meta E st = Some md -> broken_snapshot E st md ->
  exists e, out (read_current E st a o) = Err e.
Proof.
  unfold broken_snapshot.
  intros E st a o md Hwf Hm [[Hs [id [Hid Hne]]]|[[s [Hs Ha]]|[s [b [ms [m [Hs [Hb [Hc [Hin Ha]]]]]]]]]].
  - unfold read_current. simpl.
    destruct (res_cases _ (fst (run E st a o))) as [[ans Hok]|[e He]]; [exfalso|eauto].
    apply run_ok in Hok. destruct Hok as [dfs [Hg _]]. apply get_all_ok in Hg; [|exact Hwf].
    destruct (stage1_nosnap _ _ _ _ Hg Hm Hs) as [_ [Hc|Hc]]; rewrite Hid in Hc; [discriminate|].
    inversion Hc. contradiction.
  - apply (fail_closed E st a o RList (slist s)); try assumption.
    + eapply reach_list; eauto.
    + apply dmg_absent. exact Ha.
    + unfold touched. rewrite Ha. exact I.
    + intros [Hx _]. discriminate.
  - apply (fail_closed E st a o RManifest m); try assumption.
    + eapply reach_manifest; eauto. eapply reach_list; eauto.
    + apply dmg_absent. exact Ha.
    + unfold touched. rewrite Ha. exact I.
    + intros [Hx _]. discriminate.
Qed.

(* the current version (what the pointer names) is the version served whenever it is there *)
Lemma spec_meta_served : forall E st md, spec_meta E st = Some md -> served_meta E st = Some md.
Proof.
  intros E st md H. unfold spec_meta, obind in H. destruct (hinted E st) as [mk|] eqn:Hh; [|discriminate].
  destruct (cur_bytes st mk) as [b|] eqn:Hb; [|discriminate].
  assert (Hp : present st mk = true) by (apply present_cur; eauto).
  unfold served_meta, resolved, obind. rewrite Hh, Hp, Hb. exact H.
Qed.

Theorem never_partial_current : forall E st a o ans md,
  json_not_avro E ->
  out (read_current E st a o) = Ok ans ->
  spec_meta E st = Some md ->
  spec_answer E st a md = Some ans
  /\ yielded (read_current E st a o) = match ans with ARows rows => rows | ACount _ => [] end.
Proof.
  intros E st a o ans md Hwf H Hm. apply never_partial; [exact Hwf|exact H|apply spec_meta_served; exact Hm].
Qed.

Theorem not_empty_partial : forall E st a o,
  json_not_avro E ->
  (forall mk, hinted E st = Some mk -> st mk <> Absent) ->
  broken_table E st ->
  exists e, out (read_current E st a o) = Err e.
Proof.
  intros E st a o Hwf Hp [[mk [Hh Ha]]|[md [Hm Hb]]].
  - exfalso. exact (Hp mk Hh Ha).
  - apply (not_empty E st a o md Hwf (spec_meta_served _ _ _ Hm) Hb).
Qed.

(* ================================================================ C14_checksum *)
Lemma dfile_eq_dec : forall x y : dfile, {x = y} + {x <> y}.
Proof. decide equality; [decide equality; apply N.eq_dec|apply Z.eq_dec|apply N.eq_dec]. Qed.

Lemma mapM_only_err : forall A B (f : A -> M B) (dec : forall x y : A, {x = y} + {x <> y}) l x e,
  (forall y, In y l -> y <> x -> exists t, fst (f y) = Ok t) -> In x l -> fst (f x) = Err e ->
  fst (mapM f l) = Err e.
Proof.
  intros A B f dec l x e. induction l as [|h tl IH]; intros Hothers Hin Hx; [contradiction|]. simpl.
  destruct (dec h x) as [->|Hne].
  - apply bind_fst_err. exact Hx.
  - destruct (Hothers h (or_introl eq_refl) Hne) as [t Ht]. rewrite (bind_fst_ok _ _ _ _ _ Ht).
    apply bind_fst_err. apply IH.
    + intros y Hy Hyx. apply Hothers; [right; exact Hy|exact Hyx].
    + destruct Hin as [->|Hin]; [contradiction|exact Hin].
    + exact Hx.
Qed.

Lemma read_data_corrupt : forall E st df b d,
  st (dpath df) = Present b -> dsum df = Some d -> sha E b <> d -> fst (read_data E st true df) = Err ECorrupt.
Proof.
  intros E st df b d Hp Hd Hs. unfold read_data, data_site. rewrite Hd.
  assert (Hg : fst (st_get st (dpath df) (OpRead, 0%nat)) = Ok b) by (unfold st_get; rewrite Hp; reflexivity).
  rewrite (bind_fst_ok _ _ _ _ _ Hg). destruct (N.eqb (sha E b) d) eqn:He; [apply N.eqb_eq in He; contradiction|reflexivity].
Qed.

Lemma data_stage_fst : forall E st a v dfs,
  fst (data_stage E st a v dfs) = fst (tabs <- mapM (read_data E st v) dfs ;; ret (List.concat tabs)).
Proof.
  intros E st a v dfs. destruct a; try reflexivity. unfold data_stage.
  destruct (fst (par_map (read_data E st v) dfs)) as [t|e] eqn:Hp.
  - rewrite (bind_fst_ok _ _ _ _ _ Hp). rewrite par_map_fst in Hp. rewrite (bind_fst_ok _ _ _ _ _ Hp). reflexivity.
  - rewrite (bind_fst_err _ _ _ _ _ Hp). rewrite par_map_fst in Hp. rewrite (bind_fst_err _ _ _ _ _ Hp). reflexivity.
Qed.

Lemma run_data_err : forall E st a o dfs e,
  reads_data a = true -> fst (get_all_data_files E st) = Ok dfs ->
  fst (mapM (read_data E st (verify o)) dfs) = Err e -> fst (run E st a o) = Err e.
Proof.
  intros E st a o dfs e Hr Hg Hm. unfold run. rewrite (bind_fst_ok _ _ _ _ _ Hg).
  assert (Hd : fst (data_stage E st a (verify o) dfs) = Err e).
  { rewrite data_stage_fst. apply bind_fst_err. exact Hm. }
  destruct a; try (apply bind_fst_err; exact Hd). discriminate.
Qed.

Theorem checksum_detects : forall E st a o dfs df b orig,
  verify o = true -> reads_data a = true ->
  fst (get_all_data_files E st) = Ok dfs -> In df dfs ->
  dsum df = Some (sha E orig) -> st (dpath df) = Present b -> b <> orig ->
  (sha E b = sha E orig -> b = orig) ->
  fst (read_data E st true df) = Err ECorrupt
  /\ (exists e, out (read_current E st a o) = Err e)
  /\ ((forall df', In df' dfs -> df' <> df -> exists t, fst (read_data E st true df') = Ok t) ->
      out (read_current E st a o) = Err ECorrupt).
Proof.
  intros E st a o dfs df b orig Hv Hr Hg Hin Hsum Hp Hne Hcf.
  assert (Hc : fst (read_data E st true df) = Err ECorrupt).
  { eapply read_data_corrupt; eauto. }
  split; [exact Hc|]. unfold read_current. simpl. split.
  - destruct (mapM_err _ _ (read_data E st true) dfs df ECorrupt Hin Hc) as [e He]. exists e.
    apply (run_data_err E st a o dfs e Hr Hg). rewrite Hv. exact He.
  - intro Hothers. apply (run_data_err E st a o dfs ECorrupt Hr Hg). rewrite Hv.
    apply (mapM_only_err _ _ _ dfile_eq_dec dfs df ECorrupt); assumption.
Qed.

(* "(the default)": a call that passes no option verifies -- default_opts is {| verify := GenRead.verify_default_on |},
   regenerated from Table._resolve_verify_checksums; if the library's default were off this proof would not check *)
Theorem checksum_detects_by_default : forall E st a dfs df b orig,
  reads_data a = true ->
  fst (get_all_data_files E st) = Ok dfs -> In df dfs ->
  dsum df = Some (sha E orig) -> st (dpath df) = Present b -> b <> orig ->
  (sha E b = sha E orig -> b = orig) ->
  fst (read_data E st (verify default_opts) df) = Err ECorrupt
  /\ (exists e, out (read_current E st a default_opts) = Err e)
  /\ ((forall df', In df' dfs -> df' <> df -> exists t, fst (read_data E st (verify default_opts) df') = Ok t) ->
      out (read_current E st a default_opts) = Err ECorrupt).
Proof.
  intros E st a dfs df b orig Hr Hg Hin Hsum Hp Hne Hcf.
  assert (Hv : verify default_opts = true) by reflexivity. rewrite Hv.
  exact (checksum_detects E st a default_opts dfs df b orig Hv Hr Hg Hin Hsum Hp Hne Hcf).
Qed.

(* ================================================================ C14_untouched: locality *)
(* a store-indexed program depends on the store only through the keys in its own trace *)
Definition local {A} (p : store -> M A) : Prop :=
  forall st st', (forall k, In k (map fst (snd (p st))) -> st' k = st k) -> p st' = p st.

Lemma local_const : forall A (m : M A), local (fun _ => m).
Proof. intros A m st st' _. reflexivity. Qed.

Lemma local_exists : forall k s, local (fun st => st_exists st k s).
Proof.
  intros k s st st' H. assert (He : st' k = st k).
  { apply H. unfold st_exists. destruct (st k) as [| |s' b]; [left; reflexivity|left; reflexivity|].
    destruct (site_eqb s s'); left; reflexivity. }
  unfold st_exists. rewrite He. reflexivity.
Qed.

Lemma local_get : forall k s, local (fun st => st_get st k s).
Proof.
  intros k s st st' H. assert (He : st' k = st k).
  { apply H. unfold st_get. destruct (st k) as [| |s' b]; [left; reflexivity|left; reflexivity|].
    destruct (site_eqb s s'); left; reflexivity. }
  unfold st_get. rewrite He. reflexivity.
Qed.

Lemma local_bind : forall A B (m : store -> M A) (f : A -> store -> M B),
  local m -> (forall a, local (f a)) -> local (fun st => bind (m st) (fun a => f a st)).
Proof.
  intros A B m f Hm Hf st st' H. unfold bind in *. destruct (fst (m st)) as [a|e] eqn:Hfst; simpl in H.
  - assert (Hm' : m st' = m st).
    { apply Hm. intros k Hk. apply H. rewrite map_app. apply in_or_app. left. exact Hk. }
    assert (Hf' : f a st' = f a st).
    { apply Hf. intros k Hk. apply H. rewrite map_app. apply in_or_app. right. exact Hk. }
    rewrite Hm', Hfst, Hf'. reflexivity.
  - assert (Hm' : m st' = m st) by (apply Hm; exact H). rewrite Hm', Hfst. reflexivity.
Qed.

Lemma local_mapM : forall A B (f : A -> store -> M B) l, (forall x, local (f x)) -> local (fun st => mapM (fun x => f x st) l).
Proof.
  intros A B f l Hf. induction l as [|x tl IH]; simpl; [apply local_const|].
  apply (local_bind _ _ (f x) (fun y st => ys <- mapM (fun x0 => f x0 st) tl ;; ret (y :: ys))); [apply Hf|].
  intro y. apply (local_bind _ _ (fun st => mapM (fun x0 => f x0 st) tl) (fun ys _ => ret (y :: ys))); [exact IH|].
  intro ys. apply local_const.
Qed.

Lemma local_par_map : forall A B (f : A -> store -> M B) l, (forall x, local (f x)) -> local (fun st => par_map (fun x => f x st) l).
Proof.
  intros A B f l Hf st st' H. unfold par_map in *. simpl in H.
  assert (Hall : forall x, In x l -> f x st' = f x st).
  { intros x Hx. apply Hf. intros k Hk. apply H. rewrite concat_map. apply in_concat.
    exists (map fst (snd (f x st))). split; [|exact Hk]. rewrite map_map. apply in_map_iff. exists x. auto. }
  f_equal.
  - f_equal. apply map_ext_in. intros x Hx. rewrite (Hall x Hx). reflexivity.
  - f_equal. apply map_ext_in. intros x Hx. rewrite (Hall x Hx). reflexivity.
Qed.

Lemma local_ext : forall A (p q : store -> M A), (forall st, p st = q st) -> local p -> local q.
Proof. intros A p q Heq Hp st st' H. rewrite <- !Heq. apply Hp. intros k Hk. apply H. rewrite <- Heq. exact Hk. Qed.

Lemma local_avro_stage : forall A k (parse : bytes -> avro A) classes, local (fun st => avro_stage st k parse classes).
Proof.
  intros A k parse classes st st' H. unfold avro_stage in *.
  assert (Hg : st_get st' k (OpOpen, 0%nat) = st_get st k (OpOpen, 0%nat)).
  { apply local_get. intros k0 Hk0. apply H.
    destruct (fst (st_get st k (OpOpen, 0%nat))) as [b|e].
    - destruct (parse b) as [a|mro]; [exact Hk0|]. destruct (caught classes mro); exact Hk0.
    - destruct (caught classes (mro_of e)); exact Hk0. }
  rewrite Hg. reflexivity.
Qed.

Lemma local_two_stage : forall A k (av : bytes -> avro A) js classes, local (fun st => two_stage st k av js classes).
Proof.
  intros A k av js classes. unfold two_stage.
  apply (local_bind _ _ (fun st => st_exists st k (OpExists, 1%nat))
           (fun ex st => if negb ex then fail ENotFound else
                         a <- avro_stage st k av classes ;;
                         match a with Some x => ret x | None => b <- st_get st k (OpRead, 0%nat) ;;
                                                            match js b with Some x => ret x | None => fail EParse end end));
    [apply local_exists|].
  intros [|]; simpl; [|apply local_const].
  apply (local_bind _ _ (fun st => avro_stage st k av classes)
           (fun a st => match a with Some x => ret x | None => b <- st_get st k (OpRead, 0%nat) ;;
                                                      match js b with Some x => ret x | None => fail EParse end end));
    [apply local_avro_stage|].
  intros [x|]; [apply local_const|].
  apply (local_bind _ _ (fun st => st_get st k (OpRead, 0%nat)) (fun b _ => match js b with Some x => ret x | None => fail EParse end));
    [apply local_get|]. intro b. apply local_const.
Qed.

Lemma local_list : forall E r, local (fun st => st_list E st r).
Proof.
  intros E r st st' H. assert (He : st' METADIR = st METADIR).
  { apply H. unfold st_list. destruct (st METADIR) as [| |s b]; [left; reflexivity|left; reflexivity|].
    destruct (site_eqb (OpList, r) s); left; reflexivity. }
  unfold st_list. rewrite He. reflexivity.
Qed.

Lemma local_resolve : forall E r, local (fun st => resolve E st r).
Proof.
  intros E r. unfold resolve.
  apply (local_bind _ _ (fun st => st_exists st HINT (OpExists, r))
    (fun ex st =>
       hinted <- (if ex then b <- st_get st HINT (OpRead, r) ;; ret (parse_hint E b) else ret None) ;;
       target <- match hinted with
                 | Some mk => ex2 <- st_exists st mk (OpExists, r) ;;
                              if ex2 then ret (Some mk) else st_list E st r
                 | None => st_list E st r
                 end ;;
       match target with
       | None => ret None
       | Some mk => b <- st_get st mk (OpRead, r) ;;
                    match parse_meta E b with Some md => ret (Some md) | None => fail EParse end
       end)); [apply local_exists|].
  intro ex.
  apply (local_bind _ _ (fun st => if ex then b <- st_get st HINT (OpRead, r) ;; ret (parse_hint E b) else ret None)
    (fun hinted st =>
       target <- match hinted with
                 | Some mk => ex2 <- st_exists st mk (OpExists, r) ;;
                              if ex2 then ret (Some mk) else st_list E st r
                 | None => st_list E st r
                 end ;;
       match target with
       | None => ret None
       | Some mk => b <- st_get st mk (OpRead, r) ;;
                    match parse_meta E b with Some md => ret (Some md) | None => fail EParse end
       end)).
  - destruct ex; [|apply local_const].
    apply (local_bind _ _ (fun st => st_get st HINT (OpRead, r)) (fun b _ => ret (parse_hint E b))); [apply local_get|].
    intro b. apply local_const.
  - intro hn.
    apply (local_bind _ _ (fun st => match hn with
                 | Some mk => ex2 <- st_exists st mk (OpExists, r) ;;
                              if ex2 then ret (Some mk) else st_list E st r
                 | None => st_list E st r
                 end)
       (fun target st => match target with
       | None => ret None
       | Some mk => b <- st_get st mk (OpRead, r) ;;
                    match parse_meta E b with Some md => ret (Some md) | None => fail EParse end
       end)).
    + destruct hn as [mk|]; [|apply local_list].
      apply (local_bind _ _ (fun st => st_exists st mk (OpExists, r))
               (fun ex2 st => if ex2 then ret (Some mk) else st_list E st r)); [apply local_exists|].
      intros [|]; [apply local_const|apply local_list].
    + intros [mk|]; [|apply local_const].
      apply (local_bind _ _ (fun st => st_get st mk (OpRead, r))
               (fun b _ => match parse_meta E b with Some md => ret (Some md) | None => fail EParse end)); [apply local_get|].
      intro b. apply local_const.
Qed.

Lemma local_manifest_step : forall E mref, local (fun st => manifest_step E st mref).
Proof.
  intros E [m|]; simpl; [|apply local_const].
  apply (local_bind _ _ (fun st => st_exists st m (OpExists, 0%nat))
           (fun ex st => if negb ex then fail EInconsistent else read_manifest E st m)); [apply local_exists|].
  intros [|]; simpl; [|apply local_const]. unfold read_manifest. apply local_two_stage.
Qed.

Lemma local_get_all : forall E, local (fun st => get_all_data_files E st).
Proof.
  intro E. unfold get_all_data_files.
  apply (local_bind _ _ (fun st => resolve E st 0)
    (fun r0 st => match (match r0 with Some md => find_snap md | None => None end) with
       | None => match r0 with
                 | Some md => match mcur md with Some id => if id =? -1 then ret [] else fail EInconsistent | None => ret [] end
                 | None => ret [] end
       | Some s => ex <- st_exists st (slist s) (OpExists, 0%nat) ;;
                   if negb ex then fail EInconsistent else
                   ms <- read_list E st (slist s) ;;
                   dfss <- mapM (manifest_step E st) ms ;;
                   ret (dedupe (List.concat dfss))
       end)); [apply local_resolve|].
  intro r0. destruct (match r0 with Some md => find_snap md | None => None end) as [s|].
  - apply (local_bind _ _ (fun st => st_exists st (slist s) (OpExists, 0%nat))
      (fun ex st => if negb ex then fail EInconsistent else
                    ms <- read_list E st (slist s) ;; dfss <- mapM (manifest_step E st) ms ;; ret (dedupe (List.concat dfss))));
      [apply local_exists|].
    intros [|]; simpl; [|apply local_const].
    apply (local_bind _ _ (fun st => read_list E st (slist s))
      (fun ms st => dfss <- mapM (manifest_step E st) ms ;; ret (dedupe (List.concat dfss))));
      [unfold read_list; apply local_two_stage|].
    intro ms.
    apply (local_bind _ _ (fun st => mapM (manifest_step E st) ms) (fun dfss _ => ret (dedupe (List.concat dfss)))).
    + apply (local_mapM _ _ (fun mref st => manifest_step E st mref)). intro x. apply local_manifest_step.
    + intro dfss. apply local_const.
  - apply local_const.
Qed.

Lemma local_read_data : forall E v df, local (fun st => read_data E st v df).
Proof.
  intros E v df. unfold read_data.
  apply (local_bind _ _ (fun st => st_get st (dpath df) (data_site v df))
    (fun b _ => match v, dsum df with
                | true, Some d => if N.eqb (sha E b) d
                                  then match parquet E b with PqOk rows => ret rows | PqFail _ => fail EParse end
                                  else fail ECorrupt
                | _, _ => match parquet E b with PqOk rows => ret rows | PqFail _ => fail EParse end
                end)); [apply local_get|].
  intro b. apply local_const.
Qed.

Lemma local_data_stage : forall E a v dfs, local (fun st => data_stage E st a v dfs).
Proof.
  intros E a v dfs. unfold data_stage.
  assert (Hseq : local (fun st => tabs <- mapM (read_data E st v) dfs ;; ret (List.concat tabs))).
  { apply (local_bind _ _ (fun st => mapM (read_data E st v) dfs) (fun tabs _ => ret (List.concat tabs))).
    - apply (local_mapM _ _ (fun df st => read_data E st v df)). intro df. apply local_read_data.
    - intro tabs. apply local_const. }
  destruct a; try exact Hseq.
  apply (local_bind _ _ (fun st => par_map (read_data E st v) dfs) (fun tabs _ => ret (List.concat tabs))).
  - apply (local_par_map _ _ (fun df st => read_data E st v df)). intro df. apply local_read_data.
  - intro tabs. apply local_const.
Qed.

Lemma local_run : forall E a o, local (fun st => run E st a o).
Proof.
  intros E a o. unfold run.
  apply (local_bind _ _ (fun st => get_all_data_files E st)
    (fun dfs st => match a with
                   | RowCount => ret (ACount (fold_right Z.add 0 (map dcount dfs)))
                   | _ => rows <- data_stage E st a (verify o) dfs ;; ret (ARows rows)
                   end)); [apply local_get_all|].
  intro dfs.
  assert (Hd : local (fun st => rows <- data_stage E st a (verify o) dfs ;; ret (ARows rows))).
  { apply (local_bind _ _ (fun st => data_stage E st a (verify o) dfs) (fun rows _ => ret (ARows rows)));
      [apply local_data_stage|intro rows; apply local_const]. }
  destruct a; try exact Hd. apply local_const.
Qed.

Theorem untouched : forall E st st' a o,
  (forall k, In k (map fst (trace (read_current E st a o))) -> st' k = st k) ->
  out (read_current E st' a o) = out (read_current E st a o)
  /\ trace (read_current E st' a o) = trace (read_current E st a o).
Proof.
  intros E st st' a o H. unfold read_current in *. simpl in *.
  rewrite (local_run E a o st st' H). split; reflexivity.
Qed.

(* row_count touches exactly what the metadata stage touches: no data file *)
Lemma row_count_trace : forall E st o, trace (read_current E st RowCount o) = snd (get_all_data_files E st).
Proof.
  intros E st o. unfold read_current, run. simpl. unfold bind.
  destruct (fst (get_all_data_files E st)); simpl; [rewrite app_nil_r|]; reflexivity.
Qed.

(* ================================================================ C14_healthy_ok: completeness
   (the model does not raise without cause: an undamaged table is read completely by every API) *)
Definition noflaky (st : store) : Prop := forall k s b, st k <> Flaky s b.

Lemma exists_noflaky : forall st k s, noflaky st -> fst (st_exists st k s) = Ok (present st k).
Proof.
  intros st k s Hn. unfold st_exists, present. destruct (st k) as [| |s' b] eqn:Hc; try reflexivity.
  exfalso. exact (Hn k s' b Hc).
Qed.

Lemma get_noflaky : forall st k s b, noflaky st -> cur_bytes st k = Some b -> fst (st_get st k s) = Ok b.
Proof.
  intros st k s b Hn Hb. unfold st_get, cur_bytes in *. destruct (st k) as [| b0|s' b0] eqn:Hc.
  - discriminate.
  - inversion Hb. reflexivity.
  - exfalso. exact (Hn k s' b0 Hc).
Qed.

Lemma resolve_complete : forall E st r md, noflaky st -> served_meta E st = Some md -> fst (resolve E st r) = Ok (Some md).
Proof.
  intros E st r md Hn Hm. apply served_meta_inv in Hm. destruct Hm as [mk [b [Hres [Hb Hp]]]].
  unfold resolve. rewrite (bind_fst_ok _ _ _ _ _ (exists_noflaky st HINT (OpExists, r) Hn)).
  assert (Hh : fst (if present st HINT then b0 <- st_get st HINT (OpRead, r) ;; ret (parse_hint E b0) else ret None) = Ok (hinted E st)).
  { unfold hinted. destruct (present st HINT) eqn:Hph.
    - apply present_cur in Hph. destruct Hph as [hb Hhb]. rewrite Hhb.
      rewrite (bind_fst_ok _ _ _ _ _ (get_noflaky st HINT (OpRead, r) hb Hn Hhb)). reflexivity.
    - apply present_false in Hph. unfold cur_bytes. rewrite Hph. reflexivity. }
  rewrite (bind_fst_ok _ _ _ _ _ Hh).
  assert (Hl : fst (st_list E st r) = Ok (recovered E)).
  { unfold st_list. destruct (st METADIR) as [| |s0 b0] eqn:Hc; try reflexivity. exfalso. exact (Hn METADIR s0 b0 Hc). }
  assert (Ht : fst (match hinted E st with
                    | Some mk0 => ex2 <- st_exists st mk0 (OpExists, r) ;;
                                  if ex2 then ret (Some mk0) else st_list E st r
                    | None => st_list E st r
                    end) = Ok (Some mk)).
  { unfold resolved in Hres. destruct (hinted E st) as [mk0|]; [|rewrite Hl, Hres; reflexivity].
    rewrite (bind_fst_ok _ _ _ _ _ (exists_noflaky st mk0 (OpExists, r) Hn)).
    destruct (present st mk0); [simpl; rewrite Hres; reflexivity|rewrite Hl, Hres; reflexivity]. }
  rewrite (bind_fst_ok _ _ _ _ _ Ht).
  rewrite (bind_fst_ok _ _ _ _ _ (get_noflaky st mk (OpRead, r) b Hn Hb)). rewrite Hp. reflexivity.
Qed.

Lemma two_stage_complete : forall A st k (av : bytes -> avro A) js classes b x,
  noflaky st -> cur_bytes st k = Some b -> content av js classes b = Some x -> fst (two_stage st k av js classes) = Ok x.
Proof.
  intros A st k av js classes b x Hn Hb Hc. unfold two_stage.
  rewrite (bind_fst_ok _ _ _ _ _ (exists_noflaky st k (OpExists, 1%nat) Hn)).
  assert (Hp : present st k = true) by (apply present_cur; eauto). rewrite Hp. simpl.
  unfold content in Hc. unfold avro_stage.
  pose proof (get_noflaky st k (OpOpen, 0%nat) b Hn Hb) as Hg.
  destruct (av b) as [a|mro] eqn:Hav.
  - inversion Hc; subst a.
    assert (Hs : fst (let m := st_get st k (OpOpen, 0%nat) in
                      match fst m with
                      | Ok b0 => match av b0 with
                                 | AvOk a => (Ok (Some a), snd m)
                                 | AvRaise mro => if caught classes mro then (Ok None, snd m) else (Err EParse, snd m)
                                 end
                      | Err e => if caught classes (mro_of e) then (Ok None, snd m) else (Err e, snd m)
                      end) = Ok (Some x)) by (simpl; rewrite Hg, Hav; reflexivity).
    rewrite (bind_fst_ok _ _ _ _ _ Hs). reflexivity.
  - destruct (caught classes mro) eqn:Hca; [|discriminate].
    assert (Hs : fst (let m := st_get st k (OpOpen, 0%nat) in
                      match fst m with
                      | Ok b0 => match av b0 with
                                 | AvOk a => (Ok (Some a), snd m)
                                 | AvRaise mro => if caught classes mro then (Ok None, snd m) else (Err EParse, snd m)
                                 end
                      | Err e => if caught classes (mro_of e) then (Ok None, snd m) else (Err e, snd m)
                      end) = Ok (@None A)) by (simpl; rewrite Hg, Hav, Hca; reflexivity).
    rewrite (bind_fst_ok _ _ _ _ _ Hs).
    rewrite (bind_fst_ok _ _ _ _ _ (get_noflaky st k (OpRead, 0%nat) b Hn Hb)). rewrite Hc. reflexivity.
Qed.

Lemma manifest_step_complete : forall E st mref dfs, noflaky st ->
  spec_manifest E st mref = Some dfs -> fst (manifest_step E st mref) = Ok dfs.
Proof.
  intros E st [m|] dfs Hn H; simpl in *; [|inversion H; reflexivity].
  unfold obind in H. destruct (cur_bytes st m) as [b|] eqn:Hb; [|discriminate].
  rewrite (bind_fst_ok _ _ _ _ _ (exists_noflaky st m (OpExists, 0%nat) Hn)).
  assert (Hp : present st m = true) by (apply present_cur; eauto). rewrite Hp. simpl.
  unfold read_manifest. eapply two_stage_complete; eauto.
Qed.

Lemma get_all_complete : forall E st md, noflaky st -> served_meta E st = Some md ->
  match find_snap md with
  | Some s => forall dfs, spec_dfiles E st s = Some dfs -> fst (get_all_data_files E st) = Ok dfs
  | None => (mcur md = None \/ mcur md = Some (-1)) -> fst (get_all_data_files E st) = Ok []
  end.
Proof.
  intros E st md Hn Hm. unfold get_all_data_files.
  rewrite (bind_fst_ok _ _ _ _ _ (resolve_complete E st 0 md Hn Hm)).
  destruct (find_snap md) as [s|] eqn:Hs.
  - intros dfs Hd. unfold spec_dfiles, obind in Hd.
    destruct (cur_bytes st (slist s)) as [lb|] eqn:Hlb; [|discriminate].
    destruct (list_content E lb) as [ms|] eqn:Hlc; [|discriminate].
    destruct (all_some (map (spec_manifest E st) ms)) as [dfss|] eqn:Hall; [|discriminate]. inversion Hd; subst dfs.
    rewrite (bind_fst_ok _ _ _ _ _ (exists_noflaky st (slist s) (OpExists, 0%nat) Hn)).
    assert (Hp : present st (slist s) = true) by (apply present_cur; eauto). rewrite Hp. simpl.
    assert (Hrl : fst (read_list E st (slist s)) = Ok ms) by (unfold read_list; eapply two_stage_complete; eauto).
    rewrite (bind_fst_ok _ _ _ _ _ Hrl).
    assert (Hmm : fst (mapM (manifest_step E st) ms) = Ok dfss).
    { apply mapM_complete. apply all_some_inv in Hall. eapply forall2_impl; [|exact Hall].
      intros x y Hxy. apply manifest_step_complete; assumption. }
    rewrite (bind_fst_ok _ _ _ _ _ Hmm). reflexivity.
  - intro Hc. destruct Hc as [-> | ->]; reflexivity.
Qed.

Definition sums_ok (E : env) (st : store) (dfs : list dfile) : Prop :=
  forall df b d, In df dfs -> cur_bytes st (dpath df) = Some b -> dsum df = Some d -> sha E b = d.

Lemma read_data_complete : forall E st v df rows, noflaky st ->
  spec_file_rows E st df = Some rows ->
  (forall b d, cur_bytes st (dpath df) = Some b -> dsum df = Some d -> sha E b = d) ->
  fst (read_data E st v df) = Ok rows.
Proof.
  intros E st v df rows Hn Hr Hsum. unfold spec_file_rows, obind in Hr.
  destruct (cur_bytes st (dpath df)) as [b|] eqn:Hb; [|discriminate].
  destruct (parquet E b) as [rs|p] eqn:Hp; [|discriminate]. inversion Hr; subst rs.
  unfold read_data. rewrite (bind_fst_ok _ _ _ _ _ (get_noflaky st (dpath df) (data_site v df) b Hn Hb)).
  destruct v; destruct (dsum df) as [d|] eqn:Hd; rewrite ?Hp; try reflexivity.
  rewrite (Hsum b d eq_refl eq_refl). rewrite N.eqb_refl. reflexivity.
Qed.

Theorem healthy_ok : forall E st a o md ans,
  noflaky st -> served_meta E st = Some md -> spec_answer E st a md = Some ans ->
  (forall s dfs, find_snap md = Some s -> spec_dfiles E st s = Some dfs -> sums_ok E st dfs) ->
  out (read_current E st a o) = Ok ans.
Proof.
  intros E st a o md ans Hn Hm Hans Hsums. unfold read_current. simpl. unfold run.
  pose proof (get_all_complete E st md Hn Hm) as Hg. unfold spec_answer in Hans.
  destruct (find_snap md) as [s|] eqn:Hs.
  - unfold obind in Hans. destruct (spec_dfiles E st s) as [dfs|] eqn:Hd; [|discriminate].
    rewrite (bind_fst_ok _ _ _ _ _ (Hg dfs eq_refl)).
    destruct (reads_data a) eqn:Hr.
    + unfold spec_rows, obind in Hans.
      destruct (all_some (map (spec_file_rows E st) dfs)) as [tabs|] eqn:Hall; [|discriminate]. inversion Hans; subst ans.
      assert (Hmm : fst (mapM (read_data E st (verify o)) dfs) = Ok tabs).
      { apply mapM_complete. apply all_some_inv in Hall.
        pose proof (Hsums s dfs eq_refl Hd) as Hso'. clear Hsums Hg Hd.
        revert Hso'. induction Hall as [|df t l ts Hdf _ IH]; intro Hso'; [constructor|]. constructor.
        - apply read_data_complete; [exact Hn|exact Hdf|]. intros b d Hb Hdd. apply (Hso' df b d); [left; reflexivity|exact Hb|exact Hdd].
        - apply IH; [reflexivity|]. intros df' b d Hin. apply Hso'. right. exact Hin. }
      assert (Hds : fst (data_stage E st a (verify o) dfs) = Ok (List.concat tabs)).
      { rewrite data_stage_fst. rewrite (bind_fst_ok _ _ _ _ _ Hmm). reflexivity. }
      destruct a; try (rewrite (bind_fst_ok _ _ _ _ _ Hds); reflexivity). discriminate.
    + inversion Hans; subst ans. destruct a; try discriminate. reflexivity.
  - assert (Hc : mcur md = None \/ mcur md = Some (-1)).
    { destruct (mcur md) as [id|]; [|left; reflexivity]. destruct (id =? -1) eqn:Hid; [|discriminate].
      apply Z.eqb_eq in Hid. subst. right. reflexivity. }
    rewrite (bind_fst_ok _ _ _ _ _ (Hg Hc)).
    assert (Ha : ans = if reads_data a then ARows [] else ACount 0).
    { destruct (mcur md) as [id|]; [destruct (id =? -1)|]; inversion Hans; reflexivity. }
    subst ans. destruct a; reflexivity.
Qed.

(* ================================================================ C14_history_independent *)
Theorem history_independent : forall E history st a o d,
  last (read_session E (history ++ [(st, a, o)])) d = read_current E st a o.
Proof. intros E history st a o d. unfold read_session. rewrite map_app. simpl. apply last_last. Qed.

(* ================================================================ C14_checksum_survives_history *)
Lemma entry_checksum_kept : forall added c, gen_entry_checksum added c = c.
Proof. intros [|] c; reflexivity. Qed.

Definition same_entry (d a : dfile) : Prop := dpath d = dpath a /\ dcount d = dcount a /\ dsum d = dsum a.

Lemma written_same : forall b d, same_entry (written_entry b d) d.
Proof. intros b d. unfold same_entry, written_entry. simpl. rewrite entry_checksum_kept. auto. Qed.

(* d is (a carried-over copy of) an entry some commit of h appended *)
Definition origin (h : list commit) (d : dfile) : Prop :=
  exists c a, In c h /\ In a (c_appended c) /\ same_entry d a.

Lemma origin_more : forall h h' d, origin h d -> origin (h ++ h') d.
Proof. intros h h' d [c [a [Hc H]]]. exists c, a. split; [apply in_or_app; left; exact Hc|exact H]. Qed.

Lemma same_trans : forall d e a, same_entry d e -> same_entry e a -> same_entry d a.
Proof. unfold same_entry. intros d e a [H1 [H2 H3]] [H4 [H5 H6]]. repeat split; congruence. Qed.

Lemma create_manifest_in : forall added existing d, In d (create_manifest added existing) ->
  exists e, (In e added \/ In e existing) /\ same_entry d e.
Proof.
  intros added existing d H. unfold create_manifest in H. apply in_app_or in H.
  destruct H as [H|H]; apply in_map_iff in H; destruct H as [e [<- He]]; exists e; split; auto; apply written_same.
Qed.

Lemma rewrite_step_in : forall del dfs m d, In m (rewrite_step del dfs) -> In d m -> exists e, In e dfs /\ same_entry d e.
Proof.
  intros del dfs m d Hm Hd. unfold rewrite_step in Hm.
  destruct (Nat.eqb (List.length (survivors del dfs)) (List.length dfs)).
  - destruct Hm as [<-|[]]. exists d. split; [exact Hd|unfold same_entry; auto].
  - destruct (survivors del dfs) as [|x tl] eqn:Hs; [contradiction|]. destruct Hm as [<-|[]].
    apply create_manifest_in in Hd. destruct Hd as [e [[[]|He] Hsame]]. exists e. split; [|exact Hsame].
    assert (Hin : In e (survivors del dfs)) by (rewrite Hs; exact He). unfold survivors in Hin. apply filter_In in Hin. apply Hin.
Qed.

Lemma apply_commit_origin : forall h ms c,
  (forall m d, In m ms -> In d m -> origin h d) ->
  forall m d, In m (apply_commit ms c) -> In d m -> origin (h ++ [c]) d.
Proof.
  intros h ms c Hinv m d Hm Hd. unfold apply_commit in Hm. apply in_app_or in Hm. destruct Hm as [Hm|Hm].
  - apply origin_more. destruct (c_deleted c) as [|k del]; [eapply Hinv; eauto|].
    apply in_flat_map in Hm. destruct Hm as [m0 [Hm0 Hm]].
    destruct (rewrite_step_in _ _ _ _ Hm Hd) as [e [He Hsame]].
    destruct (Hinv m0 e Hm0 He) as [c0 [a [Hc0 [Ha Hea]]]]. exists c0, a. split; [exact Hc0|]. split; [exact Ha|].
    eapply same_trans; eauto.
  - destruct (c_appended c) as [|x app] eqn:Happ; [contradiction|]. destruct Hm as [<-|[]].
    apply create_manifest_in in Hd. destruct Hd as [e [[He|[]] Hsame]].
    exists c, e. split; [apply in_or_app; right; left; reflexivity|]. split; [rewrite Happ; exact He|exact Hsame].
Qed.

Lemma fold_history_origin : forall h h0 ms,
  (forall m d, In m ms -> In d m -> origin h0 d) ->
  forall m d, In m (fold_left apply_commit h ms) -> In d m -> origin (h0 ++ h) d.
Proof.
  induction h as [|c h IH]; intros h0 ms Hinv m d Hm Hd; simpl in *.
  - rewrite app_nil_r. eapply Hinv; eauto.
  - replace (h0 ++ c :: h) with ((h0 ++ [c]) ++ h) by (rewrite <- app_assoc; reflexivity).
    eapply IH; [|exact Hm|exact Hd]. apply apply_commit_origin. exact Hinv.
Qed.

Theorem checksum_survives_history : forall h m d,
  In m (run_history h) -> In d m ->
  exists c a, In c h /\ In a (c_appended c) /\ dpath d = dpath a /\ dcount d = dcount a /\ dsum d = dsum a.
Proof.
  intros h m d Hm Hd. unfold run_history in Hm.
  destruct (fold_history_origin h [] [] (fun m0 d0 H => match H with end) m d Hm Hd) as [c [a [Hc [Ha [H1 [H2 H3]]]]]].
  exists c, a. auto.
Qed.

(* ================================================================ C14_no_check_use_gap *)
Lemma read_data_one_access : forall E st v df, snd (read_data E st v df) = [(dpath df, data_site v df)].
Proof.
  intros E st v df. unfold read_data, bind.
  assert (Hs : snd (st_get st (dpath df) (data_site v df)) = [(dpath df, data_site v df)]).
  { unfold st_get. destruct (st (dpath df)) as [| |s' b]; try reflexivity. destruct (site_eqb _ _); reflexivity. }
  destruct (fst (st_get st (dpath df) (data_site v df))) as [b|e]; simpl; rewrite Hs; [|reflexivity].
  destruct v; destruct (dsum df); try destruct (N.eqb _ _); try destruct (parquet E b); reflexivity.
Qed.

Lemma data_stage_t_trace : forall E ts v dfs t tabs,
  fst (data_stage_t E ts t v dfs) = Ok tabs -> List.length (snd (data_stage_t E ts t v dfs)) = List.length dfs.
Proof.
  intros E ts v dfs. induction dfs as [|df tl IH]; intros t tabs H; simpl in *; [reflexivity|].
  apply bind_ok in H. destruct H as [y [Hy H]]. apply bind_ok in H. destruct H as [ys [Hys _]].
  rewrite (bind_snd_ok _ _ _ _ _ Hy). rewrite (bind_snd_ok _ _ _ _ _ Hys). simpl.
  rewrite !app_length. rewrite read_data_one_access. rewrite (IH _ _ Hys). simpl. rewrite Nat.add_0_r. reflexivity.
Qed.

Theorem no_check_use_gap : forall E ts v dfs t tabs,
  fst (data_stage_t E ts t v dfs) = Ok tabs ->
  List.length (snd (data_stage_t E ts t v dfs)) = List.length dfs /\
  forall i df tab, nth_error dfs i = Some df -> nth_error tabs i = Some tab ->
    exists b, cur_bytes (ts (t + i)%nat) (dpath df) = Some b /\ parquet E b = PqOk tab
              /\ (v = true -> forall d, dsum df = Some d -> sha E b = d).
Proof.
  intros E ts v dfs t tabs H. split; [eapply data_stage_t_trace; eauto|].
  revert t tabs H. induction dfs as [|df0 tl IH]; intros t tabs H i df tab Hdf Htab.
  - destruct i; discriminate.
  - simpl in H. apply bind_ok in H. destruct H as [y [Hy H]]. apply bind_ok in H. destruct H as [ys [Hys H]].
    simpl in H. inversion H; subst tabs. destruct i as [|i]; simpl in Hdf, Htab.
    + inversion Hdf; subst df0. inversion Htab; subst y. rewrite Nat.add_0_r.
      apply read_data_ok in Hy. destruct Hy as [b [Hb [Hp [_ Hs]]]]. exists b. auto.
    + rewrite Nat.add_succ_r. apply (IH (S t) ys Hys i df tab Hdf Htab).
Qed.

(* ================================================================ C14_list_fields_without_read_meaning *)
Lemma bind_ext : forall A B (m : M A) (f g : A -> M B), (forall a, f a = g a) -> bind m f = bind m g.
Proof. intros A B m f g H. unfold bind. destruct (fst m) as [a|e]; [rewrite H|]; reflexivity. Qed.

Lemma avro_stage_ext : forall A st k (p p' : bytes -> avro A) classes,
  (forall b, p b = p' b) -> avro_stage st k p classes = avro_stage st k p' classes.
Proof.
  intros A st k p p' classes H. unfold avro_stage. destruct (fst (st_get st k (OpOpen, 0%nat))) as [b|e]; [rewrite H|]; reflexivity.
Qed.

Lemma two_stage_ext : forall A st k (p p' : bytes -> avro A) js classes,
  (forall b, p b = p' b) -> two_stage st k p js classes = two_stage st k p' js classes.
Proof.
  intros A st k p p' js classes H. unfold two_stage. apply bind_ext. intro ex. destruct (negb ex); [reflexivity|].
  rewrite (avro_stage_ext _ st k p p' classes H). reflexivity.
Qed.

Lemma get_all_list_decoder : forall E dec dec' st,
  (forall b, project_list (dec b) = project_list (dec' b)) ->
  get_all_data_files (with_list_decoder E dec) st = get_all_data_files (with_list_decoder E dec') st.
Proof.
  intros E dec dec' st H. unfold get_all_data_files.
  change (resolve (with_list_decoder E dec) st) with (resolve E st).
  change (resolve (with_list_decoder E dec') st) with (resolve E st).
  apply bind_ext. intro r0. destruct (match r0 with Some md => find_snap md | None => None end) as [s|]; [|reflexivity].
  apply bind_ext. intro ex. destruct (negb ex); [reflexivity|].
  assert (Hl : read_list (with_list_decoder E dec) st (slist s) = read_list (with_list_decoder E dec') st (slist s)).
  { unfold read_list. apply two_stage_ext. exact H. }
  rewrite Hl. reflexivity.
Qed.

Lemma yielded_of_decoder : forall E dec st v dfs, yielded_of (with_list_decoder E dec) st v dfs = yielded_of E st v dfs.
Proof.
  intros E dec st v dfs. induction dfs as [|df tl IH]; [reflexivity|]. simpl.
  change (read_data (with_list_decoder E dec) st v df) with (read_data E st v df).
  change (yield_of (with_list_decoder E dec) st v df) with (yield_of E st v df).
  rewrite IH. reflexivity.
Qed.

Theorem list_fields_without_read_meaning : forall E dec dec' st a o,
  (forall b, project_list (dec b) = project_list (dec' b)) ->
  read_current (with_list_decoder E dec) st a o = read_current (with_list_decoder E dec') st a o.
Proof.
  intros E dec dec' st a o H.
  assert (Hr : run (with_list_decoder E dec) st a o = run (with_list_decoder E dec') st a o).
  { unfold run. rewrite (get_all_list_decoder E dec dec' st H). reflexivity. }
  unfold read_current. rewrite Hr. rewrite (get_all_list_decoder E dec dec' st H).
  f_equal. destruct (fst (run (with_list_decoder E dec') st a o)) as [ans|e]; [reflexivity|].
  destruct (is_generator a); [|reflexivity].
  destruct (fst (get_all_data_files (with_list_decoder E dec') st)) as [dfs|e']; [|reflexivity].
  rewrite !yielded_of_decoder. reflexivity.
Qed.

(* ================================================================ C14_recovery_listing_fails_closed *)
Lemma resolve_listing_fails : forall E st r b,
  (forall s b', st HINT <> Flaky s b') ->
  (hinted E st = None \/ exists mk, hinted E st = Some mk /\ st mk = Absent) ->
  st METADIR = Flaky (OpList, r) b ->
  fst (resolve E st r) = Err EIO.
Proof.
  intros E st r b Hh Hhint Hl. unfold resolve.
  assert (Hlist : fst (st_list E st r) = Err EIO) by (unfold st_list; rewrite Hl, site_eqb_refl; reflexivity).
  assert (Hex : fst (st_exists st HINT (OpExists, r)) = Ok (present st HINT)).
  { unfold st_exists, present. destruct (st HINT) as [| |s b'] eqn:Hc; try reflexivity. exfalso. exact (Hh s b' eq_refl). }
  rewrite (bind_fst_ok _ _ _ _ _ Hex).
  assert (Hhn : fst (if present st HINT then b0 <- st_get st HINT (OpRead, r) ;; ret (parse_hint E b0) else ret None) = Ok (hinted E st)).
  { unfold hinted, present, cur_bytes, st_get. destruct (st HINT) as [| hb|s b'] eqn:Hc; try reflexivity. exfalso. exact (Hh s b' eq_refl). }
  rewrite (bind_fst_ok _ _ _ _ _ Hhn).
  apply bind_fst_err. destruct Hhint as [-> | [mk [-> Habs]]]; [exact Hlist|].
  assert (Hex2 : fst (st_exists st mk (OpExists, r)) = Ok false) by (unfold st_exists; rewrite Habs; reflexivity).
  rewrite (bind_fst_ok _ _ _ _ _ Hex2). exact Hlist.
Qed.

Theorem recovery_listing_fails_closed : forall E st a o b,
  (forall s b', st HINT <> Flaky s b') ->
  (hinted E st = None \/ exists mk, hinted E st = Some mk /\ st mk = Absent) ->
  st METADIR = Flaky (OpList, 0%nat) b ->
  out (read_current E st a o) = Err EIO.
Proof.
  intros E st a o b Hh Hhint Hl. unfold read_current. simpl. unfold run. apply bind_fst_err.
  unfold get_all_data_files. apply bind_fst_err. eapply resolve_listing_fails; eauto.
Qed.

(* ================================================================ C14_batched_guard_complete *)
Lemma prefixes_shorter : forall handed groups, Forall2 prefix_of handed groups ->
  (List.length (List.concat handed) <= List.length (List.concat groups))%nat.
Proof.
  intros handed groups H. induction H as [|a b hs gs [c ->] _ IH]; simpl; [lia|]. rewrite !app_length. lia.
Qed.

Theorem batched_guard_complete : forall handed groups rows,
  Forall2 prefix_of handed groups ->
  guarded_batches (List.length (List.concat groups)) handed = Ok rows ->
  rows = List.concat groups.
Proof.
  intros handed groups rows H Hg. unfold guarded_batches in Hg.
  destruct (Nat.eqb (List.length (List.concat handed)) (List.length (List.concat groups))) eqn:He; [|discriminate].
  inversion Hg; subst rows. clear Hg. apply Nat.eqb_eq in He.
  induction H as [|a b hs gs [c ->] Hrest IH]; [reflexivity|]. simpl in *.
  pose proof (prefixes_shorter _ _ Hrest) as Hle. rewrite !app_length in He.
  assert (Hc : List.length c = 0%nat) by lia. destruct c; [|discriminate]. rewrite app_nil_r in *.
  f_equal. apply IH. lia.
Qed.
