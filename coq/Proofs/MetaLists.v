(* Proofs/MetaLists.v -- list lemmas used by Proofs/MetaProofs.v (filters, stable sort by timestamp,
   remove_first, lastn). *)
From Coq Require Import ZArith List Bool Lia Permutation Sorted.
Require Import DS.Model.MetaBase DS.Gen.GenRepoint DS.Model.Meta DS.Proofs.RepointProofs.
Import ListNotations.
Open Scope Z_scope.

Lemma filter_map_comm : forall (A B : Type) (f : A -> B) (g : B -> bool) (l : list A),
  filter g (map f l) = map f (filter (fun x => g (f x)) l).
Proof.
  intros A B f g l. induction l as [|x l IH]; simpl; [reflexivity|].
  destruct (g (f x)); simpl; rewrite IH; reflexivity.
Qed.

Lemma filter_filter_imp : forall (A : Type) (P Q : A -> bool) (l : list A),
  (forall x, In x l -> P x = true -> Q x = true) -> filter P (filter Q l) = filter P l.
Proof.
  intros A P Q l H. induction l as [|x l IH]; simpl; [reflexivity|].
  assert (IH' : filter P (filter Q l) = filter P l) by (apply IH; intros; apply H; [right|]; assumption).
  destruct (Q x) eqn:EQ; simpl.
  - rewrite IH'. reflexivity.
  - destruct (P x) eqn:EP; [|exact IH']. rewrite (H x (or_introl eq_refl) EP) in EQ. discriminate.
Qed.

Lemma filter_all_true : forall (A : Type) (P : A -> bool) (l : list A), (forall x, In x l -> P x = true) -> filter P l = l.
Proof.
  intros A P l H. induction l as [|x l IH]; simpl; [reflexivity|].
  rewrite (H x (or_introl eq_refl)). f_equal. apply IH. intros y Hy. apply H. right. exact Hy.
Qed.

Lemma filter_In_sub : forall (A : Type) (P : A -> bool) (l : list A) x, In x (filter P l) -> In x l.
Proof. intros A P l x H. apply filter_In in H. tauto. Qed.

Lemma NoDup_map_filter : forall (A B : Type) (f : A -> B) (P : A -> bool) (l : list A),
  NoDup (map f l) -> NoDup (map f (filter P l)).
Proof.
  intros A B f P l. induction l as [|x l IH]; simpl; intros H; [constructor|].
  inversion H; subst. destruct (P x); simpl; [|apply IH; assumption].
  constructor; [|apply IH; assumption].
  intro Hin. apply H2. apply in_map_iff in Hin. destruct Hin as [y [Hy Hin]].
  apply in_map_iff. exists y. split; [exact Hy|]. eapply filter_In_sub. exact Hin.
Qed.

Lemma NoDup_map_inj_in : forall (A B : Type) (f : A -> B) (l : list A) x y,
  NoDup (map f l) -> In x l -> In y l -> f x = f y -> x = y.
Proof.
  intros A B f l. induction l as [|a l IH]; simpl; intros x y Hnd Hx Hy Hf; [contradiction|].
  inversion Hnd; subst.
  destruct Hx as [->|Hx], Hy as [->|Hy]; try reflexivity.
  - exfalso. apply H1. rewrite Hf. apply in_map. exact Hy.
  - exfalso. apply H1. rewrite <- Hf. apply in_map. exact Hx.
  - apply IH; assumption.
Qed.

(* ------------------------------------------------------------------ skipn / lastn *)
Lemma skipn_In : forall (A : Type) n (l : list A) x, In x (skipn n l) -> In x l.
Proof.
  intros A n. induction n as [|n IH]; intros l x H; [exact H|].
  destruct l as [|a l]; [exact H|]. right. apply IH. exact H.
Qed.

Lemma lastn_In : forall (A : Type) n (l : list A) x, In x (lastn n l) -> In x l.
Proof. intros A n l x H. unfold lastn in H. eapply skipn_In. exact H. Qed.

Lemma lastn_length : forall (A : Type) n (l : list A), (n <= length l)%nat -> length (lastn n l) = n.
Proof. intros A n l H. unfold lastn. rewrite skipn_length. lia. Qed.

Lemma lastn_suffix : forall (A : Type) n (l : list A), exists pre, l = pre ++ lastn n l.
Proof. intros A n l. unfold lastn. exists (firstn (length l - n) l). symmetry. apply firstn_skipn. Qed.

(* ------------------------------------------------------------------ stable sort by timestamp *)
Lemma insert_ts_perm : forall x l, Permutation (insert_ts x l) (x :: l).
Proof.
  intros x l. induction l as [|y l IH]; simpl; [apply Permutation_refl|].
  destruct (ts x <=? ts y); [apply Permutation_refl|].
  eapply Permutation_trans; [apply perm_skip; exact IH|apply perm_swap].
Qed.

Lemma sort_ts_perm : forall l, Permutation (sort_ts l) l.
Proof.
  induction l as [|x l IH]; simpl; [constructor|].
  eapply Permutation_trans; [apply insert_ts_perm|apply perm_skip; exact IH].
Qed.

Lemma sort_ts_In : forall l x, In x (sort_ts l) <-> In x l.
Proof.
  intros l x. split; intro H.
  - eapply Permutation_in; [apply sort_ts_perm|exact H].
  - eapply Permutation_in; [apply Permutation_sym; apply sort_ts_perm|exact H].
Qed.

Lemma sort_ts_NoDup_sid : forall l, NoDup (map sid l) -> NoDup (map sid (sort_ts l)).
Proof.
  intros l H. eapply Permutation_NoDup; [|exact H].
  apply Permutation_map. apply Permutation_sym. apply sort_ts_perm.
Qed.

(* a list already ordered by timestamp is left alone (stability) *)
Definition ts_sorted (l : list snap) : Prop := StronglySorted (fun a b => ts a <= ts b) l.

Lemma insert_ts_sorted_head : forall x l, Forall (fun y => ts x <= ts y) l -> insert_ts x l = x :: l.
Proof.
  intros x l H. destruct l as [|y l]; simpl; [reflexivity|].
  inversion H; subst. destruct (Z.leb_spec (ts x) (ts y)); [reflexivity|lia].
Qed.

Lemma sort_ts_sorted_id : forall l, ts_sorted l -> sort_ts l = l.
Proof.
  intros l H. induction H as [|x l Hs IH Hall]; simpl; [reflexivity|].
  rewrite IH. apply insert_ts_sorted_head. exact Hall.
Qed.

(* ------------------------------------------------------------------ remove_first *)
Lemma remove_first_spec : forall id l rest, remove_first id l = Some rest ->
  exists l1 s l2, l = l1 ++ s :: l2 /\ rest = l1 ++ l2 /\ sid s = id /\ (forall x, In x l1 -> sid x <> id).
Proof.
  intros id l. induction l as [|a l IH]; simpl; intros rest H; [discriminate|].
  destruct (Z.eqb_spec (sid a) id) as [He|Hne].
  - inversion H; subst. exists [], a, rest. repeat split; intros; try reflexivity. contradiction.
  - destruct (remove_first id l) as [r|] eqn:E; [|discriminate]. inversion H; subst.
    destruct (IH r eq_refl) as [l1 [s [l2 [H1 [H2 [H3 H4]]]]]]. subst.
    exists (a :: l1), s, l2. repeat split; try reflexivity.
    intros x [<-|Hx]; [exact Hne|apply H4; exact Hx].
Qed.

Lemma remove_first_none : forall id l, remove_first id l = None -> ~ In id (map sid l).
Proof.
  intros id l. induction l as [|a l IH]; simpl; intros H; [tauto|].
  destruct (Z.eqb_spec (sid a) id) as [He|Hne]; [discriminate|].
  destruct (remove_first id l) as [r|] eqn:E; [discriminate|].
  intros [Ha|Hin]; [contradiction|]. apply IH; [reflexivity|exact Hin].
Qed.

Lemma remove_first_some : forall id l, In id (map sid l) -> exists rest, remove_first id l = Some rest.
Proof.
  intros id l H. destruct (remove_first id l) as [r|] eqn:E; [eexists; reflexivity|].
  exfalso. eapply remove_first_none; eassumption.
Qed.

(* under unique ids, remove_first is the filter "id differs" *)
Lemma remove_first_filter : forall id l rest, NoDup (map sid l) -> remove_first id l = Some rest ->
  rest = filter (fun s => negb (sid s =? id)) l.
Proof.
  intros id l. induction l as [|a l IH]; simpl; intros rest Hnd H; [discriminate|].
  inversion Hnd; subst.
  destruct (Z.eqb_spec (sid a) id) as [He|Hne]; simpl.
  - inversion H; subst. symmetry. apply filter_all_true.
    intros x Hx. apply negb_true_iff. apply Z.eqb_neq. intro Hx'.
    apply H2. rewrite <- Hx'. apply in_map. exact Hx.
  - destruct (remove_first id l) as [r|] eqn:E; [|discriminate]. inversion H; subst.
    f_equal. apply IH; [assumption|reflexivity].
Qed.

Lemma NoDup_snoc : forall (A : Type) (l : list A) x, NoDup l -> ~ In x l -> NoDup (l ++ [x]).
Proof.
  intros A l x Hnd Hx. induction l as [|a l IH]; simpl; [constructor; [tauto|constructor]|].
  inversion Hnd; subst. constructor.
  - intro Hin. apply in_app_or in Hin. destruct Hin as [Hin|[Hin|[]]]; [contradiction|]. subst. apply Hx. left. reflexivity.
  - apply IH; [assumption|]. intro Hin. apply Hx. right. exact Hin.
Qed.

Lemma filter_length_le' : forall (A : Type) (P : A -> bool) (l : list A), (length (filter P l) <= length l)%nat.
Proof. intros A P l. induction l as [|x l IH]; simpl; [lia|]. destruct (P x); simpl; lia. Qed.

Lemma filter_length_eq : forall (A : Type) (P : A -> bool) (l : list A), length (filter P l) = length l -> filter P l = l.
Proof.
  intros A P l. induction l as [|x l IH]; simpl; intros H; [reflexivity|].
  destruct (P x); simpl in H.
  - f_equal. apply IH. lia.
  - pose proof (filter_length_le' _ P l). lia.
Qed.

Lemma StronglySorted_snoc : forall (A : Type) (R : A -> A -> Prop) (l : list A) y,
  StronglySorted R l -> Forall (fun x => R x y) l -> StronglySorted R (l ++ [y]).
Proof.
  intros A R l y Hs Hall. induction Hs as [|x l Hs IH Hx]; simpl.
  - constructor; constructor.
  - inversion Hall; subst. constructor; [apply IH; assumption|].
    apply Forall_app. split; [exact Hx|constructor; [assumption|constructor]].
Qed.

Lemma filter_concat : forall (A : Type) (P : A -> bool) (ll : list (list A)),
  filter P (concat ll) = concat (map (filter P) ll).
Proof.
  intros A P ll. induction ll as [|l ll IH]; simpl; [reflexivity|]. rewrite filter_app, IH. reflexivity.
Qed.
