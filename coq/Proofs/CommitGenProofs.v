(* Proofs/CommitGenProofs.v -- what the commit machine's proofs need from the regenerated kernels
   (Gen/GenCommit.v), and the agreement of the hand-written machine with the regenerated skeleton.

   The lemmas of the first part are the INTERFACE: Proofs/CommitProofs.v uses gen_stamp_eqb / gen_new_lu only
   through them.  They are re-proved on every run against the definitions the translator has just read off
   MetadataManager.commit; if the source stops validating one of the two stamp fields, or stops making the stamp
   strictly increase along the version chain, the lemma (and with it every theorem of C01 / C02 / C03 / C04 /
   C08) no longer checks. *)
From Coq Require Import ZArith List Bool Arith Lia.
Require Import DS.Model.CommitBase DS.Gen.GenCommit DS.Model.Commit.
Import ListNotations.
Open Scope Z_scope.

(* ---- interface of the regenerated decision kernels *)
Lemma gen_stamp_eqb_spec cc cl bc bl : gen_stamp_eqb cc cl bc bl = true <-> (cc = bc /\ cl = bl).
Proof.
  unfold gen_stamp_eqb. rewrite andb_true_iff, !Z.eqb_eq. tauto.
Qed.

Lemma gen_new_lu_gt now cl : cl < gen_new_lu now cl.
Proof. unfold gen_new_lu. lia. Qed.

Lemma gen_new_lu_ge_now now cl : now <= gen_new_lu now cl.
Proof. unfold gen_new_lu. lia. Qed.

Lemma stamp_eqb_true a b : stamp_eqb a b = true <-> (m_cur a = m_cur b /\ m_lu a = m_lu b).
Proof. unfold stamp_eqb. apply gen_stamp_eqb_spec. Qed.

(* ---- the machine's success path is the regenerated skeleton *)
Lemma model_path_cas_regenerated : model_path true = gen_commit_path_cas.
Proof. reflexivity. Qed.

Lemma model_path_plain_regenerated : model_path false = gen_commit_path_plain.
Proof. reflexivity. Qed.

(* ---- the regenerated handler tables *)

(* classes that can escape commit() although the pointer may have been (or has been) flipped: the ambiguous
   failure of the commit-point write, and an asynchronous interrupt (it can surface anywhere) *)
Definition may_follow_flip (e : exn_class) : bool :=
  match e with XAmbiguous | XInterrupt => true | XConflict | XOther => false end.

(* a commit-point write that may have taken effect is never classified as a clean failure:
   on conditional-write storage every failure but the store's own refusal is ambiguous; without conditional
   writes a failure is clean only where failed writes are guaranteed invisible (atomic_write_failures) *)
Lemma flip_error_possibly_applied_is_ambiguous casb atomic :
  (casb = true \/ atomic = false) -> gen_flip_exn casb atomic FEError = XAmbiguous.
Proof. intros [H|H]; subst; [destruct atomic | destruct casb]; reflexivity. Qed.

(* a refused conditional write is the retryable conflict *)
Lemma flip_refused_is_conflict atomic : gen_flip_exn true atomic FEPrecondition = XConflict.
Proof. destruct atomic; reflexivity. Qed.

(* whatever may follow a flip never makes the transaction delete its files, nor the commit section discard the
   metadata file it wrote *)
Lemma handlers_keep_after_possible_flip e last :
  may_follow_flip e = true -> gen_tx_on e last <> TxRollbackDelete /\ gen_discard_on e = false.
Proof. destruct e, last; simpl; intro H; try discriminate; split; (discriminate || reflexivity). Qed.

(* a conflict is retried against a fresh base until the attempt bound, then reported after a rollback *)
Lemma conflict_retries : gen_tx_on XConflict false = TxRetry /\ gen_tx_on XConflict true = TxRollbackDelete
  /\ (0 < gen_max_retries)%nat.
Proof. repeat split. unfold gen_max_retries. lia. Qed.

(* every class is handled: nothing propagates without the transaction being finished (so that a context manager's
   __exit__ cannot run a deleting rollback afterwards) *)
Lemma every_class_finishes e last : gen_tx_on e last <> TxPropagate.
Proof. destruct e, last; discriminate. Qed.

(* a clean failure of the fence / commit point removes the unpublished metadata file (recovery by "highest version
   on disk" must not surface it: C10) *)
Lemma clean_failure_discards : gen_discard_on XConflict = true /\ gen_discard_on XOther = true.
Proof. split; reflexivity. Qed.
