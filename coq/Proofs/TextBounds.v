(* Proofs/TextBounds.v -- stored statistics need not be exact, they must be SOUND.

   file pruning (filters._file_may_match, GenPrune.gen_try_body) reads the bounds a writer stored.  The scan APIs
   return the SQL answer for ANY stored bounds under which no expression prunes a file holding a selected row
   (`expr_bounds_ok`): exact min / max (C13), or -- for text columns -- any lower bound below every value and any
   upper bound above every value (conservative bounds, e.g. a PREFIX of the minimum as lower bound).
   A prefix of the maximum as upper bound is not sound: refuted by a concrete file. *)
From Coq Require Import String Ascii.
From Coq Require Import ZArith QArith List Bool Lia.
Require Import DS.Model.Value DS.Model.FilterExpr DS.Gen.GenPrune DS.Model.Prune DS.Proofs.ValueOrder DS.Proofs.PruneProofs.
Require Import DS.Gen.GenFilterConst DS.Gen.GenFilter DS.Model.Filter DS.Proofs.FilterProofs.
Import ListNotations.
Open Scope Z_scope.

(* the bounds stored for one file are sound for one expression *)
Definition expr_bounds_ok (X : value -> value -> bool) (lo hi : list (Z * value)) (ids : list (Z * Z)) (rows : list row) (e : fexpr) : Prop :=
  forall cid fmin fmax,
    lookup (fcol e) ids = Some cid -> lookup cid lo = Some fmin -> lookup cid hi = Some fmax ->
    gen_try_body (fop_ e) fmin fmax (fsval e) (flval e) = Some false ->
    forall r, In r rows -> selected X (fop_ e) (cell r (fcol e)) (fsval e) (flval e) = false.

Lemma may_match_sound_gen X lo hi ids rows es :
  (forall e, In e es -> expr_bounds_ok X lo hi ids rows e) ->
  file_may_match lo hi ids es = false -> forall r, In r rows -> row_selected X es r = false.
Proof.
  induction es as [|e es IH]; simpl; intros OK F r Hr; [discriminate|].
  assert (OK' : forall e0, In e0 es -> expr_bounds_ok X lo hi ids rows e0) by (intros; apply OK; auto).
  destruct (lookup (fcol e) ids) as [cid|] eqn:L.
  - destruct (lookup cid lo) as [fmin|] eqn:L1; [|rewrite (IH OK' F r Hr); apply andb_false_r].
    destruct (lookup cid hi) as [fmax|] eqn:L2; [|rewrite (IH OK' F r Hr); apply andb_false_r].
    destruct (gen_try_body (fop_ e) fmin fmax (fsval e) (flval e)) as [[]|] eqn:G.
    + rewrite (IH OK' F r Hr). apply andb_false_r.
    + rewrite (OK e (or_introl eq_refl) cid fmin fmax L L1 L2 G r Hr). reflexivity.
    + rewrite (IH OK' F r Hr). apply andb_false_r.
  - rewrite (IH OK' F r Hr). apply andb_false_r.
Qed.

Section SoundBounds.
  Variable X : value -> value -> bool.
  Variable E : cexpr -> row -> bool.
  Variable B : cexpr -> bool.
  Variable PA : parg -> bool.
  Variable sch : list Z.
  Variable ids : list (Z * Z).
  Variable bounds : file -> list (Z * value) * list (Z * value).

  Definition bounds_sound (es : list fexpr) (files : list file) : Prop :=
    forall f e, In f files -> In e es -> expr_bounds_ok X (fst (bounds f)) (snd (bounds f)) ids (frows f) e.

  Lemma pruned_rows_equal_gen ps es files :
    map to_fexpr ps = map Some es -> bounds_sound es files ->
    concat (map (fun f => filter (row_selected X es) (frows f)) (prune_p ids bounds ps files))
    = concat (map (fun f => filter (row_selected X es) (frows f)) files).
  Proof.
    intros Sh BS. unfold prune_p. destruct ps as [|p ps']; [reflexivity|]. destruct files as [|f0 fs0]; [reflexivity|].
    rewrite (shaped_prunable _ _ Sh). remember (f0 :: fs0) as files. clear Heqfiles f0 fs0 Sh.
    induction files as [|f fs IH]; simpl; auto.
    assert (BS' : bounds_sound es fs) by (intros f1 e1 I1 I2; apply BS; [right|]; auto).
    destruct (file_may_match _ _ ids es) eqn:M; simpl; rewrite (IH BS'); auto.
    rewrite (filter_none (row_selected X es) (frows f)); auto.
    intros r Hr. eapply may_match_sound_gen; eauto. intros e Ie. apply BS; [left|]; auto.
  Qed.

  Theorem scan_spec_gen v cols flt files ps ce es :
    prepare PA flt = Ok (ps, ce) ->
    map to_fexpr ps = map Some es ->
    valid_cols sch cols ->
    bounds_sound es files ->
    refused B ce = false ->
    (forall e f r, ce = Some e -> In f files -> In r (frows f) -> eval3 X E e r <> None) ->
    scan_table X E B PA sch ids bounds v cols flt files
    = Ok (sel cols (filter (row_selected X es) (concat (map frows files)))).
  Proof.
    intros P Sh V BS NB NR. unfold scan_table. rewrite P. simpl.
    rewrite (concat_tables_fun sch cols V).
    destruct files as [|f0 fs0]; [destruct cols; reflexivity|].
    remember (f0 :: fs0) as files. clear Heqfiles f0 fs0.
    rewrite filter_concat, map_map.
    rewrite <- (pruned_rows_equal_gen ps es files Sh BS).
    rewrite <- sel_concat, map_map.
    set (files' := prune_p ids bounds ps files).
    assert (Sub : forall f, In f files' -> In f files).
    { unfold files', prune_p. destruct ps; auto. destruct files; auto. intros f1 I. apply filter_In in I. tauto. }
    rewrite (mapM_ok _ (fun f => sel cols (filter (row_selected X es) (frows f)))).
    - reflexivity.
    - intros f I. rewrite read_one_rfp by auto. rewrite (rfp_bound X E B cols ce (frows f) NB). unfold rfp0.
      unfold prepare in P. destruct (parse flt) as [ps0|] eqn:Pa; simpl in P; [|discriminate].
      destruct (build PA ps0) as [ce0|] eqn:Bd; simpl in P; [|discriminate]. inversion P; subst ps0 ce0; clear P.
      unfold build in Bd. destruct (mapM (condition PA) ps) as [cs|] eqn:M; simpl in Bd; [|discriminate].
      injection Bd as G.
      destruct ce as [e|]; simpl.
      + rewrite filter_rows_ok by (intros r Hr; apply (NR e f r eq_refl (Sub f I) Hr)). simpl.
        do 2 f_equal. apply filter_ext_in. intros r Hr.
        pose proof (shaped_compile PA ps es cs Sh M) as MC.
        unfold keeps. destruct (eval3 X E e r) as [t|] eqn:Ev; [|exfalso; apply (NR e f r eq_refl (Sub f I) Hr Ev)].
        pose proof (conj_sound X E PA es cs e MC G r t Ev) as S.
        destruct (row_selected X es r).
        * destruct S as [_ S]. rewrite (S eq_refl). reflexivity.
        * destruct t; auto. destruct S as [S _]. specialize (S eq_refl). discriminate.
      + destruct cs as [|c cs]; [|discriminate]. apply mapM_length in M. destruct ps; [|discriminate].
        destruct es; [|discriminate]. simpl. do 2 f_equal.
        clear. induction (frows f) as [|r rs IH]; simpl; auto. rewrite <- IH. reflexivity.
  Qed.

  Theorem api_sql_gen split v cols flt files ps ce es :
    prepare PA flt = Ok (ps, ce) ->
    map to_fexpr ps = map Some es ->
    valid_cols sch cols -> (forall l, concat (split l) = l) ->
    bounds_sound es files ->
    refused B ce = false ->
    (forall e f r, ce = Some e -> In f files -> In r (frows f) -> eval3 X E e r <> None) ->
    let answer := Ok (sel cols (filter (row_selected X es) (concat (map frows files)))) in
    scan_table X E B PA sch ids bounds v cols flt files = answer
    /\ flat (scan_batches X E B PA sch ids bounds split cols flt files) = answer
    /\ iter_records X E B PA sch ids bounds cols flt files = answer.
  Proof.
    intros P Sh V S BS NB NR. cbv zeta.
    pose proof (scan_spec_gen true cols flt files ps ce es P Sh V BS NB NR) as R.
    destruct (api_agree X E B PA sch ids bounds split v cols flt files V S) as [A1 [A2 A3]].
    cbv zeta in *. rewrite A1, A2, A3. auto.
  Qed.
End SoundBounds.

(* ------------------------------------------------------------------ conservative text bounds are sound *)
Definition text_or_null (v : value) : Prop := is_null v = true \/ exists s, v = VStr s.

Lemma text_expr_sound X (vs : list value) l h op sval lval :
  (forall v, In v vs -> text_or_null v) ->
  (forall v, In v vs -> is_null v = false -> vle (VStr l) v /\ vle v (VStr h)) ->
  gen_try_body op (VStr l) (VStr h) sval lval = Some false ->
  forall v, In v vs -> selected X op v sval lval = false.
Proof.
  intros TX BT G v Hv. pose proof G as G0.
  destruct (is_null v) eqn:Nv.
  { destruct op; simpl; rewrite ?Nv; auto; unfold gen_try_body in G; simpl in G; discriminate. }
  destruct (BT v Hv Nv) as [Lo Hi].
  destruct (TX v Hv) as [N|[s ->]]; [congruence|].
  destruct op; unfold gen_try_body in G; simpl in G; simpl; auto; try discriminate.
  - (* EQ *)
    destruct (is_null sval) eqn:Ns; simpl; auto.
    apply not_true_iff_false. intro Eq. apply py_eqb_true_nonnull in Eq; auto.
    destruct (py_lt sval (VStr l)) as [[]|] eqn:C1; simpl in G; try discriminate.
    + apply py_lt_true in C1. eapply vlt_irrefl. eapply vlt_le_trans; [exact C1|].
      eapply vle_trans; [exact Lo|]. right; exact Eq.
    + destruct (py_gt sval (VStr h)) as [[]|] eqn:C2; simpl in G; try discriminate.
      apply py_gt_true in C2. eapply vlt_irrefl. eapply vle_lt_trans; [|exact C2].
      eapply vle_trans; [right; apply veq_sym; exact Eq|]. exact Hi.
  - (* NE *)
    destruct (py_eqb (VStr l) (VStr h)) eqn:E1; simpl in G; try discriminate.
    destruct (py_eqb (VStr h) sval) eqn:E2; simpl in G; try discriminate.
    apply py_eqb_true_nonnull in E1; auto. apply py_eqb_true_nonnull in E2; auto.
    assert (Evs : veq (VStr s) sval).
    { assert (L1 : vle (VStr s) sval) by (eapply vle_trans; [exact Hi | right; exact E2]).
      assert (L2 : vle sval (VStr s)).
      { eapply vle_trans; [right; apply veq_sym; exact E2|]. eapply vle_trans; [right; apply veq_sym; exact E1|]. exact Lo. }
      destruct L1 as [L1|L1]; auto. exfalso. eapply vlt_irrefl. eapply vlt_le_trans; eauto. }
    rewrite (veq_py_eqb _ _ Evs). simpl. apply andb_false_r.
  - destruct (py_ge (VStr l) sval) as [[]|] eqn:C; simpl in G; try discriminate.
    apply py_ge_true in C. destruct (py_lt (VStr s) sval) as [[]|] eqn:S; auto.
    apply py_lt_true in S. exfalso. eapply vlt_irrefl. eapply vlt_le_trans; [exact S|]. eapply vle_trans; eauto.
  - destruct (py_gt (VStr l) sval) as [[]|] eqn:C; simpl in G; try discriminate.
    apply py_gt_true in C. destruct (py_le (VStr s) sval) as [[]|] eqn:S; auto.
    apply py_le_true in S. exfalso. eapply vlt_irrefl. eapply vlt_le_trans; [exact C|]. eapply vle_trans; eauto.
  - destruct (py_le (VStr h) sval) as [[]|] eqn:C; simpl in G; try discriminate.
    apply py_le_true in C. destruct (py_gt (VStr s) sval) as [[]|] eqn:S; auto.
    apply py_gt_true in S. exfalso. eapply vlt_irrefl. eapply vlt_le_trans; [exact S|]. eapply vle_trans; eauto.
  - destruct (py_lt (VStr h) sval) as [[]|] eqn:C; simpl in G; try discriminate.
    apply py_lt_true in C. destruct (py_ge (VStr s) sval) as [[]|] eqn:S; auto.
    apply py_ge_true in S. exfalso. eapply vlt_irrefl. eapply vle_lt_trans; [|exact C]. eapply vle_trans; eauto.
  - (* IN *)
    apply not_true_iff_false. intro Ex. apply existsb_exists in Ex. destruct Ex as [w [Hw Hw2]].
    destruct (gen_in_false _ _ _ _ G0 w Hw) as [Fw [_ [Fx Fw2]]].
    apply andb_true_iff in Hw2. destruct Hw2 as [Nw IE]. apply negb_true_iff in Nw.
    unfold in_eq, cast_lossy in IE. simpl in IE. rewrite Fw in IE. simpl in Fx. rewrite xorb_false_r in Fx. rewrite Fx in IE.
    simpl in IE. apply py_eqb_true_nonnull in IE; auto.
    assert (L1 : vle (VStr l) w) by (eapply vle_trans; [exact Lo | right; exact IE]).
    assert (L2 : vle w (VStr h)) by (eapply vle_trans; [right; apply veq_sym; exact IE | exact Hi]).
    rewrite (vle_py_le _ _ L1) in Fw2. simpl in Fw2. rewrite (vle_py_le _ _ L2) in Fw2. discriminate.
Qed.

(* a text column with conservative bounds: every expression on it is soundly pruned *)
Theorem text_bounds_ok X lo hi ids rows e cid l h :
  lookup (fcol e) ids = Some cid -> lookup cid lo = Some (VStr l) -> lookup cid hi = Some (VStr h) ->
  (forall r, In r rows -> text_or_null (cell r (fcol e))) ->
  (forall r, In r rows -> is_null (cell r (fcol e)) = false -> vle (VStr l) (cell r (fcol e)) /\ vle (cell r (fcol e)) (VStr h)) ->
  expr_bounds_ok X lo hi ids rows e.
Proof.
  intros L L1 L2 TX BT cid' fmin fmax L' L1' L2' G r Hr.
  rewrite L in L'. inversion L'; subst cid'. rewrite L1 in L1'. rewrite L2 in L2'. inversion L1'; inversion L2'; subst.
  apply (text_expr_sound X (map (fun r0 => cell r0 (fcol e)) rows) l h (fop_ e) (fsval e) (flval e)); auto.
  - intros v Hv. apply in_map_iff in Hv. destruct Hv as [r0 [<- I]]. auto.
  - intros v Hv Nv. apply in_map_iff in Hv. destruct Hv as [r0 [<- I]]. auto.
  - apply in_map_iff. exists r; auto.
Qed.

(* a PREFIX is a sound LOWER bound ... *)
Lemma lex_prefix_le (n : nat) (s : list Z) : lex_cmp (firstn n s) s <> Gt.
Proof.
  revert n. induction s as [|a s IH]; intros [|n]; simpl; try discriminate.
  rewrite Z.compare_refl. apply IH.
Qed.

Theorem prefix_is_lower_bound (n : nat) (s : list Z) : vle (VStr (firstn n s)) (VStr s).
Proof.
  unfold vle, vlt, veq, vcmp. simpl. pose proof (lex_prefix_le n s) as H.
  destruct (lex_cmp (firstn n s) s); simpl; auto. congruence.
Qed.

(* ... but NOT a sound UPPER bound: a file whose only row is "ab", bounds truncated to 1 character (lo = hi = "a"),
   filter x == "ab": the file is pruned although the row is selected. *)
Theorem prefix_upper_bound_refuted :
  exists (X : value -> value -> bool) lo hi ids rows e,
    (forall r, In r rows -> vle (VStr [97]) (cell r (fcol e)))              (* the prefix IS below every value *)
    /\ ~ expr_bounds_ok X lo hi ids rows e
    /\ file_may_match lo hi ids [e] = false
    /\ exists r, In r rows /\ row_selected X [e] r = true.
Proof.
  exists (fun _ _ => false), [(1, VStr [97])], [(1, VStr [97])], [(0, 1)], [[(0, VStr [97; 98])]],
         {| fcol := 0; fop_ := EQ; fsval := VStr [97; 98]; flval := [] |}.
  split; [intros r [<-|[]]; left; reflexivity|].
  split.
  - intro H. specialize (H 1 (VStr [97]) (VStr [97]) eq_refl eq_refl eq_refl eq_refl [(0, VStr [97; 98])] (or_introl eq_refl)).
    vm_compute in H. discriminate.
  - split; [reflexivity|]. exists [(0, VStr [97; 98])]. split; [left; reflexivity | reflexivity].
Qed.
