(* Proofs/C09MetaProofs.v -- the metadata plane of property C09 over Model/Meta.v, without any hypothesis on the clock.

   Part 1: a retained snapshot is frozen: across ANY continuation of ANY history (transactions that append, delete files --
           which builds a NEW snapshot with rewritten manifests --, expire; snapshot deletions; retention pruning; commits
           that abort or commit nothing) a snapshot that is retained before and after has the timestamp, the sequence
           number and the manifest list (every manifest, every entry) it had.  Only the parent link may be repointed.
   Part 2: lookup by id is complete and exact.
   Part 3: lookup by timestamp, unconditionally: the invariant `cordered` (within one timestamp, the snapshots list is
           in commit order -- the stable sort of _apply_retention never swaps equal timestamps) and the characterisation
           of get_snapshot_by_timestamp: greatest timestamp <= t, and among the retained snapshots carrying that
           timestamp the most recently committed.
   Part 4: the statement "most recently committed retained snapshot not newer than t" WITHOUT the hypothesis that commit
           timestamps never decrease is false of the model (and of the code): witness. *)
From Coq Require Import ZArith List Bool Lia Permutation Sorted.
Require Import DS.Model.MetaBase DS.Gen.GenRepoint DS.Model.Meta DS.Model.MetaSpec.
Require Import DS.Proofs.RepointProofs DS.Proofs.MetaLists DS.Proofs.MetaProofs.
Require Import DS.Model.MetaPy DS.Gen.GenMeta DS.Proofs.MetaGenProofs.
Import ListNotations.
Open Scope Z_scope.

(* ================================================================== Part 1: retained snapshots are frozen *)
Lemma grun_app : forall sg ops1 ops2, grun sg (ops1 ++ ops2) = grun (grun sg ops1) ops2.
Proof. intros. unfold grun. apply fold_left_app. Qed.

Lemma gstep_hist_ext : forall sg o, exists X, hist (snd (gstep sg o)) = hist (snd sg) ++ X.
Proof.
  intros [st g] o. unfold gstep. destruct (step_full st o) as [[st' oc] ns]. simpl.
  destruct ns as [s|]; [exists [s]; reflexivity|exists []; rewrite app_nil_r; reflexivity].
Qed.

Lemma grun_hist_ext : forall ops sg, exists X, hist (snd (grun sg ops)) = hist (snd sg) ++ X.
Proof.
  unfold grun. intros ops. induction ops as [|o ops IH]; intros sg; [exists []; rewrite app_nil_r; reflexivity|].
  simpl. destruct (IH (gstep sg o)) as [X HX]. destruct (gstep_hist_ext sg o) as [Y HY].
  exists (Y ++ X). rewrite HX, HY, app_assoc. reflexivity.
Qed.

(* the committed-snapshot history only grows *)
Lemma hist_of_app : forall t0 f0 ops1 ops2, exists X, hist_of t0 f0 (ops1 ++ ops2) = hist_of t0 f0 ops1 ++ X.
Proof.
  intros t0 f0 ops1 ops2. unfold hist_of, ghost_of. rewrite grun_app. apply grun_hist_ext.
Qed.

Lemma fresh_ops_prefix : forall f0 ops1 ops2, fresh_ops f0 (ops1 ++ ops2) -> fresh_ops f0 ops1.
Proof.
  intros f0 ops1 ops2. induction ops2 as [|o ops2 IH] using rev_ind; intros H; [rewrite app_nil_r in H; exact H|].
  apply IH. rewrite app_assoc in H. apply fresh_ops_snoc in H. tauto.
Qed.

Theorem retained_frozen : forall t0 f0 ops1 ops2 s s',
  fresh_ops f0 (ops1 ++ ops2) ->
  In s (snaps (md (replay t0 f0 ops1))) -> In s' (snaps (md (replay t0 f0 (ops1 ++ ops2)))) -> sid s' = sid s ->
  ts s' = ts s /\ seq s' = seq s /\ mlist s' = mlist s.
Proof.
  intros t0 f0 ops1 ops2 s s' Hf Hs Hs' Hid.
  pose proof (wf_invariant t0 f0 ops1 (fresh_ops_prefix _ _ _ Hf)) as [_ [_ [[_ Hr1] _]]].
  pose proof (wf_invariant t0 f0 (ops1 ++ ops2) Hf) as [_ [_ [[_ Hr2] _]]].
  destruct (Hr1 s Hs) as [h [Hh [E1 [E2 [E3 E4]]]]]. destruct (Hr2 s' Hs') as [h' [Hh' [F1 [F2 [F3 F4]]]]].
  destruct (hist_of_app t0 f0 ops1 ops2) as [X HX].
  assert (Hh2 : In h (hist_of t0 f0 (ops1 ++ ops2))) by (rewrite HX; apply in_or_app; left; exact Hh).
  assert (Hnd : NoDup (map sid (hist_of t0 f0 (ops1 ++ ops2)))) by (apply (i_nd _ _ _ (grun_inv t0 f0 (ops1 ++ ops2) Hf))).
  assert (Heq : h' = h) by (eapply NoDup_map_inj_in; [exact Hnd|exact Hh'|exact Hh2|congruence]).
  subst h'. repeat split; congruence.
Qed.

Theorem retained_frozen_step : forall t0 f0 ops o s s',
  fresh_ops f0 (ops ++ [o]) ->
  In s (snaps (md (replay t0 f0 ops))) -> In s' (snaps (md (replay t0 f0 (ops ++ [o])))) -> sid s' = sid s ->
  ts s' = ts s /\ seq s' = seq s /\ mlist s' = mlist s.
Proof. intros t0 f0 ops o. apply retained_frozen. Qed.

(* ================================================================== Part 2: lookup by id *)
Lemma find_sid_NoDup : forall l s, NoDup (map sid l) -> In s l -> find (fun x => sid x =? sid s) l = Some s.
Proof.
  intros l s. induction l as [|a l IH]; intros Hnd Hin; [destruct Hin|].
  simpl in *. inversion Hnd as [|? ? Hna Hnd']; subst. destruct Hin as [->|Hin]; [rewrite Z.eqb_refl; reflexivity|].
  destruct (Z.eqb_spec (sid a) (sid s)) as [E|_]; [|apply IH; assumption].
  exfalso. apply Hna. rewrite E. apply in_map. exact Hin.
Qed.

Theorem by_id_complete : forall t0 f0 ops s, fresh_ops f0 ops ->
  In s (snaps (md (replay t0 f0 ops))) -> by_id (md (replay t0 f0 ops)) (sid s) = Some s.
Proof.
  intros t0 f0 ops s Hf Hin. pose proof (wf_invariant t0 f0 ops Hf) as [_ [_ [[Hnd _] _]]].
  unfold by_id. apply find_sid_NoDup; assumption.
Qed.

Theorem by_id_none : forall t0 f0 ops id,
  by_id (md (replay t0 f0 ops)) id = None -> ~ In id (sids (md (replay t0 f0 ops))).
Proof.
  intros t0 f0 ops id H Hin. unfold by_id in H. apply sids_In_snap in Hin. destruct Hin as [s [Hs Hsid]].
  apply (find_none _ _ H) in Hs. simpl in Hs. apply Z.eqb_neq in Hs. contradiction.
Qed.

(* ================================================================== Part 3: lookup by timestamp, unconditionally *)
Definition cls (t : Z) (p : Z * Z) : bool := fst p =? t.

(* within ONE timestamp the snapshots list is in snapshot-log (= commit) order *)
Definition cordered (m : meta) : Prop := forall t, filter (cls t) (map pair_of (snaps m)) = filter (cls t) (slog m).

Lemma ordered_cordered : forall m, ordered m -> cordered m.
Proof. intros m H t. rewrite H. reflexivity. Qed.

Lemma filter_comm : forall (A : Type) (P Q : A -> bool) l, filter P (filter Q l) = filter Q (filter P l).
Proof.
  intros A P Q l. induction l as [|x l IH]; simpl; [reflexivity|].
  destruct (P x) eqn:EP; destruct (Q x) eqn:EQ; simpl; rewrite ?EP, ?EQ, IH; reflexivity.
Qed.

(* the stable sort never swaps two snapshots carrying the same timestamp *)
Lemma insert_ts_cls : forall t x l, filter (cls t) (map pair_of (insert_ts x l)) = filter (cls t) (map pair_of (x :: l)).
Proof.
  intros t x l. induction l as [|a l IH]; [reflexivity|].
  simpl insert_ts. destruct (Z.leb_spec (ts x) (ts a)) as [Hle|Hgt]; [reflexivity|].
  change (map pair_of (a :: insert_ts x l)) with (pair_of a :: map pair_of (insert_ts x l)).
  change (map pair_of (x :: a :: l)) with (pair_of x :: pair_of a :: map pair_of l).
  change (map pair_of (x :: l)) with (pair_of x :: map pair_of l) in IH.
  simpl filter. simpl filter in IH. rewrite IH. unfold cls, pair_of. simpl fst.
  destruct (Z.eqb_spec (ts a) t) as [Ea|Ea]; destruct (Z.eqb_spec (ts x) t) as [Ex|Ex]; try reflexivity. lia.
Qed.

Lemma sort_ts_cls : forall t l, filter (cls t) (map pair_of (sort_ts l)) = filter (cls t) (map pair_of l).
Proof.
  intros t l. induction l as [|a l IH]; [reflexivity|].
  change (sort_ts (a :: l)) with (insert_ts a (sort_ts l)). rewrite insert_ts_cls.
  simpl. rewrite IH. reflexivity.
Qed.

Lemma prune_cordered : forall m c kept P, cordered m ->
  (forall t, filter (cls t) (map pair_of kept) = filter (fun p => P (snd p)) (filter (cls t) (map pair_of (snaps m)))) ->
  cordered (prune_with m c kept P).
Proof.
  intros m c kept P Ho Hk t. unfold prune_with, with_snaps. simpl.
  rewrite repoint_all_pairs, Hk, Ho. apply filter_comm.
Qed.

Lemma filter_sid_pairs : forall (P : Z -> bool) l,
  map pair_of (filter (fun s => P (sid s)) l) = filter (fun p => P (snd p)) (map pair_of l).
Proof. intros P l. rewrite filter_map_comm. reflexivity. Qed.

Lemma prune_filter_cordered : forall m c P, cordered m ->
  cordered (prune_with m c (filter (fun s => P (sid s)) (snaps m)) P).
Proof.
  intros m c P Ho. apply prune_cordered; [exact Ho|]. intros t. rewrite filter_sid_pairs. apply filter_comm.
Qed.

Lemma expire_cordered : forall H c m, Core H m -> cordered m -> cordered (expire c m).
Proof.
  intros H c m C Ho. rewrite expire_as_prune.
  rewrite (filter_by_kept_ids (expire_keep c m) (snaps m) (proj1 (c_ret _ _ C))) at 1.
  apply prune_filter_cordered with (P := fun i => memZ i (map sid (filter (expire_keep c m) (snaps m)))). exact Ho.
Qed.

Lemma retention_cordered : forall m, cordered m -> cordered (apply_retention m).
Proof.
  intros m Ho. destruct (apply_retention_cases m) as [->|[n [_ [_ ->]]]]; [exact Ho|].
  apply prune_cordered; [exact Ho|]. intros t. unfold ret_surviving.
  rewrite (filter_sid_pairs (fun i => memZ i (ret_kept_ids n m))), filter_comm, sort_ts_cls. reflexivity.
Qed.

Lemma delete_cordered : forall H m id m', Core H m -> cordered m -> delete_snapshot m id = Some m' -> cordered m'.
Proof.
  intros H m id m' C Ho Hd. destruct (delete_snapshot_cases m id) as [[Hn _]|[rest [E Hd']]]; [congruence|].
  rewrite Hd' in Hd. inversion Hd; subst. clear Hd Hd'.
  destruct (delete_core H m id rest C E) as [_ Hrest].
  assert (Ho1 : cordered (delete_pruned m id rest)).
  { unfold delete_pruned. rewrite Hrest. apply prune_filter_cordered with (P := fun i => negb (i =? id)). exact Ho. }
  destruct (opt_eqb (cur m) (Some id)); exact Ho1.
Qed.

Lemma cordered_ext : forall m m', snaps m = snaps m' -> slog m = slog m' -> cordered m -> cordered m'.
Proof. intros m m' Hs Hl H t. rewrite <- Hs, <- Hl. apply H. Qed.

Lemma add_snapshot_cordered : forall m s, cordered m -> cordered (add_snapshot m s).
Proof.
  intros m s Ho t. unfold add_snapshot. simpl. rewrite map_app, !filter_app, Ho. reflexivity.
Qed.

Lemma gstep_cordered : forall ids st g o, Inv ids st g -> cordered (md st) ->
  (forall i, In i (op_ids o) -> 0 < i /\ ~ In i ids) ->
  cordered (md (fst (gstep (st, g) o))).
Proof.
  intros ids st g o I O Hfr.
  destruct o as [ops id t tu f|id tu f|v tu f|v tu f]; unfold gstep.
  - destruct (Hfr id (or_introl eq_refl)) as [Hpos Hnew].
    destruct (step_full_txn st ops id t tu f) as [[_ ->]|[->| ->]].
    + simpl. exact O.
    + unfold txn_metaonly. simpl.
      eapply cordered_ext with (m := match tx_expire ops with Some c => expire c (md st) | None => md st end); try reflexivity.
      destruct (tx_expire ops) as [c|]; [eapply expire_cordered; [apply (i_core _ _ _ I)|exact O]|exact O].
    + unfold txn_fileops.
      destruct (fileops_inv ids st g id t tu f (tx_adds ops) (tx_dels ops) (tx_expire ops) I Hpos Hnew) as [base [m' [Hb [Hcs _]]]].
      rewrite Hb. cbv zeta. rewrite Hcs. simpl.
      set (ml := apply_deletes (tx_dels ops) base ++ append_manifest id (last_seq (md st) + 1) (tx_adds ops)) in *.
      set (s := new_snap (md st) id t ml) in *.
      assert (Hf : ~ In id (map sid (hist g))) by (intro Hin; apply Hnew; apply (i_used _ _ _ I); exact Hin).
      destruct (add_snapshot_core (hist g) (md st) id t ml (i_core _ _ _ I) (i_cur _ _ _ I) Hpos Hf) as [C1 Hc1].
      fold s in C1, Hc1.
      pose proof (add_snapshot_cordered (md st) s O) as Ho1.
      unfold create_snapshot in Hcs. fold s in Hcs.
      destruct (existsb _ _) in Hcs; [|discriminate]. inversion Hcs; subst m'. clear Hcs.
      eapply cordered_ext with (m := apply_retention (match tx_expire ops with Some c => expire c (add_snapshot (md st) s) | None => add_snapshot (md st) s end)); try reflexivity.
      apply retention_cordered. destruct (tx_expire ops) as [c|]; [eapply expire_cordered; [exact C1|exact Ho1]|exact Ho1].
  - unfold step_full. destruct (delete_snapshot (md st) id) as [m'|] eqn:Ed; simpl; [|exact O].
    eapply cordered_ext with (m := m'); try reflexivity.
    eapply delete_cordered; [apply (i_core _ _ _ I)|exact O|exact Ed].
  - unfold step_full. simpl. eapply cordered_ext with (m := md st); try reflexivity. exact O.
  - unfold step_full. simpl. eapply cordered_ext with (m := md st); try reflexivity. exact O.
Qed.

Theorem grun_cordered : forall t0 f0 ops, fresh_ops f0 ops -> cordered (md (fst (grun (ginit t0 f0) ops))).
Proof.
  intros t0 f0 ops. induction ops as [|o ops IH] using rev_ind; intros Hf.
  - simpl. intros t. reflexivity.
  - pose proof (grun_inv t0 f0 ops (proj1 (fresh_ops_snoc _ _ _ Hf))) as I.
    apply fresh_ops_snoc in Hf. destruct Hf as [Hf [Hids _]].
    rewrite grun_snoc. destruct (grun (ginit t0 f0) ops) as [st g] eqn:E. simpl in IH, I.
    apply (gstep_cordered _ st g o I (IH Hf) Hids).
Qed.

(* ---- the sorted scan *)
Lemma insert_ts_sorted : forall x l, ts_sorted l -> ts_sorted (insert_ts x l).
Proof.
  intros x l H. induction H as [|a l Hs IH Hall]; simpl; [constructor; constructor|].
  destruct (Z.leb_spec (ts x) (ts a)) as [Hle|Hgt].
  - constructor; [constructor; assumption|]. constructor; [exact Hle|].
    rewrite Forall_forall in *. intros y Hy. specialize (Hall y Hy). lia.
  - constructor; [exact IH|]. rewrite Forall_forall in *. intros y Hy.
    apply (Permutation_in _ (insert_ts_perm x l)) in Hy. destruct Hy as [<-|Hy]; [lia|apply Hall; exact Hy].
Qed.

Lemma sort_ts_sorted : forall l, ts_sorted (sort_ts l).
Proof. intros l. induction l as [|a l IH]; [constructor|]. simpl. apply insert_ts_sorted. exact IH. Qed.

Lemma last_opt_none_nil : forall (A : Type) (l : list A), last_opt l = None -> l = [].
Proof.
  intros A l H. unfold last_opt in H. destruct (rev l) eqn:E; [|discriminate].
  rewrite <- (rev_involutive l), E. reflexivity.
Qed.

Lemma filter_all_false : forall (A : Type) (P : A -> bool) l, (forall x, In x l -> P x = false) -> filter P l = [].
Proof.
  intros A P l H. induction l as [|a l IH]; [reflexivity|]. simpl. rewrite (H a (or_introl eq_refl)).
  apply IH. intros x Hx. apply H. right. exact Hx.
Qed.

Lemma filter_nil_all : forall (A : Type) (P : A -> bool) l, filter P l = [] -> forall x, In x l -> P x = false.
Proof.
  intros A P l. induction l as [|a l IH]; intros H x Hin; [destruct Hin|].
  simpl in H. destruct (P a) eqn:E; [discriminate|]. destruct Hin as [<-|Hin]; [exact E|apply IH; assumption].
Qed.

Lemma sorted_upto_spec : forall t l, ts_sorted l -> forall s, last_opt (filter (fun x => ts x <=? t) l) = Some s ->
  In s l /\ ts s <= t /\ (forall x, In x l -> ts x <= t -> ts x <= ts s) /\
  last_opt (filter (fun x => ts x =? ts s) l) = Some s.
Proof.
  intros t l H. induction H as [|a l Hs IH Hall]; intros s Hl; [discriminate|].
  rewrite Forall_forall in Hall. simpl in Hl. destruct (Z.leb_spec (ts a) t) as [Hle|Hgt].
  - rewrite last_opt_cons in Hl. destruct (last_opt (filter (fun x => ts x <=? t) l)) as [s1|] eqn:E.
    + inversion Hl; subst s1. destruct (IH s eq_refl) as [Hin [Hts [Hmax Hlast]]].
      split; [right; exact Hin|]. split; [exact Hts|]. split.
      * intros x [<-|Hx] Hxt; [apply Hall; exact Hin|apply Hmax; assumption].
      * simpl. destruct (ts a =? ts s); [rewrite last_opt_cons, Hlast; reflexivity|exact Hlast].
    + inversion Hl; subst a. apply last_opt_none_nil in E.
      split; [left; reflexivity|]. split; [exact Hle|]. split.
      * intros x [<-|Hx] Hxt; [lia|]. pose proof (filter_nil_all _ _ _ E x Hx) as Hf. simpl in Hf. lia.
      * simpl. rewrite Z.eqb_refl, last_opt_cons.
        assert (Hn : filter (fun x => ts x =? ts s) l = []).
        { apply filter_all_false. intros x Hx. pose proof (filter_nil_all _ _ _ E x Hx) as Hf. simpl in Hf.
          apply Z.eqb_neq. apply Z.leb_gt in Hf. lia. }
        rewrite Hn. reflexivity.
  - assert (Hnil : filter (fun x => ts x <=? t) l = []).
    { apply filter_all_false. intros x Hx. apply Z.leb_gt. specialize (Hall x Hx). lia. }
    rewrite Hnil in Hl. discriminate.
Qed.

Lemma by_timestamp_spec_core : forall H m t, Core H m -> cordered m ->
  match by_timestamp m t with
  | Some s => In s (snaps m) /\ ts s <= t /\ (forall x, In x (snaps m) -> ts x <= t -> ts x <= ts s) /\
              option_map sid (last_opt (filter (fun h => memZ (sid h) (sids m) && (ts h =? ts s)) H)) = Some (sid s)
  | None => forall x, In x (snaps m) -> t < ts x
  end.
Proof.
  intros H m t C Ho. unfold by_timestamp.
  pose proof (sort_ts_sorted (snaps m)) as Hsorted.
  rewrite (scan_upto_sorted t _ Hsorted None).
  destruct (last_opt (filter (fun s => ts s <=? t) (sort_ts (snaps m)))) as [s|] eqn:E.
  - destruct (sorted_upto_spec t _ Hsorted s E) as [Hin [Hts [Hmax Hlast]]].
    split; [apply sort_ts_In; exact Hin|]. split; [exact Hts|]. split.
    + intros x Hx. apply Hmax. apply sort_ts_In. exact Hx.
    + assert (Hp : last_opt (filter (cls (ts s)) (map pair_of (sort_ts (snaps m)))) = Some (pair_of s)).
      { rewrite filter_map_comm, last_opt_map. unfold cls, pair_of at 1. simpl fst. rewrite Hlast. reflexivity. }
      rewrite sort_ts_cls, Ho, (c_slog _ _ C) in Hp. unfold retained_in_commit_order in Hp.
      rewrite filter_map_comm, last_opt_map, filter_filter_andb in Hp. unfold cls in Hp. simpl fst in Hp.
      destruct (last_opt (filter (fun x => memZ (sid x) (sids m) && (ts x =? ts s)) H)) as [h|]; [|discriminate].
      simpl in Hp. inversion Hp. simpl. reflexivity.
  - apply last_opt_none_nil in E. intros x Hx. apply sort_ts_In in Hx.
    pose proof (filter_nil_all _ _ _ E x Hx) as Hf. simpl in Hf. apply Z.leb_gt in Hf. exact Hf.
Qed.

(* get_snapshot_by_timestamp, for ANY history (timestamps in any order): a retained snapshot not newer than t whose
   timestamp is the greatest such, and among the retained snapshots carrying that timestamp the most recently committed;
   None exactly when every retained snapshot is newer than t *)
Theorem by_timestamp_characterised : forall t0 f0 ops t, fresh_ops f0 ops ->
  match by_timestamp (md (replay t0 f0 ops)) t with
  | Some s => In s (snaps (md (replay t0 f0 ops))) /\ ts s <= t
              /\ (forall x, In x (snaps (md (replay t0 f0 ops))) -> ts x <= t -> ts x <= ts s)
              /\ option_map sid (last_opt (filter (fun h => memZ (sid h) (sids (md (replay t0 f0 ops))) && (ts h =? ts s))
                                                  (hist_of t0 f0 ops))) = Some (sid s)
  | None => forall x, In x (snaps (md (replay t0 f0 ops))) -> t < ts x
  end.
Proof.
  intros t0 f0 ops t Hf. pose proof (grun_inv t0 f0 ops Hf) as I. pose proof (grun_cordered t0 f0 ops Hf) as O.
  rewrite <- grun_fst. unfold hist_of, ghost_of.
  apply by_timestamp_spec_core; [apply (i_core _ _ _ I)|exact O].
Qed.

(* ================================================================== Part 4: the unconditional reading is false *)
(* "lookup by timestamp returns the most recently committed retained snapshot not newer than t", for every history *)
Definition by_timestamp_full : Prop := forall (t0 f0 : Z) (ops : list op) (t : Z),
  fresh_ops f0 ops ->
  option_map sid (by_timestamp (md (replay t0 f0 ops)) t) =
  option_map sid (last_opt (filter (fun h => memZ (sid h) (sids (md (replay t0 f0 ops))) && (ts h <=? t))
                                   (hist_of t0 f0 ops))).

(* snapshot 1 committed at time 10, then snapshot 2 committed with timestamp 5 (the wall clock stepped back, or a second
   writer's clock lags): both are "not newer than 10", snapshot 2 is the most recently committed, the lookup returns 1 *)
Definition regress_ops : list op := [Txn [TAppend [(0, 1)]] 1 10 1 1; Txn [TAppend [(0, 2)]] 2 5 2 2].

Lemma regress_fresh : fresh_ops 0 regress_ops.
Proof.
  unfold fresh_ops, regress_ops. simpl. repeat split.
  - repeat constructor; simpl; intuition lia.
  - repeat constructor; lia.
  - repeat constructor; simpl; intuition lia.
Qed.

Lemma regress_not_nondecreasing : ~ nondecreasing_ts regress_ops.
Proof.
  unfold nondecreasing_ts, regress_ops. simpl. intro H. inversion H as [|? ? _ Hall]; subst.
  inversion Hall as [|? ? Hle _]; subst. lia.
Qed.

Theorem by_timestamp_full_refuted : ~ by_timestamp_full.
Proof.
  intro H. specialize (H 0 0 regress_ops 10 regress_fresh). vm_compute in H. discriminate.
Qed.

(* ================================================================== the lookups are the functions of the source *)
Theorem lookups_regenerated :
  (forall m t, gen_by_timestamp (snaps m) t = by_timestamp m t)
  /\ (forall m id, gen_delete_snapshot m id = PyOk (delete_snapshot m id))
  /\ (forall m, gen_most_recent m = PyOk (most_recent m)).
Proof. split; [exact gen_by_timestamp_agrees|]. split; [exact gen_delete_snapshot_agrees | exact gen_most_recent_agrees]. Qed.
