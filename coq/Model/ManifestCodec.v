(* Model/ManifestCodec.v -- the data types of a manifest ENTRY as the library holds it (DataFile) and as it stores it
   (a record of avro_schemas.MANIFEST_ENTRY_SCHEMA), and the Python idioms that file_manager.create_manifest_file /
   read_manifest_file use to convert between them.  The conversion functions themselves are NOT written here: they are
   Gen/GenEntryCodec.v, regenerated from the source.  Definitions only.

   Abstract over: bval   a decoded column bound (coq/Model/Value.v `value` in C13)
                  ebound its stored form (the tagged JSON string of _encode_bound)
                  skey   an Avro map key (a string)
   File names, formats, partition values and checksums are opaque Z. *)
From Coq Require Import ZArith List Bool.
Import ListNotations.
Open Scope Z_scope.

Section Codec.
  Variables bval ebound skey : Type.

  Record datafile := {
    df_path : Z; df_format : Z; df_partition : list (Z * Z); df_count : Z; df_size : Z;
    df_column_sizes : option (list (Z * Z)); df_value_counts : option (list (Z * Z)); df_null_counts : option (list (Z * Z));
    df_lower : option (list (Z * bval)); df_upper : option (list (Z * bval));
    df_checksum : option Z;
    df_added : option Z;          (* added_snapshot_id *)
    df_seq : option Z }.          (* sequence_number *)

  Record mrecord := {
    r_status : Z; r_snapshot_id : option Z; r_sequence_number : option Z; r_file_sequence_number : option Z;
    r_path : Z; r_format : Z; r_partition : list (Z * Z); r_count : Z; r_size : Z;
    r_column_sizes : option (list (skey * Z)); r_value_counts : option (list (skey * Z)); r_null_counts : option (list (skey * Z));
    r_lower : option (list (skey * ebound)); r_upper : option (list (skey * ebound));
    r_checksum : option Z }.

  (* `{f(k, v) for k, v in d.items()} if d else None`: None and the empty dict both give None *)
  Definition py_dictcomp_or_none {K V K' V'} (f : K * V -> K' * V') (d : option (list (K * V))) : option (list (K' * V')) :=
    match d with Some (x :: l) => Some (map f (x :: l)) | _ => None end.

  (* `x = rec.get(key); if x: x = {f(k, v) for k, v in x.items()}`: None stays None, the empty dict stays empty *)
  Definition py_dictcomp_if_truthy {K V K' V'} (f : K * V -> K' * V') (d : option (list (K * V))) : option (list (K' * V')) :=
    match d with Some l => Some (map f l) | None => None end.

  (* `a if a is not None else b` *)
  Definition py_first_some {A} (a b : option A) : option A := match a with Some _ => a | None => b end.

  (* what a rewrite must preserve: every field of the DataFile, an empty statistics / bounds map being the same as none *)
  Definition norm_map {K V} (d : option (list (K * V))) : option (list (K * V)) := match d with Some [] => None | _ => d end.
  Definition normalize (d : datafile) : datafile :=
    {| df_path := df_path d; df_format := df_format d; df_partition := df_partition d; df_count := df_count d; df_size := df_size d;
       df_column_sizes := norm_map (df_column_sizes d); df_value_counts := norm_map (df_value_counts d);
       df_null_counts := norm_map (df_null_counts d); df_lower := norm_map (df_lower d); df_upper := norm_map (df_upper d);
       df_checksum := df_checksum d; df_added := df_added d; df_seq := df_seq d |}.
End Codec.

Arguments df_path {bval}. Arguments df_format {bval}. Arguments df_partition {bval}. Arguments df_count {bval}. Arguments df_size {bval}.
Arguments df_column_sizes {bval}. Arguments df_value_counts {bval}. Arguments df_null_counts {bval}.
Arguments df_lower {bval}. Arguments df_upper {bval}. Arguments df_checksum {bval}. Arguments df_added {bval}. Arguments df_seq {bval}.
Arguments r_status {ebound skey}. Arguments r_snapshot_id {ebound skey}. Arguments r_sequence_number {ebound skey}.
Arguments r_file_sequence_number {ebound skey}. Arguments r_path {ebound skey}. Arguments r_format {ebound skey}.
Arguments r_partition {ebound skey}. Arguments r_count {ebound skey}. Arguments r_size {ebound skey}.
Arguments r_column_sizes {ebound skey}. Arguments r_value_counts {ebound skey}. Arguments r_null_counts {ebound skey}.
Arguments r_lower {ebound skey}. Arguments r_upper {ebound skey}. Arguments r_checksum {ebound skey}.
Arguments normalize {bval}.
