(* Model/SchemaIds.v -- which lists of field ids data_structures.Schema.__post_init__ accepts: the field loop visits the
   fields in list order; the guards that look at the id are Gen/GenFieldKey.v `gen_id_rejected` (REGENERATED from the source
   on every run: type tests and the duplicate test against the ids seen so far); an accepted id joins seen_ids.
   Definitions only.  Tied to Python by the `schema-ids` correspondence of harness/props/c13.py (the real constructor on id
   lists of None / bool / int / float / str objects). *)
From Coq Require Import ZArith List Bool.
Require Import DS.Model.Value DS.Model.BoundPrim DS.Model.FieldKey DS.Gen.GenFieldKey.
Import ListNotations.
Open Scope Z_scope.

Fixpoint ids_accepted_from (seen_ids : list value) (ids : list value) : bool :=
  match ids with
  | [] => true
  | f_id :: rest => negb (gen_id_rejected f_id seen_ids) && ids_accepted_from (seen_ids ++ [f_id]) rest
  end.

Definition schema_ids_ok (ids : list value) : bool := ids_accepted_from [] ids.

(* the name -> id map the planner builds (prune_files_by_bounds: col_name_to_id) for an accepted schema, ids as ints *)
Fixpoint int_schema (s : list (Z * value)) : list (Z * Z) :=
  match s with
  | [] => []
  | (c, VInt z) :: r => (c, z) :: int_schema r
  | _ :: r => int_schema r
  end.
