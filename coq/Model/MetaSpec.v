(* Model/MetaSpec.v -- the vocabulary of property C15 over Model/Meta.v: ghost history, true ancestors,
   well-formedness, freshness hypotheses.  Definitions only. *)
From Coq Require Import ZArith List Bool Sorted.
Require Import DS.Model.MetaBase DS.Gen.GenRepoint DS.Model.Meta.
Import ListNotations.
Open Scope Z_scope.

(* ------------------------------------------------------------------ histories *)
Definition replay (t0 f0 : Z) (ops : list op) : state := run (init t0 f0) ops.
Definition ghost_of (t0 f0 : Z) (ops : list op) : ghost := snd (grun (ginit t0 f0) ops).
(* every snapshot ever committed, as committed (original parent), in commit order *)
Definition hist_of (t0 f0 : Z) (ops : list op) : list snap := hist (ghost_of t0 f0 ops).
(* every metadata version ever pointed to: (last_updated_ms it carries, file), in commit order *)
Definition versions_of (t0 f0 : Z) (ops : list op) : list (Z * Z) := versions (ghost_of t0 f0 ops).

(* What uuid4 / the random file suffix provide: snapshot ids are positive and never repeat, metadata file
   names never repeat (f0 is the file written by table creation). *)
Definition op_ids (o : op) : list Z := match o with Txn _ id _ _ _ => [id] | _ => [] end.
Definition op_file (o : op) : Z :=
  match o with Txn _ _ _ _ f => f | DeleteSnap _ _ f => f | SetRetention _ _ f => f | SetPrevMax _ _ f => f end.
Definition fresh_ops (f0 : Z) (ops : list op) : Prop :=
  NoDup (flat_map op_ids ops) /\ Forall (fun i => 0 < i) (flat_map op_ids ops) /\ NoDup (f0 :: map op_file ops).

(* ------------------------------------------------------------------ true ancestors in the ghost history *)
(* a is the parent snapshot b was committed with *)
Definition hstep (H : list snap) (a b : Z) : Prop := exists h, In h H /\ sid h = b /\ parent h = Some a.
Inductive anc (H : list snap) : Z -> Z -> Prop :=
| anc_one : forall a b, hstep H a b -> anc H a b
| anc_step : forall a b c, anc H a b -> hstep H b c -> anc H a c.

(* ------------------------------------------------------------------ well-formedness *)
Definition nil_link (o : option Z) : Prop := o = None \/ o = Some (-1).

(* the current snapshot is retained, or there is none *)
Definition cur_ok (m : meta) : Prop := nil_link (cur m) \/ exists c, cur m = Some c /\ In c (sids m).

(* every parent link names nothing, or a retained true ancestor *)
Definition parents_ok (H : list snap) (m : meta) : Prop :=
  forall s, In s (snaps m) -> nil_link (parent s) \/ exists p, parent s = Some p /\ In p (sids m) /\ anc H p (sid s).

(* a retained snapshot is a committed one, unchanged except for its parent link; ids are unique *)
Definition same_but_parent (h s : snap) : Prop := sid h = sid s /\ ts h = ts s /\ seq h = seq s /\ mlist h = mlist s.
Definition retained_ok (H : list snap) (m : meta) : Prop :=
  NoDup (sids m) /\ forall s, In s (snaps m) -> exists h, In h H /\ same_but_parent h s.

(* sequence numbers strictly increase in commit order (over everything ever committed, hence over the retained
   snapshots) and never exceed last_sequence_number *)
Definition seq_ok (H : list snap) (m : meta) : Prop :=
  StronglySorted Z.lt (map seq H) /\ (forall h, In h H -> seq h <= last_seq m) /\ (forall s, In s (snaps m) -> seq s <= last_seq m).

(* the snapshot log is exactly the retained snapshots, in commit order *)
Definition retained_in_commit_order (H : list snap) (m : meta) : list snap := filter (fun h => memZ (sid h) (sids m)) H.
Definition slog_ok (H : list snap) (m : meta) : Prop :=
  slog m = map (fun h => (ts h, sid h)) (retained_in_commit_order H m).

Definition WF (H : list snap) (m : meta) : Prop :=
  cur_ok m /\ parents_ok H m /\ retained_ok H m /\ seq_ok H m /\ slog_ok H m.

(* ------------------------------------------------------------------ manifest entries *)
Definition entries (ml : list manifest) : list entry := concat ml.
Definition ekey (e : entry) : path * Z * Z := (epath e, eadded e, eseq e).

(* e was written as an ADDED entry by the snapshot h0 that introduced the file *)
Definition added_by (h0 : snap) (e : entry) : Prop :=
  eadded e = sid h0 /\ eseq e = seq h0 /\
  In {| epath := epath e; estatus := ST_ADDED; eadded := sid h0; eseq := seq h0 |} (entries (mlist h0)).

(* every entry of every committed snapshot carries the id and sequence number of the snapshot that added the file *)
Definition entries_ok (H : list snap) : Prop :=
  forall h e, In h H -> In e (entries (mlist h)) -> eseq e <= seq h /\ exists h0, In h0 H /\ added_by h0 e.

(* ------------------------------------------------------------------ metadata log *)
(* the log is a suffix of the superseded versions (all committed versions but the current one), oldest first, each
   with the timestamp that version carried; within the configured bound when that bound is >= 1 *)
Definition mlog_ok (V : list (Z * Z)) (st : state) : Prop :=
  (exists older, removelast V = older ++ mlog (md st))
  /\ last V (0, 0) = (last_updated (md st), curfile st)
  /\ (1 <= mlog_max (prevmax (md st)) -> Z.of_nat (length (mlog (md st))) <= mlog_max (prevmax (md st))).

(* ------------------------------------------------------------------ C09 vocabulary *)
Definition last_opt {A} (l : list A) : option A := match rev l with x :: _ => Some x | [] => None end.
Definition op_ts (o : op) : list Z := match o with Txn _ _ t _ _ => [t] | _ => [] end.
Definition nondecreasing_ts (ops : list op) : Prop := StronglySorted Z.le (flat_map op_ts ops).
