(* Model/CreateBase.v -- vocabulary of the translator-regenerated Gen/GenCreateSchema.v (C18): the protocol-relevant
   statements of Transaction.append_data.  Definitions only. *)
From Coq Require Import List Bool.
Import ListNotations.

Inductive append_act :=
| AAActive          (* if not self.is_active(): raise *)
| AAResolveSchema   (* schema is None: schema = self._resolve_table_schema() *)
| AARaiseNoSchema   (* ... still None: raise ValueError("No schema available ...") *)
| AAValidateArg     (* a schema argument: self._validate_schema_against_table(schema) *)
| AAMarker          (* self._register_inflight(file_path): the in-flight marker is written *)
| AADataWrite       (* write_data_file(records, schema): the data file is written *)
| AATrack           (* self._written_files.append(file_path) *)
| AAQueue.          (* self.append_files([...]) *)

Definition append_act_eqb (x y : append_act) : bool :=
  match x, y with
  | AAActive, AAActive | AAResolveSchema, AAResolveSchema | AARaiseNoSchema, AARaiseNoSchema | AAValidateArg, AAValidateArg
  | AAMarker, AAMarker | AADataWrite, AADataWrite | AATrack, AATrack | AAQueue, AAQueue => true
  | _, _ => false
  end.

(* the actions that put something on storage *)
Definition writes_storage (x : append_act) : bool := match x with AAMarker | AADataWrite | AAQueue => true | _ => false end.

(* everything before the first occurrence of x *)
Fixpoint before (x : append_act) (l : list append_act) : list append_act :=
  match l with
  | [] => []
  | y :: t => if append_act_eqb y x then [] else y :: before x t
  end.
