(* Model/FlipFault.v -- the commit-point write can FAIL: the conditional PUT of the pointer raises an error other than
   the store's own refusal (read timeout, connection reset, 5xx ...), having been applied by the store or not, at any
   point of any interleaving with other committers (a request that lands after its client gave up on it is the same
   event placed later in the schedule: the precondition is evaluated when the request lands).
   (metadata_manager.py _write_hint_at_commit_point + MetadataManager.commit's try/finally; transaction.py
    Transaction.commit's except-arms.)

   Layered on Model/Commit.v.  What the committer does next is NOT written down here: it is computed from the two
   tables the translator regenerates from the source on every run (Gen/GenCommit.v):
       gen_flip_exn  : (supports_cas, atomic_write_failures, failure) -> exception class raised by the commit point
       gen_tx_on     : (exception class, last attempt?)               -> what Transaction.commit's except-arm does
   Neither table has an entry meaning "return normally": a failed commit-point write has no transition to an
   acknowledged commit (the translator fails closed on a handler that does not raise).

   While the exception propagates (x_err a = Some applied) the actor still holds the lock; XUnwind is commit()'s
   `finally` (lock release) together with the transaction's except-arm.

   The store's REFUSAL of a write it has APPLIED (XFlipResent): the SDK re-sends a PutObject whose response was lost
   (botocore's default retry policy), and the re-sent copy of the conditional request is refused because the first copy
   landed -- the client sees 412/409 for its own successful write.  What the commit point does about a refusal is again
   regenerated: gen_refused_reads_back (is the pointer read back before the refusal is called a conflict?) and
   gen_write_landed (the verdict of _hint_write_landed: the pointer's content is exactly OUR file name).  XReadBack is that
   read, a step of its own: another committer may have validated our landed version and replaced the pointer between the
   landing and the read-back, and then the verdict is "not landed".  Without a read-back, or with that verdict, the applied
   write is reported as the retryable conflict: the committer goes to PConflict with its flip in the history (x_misreported)
   -- commit() discards the metadata file and the transaction commits the operation again.
   `prompt = true` is the machine in which no pointer write lands while a read-back is pending (x_npending > 0).
   Definitions only; proofs in Proofs/FlipFaultProofs.v. *)
From Coq Require Import ZArith List Bool Arith.
Require Import DS.Model.CommitBase DS.Gen.GenCommit DS.Model.Commit.
Import ListNotations.

(* what the transaction does about a failed commit-point write *)
Inductive reaction :=
| RRetry                          (* a new attempt against a freshly read base *)
| RRaise (keep_files : bool).     (* the failure is reported to the caller; are the transaction's files kept? *)

Definition flip_reaction (casb atomic : bool) (err : flip_err) (last : bool) : reaction :=
  match gen_tx_on (gen_flip_exn casb atomic err) last with
  | TxRetry => RRetry
  | TxRollbackDelete => RRaise false
  | TxRollbackKeep => RRaise true
  | TxPropagate => RRaise true
  end.

Record xworld := {
  xw : world;
  x_err : aid -> option bool;     (* Some applied: the actor's commit-point write raised (and was / was not applied by the
                                     store); the exception is propagating, the lock is not released yet *)
  x_failed : list aid;            (* ghost: every actor whose commit-point write has raised such an error *)
  x_rb : aid -> bool;             (* the actor's write was applied and then REFUSED to its face; the read-back is pending *)
  x_npending : nat;               (* number of pending read-backs *)
  x_misreported : list aid }.     (* ghost: actors whose APPLIED write was reported to them as the retryable conflict *)

Inductive xevent :=
| XE (e : event)                          (* a step of the commit machine *)
| XFlipErr (a : aid) (applied : bool)     (* a's commit-point write raises an error that is not the store's refusal *)
| XUnwind (a : aid)                       (* the exception leaves commit() (finally: release) and reaches the transaction *)
| XFlipResent (a : aid)                   (* a's commit-point write is applied; the re-sent copy of the request is refused *)
| XReadBack (a : aid).                    (* what the commit point does about that refusal (pointer read-back, if the source has one) *)

Definition ev (a : aid) (k : evkind) : event := {| e_actor := a; e_kind := k |}.

Definition is_last (s : astate) : bool := negb (Nat.ltb (S (a_attempt s)) (a_maxr s)).

Definition set_err (a : aid) (v : option bool) (f : aid -> option bool) : aid -> option bool :=
  fun b => if Nat.eqb b a then v else f b.

Definition set_rb (a : aid) (v : bool) (f : aid -> bool) : aid -> bool :=
  fun b => if Nat.eqb b a then v else f b.

(* what the read-back sees, in terms of the machine: does the pointer name a's file? *)
Definition names_ours (w : world) (s : astate) : bool := Nat.eqb (w_ptr w) (a_new s).

(* prompt machine: no pointer write lands while somebody's read-back is pending *)
Definition may_land (prompt : bool) (X : xworld) : bool := negb prompt || Nat.eqb (x_npending X) 0.

Definition is_flip_true (k : evkind) : bool := match k with EFlip true => true | _ => false end.

Definition xstep_p (prompt : bool) (c : cfg) (atomic : bool) (X : xworld) (x : xevent) : option xworld :=
  match x with
  | XE e =>
    match x_err X (e_actor e), x_rb X (e_actor e) with
    | None, false =>
      if negb (is_flip_true (e_kind e)) || may_land prompt X then
        match step c (xw X) e with
        | Some w' => Some {| xw := w'; x_err := x_err X; x_failed := x_failed X; x_rb := x_rb X; x_npending := x_npending X;
                             x_misreported := x_misreported X |}
        | None => None
        end
      else None
    | _, _ => None                  (* an actor whose exception is propagating / whose read-back is pending does nothing else *)
    end
  | XFlipErr a applied =>
    match x_err X a, x_rb X a, a_pc (w_actors (xw X) a) with
    | None, false, PFenced =>
      if applied then
        if (negb (cas c) && atomic) || negb (may_land prompt X) then None   (* atomic_write_failures: a write that raises did not happen *)
        else
          (* the store applied the request: exactly the effect (and the precondition) of a successful flip *)
          match step c (xw X) (ev a (EFlip true)) with
          | Some w' => Some {| xw := w'; x_err := set_err a (Some true) (x_err X); x_failed := a :: x_failed X;
                               x_rb := x_rb X; x_npending := x_npending X; x_misreported := x_misreported X |}
          | None => None
          end
      else Some {| xw := xw X; x_err := set_err a (Some false) (x_err X); x_failed := a :: x_failed X;
                   x_rb := x_rb X; x_npending := x_npending X; x_misreported := x_misreported X |}
    | _, _, _ => None
    end
  | XUnwind a =>
    match x_err X a with
    | None => None
    | Some _ =>
      let s := w_actors (xw X) a in
      let w1 :=
        match flip_reaction (cas c) atomic FEError (is_last s) with
        | RRaise _ => step c (xw X) (ev a EAbort)
        | RRetry => step c (with_actor (xw X) a (set_pc s PConflict)) (ev a ERelease)   (* handled like a refusal *)
        end in
      match w1 with
      | Some w' => Some {| xw := w'; x_err := set_err a None (x_err X); x_failed := x_failed X;
                           x_rb := x_rb X; x_npending := x_npending X; x_misreported := x_misreported X |}
      | None => None
      end
    end
  | XFlipResent a =>
    match x_err X a, x_rb X a, a_pc (w_actors (xw X) a) with
    | None, false, PFenced =>
      if cas c && may_land prompt X then
        match step c (xw X) (ev a (EFlip true)) with
        | Some w' => Some {| xw := w'; x_err := x_err X; x_failed := x_failed X; x_rb := set_rb a true (x_rb X);
                             x_npending := S (x_npending X); x_misreported := x_misreported X |}
        | None => None
        end
      else None                               (* no conditional request: nothing the store could refuse *)
    | _, _, _ => None
    end
  | XReadBack a =>
    let s := w_actors (xw X) a in
    if x_rb X a then
      if gen_refused_reads_back && gen_write_landed (names_ours (xw X) s) then
        (* the commit point was passed: _write_hint_at_commit_point returns normally *)
        Some {| xw := xw X; x_err := x_err X; x_failed := x_failed X; x_rb := set_rb a false (x_rb X);
                x_npending := pred (x_npending X); x_misreported := x_misreported X |}
      else
        (* reported as ConcurrentModificationException although applied *)
        Some {| xw := with_actor (xw X) a (set_pc s PConflict); x_err := x_err X; x_failed := x_failed X;
                x_rb := set_rb a false (x_rb X); x_npending := pred (x_npending X); x_misreported := a :: x_misreported X |}
    else None
  end.

(* the machine of every schedule *)
Definition xstep := xstep_p false.

Definition xstep_skip (c : cfg) (atomic : bool) (X : xworld) (x : xevent) : xworld :=
  match xstep c atomic X x with Some X' => X' | None => X end.
Definition xrun (c : cfg) (atomic : bool) (X : xworld) (xs : list xevent) : xworld := fold_left (xstep_skip c atomic) xs X.

Fixpoint xrun_strict_p (prompt : bool) (c : cfg) (atomic : bool) (X : xworld) (xs : list xevent) (i : nat) : xworld + nat :=
  match xs with
  | [] => inl X
  | x :: xs' => match xstep_p prompt c atomic X x with Some X' => xrun_strict_p prompt c atomic X' xs' (S i) | None => inr i end
  end.
Definition xrun_strict := xrun_strict_p false.

Definition xinit (w : world) : xworld :=
  {| xw := w; x_err := fun _ => None; x_failed := []; x_rb := fun _ => false; x_npending := 0; x_misreported := [] |}.

(* ... and the prompt one *)
Definition xstep_skip_p (prompt : bool) (c : cfg) (atomic : bool) (X : xworld) (x : xevent) : xworld :=
  match xstep_p prompt c atomic X x with Some X' => X' | None => X end.
Definition xrun_p (prompt : bool) (c : cfg) (atomic : bool) (X : xworld) (xs : list xevent) : xworld :=
  fold_left (xstep_skip_p prompt c atomic) xs X.

(* observable summary for the correspondence harness: the commit machine's summary + who failed at the commit point *)
Definition xsummary (X : xworld) (n : nat) := (summary (xw X) n, rev (x_failed X)).
Definition xsummary2 (X : xworld) (n : nat) := (summary (xw X) n, rev (x_failed X), rev (x_misreported X)).
