(* Model/PtrFallback.v -- MetadataManager.commit's FALLBACK on conditional-write storage: the pointer object read
   together with its ETag is UNUSABLE (absent / bytes that name nothing / the name of a metadata file that does not
   exist), so `current` is still None after the ETag read and the source does

       if current is None: current = self.refresh()          (metadata_manager.py, the `AMaybe ARefresh` action)

   refresh() reads the pointer AGAIN and, finding it still unusable, recovers "the latest version" by scanning the
   metadata directory (found usable again -- repaired by another committer meanwhile -- it returns the version the pointer
   names now).  The version VALIDATED is that one; the ETag handed to the commit point is the unusable object's (None =
   create-if-absent).  Transaction.commit's base read goes through the same refresh().

   Layered on Model/Commit.v (whose `w_ptr` stays the version named by the LAST SUCCESSFUL pointer write):
     r_bad   Some g : the pointer OBJECT is unusable; g identifies that object state (its ETag, or "absent")
     r_tag a Some g : the ETag actor a holds for its conditional write is that of the unusable object g
     r_how a        : where the version a validated came from (the ETag read's bytes / a scan / the repaired pointer)
   `rstep` numbers the unusable object STATES (incarnations): g is fresh at every RDamage, and `rstep` lets the store compare
   incarnations -- an IDEAL store.  A real store compares what it can see: "there is no object" (create-if-absent: every
   absence looks like every other one) or the ETag, which on S3 is the MD5 of the content (the same garbage written twice has
   the same ETag).  `rstep_s idn` (end of this file) is the machine of that store: idn g is what incarnation g looks like to
   it, and the conditional write of a committer holding g is applied iff idn g = idn (current incarnation).  The two machines
   coincide exactly when idn is injective (no two damage events leave the same store-visible object: at most one deletion,
   garbage pairwise different); Proofs/PtrFallbackProofs.v proves the statements under that hypothesis and refutes them for
   idn = (fun _ => IAbsent) -- the pointer deleted twice within one attempt -- and for identical garbage;
   the scan returns SOME existing metadata file (`RScan r`, r < number of files): which one is C10's subject, and with
   `exact = true` the machine only enables scans that return the version named by the last successful pointer write.
   Conditional-write storage only (cas c = true in every theorem).  The pointer read that numbers the next version
   (`_current_version_info()` when filesystem_version is None) has no protocol effect and is not a step.
   Definitions only; proofs in Proofs/PtrFallbackProofs.v. *)
From Coq Require Import ZArith List Bool Arith.
Require Import DS.Model.CommitBase DS.Gen.GenCommit DS.Model.Commit.
Import ListNotations.

(* the pointer object as a conditional write sees it *)
Inductive pobj := PGood (v : vid) | PBad (g : nat).

(* where the validated version came from *)
Inductive how :=
| HDirect       (* named by the bytes that were read together with the ETag *)
| HScan         (* the pointer was unusable at the ETag read AND when refresh() re-read it: recovered by scanning *)
| HRepaired.    (* unusable at the ETag read, usable again when refresh() re-read it: the version it names THEN *)

Record rentry := {
  re_replaced : pobj;          (* the pointer object the store replaced *)
  re_held : pobj;              (* the object whose ETag the committer had read under the lock *)
  re_validated : vid;          (* the version it validated against *)
  re_how : how;
  re_actor : aid }.

Record rworld := {
  rw : world;
  r_bad : option nat;
  r_next : nat;                (* identities below r_next have been used *)
  r_tag : aid -> option nat;
  r_how : aid -> how;
  r_repl : list rentry;        (* ghost: one entry per applied pointer write, in order *)
  r_inexact : nat }.           (* ghost: scans that returned something else than the last successfully written version *)

Inductive recov :=
| RScan (r : vid)              (* still unusable: the scan returned metadata file r *)
| RGood (v : vid).             (* usable again, naming v *)

Inductive revent :=
| RE (e : event)                              (* a step of the commit machine *)
| RDamage                                     (* environment: the pointer object becomes unusable (a fresh identity) *)
| RBegin (a : aid) (r : vid)                  (* Transaction.commit's base read on an unusable pointer: refresh() recovered r *)
| RReadBad (a : aid) (g : nat)                (* the ETag-bearing read under the lock found the unusable object g *)
| RRefresh (a : aid) (rc : recov) (ok : bool) (* the fallback refresh() and the OCC comparison against what it returned *)
| RFlip (a : aid) (ok : bool).                (* the conditional PUT keyed to an unusable object's ETag (If-Match g / create-if-absent) *)

Definition phys (X : rworld) : pobj :=
  match r_bad X with Some g => PBad g | None => PGood (w_ptr (rw X)) end.

Definition setf {A} (a : aid) (v : A) (f : aid -> A) : aid -> A := fun b => if Nat.eqb b a then v else f b.

Definition with_world (X : rworld) (w : world) : rworld :=
  {| rw := w; r_bad := r_bad X; r_next := r_next X; r_tag := r_tag X; r_how := r_how X; r_repl := r_repl X; r_inexact := r_inexact X |}.

Definition is_some {A} (o : option A) : bool := match o with Some _ => true | None => false end.

Definition rstep (c : cfg) (exact : bool) (X : rworld) (x : revent) : option rworld :=
  let w := rw X in
  match x with
  | RE e =>
    let a := e_actor e in
    let s := w_actors w a in
    match e_kind e with
    | EBegin _ =>
      (* the base read of a USABLE pointer *)
      if is_some (r_bad X) then None
      else match step c w e with Some w' => Some (with_world X w') | None => None end
    | EValidate _ _ =>
      (* the ETag read's bytes name an existing version: no fallback *)
      if is_some (r_bad X) || is_some (r_tag X a) then None
      else match step c w e with
           | Some w' => Some {| rw := w'; r_bad := r_bad X; r_next := r_next X; r_tag := r_tag X;
                                r_how := setf a HDirect (r_how X); r_repl := r_repl X; r_inexact := r_inexact X |}
           | None => None
           end
    | ELockTry true =>
      (* a new attempt inside commit(): hint_etag / current start as None *)
      match step c w e with
      | Some w' => Some {| rw := w'; r_bad := r_bad X; r_next := r_next X; r_tag := setf a None (r_tag X);
                           r_how := setf a HDirect (r_how X); r_repl := r_repl X; r_inexact := r_inexact X |}
      | None => None
      end
    | EFlip ok =>
      match r_tag X a with
      | Some _ => None                   (* holds an unusable object's ETag: RFlip *)
      | None =>
        match r_bad X with
        | Some _ =>
          (* the object is no longer the one whose ETag the committer holds: the store refuses *)
          if negb ok && cas c then
            match a_pc s with
            | PFenced => Some (with_world X (with_actor w a (set_pc s PConflict)))
            | _ => None
            end
          else None
        | None =>
          match step c w e with
          | Some w' =>
            Some {| rw := w'; r_bad := None; r_next := r_next X; r_tag := r_tag X; r_how := r_how X;
                    r_repl := if ok then r_repl X ++ [{| re_replaced := PGood (w_ptr w); re_held := PGood (a_etag s);
                                                         re_validated := a_cur s; re_how := r_how X a; re_actor := a |}]
                              else r_repl X;
                    r_inexact := r_inexact X |}
          | None => None
          end
        end
      end
    | _ => match step c w e with Some w' => Some (with_world X w') | None => None end
    end
  | RDamage =>
    Some {| rw := w; r_bad := Some (r_next X); r_next := S (r_next X); r_tag := r_tag X; r_how := r_how X;
            r_repl := r_repl X; r_inexact := r_inexact X |}
  | RBegin a r =>
    let s := w_actors w a in
    match r_bad X, a_pc s with
    | Some _, PIdle =>
      if Nat.ltb r (length (w_files w)) && (negb exact || Nat.eqb r (w_ptr w)) then
        Some {| rw := with_actor w a {| a_pc := PBegun; a_kind := a_kind s; a_opid := a_opid s; a_base := r;
                                        a_cur := a_cur s; a_etag := a_etag s; a_new := a_new s; a_attempt := a_attempt s; a_maxr := a_maxr s |};
                r_bad := r_bad X; r_next := r_next X; r_tag := r_tag X; r_how := r_how X; r_repl := r_repl X;
                r_inexact := if Nat.eqb r (w_ptr w) then r_inexact X else S (r_inexact X) |}
      else None
    | _, _ => None
    end
  | RReadBad a g =>
    let s := w_actors w a in
    match r_bad X, r_tag X a, a_pc s with
    | Some g', None, PLocked =>
      if Nat.eqb g g' then
        Some {| rw := w; r_bad := r_bad X; r_next := r_next X; r_tag := setf a (Some g) (r_tag X); r_how := r_how X;
                r_repl := r_repl X; r_inexact := r_inexact X |}
      else None
    | _, _, _ => None
    end
  | RRefresh a rc ok =>
    let s := w_actors w a in
    match r_tag X a, a_pc s with
    | Some _, PLocked =>
      let sel := match rc, r_bad X with
                 | RScan r, Some _ => if Nat.ltb r (length (w_files w)) && (negb exact || Nat.eqb r (w_ptr w)) then Some (r, HScan) else None
                 | RGood v, None => if Nat.eqb v (w_ptr w) then Some (v, HRepaired) else None
                 | _, _ => None
                 end in
      match sel with
      | Some (v, h) =>
        if Bool.eqb ok (stamp_eqb (file w v) (file w (a_base s))) then
          Some {| rw := with_actor w a {| a_pc := if ok then PValidated else PConflict; a_kind := a_kind s; a_opid := a_opid s;
                                          a_base := a_base s; a_cur := v; a_etag := v; a_new := a_new s; a_attempt := a_attempt s; a_maxr := a_maxr s |};
                  r_bad := r_bad X; r_next := r_next X; r_tag := r_tag X; r_how := setf a h (r_how X); r_repl := r_repl X;
                  r_inexact := if Nat.eqb v (w_ptr w) then r_inexact X else S (r_inexact X) |}
        else None
      | None => None
      end
    | _, _ => None
    end
  | RFlip a ok =>
    let s := w_actors w a in
    match r_tag X a, a_pc s with
    | Some g, PFenced =>
      let can := match r_bad X with Some g' => Nat.eqb g g' | None => false end in
      if Bool.eqb ok can && cas c then
        if ok then
          Some {| rw := {| w_ptr := a_new s; w_files := w_files w; w_lock := w_lock w;
                           w_hist := w_hist w ++ [(a_new s, a)]; w_repl := w_repl w ++ [(w_ptr w, a_cur s)];
                           w_actors := upd a (set_pc s PFlipped) (w_actors w) |};
                  r_bad := None; r_next := r_next X; r_tag := r_tag X; r_how := r_how X;
                  r_repl := r_repl X ++ [{| re_replaced := PBad g; re_held := PBad g; re_validated := a_cur s;
                                            re_how := r_how X a; re_actor := a |}];
                  r_inexact := r_inexact X |}
        else Some (with_world X (with_actor w a (set_pc s PConflict)))
      else None
    | _, _ => None
    end
  end.

Definition rstep_skip (c : cfg) (exact : bool) (X : rworld) (x : revent) : rworld :=
  match rstep c exact X x with Some X' => X' | None => X end.
Definition rrun (c : cfg) (exact : bool) (X : rworld) (xs : list revent) : rworld := fold_left (rstep_skip c exact) xs X.

Fixpoint rrun_strict (c : cfg) (exact : bool) (X : rworld) (xs : list revent) (i : nat) : rworld + nat :=
  match xs with
  | [] => inl X
  | x :: xs' => match rstep c exact X x with Some X' => rrun_strict c exact X' xs' (S i) | None => inr i end
  end.

Definition rinit (w : world) : rworld :=
  {| rw := w; r_bad := None; r_next := 0; r_tag := fun _ => None; r_how := fun _ => HDirect; r_repl := []; r_inexact := 0 |}.

(* what a flip recorded in r_repl must satisfy: the store replaced exactly the object whose ETag the committer had read
   under the lock, and
     - that object named a version: it IS the version validated, taken from the very bytes read with the ETag;
     - that object was unusable: the version validated is the one the fallback recovered by scanning (never the version
       of a pointer that had been repaired in between: such a committer's conditional write is refused). *)
Definition entry_ok (e : rentry) : Prop :=
  re_replaced e = re_held e
  /\ match re_held e with
     | PGood v => re_validated e = v /\ re_how e = HDirect
     | PBad _ => re_how e = HScan
     end.

(* the protocol actions of the fallback attempt: the regenerated skeleton with the data-dependent refresh TAKEN *)
Definition force (p : paction) : paction := match p with AMaybe q => q | _ => p end.
Definition ractions_of (x : revent) : list paction :=
  match x with
  | RE e => match e_kind e with EValidate _ _ => [] | k => actions_of true k end
  | RReadBad _ _ => [AReadPtrEtag]
  | RRefresh _ _ _ => [ARefresh; AValidate]
  | RFlip _ _ => [AFlip]
  | _ => []
  end.
Definition fallback_events (a : aid) (g : nat) (r : vid) (now : Z) : list revent :=
  [RE {| e_actor := a; e_kind := ELockTry true |}; RReadBad a g; RRefresh a (RScan r) true;
   RE {| e_actor := a; e_kind := EMetaW now |}; RE {| e_actor := a; e_kind := EFence true |}; RFlip a true;
   RE {| e_actor := a; e_kind := ERelease |}].

(* observable summary for the correspondence harness *)
Definition how_code (h : how) : Z := match h with HDirect => 0%Z | HScan => 1%Z | HRepaired => 2%Z end.
Definition pobj_code (p : pobj) : (Z * nat) := match p with PGood v => (0%Z, v) | PBad g => (1%Z, g) end.
Definition rsummary (X : rworld) (n : nat) :=
  (summary (rw X) n, pobj_code (phys X),
   map (fun e => (re_actor e, pobj_code (re_replaced e), re_validated e, how_code (re_how e))) (r_repl X), r_inexact X).

(* ---- the store that compares only what it can see ------------------------------------------------------------------
   what an unusable pointer object looks like to a conditional write: no object at all (the committer's write is
   create-if-absent, If-None-Match: * ), or an object with garbled content b whose ETag is a function of b (S3: its MD5) *)
Inductive ident := IAbsent | IGarbled (b : nat).
Definition ident_eqb (i j : ident) : bool :=
  match i, j with
  | IAbsent, IAbsent => true
  | IGarbled a, IGarbled b => Nat.eqb a b
  | _, _ => false
  end.

(* `rstep` with the store's comparison in the one step where the store compares unusable objects: the conditional PUT
   keyed to an unusable object's ETag.  The ghost entry records the incarnation actually replaced and the one read. *)
Definition rstep_s (idn : nat -> ident) (c : cfg) (exact : bool) (X : rworld) (x : revent) : option rworld :=
  match x with
  | RFlip a ok =>
    let w := rw X in
    let s := w_actors w a in
    match r_tag X a, a_pc s with
    | Some g, PFenced =>
      let can := match r_bad X with Some g' => ident_eqb (idn g) (idn g') | None => false end in
      let cur := match r_bad X with Some g' => g' | None => g end in
      if Bool.eqb ok can && cas c then
        if ok then
          Some {| rw := {| w_ptr := a_new s; w_files := w_files w; w_lock := w_lock w;
                           w_hist := w_hist w ++ [(a_new s, a)]; w_repl := w_repl w ++ [(w_ptr w, a_cur s)];
                           w_actors := upd a (set_pc s PFlipped) (w_actors w) |};
                  r_bad := None; r_next := r_next X; r_tag := r_tag X; r_how := r_how X;
                  r_repl := r_repl X ++ [{| re_replaced := PBad cur; re_held := PBad g; re_validated := a_cur s;
                                            re_how := r_how X a; re_actor := a |}];
                  r_inexact := r_inexact X |}
        else Some (with_world X (with_actor w a (set_pc s PConflict)))
      else None
    | _, _ => None
    end
  | _ => rstep c exact X x
  end.

Definition rstep_s_skip (idn : nat -> ident) (c : cfg) (exact : bool) (X : rworld) (x : revent) : rworld :=
  match rstep_s idn c exact X x with Some X' => X' | None => X end.
Definition rrun_s (idn : nat -> ident) (c : cfg) (exact : bool) (X : rworld) (xs : list revent) : rworld :=
  fold_left (rstep_s_skip idn c exact) xs X.
Fixpoint rrun_s_strict (idn : nat -> ident) (c : cfg) (exact : bool) (X : rworld) (xs : list revent) (i : nat) : rworld + nat :=
  match xs with
  | [] => inl X
  | x :: xs' => match rstep_s idn c exact X x with Some X' => rrun_s_strict idn c exact X' xs' (S i) | None => inr i end
  end.
