(* Model/Fault.v -- the file plane of the commit machine: which data / manifest / manifest-list files
   exist, which ones each metadata version references, and what a failing transaction deletes.
   (transaction.py: append_data / _commit_file_ops write files and remember them in _written_files;
    commit()'s except-arms and __exit__ decide whether _rollback deletes them.)

   Built on Model/Commit.v: protocol steps (including EAbort = an exception or asynchronous
   interrupt escaping at ANY step boundary, and ECrash) are Commit events; two more events write a
   fresh file and run `_rollback(delete_files=True)`.

   The rollback guard is the modelled code fact: files are deleted only by a transaction that ended
   without ever flipping the pointer (PDone Aborted / PDone Conflict).  A transaction cut off AFTER
   its flip (PDone AbortedPost: interrupt during lock release, marker cleanup ...) keeps its files.
   Definitions only; proofs in Proofs/FaultProofs.v. *)
From Coq Require Import ZArith List Bool Arith.
Require Import DS.Model.Commit.
Import ListNotations.

Definition fid := nat.

Record fworld := {
  fw : world;
  f_present : list fid;             (* files that exist *)
  f_refs : list (list fid);         (* per metadata version (index = vid): the files it references *)
  f_written : aid -> list fid;      (* the transaction's _written_files *)
  f_next : fid;                     (* fresh-name supply *)
  f_owner : fid -> option aid;      (* ghost: which transaction wrote the file (None: pre-existing) *)
  f_dead : aid -> bool }.           (* ghost: the transaction has run _rollback(delete_files=True) *)

Inductive fevent :=
| FProto (e : event)
| FWrite (a : aid)                  (* a writes a fresh data file / manifest / manifest list *)
| FRollback (a : aid).              (* _rollback(delete_files=True) *)

Definition refs (x : fworld) (v : vid) : list fid := nth v (f_refs x) [].

Definition remove_all (del l : list fid) : list fid :=
  filter (fun f => negb (existsb (Nat.eqb f) del)) l.

Definition updw (a : aid) (l : list fid) (g : aid -> list fid) : aid -> list fid :=
  fun b => if Nat.eqb b a then l else g b.

Definition can_write (p : pc) : bool := match p with PIdle | PBegun => true | _ => false end.
Definition can_rollback (p : pc) : bool :=
  match p with PDone Aborted | PDone Conflict => true | _ => false end.

Definition fstep (c : cfg) (x : fworld) (ev : fevent) : option fworld :=
  match ev with
  | FProto e =>
    match step c (fw x) e with
    | None => None
    | Some w' =>
      let a := e_actor e in
      let s := w_actors (fw x) a in
      Some {| fw := w';
              f_present := f_present x;
              (* a new metadata version references what its base referenced plus everything the
                 transaction wrote (a superset of what the real manifests name) *)
              f_refs := match e_kind e, a_pc s with
                        | EMetaW _, PValidated => f_refs x ++ [refs x (a_base s) ++ f_written x a]
                        | _, _ => f_refs x
                        end;
              f_written := f_written x; f_next := f_next x; f_owner := f_owner x; f_dead := f_dead x |}
    end
  | FWrite a =>
    if can_write (a_pc (w_actors (fw x) a)) then
      Some {| fw := fw x; f_present := f_next x :: f_present x; f_refs := f_refs x;
              f_written := updw a (f_next x :: f_written x a) (f_written x); f_next := S (f_next x);
              f_owner := fun f => if Nat.eqb f (f_next x) then Some a else f_owner x f; f_dead := f_dead x |}
    else None
  | FRollback a =>
    if can_rollback (a_pc (w_actors (fw x) a)) then
      Some {| fw := fw x; f_present := remove_all (f_written x a) (f_present x); f_refs := f_refs x;
              f_written := updw a [] (f_written x); f_next := f_next x; f_owner := f_owner x;
              f_dead := fun b => if Nat.eqb b a then true else f_dead x b |}
    else None
  end.

Definition fstep_skip (c : cfg) (x : fworld) (ev : fevent) : fworld :=
  match fstep c x ev with Some x' => x' | None => x end.
Definition frun (c : cfg) (x : fworld) (evs : list fevent) : fworld := fold_left (fstep_skip c) evs x.

Fixpoint frun_strict (c : cfg) (x : fworld) (evs : list fevent) (i : nat) : fworld + nat :=
  match evs with
  | [] => inl x
  | e :: evs' => match fstep c x e with Some x' => frun_strict c x' evs' (S i) | None => inr i end
  end.

(* initial: files 0 .. next-1 exist; version 0 references r0 (a subset of them) *)
Definition finit (m0 : meta) (kind : aid -> curk) (mr : aid -> nat) (r0 : list fid) (next : fid) : fworld :=
  {| fw := init_world m0 kind mr; f_present := seq 0 next; f_refs := [r0]; f_written := fun _ => []; f_next := next;
     f_owner := fun _ => None; f_dead := fun _ => false |}.

(* the safety property: every file referenced by a committed version exists *)
Definition all_present (x : fworld) : bool :=
  forallb (fun v => forallb (fun f => existsb (Nat.eqb f) (f_present x)) (refs x v)) (0%nat :: map fst (w_hist (fw x))).

Definition fsummary (x : fworld) (n : nat) :=
  (summary (fw x) n, f_present x, map (f_written x) (seq 0%nat n), all_present x).
