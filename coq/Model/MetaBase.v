(* Model/MetaBase.v -- primitives shared by the regenerated repointing walk (Gen/GenRepoint.v) and the
   hand-written metadata model (Model/Meta.v).  Definitions only.

   Python values that occur in snapshot_manager.repoint_parents_to_surviving_ancestors:
     parent               : Optional[int]                      -> option Z   (Some (-1) is the code's "-1" sentinel)
     parent_of            : dict built by comprehension        -> list (Z * option Z), LAST binding wins
     kept_ids             : set of ints                        -> list Z   (membership only)
     seen                 : set of whatever `parent` held      -> list (option Z)
*)
From Coq Require Import ZArith List Bool.
Import ListNotations.
Open Scope Z_scope.

Definition memZ (x : Z) (l : list Z) : bool := existsb (Z.eqb x) l.

Definition opt_eqb (a b : option Z) : bool :=
  match a, b with
  | None, None => true
  | Some x, Some y => x =? y
  | _, _ => false
  end.

(* {k: v for (k, v) in d}[k] -- a dict comprehension keeps the LAST value bound to a duplicated key. *)
Fixpoint dict_get {V : Type} (d : list (Z * V)) (k : Z) : option V :=
  match d with
  | [] => None
  | (k', v) :: d' =>
      match dict_get d' k with
      | Some v' => Some v'
      | None => if k' =? k then Some v else None
      end
  end.

(* `x is not None` *)
Definition py_is_not_none (x : option Z) : bool := match x with Some _ => true | None => false end.
(* `x != c` for an int constant c (None != c is True) *)
Definition py_ne_int (x : option Z) (c : Z) : bool := match x with Some p => negb (p =? c) | None => true end.
(* `x in s` for a set of ints (None is never a member) *)
Definition py_in_ints (x : option Z) (s : list Z) : bool := match x with Some p => memZ p s | None => false end.
(* `x in seen` where seen holds earlier values of x *)
Definition py_in_seen (x : option Z) (seen : list (option Z)) : bool := existsb (opt_eqb x) seen.
(* `seen.add(x)` *)
Definition py_seen_add (x : option Z) (seen : list (option Z)) : list (option Z) := x :: seen.
(* `parent_of.get(x)`: a missing key and a stored None are both None; None is never a key *)
Definition py_dict_get (d : list (Z * option Z)) (x : option Z) : option Z :=
  match x with
  | None => None
  | Some p => match dict_get d p with Some v => v | None => None end
  end.
