(* Model/HintPrim.v -- the string primitives under the version-pointer logic
   (metadata_manager.py: _parse_hint_content, _METADATA_FILE_RE, _recover_version_from_files).

   Text is a list of CLASSIFIED CODE POINTS.  The harness decodes the bytes with Python (UTF-8) and
   attaches to every code point what Python's Unicode database says about it:
       sp   str.isspace()      (what str.strip() removes)
       dec  Some d  iff str.isdecimal(), d its decimal value   (= what the regex class \d matches and
                                                                  what int() accepts)
       dig  str.isdigit()      (true for every decimal AND for characters such as U+00B2 SUPERSCRIPT
                                TWO, for which int() raises ValueError)
   The classification of a character is an input; everything the code DOES with it is modelled here.
   ASCII characters the code names literally ('v', '-', '.', [0-9a-f], "metadata.json", '/', '\')
   are recognised by their code.

   Definitions only; proofs are in Proofs/HintProofs.v. *)
From Coq Require Import ZArith NArith List Bool.
Import ListNotations.
Open Scope N_scope.

Record cp := { code : N; sp : bool; dec : option N; dig : bool }.

Definition is_dec (c : cp) : bool := match dec c with Some _ => true | None => false end.

(* an ASCII code point with the classification Python gives it *)
Definition ascii_space (n : N) : bool := ((9 <=? n) && (n <=? 13)) || ((28 <=? n) && (n <=? 32)).
Definition ascii_digit (n : N) : bool := (48 <=? n) && (n <=? 57).
Definition acp (n : N) : cp :=
  {| code := n; sp := ascii_space n;
     dec := if ascii_digit n then Some (n - 48) else None;
     dig := ascii_digit n |}.
Definition lit (l : list N) : list cp := map acp l.
Definition codes (l : list cp) : list N := map code l.

Fixpoint codes_eqb (a b : list N) : bool :=
  match a, b with
  | [], [] => true
  | x :: a', y :: b' => (x =? y) && codes_eqb a' b'
  | _, _ => false
  end.

Definition is_empty {A} (l : list A) : bool := match l with [] => true | _ => false end.

(* ---- str.strip() ---- *)
Fixpoint lstrip (l : list cp) : list cp :=
  match l with
  | c :: r => if sp c then lstrip r else l
  | [] => []
  end.
Definition rstrip (l : list cp) : list cp := rev (lstrip (rev l)).
Definition strip (l : list cp) : list cp := rstrip (lstrip l).

(* ---- str.isdigit(): non-empty and every character isdigit ---- *)
Definition py_isdigit (l : list cp) : bool := negb (is_empty l) && forallb dig l.

(* ---- int(text) on a text made of digit-class characters (the only way the code calls it:
        guarded by text.isdigit() or on the regex group (\d+)).
        None = ValueError: a character without a decimal value, or more digits than
        sys.get_int_max_str_digits() (4300; leading zeros count). ---- *)
Definition max_str_digits : N := 4300.

Fixpoint dec_value (acc : N) (l : list cp) : option N :=
  match l with
  | [] => Some acc
  | c :: r => match dec c with Some d => dec_value (10 * acc + d) r | None => None end
  end.

Definition py_int (l : list cp) : option N :=
  if is_empty l then None
  else if N.of_nat (length l) <=? max_str_digits then dec_value 0 l
  else None.

(* ---- _METADATA_FILE_RE = ^v(\d+)(?:-[0-9a-f]{8})?\.metadata\.json$   (re.match, no flags)
        Hand-written matcher; returns group 1.  The pattern is deterministic: after \d+ the next
        character must be '-' or '.', neither of which is a digit, and the optional group must be
        taken iff the next character is '-'.  `$` also matches before one final newline. ---- *)
Definition re_pattern_codes : list N :=
  [94;118;40;92;100;43;41;40;63;58;45;91;48;45;57;97;45;102;93;123;56;125;41;63;92;46;
   109;101;116;97;100;97;116;97;92;46;106;115;111;110;36].

Fixpoint span_dec (l : list cp) : list cp * list cp :=
  match l with
  | c :: r => if is_dec c then let (a, b) := span_dec r in (c :: a, b) else ([], l)
  | [] => ([], [])
  end.

Definition is_hex (c : cp) : bool :=
  let n := code c in ((48 <=? n) && (n <=? 57)) || ((97 <=? n) && (n <=? 102)).

Fixpoint take_hex (n : nat) (l : list cp) : option (list cp) :=
  match n with
  | O => Some l
  | S k => match l with
           | c :: r => if is_hex c then take_hex k r else None
           | [] => None
           end
  end.

(* ".metadata.json" *)
Definition suffix_codes : list N := [46;109;101;116;97;100;97;116;97;46;106;115;111;110].

Definition tail_ok (l : list cp) : bool :=
  codes_eqb (codes l) suffix_codes || codes_eqb (codes l) (suffix_codes ++ [10]).

Definition re_match (l : list cp) : option (list cp) :=
  match l with
  | c :: r =>
    if code c =? 118 then
      let (ds, r1) := span_dec r in
      if is_empty ds then None
      else match r1 with
           | c1 :: r2 =>
             if code c1 =? 45 then
               match take_hex 8 r2 with
               | Some r3 => if tail_ok r3 then Some ds else None
               | None => None
               end
             else if tail_ok r1 then Some ds else None
           | [] => None
           end
    else None
  | [] => None
  end.

(* ---- result of _parse_hint_content: it either raises or returns None / (version, filename) ---- *)
Inductive pres := PRaise | PRet (r : option (N * list cp)).
