(* Model/FLock.v -- FileLock in flock mode (src/datashard/file_lock.py) over a small kernel model.
   Definitions only.

   Kernel: one lock path.  `names` is the directory entry (path -> inode), `ofdt` the table of open
   file descriptions (ofd -> owner client, inode), `holder` the flock owner of each inode.
     open(O_CREAT|O_RDWR)  returns a fresh ofd on the existing inode, or on a fresh inode if the path
                           has no entry;
     flock(LOCK_EX|LOCK_NB) is granted according to `grant (holder inode) ofd`; `grant` IS the kernel
                           and is a parameter (the theorems assume flock_excl about it, see
                           Proofs/FLockProofs.v); `kernel_grant` is the instance used for evaluation;
     flock(LOCK_UN), close  drop the holder if it is this ofd; close also frees the ofd;
     unlink                 removes the directory entry (NO client program ever issues it; it exists
                           as the environment event EUnlink so that C19_flock_same_inode says
                           something and so that its necessity can be exhibited).
   Clients: one FileLock instance each, executing acquire()'s attempt loop / release() one primitive
   per EStep (the yield points of harness/lib/coop.py: time.monotonic, os.open, fcntl.flock,
   os.close, time.sleep).  The monotonic clock `now` only moves by ETick and by sleeps.
   Time is in milliseconds. *)
From Coq Require Import ZArith NArith List Bool.
Import ListNotations.
Open Scope Z_scope.

Definition cid := N.
Definition inode := N.
Definition ofd := N.

Definition upd {A} (f : N -> A) (k : N) (v : A) : N -> A := fun x => if N.eqb x k then v else f x.
Definition memN (c : N) (cs : list N) : bool := existsb (N.eqb c) cs.

Inductive fres := RNone | ROk | RWouldBlock | RTimeout.

(* program counter = the primitive the client is parked in front of *)
Inductive fpc :=
| PIdle
| PStart                 (* acquire(): deadline = time.monotonic() + timeout *)
| POpen                  (* _try_acquire_once: os.open(lock_file, O_CREAT|O_RDWR) *)
| PFlock (fd : ofd)      (* fcntl.flock(fd, LOCK_EX|LOCK_NB) *)
| PCloseFail (fd : ofd)  (* except OSError: os.close(fd) *)
| PCheck                 (* if time.monotonic() >= deadline: raise TimeoutError *)
| PSleep (until : Z)     (* time.sleep(_POLL_INTERVAL) *)
| PRelUnlock             (* release(): fcntl.flock(fd, LOCK_UN) *)
| PRelClose.             (* release(): os.close(fd); then _lock_fd = None; _locked = False *)

Record fclient := {
  alive : bool;
  pc : fpc;
  locked : bool;               (* FileLock._locked  (what is_held() returns) *)
  lock_fd : option ofd;        (* FileLock._lock_fd *)
  blocking : bool;
  timeout : Z;
  deadline : Z;
  res : fres;                  (* outcome of the last completed acquire() *)
  (* ghost fields, never read by the program *)
  start : Z;                   (* the clock reading that fixed the deadline *)
  last_read : Z;               (* latest clock reading of this acquire() *)
  prev_read : Z;               (* the reading before the one that raised TimeoutError *)
  ret_time : Z;                (* the reading at which TimeoutError was raised *)
  maxgap : Z;                  (* largest distance between two consecutive readings *)
  iters : Z                    (* completed sleeps of this acquire() *)
}.

Definition client0 : fclient :=
  {| alive := true; pc := PIdle; locked := false; lock_fd := None; blocking := true; timeout := 0;
     deadline := 0; res := RNone; start := 0; last_read := 0; prev_read := 0; ret_time := 0;
     maxgap := 0; iters := 0 |}.

Definition set_pc (c : fclient) (p : fpc) : fclient :=
  {| alive := alive c; pc := p; locked := locked c; lock_fd := lock_fd c; blocking := blocking c;
     timeout := timeout c; deadline := deadline c; res := res c; start := start c;
     last_read := last_read c; prev_read := prev_read c; ret_time := ret_time c; maxgap := maxgap c;
     iters := iters c |}.

Definition set_ret (c : fclient) (r : fres) : fclient :=
  {| alive := alive c; pc := PIdle; locked := locked c; lock_fd := lock_fd c; blocking := blocking c;
     timeout := timeout c; deadline := deadline c; res := r; start := start c;
     last_read := last_read c; prev_read := prev_read c; ret_time := ret_time c; maxgap := maxgap c;
     iters := iters c |}.

Definition set_lock (c : fclient) (l : bool) (fd : option ofd) : fclient :=
  {| alive := alive c; pc := pc c; locked := l; lock_fd := fd; blocking := blocking c;
     timeout := timeout c; deadline := deadline c; res := res c; start := start c;
     last_read := last_read c; prev_read := prev_read c; ret_time := ret_time c; maxgap := maxgap c;
     iters := iters c |}.

Definition set_dead (c : fclient) : fclient :=
  {| alive := false; pc := pc c; locked := locked c; lock_fd := lock_fd c; blocking := blocking c;
     timeout := timeout c; deadline := deadline c; res := res c; start := start c;
     last_read := last_read c; prev_read := prev_read c; ret_time := ret_time c; maxgap := maxgap c;
     iters := iters c |}.

(* acquire() entered: configuration stored, ghosts reset *)
Definition begin_acquire (c : fclient) (b : bool) (tmo : Z) : fclient :=
  {| alive := alive c; pc := PStart; locked := locked c; lock_fd := lock_fd c; blocking := b;
     timeout := tmo; deadline := 0; res := RNone; start := 0; last_read := 0; prev_read := 0;
     ret_time := 0; maxgap := 0; iters := 0 |}.

(* first clock reading: deadline = now + timeout *)
Definition read_start (c : fclient) (t : Z) : fclient :=
  {| alive := alive c; pc := POpen; locked := locked c; lock_fd := lock_fd c; blocking := blocking c;
     timeout := timeout c; deadline := t + timeout c; res := RNone; start := t; last_read := t;
     prev_read := t; ret_time := 0; maxgap := 0; iters := 0 |}.

(* a later clock reading at PCheck *)
Definition read_check (c : fclient) (t : Z) (p : fpc) (r : fres) : fclient :=
  {| alive := alive c; pc := p; locked := locked c; lock_fd := lock_fd c; blocking := blocking c;
     timeout := timeout c; deadline := deadline c; res := r; start := start c; last_read := t;
     prev_read := last_read c; ret_time := t; maxgap := Z.max (maxgap c) (t - last_read c);
     iters := iters c |}.

Definition woke (c : fclient) : fclient :=
  {| alive := alive c; pc := POpen; locked := locked c; lock_fd := lock_fd c; blocking := blocking c;
     timeout := timeout c; deadline := deadline c; res := res c; start := start c;
     last_read := last_read c; prev_read := prev_read c; ret_time := ret_time c; maxgap := maxgap c;
     iters := iters c + 1 |}.

(* what one event did (compared with the real run by the correspondence harness) *)
Inductive fobs :=
| ONop
| OCall (c : cid)
| OClock (c : cid) (t : Z)
| OOpen (c : cid) (fd : ofd) (ino : inode)
| OOpenErr (c : cid)
| OFlock (c : cid) (fd : ofd) (ok : bool)
| OUnlock (c : cid) (fd : ofd)
| OClose (c : cid) (fd : ofd)
| OSleep (c : cid) (woke_at : Z)
| ODie
| OTick
| OUnlinked.

Record fstate := {
  names : option inode;
  next_ino : N;
  next_fd : N;
  holder : inode -> option ofd;
  ofdt : ofd -> option (cid * inode);
  now : Z;
  cl : cid -> fclient;
  trace : list (fobs * fres)      (* newest first: observation, and the value returned if the call ended *)
}.

Definition finit : fstate :=
  {| names := None; next_ino := 0%N; next_fd := 0%N; holder := fun _ => None; ofdt := fun _ => None;
     now := 0; cl := fun _ => client0; trace := [] |}.

Inductive fevent :=
| ECallAcquire (c : cid) (blocking : bool) (timeout : Z)
| ECallRelease (c : cid)
| EStep (c : cid)
| EOpenErr (c : cid)          (* c's pending os.open raises OSError *)
| ETick (d : Z)
| EDie (cs : list cid)        (* a process holding these FileLock instances is killed *)
| EUnlink.                    (* environment: somebody deletes the lock file *)

(* ---- state setters ---- *)
Definition with_client (s : fstate) (c : cid) (x : fclient) (o : fobs) (r : fres) : fstate :=
  {| names := names s; next_ino := next_ino s; next_fd := next_fd s; holder := holder s; ofdt := ofdt s;
     now := now s; cl := upd (cl s) c x; trace := (o, r) :: trace s |}.

Definition with_kernel (s : fstate) (nm : option inode) (ni nf : N) (h : inode -> option ofd)
           (t : ofd -> option (cid * inode)) : fstate :=
  {| names := nm; next_ino := ni; next_fd := nf; holder := h; ofdt := t;
     now := now s; cl := cl s; trace := trace s |}.

Definition with_now (s : fstate) (t : Z) : fstate :=
  {| names := names s; next_ino := next_ino s; next_fd := next_fd s; holder := holder s; ofdt := ofdt s;
     now := t; cl := cl s; trace := trace s |}.

Definition logged (s : fstate) (o : fobs) : fstate :=
  {| names := names s; next_ino := next_ino s; next_fd := next_fd s; holder := holder s; ofdt := ofdt s;
     now := now s; cl := cl s; trace := (o, RNone) :: trace s |}.

(* ---- kernel operations ---- *)
Definition k_open (s : fstate) (c : cid) : fstate * ofd * inode :=
  let fd := next_fd s in
  match names s with
  | Some i => (with_kernel s (Some i) (next_ino s) (N.succ fd) (holder s) (upd (ofdt s) fd (Some (c, i))), fd, i)
  | None =>
    let i := next_ino s in
    (with_kernel s (Some i) (N.succ i) (N.succ fd) (holder s) (upd (ofdt s) fd (Some (c, i))), fd, i)
  end.

Definition k_flock (grant : option ofd -> ofd -> bool) (s : fstate) (fd : ofd) : fstate * bool :=
  match ofdt s fd with
  | Some (_, i) =>
    if grant (holder s i) fd
    then (with_kernel s (names s) (next_ino s) (next_fd s) (upd (holder s) i (Some fd)) (ofdt s), true)
    else (s, false)
  | None => (s, false)                       (* EBADF is an OSError: the attempt fails *)
  end.

Definition drop_holder (s : fstate) (fd : ofd) : inode -> option ofd :=
  fun i => match holder s i with
           | Some o => if N.eqb o fd then None else Some o
           | None => None
           end.

Definition k_unlock (s : fstate) (fd : ofd) : fstate :=
  with_kernel s (names s) (next_ino s) (next_fd s) (drop_holder s fd) (ofdt s).

Definition k_close (s : fstate) (fd : ofd) : fstate :=
  with_kernel s (names s) (next_ino s) (next_fd s) (drop_holder s fd) (upd (ofdt s) fd None).

Definition k_unlink (s : fstate) : fstate :=
  with_kernel s None (next_ino s) (next_fd s) (holder s) (ofdt s).

(* process death: every ofd of the dying clients is closed by the kernel *)
Definition k_die (s : fstate) (cs : list cid) : fstate :=
  {| names := names s; next_ino := next_ino s; next_fd := next_fd s;
     holder := fun i => match holder s i with
                        | Some o => match ofdt s o with
                                    | Some (c, _) => if memN c cs then None else Some o
                                    | None => Some o
                                    end
                        | None => None
                        end;
     ofdt := fun o => match ofdt s o with
                      | Some (c, i) => if memN c cs then None else Some (c, i)
                      | None => None
                      end;
     now := now s;
     cl := fun c => if memN c cs then set_dead (cl s c) else cl s c;
     trace := (ODie, RNone) :: trace s |}.

Definition kernel_grant (h : option ofd) (o : ofd) : bool :=
  match h with None => true | Some o' => N.eqb o' o end.

(* what acquire() does after a failed attempt (the part of the loop after _try_acquire_once) *)
Definition after_failed_attempt (x : fclient) : fclient * fres :=
  if blocking x then (set_pc x PCheck, RNone) else (set_ret x RWouldBlock, RWouldBlock).

(* ---- one event ---- *)
Definition fstep (grant : option ofd -> ofd -> bool) (poll : Z) (s : fstate) (ev : fevent) : fstate :=
  match ev with
  | ETick d => logged (with_now s (now s + Z.max 0 d)) OTick
  | EUnlink => logged (k_unlink s) OUnlinked
  | EDie cs => k_die s cs
  | ECallAcquire c b tmo =>
    let x := cl s c in
    if alive x then
      match pc x with
      | PIdle => with_client s c (begin_acquire x b tmo) (OCall c) RNone
      | _ => logged s ONop
      end
    else logged s ONop
  | ECallRelease c =>
    let x := cl s c in
    if alive x then
      match pc x with
      | PIdle =>
        match locked x, lock_fd x with
        | true, Some _ => with_client s c (set_pc x PRelUnlock) (OCall c) RNone
        | _, _ => logged s (OCall c)                   (* if not self._locked or self._lock_fd is None: return *)
        end
      | _ => logged s ONop
      end
    else logged s ONop
  | EOpenErr c =>
    let x := cl s c in
    if alive x then
      match pc x with
      | POpen => let '(x', r) := after_failed_attempt x in with_client s c x' (OOpenErr c) r
      | _ => logged s ONop
      end
    else logged s ONop
  | EStep c =>
    let x := cl s c in
    if alive x then
      match pc x with
      | PIdle => logged s ONop
      | PStart => with_client s c (read_start x (now s)) (OClock c (now s)) RNone
      | POpen =>
        let '(s', fd, i) := k_open s c in
        with_client s' c (set_pc x (PFlock fd)) (OOpen c fd i) RNone
      | PFlock fd =>
        let '(s', ok) := k_flock grant s fd in
        if ok then with_client s' c (set_ret (set_lock x true (Some fd)) ROk) (OFlock c fd true) ROk
        else with_client s' c (set_pc x (PCloseFail fd)) (OFlock c fd false) RNone
      | PCloseFail fd =>
        let '(x', r) := after_failed_attempt x in
        with_client (k_close s fd) c x' (OClose c fd) r
      | PCheck =>
        let t := now s in
        if t >=? deadline x
        then with_client s c (read_check x t PIdle RTimeout) (OClock c t) RTimeout
        else with_client s c (read_check x t (PSleep (t + poll)) RNone) (OClock c t) RNone
      | PSleep u =>
        let t := Z.max (now s) u in
        with_client (with_now s t) c (woke x) (OSleep c t) RNone
      | PRelUnlock =>
        match lock_fd x with
        | Some fd => with_client (k_unlock s fd) c (set_pc x PRelClose) (OUnlock c fd) RNone
        | None => logged s ONop
        end
      | PRelClose =>
        match lock_fd x with
        | Some fd => with_client (k_close s fd) c (set_ret (set_lock x false None) (res x)) (OClose c fd) RNone
        | None => logged s ONop
        end
      end
    else logged s ONop
  end.

Definition frun (grant : option ofd -> ofd -> bool) (poll : Z) (s : fstate) (evs : list fevent) : fstate :=
  fold_left (fstep grant poll) evs s.

(* is_held() of a client that is between API calls, or still in front of release's unlock *)
Definition holding (s : fstate) (c : cid) : Prop :=
  alive (cl s c) = true /\ locked (cl s c) = true /\ pc (cl s c) <> PRelClose.

Definition no_unlink (evs : list fevent) : Prop := ~ In EUnlink evs.

(* projection used by the correspondence harness *)
Definition fsummary (s : fstate) (cs : list cid) :=
  (rev (trace s), map (fun c => (alive (cl s c) && locked (cl s c), res (cl s c))) cs, now s).
