(* Model/CommitBase.v -- vocabulary shared by the translator-regenerated commit skeleton
   (Gen/GenCommit.v, read off MetadataManager.commit / _write_hint_at_commit_point and
   Transaction.commit) and the hand-written commit machine (Model/Commit.v, Model/Fault.v).
   Definitions only. *)
From Coq Require Import List.
Import ListNotations.

(* protocol actions of MetadataManager.commit, in the order the source performs them *)
Inductive paction :=
| ALock              (* self.lock_provider.acquire() *)
| AReadPtrEtag       (* self.storage.read_file_with_etag(HINT_PATH): pointer bytes + their ETag, ONE request *)
| ARefresh           (* self.refresh(): pointer resolution + metadata file read *)
| AValidate          (* the OCC comparison of `current` against the caller's base; raises the retryable conflict *)
| AStamp             (* new_metadata.last_updated_ms := ... *)
| AWriteMeta         (* self._write_metadata_file(<fresh name>, new_metadata) *)
| AFence             (* self.lock_provider.is_held() *)
| AFlip              (* self._write_hint_at_commit_point(<the file just written>, <etag>) *)
| ARelease           (* self._release_lock_safely(), in the `finally` of the section opened by ALock *)
| ACheckAbsent       (* initialize_table: `if self._current_version_info() is not None: raise TableExistsError` *)
| APtrCreate         (* initialize_table: the first write of the version pointer (create-if-absent where the store can) *)
| AMaybe (a : paction).   (* the action sits under a data-dependent `if` (fallbacks) *)

(* exception classes as the handlers of the commit path distinguish them *)
Inductive exn_class :=
| XConflict          (* ConcurrentModificationException *)
| XAmbiguous         (* AmbiguousCommitError *)
| XOther             (* any other Exception *)
| XInterrupt.        (* BaseException that is not an Exception: KeyboardInterrupt, SystemExit *)

(* what Transaction.commit's except-arms do *)
Inductive tx_action :=
| TxRetry            (* sleep, `continue`: a new attempt against a freshly read base *)
| TxRollbackDelete   (* self._rollback()  -- delete_files defaults to True *)
| TxRollbackKeep     (* self._rollback(delete_files=False) *)
| TxPropagate.       (* no arm catches it *)

(* outcome of a failing pointer creation in initialize_table *)
Inductive create_fail :=
| CFTableExists      (* TableExistsError: somebody else initialised the table; v0 stays (it was never named) *)
| CFDiscardRaise     (* the write is guaranteed invisible: the unpublished v0 is removed, the error propagates *)
| CFKeepRaise        (* the write may have taken effect: v0 is kept, the error propagates *)
| CFTableExistsDiscardForeign.
                     (* TableExistsError; before it is raised the table now in effect is resolved again and, when it
                        is verifiably ANOTHER table (different uuid), the v0 written here is removed; when it is this
                        one (a re-sent create answered 412, a commit already built on this v0) the v0 stays *)

(* how the commit-point write can fail *)
Inductive flip_err :=
| FEPrecondition     (* the store refused the conditional write: CASConflictError *)
| FEError.           (* any other exception from the write *)
