(* Model/LocalList.v -- what LocalStorageBackend.list_files answers when the operating system fails underneath it.
   Definitions only.  The two places where a failure can be swallowed are regenerated from the source (Gen/GenLocalList.v).
   A failure is classified by `absent`: true = "the object is not there" (FileNotFoundError / NotADirectoryError),
   false = any other OSError (EACCES on a directory that can be listed but not searched, EIO, a stale handle, ...). *)
From Coq Require Import Bool.
Require Import DS.Gen.GenLocalList.

Inductive list_outcome :=
| LComplete        (* every directory below the prefix was scanned: the true listing *)
| LShort           (* returned without raising although something could not be looked at: [] or a listing with a part missing *)
| LRaise.          (* the failure propagates to the caller *)

(* probe: None = the prefix could be looked at; Some absent = looking at it failed.
   walk : None = every directory below was scanned; Some absent = scanning one of them failed. *)
Definition local_list_outcome (probe walk : option bool) : list_outcome :=
  match probe with
  | Some a => if gen_local_list_probe_reads_empty a then LShort else LRaise
  | None =>
      match walk with
      | Some a => if gen_local_list_walk_skips a then LShort else LRaise
      | None => LComplete
      end
  end.
