(* Model/DurableChunks.v -- a data file written in BURSTS (property C16, data sizes).

   Anchors: data_operations.py DataFileWriter.write_batch / write_records / write_pandas (each
   self._writer.write_batch(...) appends a row group to the temp file through arrow's own write(2) calls, any number
   of times between open() and close(); close() adds the parquet footer -- one more burst), write_data_file (feeds the
   writer in batches of 1000 records).

   Durable.publish_data describes the writer with ONE Write of the whole content.  Here the single Write of the
   regenerated call sequence (Gen/GenDurable.v gen_data_writer) is replaced by an arbitrary list of bursts, each
   optionally followed by an incremental fsync of the temp file (`sync = true`; today's source never does that:
   translator/gen_durable.py rejects a durability call outside open / close -- the flag is there so that the theorems
   say what WOULD be safe, and which part of the sequence may not depend on the sizes).  Definitions only. *)
From Coq Require Import NArith List Bool.
Require Import DS.Model.Durable.
Import ListNotations.
Open Scope N_scope.

Record chunk := mkChunk { ch_bytes : content; ch_sync : bool }.

(* what one burst does: gen_data_writer_burst (= [Write tmp b]), then the optional incremental fsync *)
Definition chunk_calls (tmp : path) (ch : chunk) : list call :=
  gen_data_writer_burst tmp (ch_bytes ch) ++ (if ch_sync ch then [Fsync tmp] else []).

Definition bursts (tmp : path) (chs : list chunk) : list call := flat_map (chunk_calls tmp) chs.

(* the file's whole content *)
Definition chunks_content (chs : list chunk) : content := flat_map ch_bytes chs.

Definition is_write (c : call) : bool := match c with Write _ _ => true | _ => false end.

(* the data writer's call sequence with its Write replaced by the bursts *)
Definition chunked_of (prog : list call) (tmp : path) (chs : list chunk) : list call :=
  flat_map (fun c => if is_write c then bursts tmp chs else [c]) prog.

Definition publish_data_chunked (p : path) (chs : list chunk) : list call :=
  chunked_of (gen_data_writer (tmp_of p) p []) (tmp_of p) chs.

(* the same sequence WITHOUT the fsync that close() issues after the last burst (what a writer does that decides, from
   its own bookkeeping of what was synced incrementally, that nothing is left to flush) *)
Definition publish_data_chunked_nofinal (p : path) (chs : list chunk) : list call :=
  Create (tmp_of p) :: bursts (tmp_of p) chs ++ [Rename (tmp_of p) p; FsyncDir (dir_of p)].

(* ---- burst refinement of WHOLE traces (second audit: lift the ops-level theorems to burst-written files) ----------
   tr' is a burst refinement of tr: some (any number, possibly none, possibly all) of the Write calls of tr -- to
   whatever file: data files, manifests, metadata files, the pointer -- are replaced by a list of bursts carrying the
   same content in the same order (gen_data_writer_burst each), each burst optionally followed by an incremental fsync
   of that file; every other call is kept, in place. *)
Inductive burst_of : list call -> list call -> Prop :=
| bo_nil : burst_of [] []
| bo_keep : forall c tr' tr, burst_of tr' tr -> burst_of (c :: tr') (c :: tr)
| bo_split : forall t chs tr' tr, burst_of tr' tr -> burst_of (bursts t chs ++ tr') (Write t (chunks_content chs) :: tr).
