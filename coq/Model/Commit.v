(* Model/Commit.v -- the OCC commit protocol as an interleaving machine.
   (transaction.py Transaction.commit retry loop; metadata_manager.py MetadataManager.commit,
    _write_hint_at_commit_point; lock providers abstracted to Excl / Lease / GrantAll.)

   One step per storage interaction that matters to the protocol; any number of committers; the
   clock value used to stamp a new version is supplied by the event (any integers: frozen, coarse,
   even decreasing clocks are schedules).  Metadata versions are write-once files named by their
   index (`vid`); the pointer holds a vid; on CAS storage the pointer's ETag identifies the version it
   names (every flip writes a fresh name, so pointer values never repeat).

   A table's content is abstracted to the list of operation ids applied to it (`m_ops`): what the
   operations MEAN is Model/Meta.v (C15); here we prove that committed versions form one linear chain
   in which every acknowledged operation appears exactly once, in pointer order (C01, C08).

   Definitions only; proofs in Proofs/CommitProofs.v. *)
From Coq Require Import ZArith List Bool Arith.
Require Import DS.Model.CommitBase DS.Gen.GenCommit.
Import ListNotations.
Open Scope Z_scope.

Definition aid := nat.
Definition vid := nat.

(* the OCC stamp of a version (current_snapshot_id, last_updated_ms) + abstract content *)
Record meta := { m_ops : list nat; m_cur : Z; m_lu : Z }.

(* how an operation changes current_snapshot_id: a data commit installs a fresh unique id, a
   metadata-only commit keeps it, deleting the current snapshot sets it back to an older id *)
Inductive curk := KFresh | KKeep | KSet (c : Z) | KCond (c0 c : Z).   (* KCond: if base's current = c0 then c else keep *)

Inductive lockk := Excl | Lease | GrantAll.
Record cfg := { cas : bool; lockkind : lockk }.

Inductive outcome := Success | Conflict
  | Aborted          (* the call raised / the process died BEFORE the pointer flip *)
  | AbortedPost.     (* the call raised / the process died AFTER its pointer flip (interrupt, crash) *)

Inductive pc :=
| PIdle                      (* before the base read of an attempt *)
| PBegun                     (* base read; manifests prepared; about to take the lock *)
| PLocked                    (* lock taken, before validation *)
| PValidated                 (* validation passed *)
| PWritten                   (* new metadata file written *)
| PFenced                    (* fence passed: about to flip *)
| PFlipped                   (* pointer flipped, lock not yet released *)
| PConflict                  (* conflict detected, lock not yet released *)
| PDone (o : outcome).

Record astate := {
  a_pc : pc;
  a_kind : curk; a_opid : nat;       (* the operation this transaction commits *)
  a_base : vid; a_cur : vid; a_etag : vid; a_new : vid;
  a_attempt : nat; a_maxr : nat }.   (* a_maxr: 50 for Transaction.commit, 1 for delete_snapshot *)

Record world := {
  w_ptr : vid;
  w_files : list meta;               (* metadata files, index = vid, write-once *)
  w_lock : option aid;
  w_hist : list (vid * aid);         (* ghost: pointer flips in order (newest last) *)
  w_repl : list (vid * vid);         (* ghost: per flip, (pointer value it replaced, version it validated) *)
  w_actors : aid -> astate }.

Inductive evkind :=
| EBegin (v : vid)                   (* base := metadata named by the pointer; claims it read v *)
| ELockTry (ok : bool)
| ESteal                             (* Lease only: the lease lapsed and the lock was taken away *)
| EValidate (v : vid) (ok : bool)    (* re-read under the lock: claims it read v and the verdict *)
| EMetaW (now : Z)                   (* write the new version; `now` is the clock reading *)
| EFence (ok : bool)
| EFlip (ok : bool)
| ERelease
| EAbort                             (* an exception / asynchronous interrupt escapes commit(): `finally` releases the lock *)
| ECrash.                            (* the process dies: no handler runs; the kernel drops a flock, a lease stays *)

Record event := { e_actor : aid; e_kind : evkind }.

Definition file (w : world) (v : vid) : meta :=
  nth v (w_files w) {| m_ops := []; m_cur := 0; m_lu := 0 |}.

(* the OCC validation and the new version's stamp are the REGENERATED kernels (Gen/GenCommit.v, read off
   MetadataManager.commit on every run): gen_stamp_eqb = the fields compared with the base,
   gen_new_lu = `max(now_ms, current.last_updated_ms + 1)` *)
Definition stamp_eqb (a b : meta) : bool := gen_stamp_eqb (m_cur a) (m_lu a) (m_cur b) (m_lu b).

Definition upd (a : aid) (s : astate) (f : aid -> astate) : aid -> astate :=
  fun b => if Nat.eqb b a then s else f b.

Definition set_pc (s : astate) (p : pc) : astate :=
  {| a_pc := p; a_kind := a_kind s; a_opid := a_opid s; a_base := a_base s; a_cur := a_cur s;
     a_etag := a_etag s; a_new := a_new s; a_attempt := a_attempt s; a_maxr := a_maxr s |}.

(* the new version a committer writes: built from its BASE, stamped after the version it VALIDATED *)
Definition new_meta (w : world) (s : astate) (now : Z) : meta :=
  let b := file w (a_base s) in
  let c := file w (a_cur s) in
  {| m_ops := m_ops b ++ [a_opid s];
     m_cur := match a_kind s with
              | KFresh => Z.of_nat (length (w_files w)) + 1000000   (* a fresh unique id *)
              | KKeep => m_cur b
              | KSet c' => c'
              | KCond c0 c' => if m_cur b =? c0 then c' else m_cur b
              end;
     m_lu := gen_new_lu now (m_lu c) |}.                            (* strictly after the validated version *)

Definition lock_free_for (c : cfg) (w : world) (a : aid) : bool :=
  match lockkind c with
  | GrantAll => true
  | _ => match w_lock w with None => true | Some _ => false end
  end.

Definition holds (c : cfg) (w : world) (a : aid) : bool :=
  match lockkind c with
  | GrantAll => true
  | Excl => true                                (* flock cannot be stolen while the fd is open *)
  | Lease => match w_lock w with Some b => Nat.eqb a b | None => false end
  end.

Definition with_actor (w : world) (a : aid) (s : astate) : world :=
  {| w_ptr := w_ptr w; w_files := w_files w; w_lock := w_lock w; w_hist := w_hist w; w_repl := w_repl w;
     w_actors := upd a s (w_actors w) |}.

Definition step (c : cfg) (w : world) (e : event) : option world :=
  let a := e_actor e in
  let s := w_actors w a in
  match e_kind e, a_pc s with
  | EBegin v, PIdle =>
    if Nat.eqb v (w_ptr w) then
      Some (with_actor w a {| a_pc := PBegun; a_kind := a_kind s; a_opid := a_opid s; a_base := v;
                              a_cur := a_cur s; a_etag := a_etag s; a_new := a_new s; a_attempt := a_attempt s; a_maxr := a_maxr s |})
    else None
  | ELockTry true, PBegun =>
    if lock_free_for c w a then
      Some {| w_ptr := w_ptr w; w_files := w_files w;
              w_lock := match lockkind c with GrantAll => w_lock w | _ => Some a end;
              w_hist := w_hist w; w_repl := w_repl w; w_actors := upd a (set_pc s PLocked) (w_actors w) |}
    else None
  | ELockTry false, PBegun =>
    if lock_free_for c w a then None else Some w
  | ESteal, _ =>
    match lockkind c with
    | Lease => Some {| w_ptr := w_ptr w; w_files := w_files w; w_lock := None; w_hist := w_hist w; w_repl := w_repl w; w_actors := w_actors w |}
    | _ => None
    end
  | EValidate v ok, PLocked =>
    if Nat.eqb v (w_ptr w) && Bool.eqb ok (stamp_eqb (file w v) (file w (a_base s))) then
      Some (with_actor w a {| a_pc := if ok then PValidated else PConflict; a_kind := a_kind s; a_opid := a_opid s;
                              a_base := a_base s; a_cur := v; a_etag := v; a_new := a_new s; a_attempt := a_attempt s; a_maxr := a_maxr s |})
    else None
  | EMetaW now, PValidated =>
    Some {| w_ptr := w_ptr w; w_files := w_files w ++ [new_meta w s now]; w_lock := w_lock w; w_hist := w_hist w; w_repl := w_repl w;
            w_actors := upd a {| a_pc := PWritten; a_kind := a_kind s; a_opid := a_opid s; a_base := a_base s;
                                 a_cur := a_cur s; a_etag := a_etag s; a_new := length (w_files w);
                                 a_attempt := a_attempt s; a_maxr := a_maxr s |} (w_actors w) |}
  | EFence ok, PWritten =>
    if Bool.eqb ok (holds c w a) then Some (with_actor w a (set_pc s (if ok then PFenced else PConflict))) else None
  | EFlip ok, PFenced =>
    let can := if cas c then Nat.eqb (w_ptr w) (a_etag s) else true in
    if Bool.eqb ok can then
      if ok then
        Some {| w_ptr := a_new s; w_files := w_files w; w_lock := w_lock w;
                w_hist := w_hist w ++ [(a_new s, a)]; w_repl := w_repl w ++ [(w_ptr w, a_cur s)]; w_actors := upd a (set_pc s PFlipped) (w_actors w) |}
      else Some (with_actor w a (set_pc s PConflict))
    else None
  | ERelease, PFlipped =>
    Some {| w_ptr := w_ptr w; w_files := w_files w;
            w_lock := match w_lock w with Some b => if Nat.eqb a b then None else Some b | None => None end;
            w_hist := w_hist w; w_repl := w_repl w; w_actors := upd a (set_pc s (PDone Success)) (w_actors w) |}
  | ERelease, PConflict =>
    let s' := if Nat.ltb (S (a_attempt s)) (a_maxr s)
              then {| a_pc := PIdle; a_kind := a_kind s; a_opid := a_opid s; a_base := a_base s; a_cur := a_cur s;
                      a_etag := a_etag s; a_new := a_new s; a_attempt := S (a_attempt s); a_maxr := a_maxr s |}
              else set_pc s (PDone Conflict) in
    Some {| w_ptr := w_ptr w; w_files := w_files w;
            w_lock := match w_lock w with Some b => if Nat.eqb a b then None else Some b | None => None end;
            w_hist := w_hist w; w_repl := w_repl w; w_actors := upd a s' (w_actors w) |}
  | EAbort, PDone _ => None
  | EAbort, p =>
    Some {| w_ptr := w_ptr w; w_files := w_files w;
            w_lock := match w_lock w with Some b => if Nat.eqb a b then None else Some b | None => None end;
            w_hist := w_hist w; w_repl := w_repl w;
            w_actors := upd a (set_pc s (PDone (match p with PFlipped => AbortedPost | _ => Aborted end))) (w_actors w) |}
  | ECrash, PDone _ => None
  | ECrash, p =>
    Some {| w_ptr := w_ptr w; w_files := w_files w;
            w_lock := match lockkind c with
                      | Lease => w_lock w          (* the lock object stays until its lease lapses (ESteal) *)
                      | _ => match w_lock w with Some b => if Nat.eqb a b then None else Some b | None => None end
                      end;
            w_hist := w_hist w; w_repl := w_repl w;
            w_actors := upd a (set_pc s (PDone (match p with PFlipped => AbortedPost | _ => Aborted end))) (w_actors w) |}
  | _, _ => None
  end.

(* The protocol actions each event of a successful attempt stands for (CommitBase.paction).  EValidate is the
   pointer resolution + metadata read + OCC comparison (metadata files are write-once, so these are one step);
   on conditional-write storage the pointer read is the one that also yields the ETag (a_etag := v in `step`).
   Proofs/CommitGenProofs.v shows that the concatenation over the success path is exactly the regenerated
   skeleton gen_commit_path_cas / gen_commit_path_plain. *)
Definition actions_of (casb : bool) (k : evkind) : list paction :=
  match k with
  | ELockTry true => [ALock]
  | EValidate _ _ => (if casb then [AReadPtrEtag] else []) ++ [AMaybe ARefresh; AValidate]
  | EMetaW _ => [AStamp; AWriteMeta]
  | EFence _ => [AFence]
  | EFlip _ => [AFlip]
  | ERelease => [ARelease]
  | _ => []
  end.
(* the events of one successful attempt inside MetadataManager.commit (after the transaction's base read) *)
Definition success_events (v : vid) (now : Z) : list evkind :=
  [ELockTry true; EValidate v true; EMetaW now; EFence true; EFlip true; ERelease].
Definition model_path (casb : bool) : list paction := flat_map (actions_of casb) (success_events 0%nat 0).

(* every event list is a schedule: events that are not enabled are skipped *)
Definition step_skip (c : cfg) (w : world) (e : event) : world :=
  match step c w e with Some w' => w' | None => w end.
Definition run (c : cfg) (w : world) (evs : list event) : world := fold_left (step_skip c) evs w.

(* trace validation: the first event that is not enabled is reported by its index *)
Fixpoint run_strict (c : cfg) (w : world) (evs : list event) (i : nat) : world + nat :=
  match evs with
  | [] => inl w
  | e :: evs' => match step c w e with Some w' => run_strict c w' evs' (S i) | None => inr i end
  end.

(* initial world: one committed version (vid 0), every actor idle with its own operation *)
Definition init_actor (kind : aid -> curk) (mr : aid -> nat) (a : aid) : astate :=
  {| a_pc := PIdle; a_kind := kind a; a_opid := a; a_base := 0%nat; a_cur := 0%nat; a_etag := 0%nat;
     a_new := 0%nat; a_attempt := 0%nat; a_maxr := mr a |}.
Definition init_world (m0 : meta) (kind : aid -> curk) (mr : aid -> nat) : world :=
  {| w_ptr := 0%nat; w_files := [m0]; w_lock := None; w_hist := []; w_repl := []; w_actors := init_actor kind mr |}.

(* observable summary used by the correspondence harness *)
Definition outcome_code (p : pc) : Z :=
  match p with PDone Success => 1 | PDone Conflict => 2 | PFlipped => 3 | PDone Aborted => 4 | PDone AbortedPost => 5 | _ => 0 end.
Definition summary (w : world) (n : nat) : (nat * list nat * list (nat * nat) * list Z) :=
  (w_ptr w, m_ops (file w (w_ptr w)), w_hist w, map (fun a => outcome_code (a_pc (w_actors w a))) (seq 0 n)).
