(* Model/C09Lookup.v -- entry point used by harness/props/c09.py: Meta.v's timestamp lookup evaluated on a bare list
   of (snapshot id, timestamp) pairs in metadata order (everything else in the metadata is irrelevant to the lookup). *)
From Coq Require Import ZArith List.
Require Import DS.Model.Meta.
Import ListNotations.

Definition c09_snap (p : Z * Z) : snap := {| sid := fst p; ts := snd p; parent := None; seq := 0; mlist := [] |}.
Definition c09_meta (l : list (Z * Z)) : meta :=
  {| cur := None; snaps := map c09_snap l; slog := []; last_seq := 0; last_updated := 0;
     retention := PUnset; prevmax := PUnset; mlog := [] |}.
Definition c09_by_timestamp_ids (l : list (Z * Z)) (t : Z) : option Z := option_map sid (by_timestamp (c09_meta l) t).
Definition c09_by_id_ids (l : list (Z * Z)) (id : Z) : option Z := option_map sid (by_id (c09_meta l) id).
