(* Model/Create.v -- table creation / opening as an interleaving machine (C18).
   (transaction.py Table.__init__ / _initialize_table; metadata_manager.py initialize_table, refresh,
    _current_version_info, _recover_version_from_files.)

   A metadata file is identified by its index; it carries the identity (uuid) of the table it
   describes = the actor that created it.  `resolve` = pointer if present, else recovery (the newest
   metadata file), else nothing.  Creators: Probe (refresh outside the lock) ; Lock ; Check (refresh under
   the lock -> TableExists) ; MetaW v0 ; PtrCreate (create-if-absent on CAS storage, plain write
   otherwise) ; Release ; every caller finally adopts whatever resolve yields.
   Definitions only; proofs in Proofs/CreateProofs.v. *)
From Coq Require Import List Bool Arith.
Require Import DS.Model.CommitBase DS.Model.Commit.
Import ListNotations.

Inductive cpc :=
| CIdle | CProbedNone | CLocked | CChecked | CWritten (f : nat) | CPointed | CExists (* TableExists raised, lock held *)
| CReleased | CDone (adopted : option nat).       (* the table identity the caller ended up on *)

Record cworld := {
  c_ptr : option nat;               (* index of the metadata file the pointer names *)
  c_files : list aid;               (* metadata files: index -> identity (creating actor) *)
  c_lock : option aid;
  c_creates : list aid;             (* ghost: successful pointer creations, in order *)
  c_pc : aid -> cpc }.

Inductive cevkind :=
| CProbe (found : bool) | CLockTry (ok : bool) | CCheck (found : bool) | CMetaW | CPtrCreate (ok : bool) | CRelease | CAdopt.
Record cevent := { ce_actor : aid; ce_kind : cevkind }.

(* refresh(): the pointer if present, otherwise recovery = the newest metadata file, otherwise None *)
Definition resolve (w : cworld) : option nat :=
  match c_ptr w with
  | Some f => Some f
  | None => match length (c_files w) with O => None | S n => Some n end
  end.

Definition identity (w : cworld) (f : nat) : option aid := nth_error (c_files w) f.

Definition updc (a : aid) (p : cpc) (g : aid -> cpc) : aid -> cpc := fun b => if Nat.eqb b a then p else g b.

Definition isSome {A} (o : option A) : bool := match o with Some _ => true | None => false end.

Definition cfree (c : cfg) (w : cworld) : bool :=
  match lockkind c with GrantAll => true | _ => negb (isSome (c_lock w)) end.

Definition set (w : cworld) (a : aid) (p : cpc) : cworld :=
  {| c_ptr := c_ptr w; c_files := c_files w; c_lock := c_lock w; c_creates := c_creates w; c_pc := updc a p (c_pc w) |}.

Definition release (w : cworld) (a : aid) : option aid :=
  match c_lock w with Some b => if Nat.eqb a b then None else Some b | None => None end.

Definition cstep (c : cfg) (w : cworld) (e : cevent) : option cworld :=
  let a := ce_actor e in
  match ce_kind e, c_pc w a with
  | CProbe found, CIdle =>
    if Bool.eqb found (isSome (resolve w)) then
      Some (set w a (if found then CDone (match resolve w with Some f => identity w f | None => None end) else CProbedNone))
    else None
  | CLockTry true, CProbedNone =>
    if cfree c w then
      Some {| c_ptr := c_ptr w; c_files := c_files w;
              c_lock := match lockkind c with GrantAll => c_lock w | _ => Some a end;
              c_creates := c_creates w; c_pc := updc a CLocked (c_pc w) |}
    else None
  | CLockTry false, CProbedNone => if cfree c w then None else Some w
  | CCheck found, CLocked =>
    if Bool.eqb found (isSome (resolve w)) then Some (set w a (if found then CExists else CChecked)) else None
  | CMetaW, CChecked =>
    Some {| c_ptr := c_ptr w; c_files := c_files w ++ [a]; c_lock := c_lock w; c_creates := c_creates w;
            c_pc := updc a (CWritten (length (c_files w))) (c_pc w) |}
  | CPtrCreate ok, CWritten f =>
    let can := if cas c then negb (isSome (c_ptr w)) else true in
    if Bool.eqb ok can then
      if ok then Some {| c_ptr := Some f; c_files := c_files w; c_lock := c_lock w; c_creates := c_creates w ++ [a];
                         c_pc := updc a CPointed (c_pc w) |}
      else Some (set w a CExists)
    else None
  | CRelease, CPointed | CRelease, CExists =>
    Some {| c_ptr := c_ptr w; c_files := c_files w; c_lock := release w a; c_creates := c_creates w;
            c_pc := updc a CReleased (c_pc w) |}
  | CAdopt, CReleased =>
    Some (set w a (CDone (match resolve w with Some f => identity w f | None => None end)))
  | _, _ => None
  end.

(* The protocol actions (CommitBase.paction) each creator event stands for, and the events of one successful
   initialisation inside MetadataManager.initialize_table (after the probe outside the lock).  Props/C18.v shows the
   concatenation is the skeleton regenerated from the source (Gen/GenCommit.v gen_create_path_cas, gen_create_path_plain). *)
Definition cactions_of (k : cevkind) : list paction :=
  match k with
  | CLockTry true => [ALock]
  | CCheck _ => [ACheckAbsent]
  | CMetaW => [AStamp; AWriteMeta]
  | CPtrCreate _ => [APtrCreate]
  | CRelease => [ARelease]
  | _ => []
  end.
Definition creator_events : list cevkind := [CLockTry true; CCheck false; CMetaW; CPtrCreate true; CRelease].
Definition create_model_path : list paction := flat_map cactions_of creator_events.

Definition cstep_skip c w e := match cstep c w e with Some w' => w' | None => w end.
Definition crun (c : cfg) (w : cworld) (evs : list cevent) : cworld := fold_left (cstep_skip c) evs w.
Fixpoint crun_strict (c : cfg) (w : cworld) (evs : list cevent) (i : nat) : cworld + nat :=
  match evs with
  | [] => inl w
  | e :: evs' => match cstep c w e with Some w' => crun_strict c w' evs' (S i) | None => inr i end
  end.

(* initial states *)
Definition absent : cworld := {| c_ptr := None; c_files := []; c_lock := None; c_creates := []; c_pc := fun _ => CIdle |}.
Definition existing (owner : aid) (ptr_lost : bool) : cworld :=
  {| c_ptr := if ptr_lost then None else Some 0; c_files := [owner]; c_lock := None; c_creates := []; c_pc := fun _ => CIdle |}.

Definition adopted_code (p : cpc) : nat :=
  match p with CDone (Some u) => S (S u) | CDone None => 1 | _ => 0 end.
Definition csummary (w : cworld) (n : nat) :=
  (c_ptr w, c_files w, c_creates w, map (fun a => adopted_code (c_pc w a)) (seq 0 n)).
