(* Model/Create.v -- table creation / opening as an interleaving machine (C18).
   (transaction.py Table.__init__ / _initialize_table; metadata_manager.py initialize_table, refresh,
    _current_version_info, _recover_version_from_files, _is_table_in_effect, _discard_unpublished_metadata.)

   A metadata file is identified by its index (order of writing); it carries the identity (uuid) of the
   table it describes = the actor whose initialisation wrote it, its version number, and whether it is
   still on storage.  `resolve` = the pointer if it names a file that exists, else recovery (highest
   version, the newest among those), else nothing.
   Creators: Probe (refresh outside the lock) ; Lock ; Check (refresh under the lock -> TableExists) ;
   MetaW v0 ; PtrCreate (create-if-absent on CAS storage, plain write otherwise) ; on a refused
   create-if-absent whatever the SOURCE does (Gen/GenCommit.v gen_create_fail, regenerated on every run):
   TableExists at once, or first Recheck (resolve again: is the table now in effect the one written here?)
   and Discard of the own v0 when it is not ; Release ; every caller finally adopts whatever resolve yields.
   Definitions only; proofs in Proofs/CreateProofs.v. *)
From Coq Require Import List Bool Arith.
Require Import DS.Model.CommitBase DS.Gen.GenCommit DS.Model.Commit.
Import ListNotations.

Record mfile := { f_id : aid; f_ver : nat; f_live : bool }.

Inductive cpc :=
| CIdle | CProbedNone | CLocked | CChecked | CWritten (f : nat) | CPointed
| CConflict (f : nat)             (* create-if-absent refused; about to resolve again *)
| CForeign (f : nat)              (* another table is in effect; about to remove the own v0 *)
| CExists                         (* TableExists raised, lock held *)
| CReleased | CDone (adopted : option aid).       (* the table identity the caller saw when its call returned *)

Record cworld := {
  c_ptr : option nat;               (* index of the metadata file the pointer names *)
  c_files : list mfile;             (* metadata files ever written, in order of writing *)
  c_lock : option aid;
  c_creates : list aid;             (* ghost: successful pointer creations, in order *)
  c_pc : aid -> cpc }.

Inductive cevkind :=
| CProbe (found : bool) | CLockTry (ok : bool) | CCheck (found : bool) | CMetaW | CPtrCreate (ok : bool)
| CRecheck (same : bool) | CDiscard | CRelease | CAdopt.
Record cevent := { ce_actor : aid; ce_kind : cevkind }.

Definition ver_at (l : list mfile) (j : nat) : nat := match nth_error l j with Some m => f_ver m | None => 0 end.

(* _recover_version_from_files: the highest version on storage; among files of that version the newest *)
Fixpoint recover (l : list mfile) : option nat :=
  match l with
  | [] => None
  | m :: t =>
    match recover t with
    | Some j => if f_live m && (ver_at t j <? f_ver m) then Some 0 else Some (S j)
    | None => if f_live m then Some 0 else None
    end
  end.

Definition live (w : cworld) (f : nat) : bool := match nth_error (c_files w) f with Some m => f_live m | None => false end.

(* refresh(): the pointer if the file it names exists, otherwise recovery, otherwise None *)
Definition resolve (w : cworld) : option nat :=
  match c_ptr w with
  | Some f => if live w f then Some f else recover (c_files w)
  | None => recover (c_files w)
  end.

Definition identity (w : cworld) (f : nat) : option aid := option_map f_id (nth_error (c_files w) f).
(* the identity of the table now in effect *)
Definition table_id (w : cworld) : option aid := match resolve w with Some f => identity w f | None => None end.

Definition updc (a : aid) (p : cpc) (g : aid -> cpc) : aid -> cpc := fun b => if Nat.eqb b a then p else g b.

Definition isSome {A} (o : option A) : bool := match o with Some _ => true | None => false end.

Definition cfree (c : cfg) (w : cworld) : bool :=
  match lockkind c with GrantAll => true | _ => negb (isSome (c_lock w)) end.

Definition set (w : cworld) (a : aid) (p : cpc) : cworld :=
  {| c_ptr := c_ptr w; c_files := c_files w; c_lock := c_lock w; c_creates := c_creates w; c_pc := updc a p (c_pc w) |}.

Definition release (w : cworld) (a : aid) : option aid :=
  match c_lock w with Some b => if Nat.eqb a b then None else Some b | None => None end.

(* delete_file(metadata/<f>) *)
Fixpoint kill (f : nat) (l : list mfile) : list mfile :=
  match l, f with
  | [], _ => []
  | m :: t, O => {| f_id := f_id m; f_ver := f_ver m; f_live := false |} :: t
  | m :: t, S f' => m :: kill f' t
  end.

(* what initialize_table does when the store refuses its create-if-absent of the pointer: regenerated from the
   source (the atomic_write_failures flag plays no part in that arm) *)
Definition conflict_class : create_fail := gen_create_fail true true FEPrecondition.

(* _is_table_in_effect(metadata) for the creator a: nothing resolvable counts as "in effect" (the file is kept) *)
Definition in_effect (w : cworld) (a : aid) : bool :=
  match table_id w with Some u => Nat.eqb u a | None => true end.

Definition cstep (c : cfg) (w : cworld) (e : cevent) : option cworld :=
  let a := ce_actor e in
  match ce_kind e, c_pc w a with
  | CProbe found, CIdle =>
    if Bool.eqb found (isSome (resolve w)) then
      Some (set w a (if found then CDone (table_id w) else CProbedNone))
    else None
  | CLockTry true, CProbedNone =>
    if cfree c w then
      Some {| c_ptr := c_ptr w; c_files := c_files w;
              c_lock := match lockkind c with GrantAll => c_lock w | _ => Some a end;
              c_creates := c_creates w; c_pc := updc a CLocked (c_pc w) |}
    else None
  | CLockTry false, CProbedNone => if cfree c w then None else Some w
  | CCheck found, CLocked =>
    if Bool.eqb found (isSome (resolve w)) then Some (set w a (if found then CExists else CChecked)) else None
  | CMetaW, CChecked =>
    Some {| c_ptr := c_ptr w; c_files := c_files w ++ [{| f_id := a; f_ver := 0; f_live := true |}];
            c_lock := c_lock w; c_creates := c_creates w;
            c_pc := updc a (CWritten (length (c_files w))) (c_pc w) |}
  | CPtrCreate ok, CWritten f =>
    let can := if cas c then negb (isSome (c_ptr w)) else true in
    if Bool.eqb ok can then
      if ok then Some {| c_ptr := Some f; c_files := c_files w; c_lock := c_lock w; c_creates := c_creates w ++ [a];
                         c_pc := updc a CPointed (c_pc w) |}
      else match conflict_class with
           | CFTableExists => Some (set w a CExists)
           | CFTableExistsDiscardForeign => Some (set w a (CConflict f))
           | _ => None
           end
    else None
  | CRecheck same, CConflict f =>
    if Bool.eqb same (in_effect w a) then Some (set w a (if same then CExists else CForeign f)) else None
  | CDiscard, CForeign f =>
    Some {| c_ptr := c_ptr w; c_files := kill f (c_files w); c_lock := c_lock w; c_creates := c_creates w;
            c_pc := updc a CExists (c_pc w) |}
  | CRelease, CPointed | CRelease, CExists =>
    Some {| c_ptr := c_ptr w; c_files := c_files w; c_lock := release w a; c_creates := c_creates w;
            c_pc := updc a CReleased (c_pc w) |}
  | CAdopt, CReleased =>
    Some (set w a (CDone (table_id w)))
  | _, _ => None
  end.

(* The protocol actions (CommitBase.paction) each creator event stands for, and the events of one successful
   initialisation inside MetadataManager.initialize_table (after the probe outside the lock).  Props/C18.v shows the
   concatenation is the skeleton regenerated from the source (Gen/GenCommit.v gen_create_path_cas, gen_create_path_plain). *)
Definition cactions_of (k : cevkind) : list paction :=
  match k with
  | CLockTry true => [ALock]
  | CCheck _ => [ACheckAbsent]
  | CMetaW => [AStamp; AWriteMeta]
  | CPtrCreate _ => [APtrCreate]
  | CRelease => [ARelease]
  | _ => []
  end.
Definition creator_events : list cevkind := [CLockTry true; CCheck false; CMetaW; CPtrCreate true; CRelease].
Definition create_model_path : list paction := flat_map cactions_of creator_events.

Definition cstep_skip c w e := match cstep c w e with Some w' => w' | None => w end.
Definition crun (c : cfg) (w : cworld) (evs : list cevent) : cworld := fold_left (cstep_skip c) evs w.
Fixpoint crun_strict (c : cfg) (w : cworld) (evs : list cevent) (i : nat) : cworld + nat :=
  match evs with
  | [] => inl w
  | e :: evs' => match cstep c w e with Some w' => crun_strict c w' evs' (S i) | None => inr i end
  end.

(* initial states *)
Definition absent : cworld := {| c_ptr := None; c_files := []; c_lock := None; c_creates := []; c_pc := fun _ => CIdle |}.
(* an existing table of identity `owner` whose metadata versions 0 .. n are on storage (every commit writes the next
   version with the same identity); the pointer names the last one, or is lost *)
Definition chain (owner : aid) (n : nat) : list mfile := map (fun v => {| f_id := owner; f_ver := v; f_live := true |}) (seq 0 (S n)).
Definition existing_n (owner : aid) (n : nat) (ptr_lost : bool) : cworld :=
  {| c_ptr := if ptr_lost then None else Some n; c_files := chain owner n; c_lock := None; c_creates := []; c_pc := fun _ => CIdle |}.
Definition existing (owner : aid) (ptr_lost : bool) : cworld := existing_n owner 0 ptr_lost.

(* the pointer is lost (deleted / unreadable) *)
Definition lose_ptr (w : cworld) : cworld :=
  {| c_ptr := None; c_files := c_files w; c_lock := c_lock w; c_creates := c_creates w; c_pc := c_pc w |}.

(* nobody is inside a call: every actor has not started or has returned *)
Definition at_rest (p : cpc) : bool := match p with CIdle | CDone _ => true | _ => false end.

Definition adopted_code (p : cpc) : nat :=
  match p with CDone (Some u) => S (S u) | CDone None => 1 | _ => 0 end.
Definition live_files (w : cworld) : list nat := filter (live w) (seq 0 (length (c_files w))).
Definition csummary (w : cworld) (n : nat) :=
  (c_ptr w, map f_id (c_files w), live_files w, c_creates w, map (fun a => adopted_code (c_pc w a)) (seq 0 n)).
