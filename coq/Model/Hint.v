(* Model/Hint.v -- resolving the current metadata version (metadata_manager.py:548-633).

     parse_hint   _parse_hint_content     = Gen/GenHint.v gen_parse_hint, REGENERATED every run
     recover      _recover_version_from_files   (hand-written; the Python function is pinned by golden AST)
     resolve      _read_version_hint + _current_version_info    (hand-written; pinned by golden AST)

   A storage view is what the three storage calls return:
     pointer : option (option (list cp))   None           exists(HINT_PATH) is false
                                           Some None      the bytes are not UTF-8
                                           Some (Some t)  the decoded text, classified
     listing : list entry                  list_files("metadata") in listing order, each path with the
                                           value get_modified_time("metadata/<basename>") yields
                                           (None = it raised; the code then uses -1.0)
   exists("metadata/<name>") is membership of that path in the listing (objects only).
   Not modelled: list_files itself raising (the failure propagates out of refresh(); C14 covers it).

   Definitions only; proofs are in Proofs/HintProofs.v. *)
From Coq Require Import ZArith NArith List Bool.
Require Import DS.Model.HintPrim DS.Gen.GenHint.
Import ListNotations.
Open Scope N_scope.

Definition parse_hint : option (list cp) -> pres := gen_parse_hint.

Record entry := { epath : list cp; emt : option Z }.

(* rel_path.replace("\\", "/") *)
Definition unbackslash (l : list cp) : list cp :=
  map (fun c => if code c =? 92 then acp 47 else c) l.

Definition not_slash (c : cp) : bool := negb (code c =? 47).

Fixpoint span_not_slash (l : list cp) : list cp * list cp :=
  match l with
  | c :: r => if not_slash c then let (a, b) := span_not_slash r in (c :: a, b) else ([], l)
  | [] => ([], [])
  end.

(* p.rsplit("/", 1): (Some parent, basename) when p contains '/', (None, p) otherwise *)
Definition rsplit_slash (l : list cp) : option (list cp) * list cp :=
  let (b, rest) := span_not_slash (rev l) in
  match rest with
  | [] => (None, l)
  | _ :: p => (Some (rev p), rev b)
  end.

(* parent not in ("", self.metadata_path) => continue *)
Definition parent_ok (parent : option (list cp)) : bool :=
  match parent with
  | None => true
  | Some p => is_empty p || codes_eqb (codes p) gen_metadata_path
  end.

Definition mt (e : entry) : Z := match emt e with Some t => t | None => (-1)%Z end.

Inductive rres := RRaise | RRet (r : option (N * list cp)).

(* the loop of _recover_version_from_files; bm = best_mtime *)
Fixpoint recover_loop (es : list entry) (best : option (N * list cp)) (bm : Z) : rres :=
  match es with
  | [] => RRet best
  | e :: r =>
    let (parent, base) := rsplit_slash (unbackslash (epath e)) in
    if parent_ok parent then
      match re_match base with
      | None => recover_loop r best bm
      | Some g =>
        match py_int g with
        | None => RRaise                                   (* int(m.group(1)) raises ValueError *)
        | Some v =>
          match best with
          | None => recover_loop r (Some (v, base)) (mt e)
          | Some (bv, _) =>
            if bv <? v then recover_loop r (Some (v, base)) (mt e)
            else if v =? bv then
              (if (bm <? mt e)%Z then recover_loop r (Some (v, base)) (mt e) else recover_loop r best bm)
            else recover_loop r best bm
          end
        end
      end
    else recover_loop r best bm
  end.

Definition recover (es : list entry) : rres := recover_loop es None (-1)%Z.

(* storage.exists(f"{metadata_path}/{filename}") *)
Definition meta_path_of (name : list cp) : list N := gen_metadata_path ++ [47] ++ codes name.
Definition exists_meta (name : list cp) (es : list entry) : bool :=
  existsb (fun e => codes_eqb (codes (epath e)) (meta_path_of name)) es.

(* _read_version_hint *)
Definition read_hint (ptr : option (option (list cp))) : pres :=
  match ptr with
  | None => PRet None
  | Some decoded => parse_hint decoded
  end.

(* _current_version_info *)
Definition resolve (ptr : option (option (list cp))) (es : list entry) : rres :=
  match read_hint ptr with
  | PRaise => RRaise
  | PRet (Some (v, name)) => if exists_meta name es then RRet (Some (v, name)) else recover es
  | PRet None => recover es
  end.

(* ---- what the library writes: _new_metadata_filename(version) = f"v{version}-{uuid4().hex[:8]}.metadata.json"
        and the pointer content metadata_file.encode("utf-8") ---- *)

(* str(n) for a non-negative int: decimal digits, most significant first, no leading zeros *)
Fixpoint dig_fuel (fuel : nat) (n : N) (acc : list N) : list N :=
  let acc' := (n mod 10) :: acc in
  match fuel with
  | O => acc'
  | S f => if n / 10 =? 0 then acc' else dig_fuel f (n / 10) acc'
  end.
Definition digits_of (n : N) : list N := dig_fuel (N.to_nat (N.size n)) n [].

Definition digit_cp (d : N) : cp := acp (48 + d).
Definition hex_cp (h : N) : cp := acp (if h <? 10 then 48 + h else 87 + h).

(* str(version) raises ValueError beyond sys.get_int_max_str_digits() digits, so no such name is ever built *)
Definition printable (v : N) : bool := N.of_nat (length (digits_of v)) <=? max_str_digits.

(* id: the 8 hex digits of the random suffix, as values 0..15 *)
Definition wf_id (id : list N) : bool := (length id =? 8)%nat && forallb (fun h => h <? 16) id.

Definition render_name (v : N) (id : list N) : list cp :=
  acp 118 :: map digit_cp (digits_of v) ++ acp 45 :: map hex_cp id ++ lit suffix_codes.

(* the path list_files("metadata") reports for it *)
Definition render_path (v : N) (id : list N) : list cp :=
  lit gen_metadata_path ++ acp 47 :: render_name v id.
