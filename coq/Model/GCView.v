(* Model/GCView.v -- what a READER gets from a retained snapshot in a store of Model/GC.v: its manifest list, the manifests
   the list names, the data files each manifest names, and the body of every one of those data files.  Definitions only.

   `snap_view st l` is the content of the snapshot whose manifest list is stored as `l` (as written: "/metadata/...",
   "metadata/..."), resolved the way every reader of the library resolves a stored path (strip leading "/").  It is None
   when the list, one of its manifests or one of their data files is missing or unparseable.  Property C09 says: for as
   long as the snapshot is retained, this value never changes (Proofs/GCViewProofs.v, over the histories of Model/GCHist.v:
   commits of ANY mix of appended / rewritten / dropped manifests, expiries, snapshot deletions, open transactions,
   planted orphans, file ageing and collections with any location / grace / clock / fault oracle). *)
From Coq Require Import ZArith List Bool String Ascii.
Require Import DS.Model.PyStr DS.Gen.GenNorm DS.Model.GC DS.Model.GCHist.
Import ListNotations.
Open Scope string_scope.
Open Scope Z_scope.

Fixpoint all_some {A : Type} (l : list (option A)) : option (list A) :=
  match l with
  | [] => Some []
  | None :: _ => None
  | Some x :: r => match all_some r with Some xs => Some (x :: xs) | None => None end
  end.

(* one data file: its key and what it holds *)
Definition data_view (st : store) (e : string) : option (key * content) :=
  match lookup (resolve e) st with Some ob => Some (resolve e, body ob) | None => None end.

(* one manifest: its key and its data files, in the manifest's order *)
Definition manifest_view (st : store) (m : string) : option (key * list (key * content)) :=
  match lookup (resolve m) st with
  | Some ob =>
      match as_manifest (body ob) with
      | Some es => match all_some (map (data_view st) es) with Some ds => Some (resolve m, ds) | None => None end
      | None => None
      end
  | None => None
  end.

(* one snapshot: the manifests of its list (entries with an empty path name nothing), in the list's order *)
Definition snap_view (st : store) (l : string) : option (list (key * list (key * content))) :=
  match lookup (resolve l) st with
  | Some ob =>
      match as_list (body ob) with
      | Some ms => all_some (map (manifest_view st) (filter nonempty ms))
      | None => None
      end
  | None => None
  end.

(* the file set only (rendered for the correspondence of harness/props/c09.py) *)
Definition snap_files (st : store) (l : string) : option (list (key * list key)) :=
  option_map (map (fun p => (fst p, map fst (snd p)))) (snap_view st l).

(* the snapshot stays retained along a continuation (it is in the metadata before every one of its steps) *)
Fixpoint retained_along (h : hstate) (ops : list hop) (l : string) : Prop :=
  match ops with
  | [] => True
  | op :: r => In l (h_lists h) /\ retained_along (hstep h op) r l
  end.
