(* Model/TailBase.v -- vocabulary of the translator-regenerated POST-COMMIT-POINT TAIL of a commit call
   (Gen/GenTail.v, read off _write_hint_at_commit_point / MetadataManager.commit / SnapshotManager.create_snapshot /
   Transaction._commit_file_ops / Transaction.commit by translator/gen_tail.py) and of Model/Tail.v.
   Definitions only. *)
From Coq Require Import List Bool.
Import ListNotations.

(* what a statement executed after the version-hint write has landed can do to the outside world *)
Inductive tail_kind :=
| TKRelease          (* lock_provider.release() *)
| TKLock             (* any other call on the lock provider *)
| TKDelete           (* storage.delete_file *)
| TKExists           (* storage.exists *)
| TKRead             (* storage.read_file / read_file_with_etag / open_file / read_json / get_size / get_modified_time *)
| TKWrite            (* storage.write_file / write_file_cas / write_json / makedirs *)
| TKList             (* storage.list_files *)
| TKRaise            (* a `raise` statement *)
| TKOther            (* any other storage-backend call, or file I/O that bypasses the backend *)
| TKCompute.         (* code that touches neither storage nor the lock but can raise (int(), next(), json.loads, d[k], arithmetic,
                        unpacking, a method of a local value ...); emitted only where no `try` swallows Exception: the deleting arm
                        of Transaction.commit does not ask why something raised.  Not observable at the storage interface. *)

(* the tail as a regular expression over calls, in program order.  `guarded` = an Exception raised by the call is caught and
   swallowed by a `try` that lies between the call and the handlers of Transaction.commit *)
Inductive tre :=
| TEmpty                                   (* no continuation (never emitted by the translator; result of derivatives) *)
| TEps
| TCall (k : tail_kind) (guarded : bool)
| TSeq (a b : tre)
| TAlt (a b : tre)
| TStar (a : tre).
