(* Model/BackendTrace.v -- which S3 requests each S3StorageBackend operation issues on a consistent,
   fault-free store, and how often: the per-operation glue (with_s3_retry around each operation,
   FileNotFoundError being an OSError and therefore retried, exists() falling back to a listing only
   for a trailing '/', the paginator) composed from Model/Backend.v and Model/Retry.v.
   Tied to the code by the `backend-s3-requests` correspondence (the fake's request log).
   Definitions only. *)
From Coq Require Import List Bool Ascii String Arith ZArith.
Require Import DS.Model.Str DS.Gen.GenS3 DS.Gen.GenRange DS.Model.Range DS.Model.Backend DS.Model.Retry.
Import ListNotations.

Inductive req :=
| RGet (k : str) | RHead (k : str) | RPut (k : str) | RDelete (k : str)
| RList (p : str) (maxkeys1 : bool)
| RGetR (k : str) (first last : Z).        (* GetObject with Range: bytes=first-last *)

(* attempts with_s3_retry makes when every attempt ends the same way: a value, or the FileNotFoundError
   the backend raises for a missing object (an OSError: retryable, not permanent) *)
Definition attempts_of (not_found : bool) : nat :=
  snd (with_s3_retry (V := unit) (repeat (if not_found then inr OSErr else inl tt) (S gen_max_retries))).

Definition pages (n page : nat) : nat := Nat.max 1 ((n + page - 1) / page).

Definition s3_trace (page : nat) (pfx : str) (b : bucket) (o : op str) : list req :=
  match o with
  | Write p _ => [RPut (gen_get_s3_key pfx p)]
  | Read p => let k := gen_get_s3_key pfx p in repeat (RGet k) (attempts_of (negb (has str_eqb k b)))
  | Exists p =>
    let k := gen_get_s3_key pfx p in
    RHead k :: (if has str_eqb k b then [] else if ends_with k (lit "/") then [RList k true] else [])
  | ListDir p =>
    let P := gen_list_prefix pfx p in repeat (RList P false) (pages (List.length (s3_list_objects b P)) page)
  | Delete p => [RDelete (gen_get_s3_key pfx p)]
  | Size p | Mtime p => let k := gen_get_s3_key pfx p in repeat (RHead k) (attempts_of (negb (has str_eqb k b)))
  | Open p prog =>
    (* get_size's HEADs, then one ranged GET per read that needs bytes (on the raw reader) *)
    let hk := gen_get_s3_key pfx (gen_open_size_path p) in
    repeat (RHead hk) (attempts_of (negb (has str_eqb hk b)))
    ++ map (fun r => RGetR (gen_open_key pfx p) (fst r) (snd r)) (snd (s3_open pfx b p prog))
  | Stream p | ReadTag p => let k := gen_get_s3_key pfx p in repeat (RGet k) (attempts_of (negb (has str_eqb k b)))
  | WriteCas p _ => let k := gen_get_s3_key pfx p in repeat (RGet k) (attempts_of (negb (has str_eqb k b))) ++ [RPut k]
  end.

Fixpoint run_trace (page : nat) (pfx : str) (b : bucket) (ops : list (op str)) : list (list req) :=
  match ops with
  | [] => []
  | o :: ops' => s3_trace page pfx b o :: run_trace page pfx (fst (s3_step pfx b o)) ops'
  end.

(* "requesting only in-range bytes": a ranged GET names an object that exists, within its size *)
Definition ranged_ok (b : bucket) (r : req) : Prop :=
  match r with
  | RGetR k first last => exists v, lookup str_eqb k b = Some v /\ in_range v (first, last)
  | _ => True
  end.

Fixpoint ranges_in_objects (page : nat) (pfx : str) (b : bucket) (ops : list (op str)) : Prop :=
  match ops with
  | [] => True
  | o :: ops' => Forall (ranged_ok b) (s3_trace page pfx b o) /\ ranges_in_objects page pfx (fst (s3_step pfx b o)) ops'
  end.
