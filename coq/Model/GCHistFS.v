(* Model/GCHistFS.v -- the history machine of Model/GCHist.v over a store whose backend may have SEVERAL spellings of one key.

   Model/GCHist.v identifies a file with the literal string of its key and instantiates posixpath.normpath by the identity:
   there the canonical-spelling half of Transaction.append_files' acceptance guard (`posixpath.normpath(rel) == rel`) says
   nothing, and the defect it was written for -- an entry "data//f" / "data/./f" / "data/x/../f" that a FILESYSTEM resolves to
   the file data/f, which the collector then deletes because it compares strings -- cannot be expressed.  Here the two
   functions are parameters:

     normpath : string -> string    posixpath.normpath, abstract (the parameter of Gen/GenNorm.v append_accepts_path)
     canon    : string -> string    the backend's key function: which stored key a path handed to exists / open / read denotes
                                    (a local filesystem collapses "//", "/./", "x/.."; S3 keys are literal: canon = id)

   and the only thing known about them is the law the theorems take as a hypothesis (Proofs/GCHistFSProofs.v):
     forall s, normpath s = s -> canon s = s          (a spelling normpath leaves alone IS the stored key).
   A commit's existence check (validate_data_files / survivors of existing manifests) asks the BACKEND, i.e. goes through canon;
   the collector (Model/GC.v) compares strings, as the code does.  Same operations (GCHist.hop), same states.  Definitions only. *)
From Coq Require Import ZArith List Bool String Ascii.
Require Import DS.Model.PyStr DS.Gen.GenNorm DS.Model.GC DS.Model.GCHist.
Import ListNotations.
Open Scope string_scope.
Open Scope Z_scope.

Section FS.
  Variables normpath canon : string -> string.

  (* what Transaction.append_files accepts as an entry path: REGENERATED (Gen/GenNorm.v), normpath abstract *)
  Definition accepts_fs (e : string) : bool := append_accepts_path normpath e.

  (* the file the backend finds for the entry e: an existing object or one of the commit's own new data files *)
  Definition exists_fs (h : hstate) (newdata : list (string * Z)) (e : string) : bool :=
    has_key (canon (resolve e)) (h_store h) || str_mem (canon (resolve e)) (map (fun q => data_key (fst q)) newdata).

  Definition valid_commit_fs (h : hstate) (newdata : list (string * Z)) (newmans : list (string * list string * Z)) (kept : list string)
    (lname : string) (lmt : Z) : bool :=
    let news := new_objects newdata newmans kept lname lmt in
    nodupb (map fst news)
    && forallb (fun k => negb (has_key k (h_store h))) (map fst news)
    && forallb (fun p => forallb (fun e => accepts_fs e && exists_fs h newdata e) (snd (fst p))) newmans
    && forallb (fun m => str_mem m (cur_manifests h)) kept.

  (* every operation but the commit is GCHist.hstep's (they do not look at entry spellings) *)
  Definition hstep_fs (h : hstate) (op : hop) : hstate :=
    match op with
    | HCommit sid newdata newmans kept lname lmt expire =>
        if valid_commit_fs h newdata newmans kept lname lmt then
          let snaps := (h_snaps h ++ [(sid, man_key lname)])%list in
          mkH (new_objects newdata newmans kept lname lmt ++ h_store h)%list
              (match expire with Some keep => expire_snaps keep (Some sid) snaps | None => snaps end)
              (Some sid)
        else h
    | _ => hstep h op
    end.

  Definition run_hist_fs (ops : list hop) : hstate := fold_left hstep_fs ops hinit.

  (* every retained snapshot is fully present AS THE BACKEND RESOLVES ITS ENTRIES: the file an entry denotes is canon (resolve e) *)
  Definition snapshot_present_fs (st : store) (l : string) : Prop :=
    nonempty l = true ->
    exists ms, list_at st (resolve l) ms /\
      forall m, In m ms -> nonempty m = true ->
        exists es, manifest_at st (resolve m) es /\ forall e, In e es -> present st (canon (resolve e)).

  Definition snapshot_present_fsb (st : store) (l : string) : bool :=
    negb (nonempty l) ||
    match lookup (resolve l) st with
    | Some ob =>
        match as_list (body ob) with
        | Some ms =>
            forallb (fun m => negb (nonempty m) ||
                       match lookup (resolve m) st with
                       | Some ob2 => match as_manifest (body ob2) with
                                     | Some es => forallb (fun e => has_key (canon (resolve e)) st) es
                                     | None => false
                                     end
                       | None => false
                       end) ms
        | None => false
        end
    | None => false
    end.
End FS.

(* a local filesystem's key function as far as repeated slashes go: "data//f" is the file data/f *)
Fixpoint squeeze (s : string) : string :=
  match s with
  | EmptyString => EmptyString
  | String a t =>
      match t with
      | String b _ => if Ascii.eqb a "/" && Ascii.eqb b "/" then squeeze t else String a (squeeze t)
      | EmptyString => String a EmptyString
      end
  end.

(* the acceptance guard with its canonical-spelling half erased: normpath := the identity *)
Definition no_normpath (s : string) : string := s.
