(* Model/GCRaceBase.v -- vocabulary shared by the regenerated collector kernels (Gen/GenGCRace.v) and the
   collector x transactions machine (Model/GCRace.v).  Definitions only. *)

(* what _load_inflight_protection does with one listed marker: its targets join the protected set, or the
   marker is deleted as abandoned (and protects nothing) *)
Inductive marker_action := MProtect | MSweep.
