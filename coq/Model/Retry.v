(* Model/Retry.v -- S3ConsistencyHandler.retry_with_backoff as used by with_s3_retry
   (s3_consistency.py:84-160, expected_value=None) and the classification of exceptions
   (is_permanent_s3_error + the retryable_exceptions tuple).

   The operation is a script of outcomes, one per attempt.  PERMANENT_S3_ERROR_CODES and the handler
   defaults come from Gen/GenS3.v; retry_with_backoff / is_permanent_s3_error / with_s3_retry are pinned
   by golden AST digests in translator/gen_s3.py.  Definitions only. *)
From Coq Require Import List Bool Arith QArith String.
Require Import DS.Model.Str DS.Gen.GenS3.
Import ListNotations.

Section Retry.
  Context {V E : Type}.

  Inductive outcome :=
  | Good (v : V)               (* the operation returned v *)
  | Transient (e : E)          (* a retryable exception that is not permanent *)
  | Permanent (e : E)          (* a retryable exception with a permanent S3 error code *)
  | NonRetryable (e : E).      (* any other exception *)

  Inductive rres :=
  | Returned (v : V)
  | Raised (e : E)
  | ScriptEnded.               (* the script had no outcome for an attempt that was made *)

  (* budget = retries left (max_retries at the start); result and number of attempts made *)
  Fixpoint retry (budget : nat) (outs : list outcome) {struct outs} : rres * nat :=
    match outs with
    | [] => (ScriptEnded, 0%nat)
    | Good v :: _ => (Returned v, 1%nat)
    | Permanent e :: _ => (Raised e, 1%nat)
    | NonRetryable e :: _ => (Raised e, 1%nat)
    | Transient e :: rest =>
      match budget with
      | O => (Raised e, 1%nat)
      | S b => let (r, n) := retry b rest in (r, S n)
      end
    end.
End Retry.

Arguments outcome : clear implicits.
Arguments rres : clear implicits.

(* the sleeps between attempts: initial_delay, then min(delay * backoff_factor, max_delay) *)
Definition qmin (a b : Q) : Q := if Qle_bool a b then a else b.
Fixpoint backoff (d mx f : Q) (n : nat) : list Q :=
  match n with O => [] | S n' => d :: backoff (qmin (d * f) mx) mx f n' end.

(* ---- classification of what an attempt raises *)
Inductive exn :=
| ClientError (code : str)    (* botocore ClientError with response['Error']['Code'] = code *)
| BotoCoreErr                 (* botocore.exceptions.BotoCoreError subclasses (no response) *)
| OSErr                       (* OSError / IOError family, FileNotFoundError included *)
| OtherExn                    (* any other Exception (ValueError, ...) *)
| BaseExn.                    (* KeyboardInterrupt / SystemExit: not an Exception at all *)

Definition is_permanent (x : exn) : bool :=
  match x with ClientError c => member c gen_permanent_codes | _ => false end.

Definition classify {V} (x : V + exn) : outcome V exn :=
  match x with
  | inl v => Good v
  | inr e =>
    match e with
    | ClientError _ => if is_permanent e then Permanent e else Transient e
    | BotoCoreErr | OSErr => Transient e
    | OtherExn | BaseExn => NonRetryable e
    end
  end.

(* S3 answers that no retry can change, stated INDEPENDENTLY of the library's table (AWS S3 error-code reference; the list is
   NOT drawn from PERMANENT_S3_ERROR_CODES and is not a subset of the table of the library as it was found): the request is
   not authorised, the credentials are wrong, the bucket does not exist -- and the REQUEST ITSELF is refused (an argument,
   the URI, the key length, the byte range or the method is invalid): re-sending the same request cannot succeed.
   Absent on purpose: not-found answers (known finding F-C20b) and the 4xx answers a retry CAN cure (RequestTimeout,
   SlowDown / 429, RequestTimeTooSkewed, ExpiredToken, BadDigest). *)
Definition definitive_codes : list str :=
  [lit "AccessDenied"; lit "InvalidAccessKeyId"; lit "SignatureDoesNotMatch"; lit "NoSuchBucket"; lit "AllAccessDisabled";
   lit "403"; lit "401";
   lit "InvalidArgument"; lit "InvalidRequest"; lit "InvalidURI"; lit "KeyTooLongError"; lit "InvalidRange"; lit "MethodNotAllowed"].
Definition definitive (e : exn) : bool := match e with ClientError c => member c definitive_codes | _ => false end.

(* with_s3_retry(op) where attempt i of op behaves as script[i] *)
Definition with_s3_retry {V} (script : list (V + exn)) : rres V exn * nat :=
  retry gen_max_retries (map classify script).

Definition with_s3_retry_sleeps (attempts : nat) : list Q :=
  backoff gen_initial_delay gen_max_delay gen_backoff_factor (pred attempts).
