(* Model/Path.v -- path resolution over a symlink file-system model (C17).

   Source anchors (after the C17 repairs):
     storage_backend.canonical_path, LocalStorageBackend._real_base_path / _resolve_path /
     _resolve_file_target / list_files and the entry points built on them;
     data_operations.DataFileManager._get_arrow_path / _get_arrow_write_path / open_parquet_source;
     posixpath.realpath / _joinrealpath / commonpath / relpath / join / normpath (CPython 3.12).

   A path STRING is modelled as its split("/") : list of components (pstr); components are small
   numbers with reserved codes  0 = ""  1 = "."  2 = ".."  (3 = "data", 4 = "metadata" by convention
   of the harness).  A LOCATION (loc) is a canonical absolute position: names only, root = [].
   The file system is a flat association list from locations to nodes; lstat succeeds only when every
   proper prefix is a directory, so inconsistent lists denote their prefix-consistent part.

   Definitions only -- proofs are in Proofs/PathProofs.v. *)
From Coq Require Import ZArith List Bool.
Import ListNotations.
Open Scope Z_scope.

Definition comp := Z.
Definition pstr := list comp.
Definition loc := list comp.

Inductive node := Dir | File | Link (target : pstr).
Definition tree := list (loc * node).

Inductive perr := Security | OutOfFuel | IsRoot | KNoEnt | KNotDir | KLoop.
Inductive res (A : Type) := Ok (a : A) | Err (e : perr).
Arguments Ok {A} a.
Arguments Err {A} e.

(* ---------------------------------------------------------------- components and strings *)
Definition is_skip (c : comp) : bool := (c =? 0) || (c =? 1).          (* "" and "." *)
Definition is_up (c : comp) : bool := c =? 2.                            (* ".." *)
Definition is_name (c : comp) : bool := negb (is_skip c) && negb (is_up c).

Fixpoint leqb (a b : list Z) : bool :=
  match a, b with
  | [], [] => true
  | x :: a', y :: b' => (x =? y) && leqb a' b'
  | _, _ => false
  end.

(* s.startswith("/") == os.path.isabs(s) on POSIX: first component empty and at least two components *)
Definition is_abs (s : pstr) : bool :=
  match s with
  | c :: _ :: _ => c =? 0
  | _ => false
  end.

(* the string "/" + "/".join(l) *)
Definition abs_str (l : loc) : pstr := match l with [] => [0; 0] | _ => 0 :: l end.

Fixpoint drop_empty (s : pstr) : pstr :=
  match s with
  | c :: s' => if c =? 0 then drop_empty s' else s
  | [] => []
  end.

(* s.lstrip("/") *)
Definition lstrip (s : pstr) : pstr := match drop_empty s with [] => [0] | r => r end.

(* os.path.join(a, b) *)
Definition os_join (a b : pstr) : pstr :=
  if is_abs b then b
  else match rev a with
       | c :: ra => if c =? 0 then rev ra ++ b else a ++ b
       | [] => b
       end.

(* os.path.normpath of an ABSOLUTE string, as a location (lexical: '..' pops, stays at the root) *)
Definition norm_step (acc : loc) (c : comp) : loc :=
  if is_skip c then acc else if is_up c then removelast acc else acc ++ [c].
Definition normpath (s : pstr) : loc := fold_left norm_step s [].

(* ---------------------------------------------------------------- the file system *)
Fixpoint assoc (p : loc) (t : tree) : option node :=
  match t with
  | [] => None
  | (k, v) :: t' => if leqb p k then Some v else assoc p t'
  end.

Definition look (t : tree) (p : loc) : option node :=
  match p with [] => Some Dir | _ => assoc p t end.

Fixpoint lstat_at (t : tree) (pre rest : loc) : option node :=
  match rest with
  | [] => look t pre
  | c :: rest' => match look t pre with
                  | Some Dir => lstat_at t (pre ++ [c]) rest'
                  | _ => None
                  end
  end.

(* os.lstat of a location whose proper prefixes hold no link *)
Definition lstat (t : tree) (p : loc) : option node := lstat_at t [] p.

Definition is_link (o : option node) : bool := match o with Some (Link _) => true | _ => false end.

(* ---------------------------------------------------------------- posixpath.realpath (non-strict)
   jrp = _joinrealpath.  The outer recursion (one level per symlink being expanded) is on the fuel d,
   the inner loop is structural on the remaining components.  `seen` holds the links whose expansion
   is in progress (the entries of Python's `seen` dict that are None); the dict's cache of finished
   links does not change any result and is not modelled.  On meeting an in-progress link Python
   GIVES UP: it returns join(newpath, rest) and every enclosing level appends its own rest -- the
   junk string RPJunk, which realpath finally only normalises lexically. *)
Inductive rp := RPOk (p : loc) | RPJunk (j : pstr) | RPFuel.

Definition mem (p : loc) (l : list loc) : bool := existsb (leqb p) l.
Definition junk_join (a b : pstr) : pstr := if is_abs b then b else a ++ b.

Definition link_start (path : loc) (tg : pstr) : loc := if is_abs tg then [] else path.
Definition link_rest (tg : pstr) : pstr := if is_abs tg then tl tg else tg.

Fixpoint jrp (d : nat) (t : tree) (path : loc) (rest : pstr) (seen : list loc) {struct d} : rp :=
  (fix loop (path : loc) (rest : pstr) {struct rest} : rp :=
     match rest with
     | [] => RPOk path
     | c :: rest' =>
       if is_skip c then loop path rest'
       else if is_up c then loop (removelast path) rest'
       else
         let newpath := path ++ [c] in
         match lstat t newpath with
         | Some (Link tg) =>
           if mem newpath seen then RPJunk (junk_join (abs_str newpath) rest')
           else match d with
                | O => RPFuel
                | S d' =>
                  match jrp d' t (link_start path tg) (link_rest tg) (newpath :: seen) with
                  | RPOk p' => loop p' rest'
                  | RPJunk j => RPJunk (junk_join j rest')
                  | RPFuel => RPFuel
                  end
                end
         | _ => loop newpath rest'
         end
     end) path rest.

(* abspath's join with the working directory (os.getcwd() is canonical) *)
Definition absolutize (cwd : loc) (s : pstr) : pstr := if is_abs s then s else abs_str cwd ++ s.

Definition realpath (d : nat) (t : tree) (cwd : loc) (s : pstr) : res loc :=
  match jrp d t [] (tl (absolutize cwd s)) [] with
  | RPOk p => Ok p
  | RPJunk j => Ok (normpath j)
  | RPFuel => Err OutOfFuel
  end.

(* ---------------------------------------------------------------- storage_backend.canonical_path *)
Fixpoint prefixes_from (pre rest : loc) : list loc :=
  match rest with
  | [] => []
  | c :: r => (pre ++ [c]) :: prefixes_from (pre ++ [c]) r
  end.

Definition no_link_prefix (t : tree) (q : loc) : bool :=
  forallb (fun p => negb (is_link (lstat t p))) (prefixes_from [] q).

Definition canonical (d : nat) (t : tree) (cwd : loc) (s : pstr) : res loc :=
  match realpath d t cwd s with
  | Ok q => if no_link_prefix t q then Ok q else Err Security
  | Err e => Err e
  end.

(* ---------------------------------------------------------------- posixpath.commonpath([a; b]) *)
Fixpoint lcp (a b : list Z) : list Z :=
  match a, b with
  | x :: a', y :: b' => if x =? y then x :: lcp a' b' else []
  | _, _ => []
  end.

Definition cp_filter (s : pstr) : list comp := filter (fun c => negb (is_skip c)) s.

(* None = ValueError("Can't mix absolute and relative paths") *)
Definition commonpath2 (a b : pstr) : option pstr :=
  if Bool.eqb (is_abs a) (is_abs b) then
    let common := lcp (cp_filter a) (cp_filter b) in
    Some (if is_abs a then abs_str common else match common with [] => [0] | _ => common end)
  else None.

Fixpoint is_prefix (a b : list Z) : bool :=
  match a, b with
  | [], _ => true
  | x :: a', y :: b' => (x =? y) && is_prefix a' b'
  | _ :: _, [] => false
  end.

(* the containment test  os.path.commonpath([base_path, full_path]) == base_path  on realpath outputs *)
Definition inside (rb full : loc) : bool :=
  match commonpath2 (abs_str rb) (abs_str full) with
  | Some c => leqb c (abs_str rb)
  | None => false
  end.

(* ---------------------------------------------------------------- LocalStorageBackend._resolve_path *)
Definition join_for_resolve (base p : pstr) : pstr :=
  if is_abs p then os_join base (lstrip p) else os_join base p.

Definition resolve (d : nat) (t : tree) (cwd : loc) (base p : pstr) : res loc :=
  match canonical d t cwd (join_for_resolve base p) with
  | Err e => Err e
  | Ok full =>
    match realpath d t cwd base with
    | Err e => Err e
    | Ok rb => if inside rb full then Ok full else Err Security
    end
  end.

(* the unrepaired resolver (realpath trusted as is), kept for the refutation in Props/C17.v *)
Definition resolve_legacy (d : nat) (t : tree) (cwd : loc) (base p : pstr) : res loc :=
  match realpath d t cwd (join_for_resolve base p) with
  | Err e => Err e
  | Ok full =>
    match realpath d t cwd base with
    | Err e => Err e
    | Ok rb => if inside rb full then Ok full else Err Security
    end
  end.

(* ---------------------------------------------------------------- DataFileManager._get_arrow_path *)
Definition first_component (p : pstr) : comp := if is_abs p then nth 1 p 0 else 0.

Definition arrow_path (d : nat) (t : tree) (cwd : loc) (dirs : list comp) (base p : pstr) : res loc :=
  match realpath d t cwd base with
  | Err e => Err e
  | Ok rb =>
    if negb (is_abs p) || existsb (Z.eqb (first_component p)) dirs then resolve d t cwd base p
    else match canonical d t cwd p with
         | Err e => Err e
         | Ok full => if inside rb full then Ok full else Err Security
         end
  end.

(* ---------------------------------------------------------------- the kernel's own path walk
   What open()/unlink()/scandir() do with a string: follow every link, physically, with a budget
   (ELOOP).  Independent of realpath above; used to state what handing a resolved path to the OS
   reaches. *)
Fixpoint kwalk (fuel : nat) (t : tree) (cur : loc) (rest : pstr) : res loc :=
  match fuel with
  | O => Err KLoop
  | S f =>
    match rest with
    | [] => Ok cur
    | c :: rest' =>
      if c =? 0 then kwalk f t cur rest'
      else match lstat t cur with
           | Some Dir =>
             if c =? 1 then kwalk f t cur rest'
             else if is_up c then kwalk f t (removelast cur) rest'
             else match lstat t (cur ++ [c]) with
                  | None => Err KNoEnt
                  | Some (Link tg) => kwalk f t (link_start cur tg) (link_rest tg ++ rest')
                  | Some _ => kwalk f t (cur ++ [c]) rest'
                  end
           | Some _ => Err KNotDir
           | None => Err KNoEnt
           end
    end
  end.

(* stat(): does the location, links followed, hold a directory? *)
Definition is_dir_follow (kf : nat) (t : tree) (e : loc) : bool :=
  match kwalk kf t [] e with
  | Ok l => match lstat t l with Some Dir => true | _ => false end
  | Err _ => false
  end.

(* ---------------------------------------------------------------- LocalStorageBackend.list_files *)
Definition strict_prefix (a b : loc) : bool := is_prefix a b && negb (leqb a b).

(* os.walk(followlinks=False): regular files, and links that do not lead to a directory *)
Definition walk_is_file (kf : nat) (t : tree) (e : loc) : bool :=
  match lstat t e with
  | Some File => true
  | Some (Link _) => negb (is_dir_follow kf t e)
  | _ => false
  end.

Definition loc_eq_dec : forall a b : loc, {a = b} + {a <> b} := list_eq_dec Z.eq_dec.

(* directory entries are names: never "", "." or ".." *)
Definition names_b (l : loc) : bool := forallb is_name l.

Definition walk_files (kf : nat) (t : tree) (q : loc) : list loc :=
  filter (fun e => strict_prefix q e && names_b e && walk_is_file kf t e) (nodup loc_eq_dec (map fst t)).

(* the directories os.walk(q, followlinks=False) ENUMERATES (os.scandir): q itself when it is a directory and
   every real directory below it.  lstat = Dir requires every proper prefix to be a directory, so nothing
   reached through a link -- inward or outward -- is ever scanned. *)
Definition walk_dirs (t : tree) (q : loc) : list loc :=
  filter (fun e => is_prefix q e && names_b e && match lstat t e with Some Dir => true | _ => false end)
         (nodup loc_eq_dec (q :: map fst t)).

(* os.path.relpath(full, base) + the '..' guard *)
Definition relativise (base full : loc) : res pstr :=
  let i := length (lcp base full) in
  match repeat 2 (length base - i) ++ skipn i full with
  | [] => Ok [1]
  | c :: r => if is_up c then Err Security else Ok (c :: r)
  end.

Fixpoint map_res {A B} (f : A -> res B) (l : list A) : res (list B) :=
  match l with
  | [] => Ok []
  | a :: l' => match f a with
               | Err e => Err e
               | Ok b => match map_res f l' with Err e => Err e | Ok bs => Ok (b :: bs) end
               end
  end.

Definition exists_loc (t : tree) (q : loc) : bool := match lstat t q with Some _ => true | None => false end.

Definition list_files (d kf : nat) (t : tree) (cwd : loc) (base prefix : pstr) : res (list pstr) :=
  match resolve d t cwd base prefix with
  | Err e => Err e
  | Ok q =>
    if negb (exists_loc t q) then Ok []
    else match realpath d t cwd base with
         | Err e => Err e
         | Ok rb => map_res (relativise rb) (walk_files kf t q)
         end
  end.

(* the directories a list_files call hands to os.scandir *)
Definition list_scans (d : nat) (t : tree) (cwd : loc) (base prefix : pstr) : res (list loc) :=
  match resolve d t cwd base prefix with
  | Err e => Err e
  | Ok q => if negb (exists_loc t q) then Ok [] else Ok (walk_dirs t q)
  end.

(* ---------------------------------------------------------------- entry points
   Each storage / read entry point as the list of locations it hands to the operating system, by kind.
   AMkdirs is os.makedirs(..., exist_ok=True): it creates missing directories only. *)
Inductive akind := ARead | ACreateIn | AReplace | ARemove | AList | AStat | AMkdirs | ALock.
Definition access := (akind * loc)%type.

Inductive entry := EpRead | EpOpen | EpOpenSeekable | EpWrite | EpWriteJson | EpExists | EpList | EpDelete
                 | EpMakedirs | EpSize | EpMtime | EpLock | EpParquetSource | EpReadDataFile | EpWriteDataFile.

Definition parent (q : loc) : loc := removelast q.

(* _resolve_file_target / _get_arrow_write_path: the root itself is not a file location *)
Definition file_target (rb : loc) (r : res loc) : res loc :=
  match r with
  | Ok q => if leqb q rb then Err IsRoot else Ok q
  | Err e => Err e
  end.

Definition run_entry (d : nat) (t : tree) (cwd : loc) (dirs : list comp) (base : pstr) (ep : entry) (p : pstr) : res (list access) :=
  match realpath d t cwd base with
  | Err e => Err e
  | Ok rb =>
    let via (r : res loc) (f : loc -> list access) : res (list access) :=
        match r with Ok q => Ok (f q) | Err e => Err e end in
    match ep with
    | EpRead | EpOpen | EpOpenSeekable => via (resolve d t cwd base p) (fun q => [(ARead, q)])
    | EpWrite | EpWriteJson =>
        via (file_target rb (resolve d t cwd base p)) (fun q => [(AMkdirs, parent q); (ACreateIn, parent q); (AReplace, q)])
    | EpExists | EpSize | EpMtime => via (resolve d t cwd base p) (fun q => [(AStat, q)])
    | EpList => via (resolve d t cwd base p) (fun q => [(AStat, q); (AList, q)])
    | EpDelete => via (resolve d t cwd base p) (fun q => [(AStat, q); (ARemove, q)])
    | EpMakedirs => via (resolve d t cwd base p) (fun q => [(AMkdirs, q)])
    | EpLock => via (resolve d t cwd base p) (fun q => [(AMkdirs, parent q); (ALock, q)])
    | EpParquetSource | EpReadDataFile => via (arrow_path d t cwd dirs base p) (fun q => [(ARead, q)])
    | EpWriteDataFile =>
        via (file_target rb (arrow_path d t cwd dirs base p)) (fun q => [(AMkdirs, parent q); (ACreateIn, parent q); (AReplace, q); (AStat, q); (ARead, q)])
    end
  end.

(* ---------------------------------------------------------------- histories on one long-lived handle
   A handle (LocalStorageBackend / DataFileManager / Table) is only its base string: it keeps NO path-derived
   state.  Between two uses the arrangement may change (a directory inside the root replaced by an outward
   link, ...); every use is resolved against the tree current AT THAT USE, whatever was resolved before. *)
Definition hstep := (tree * entry * pstr)%type.

Definition run_history (d : nat) (cwd : loc) (dirs : list comp) (base : pstr) (steps : list hstep) : list (res (list access)) :=
  map (fun s : hstep => let '(t, ep, p) := s in run_entry d t cwd dirs base ep p) steps.

(* ---------------------------------------------------------------- sessions: what a listing hands out comes back in
   One handle, a sequence of operations.  The string of a step is either a literal or a NAME RETURNED BY AN EARLIER
   LISTING of the same handle (the garbage collector sweeping its candidates, a caller registering a file it has just
   seen in data/, the recovery scan): SListed i k = the k-th name the i-th step returned.  os.walk reports a symlink
   to a file among a directory's files, so such a name may lead out of the root although the listing that produced it
   stayed inside.  The handle remembers NOTHING about the names it handed out: a step is resolved against its own tree
   from the string alone (the library's handle state is its base string: Gen/GenPath.v gen_guard_reads /
   gen_handle_writes, regenerated from the source).
   An output records, per step, the outcome (None: the argument names no earlier listing entry, nothing is executed)
   and the names the step returned to its caller. *)
Inductive sarg := SLit (p : pstr) | SListed (i k : nat).
Definition sstep := (tree * entry * sarg)%type.
Definition sout := (option (res (list access)) * list pstr)%type.

Definition sderef (outs : list sout) (a : sarg) : option pstr :=
  match a with
  | SLit p => Some p
  | SListed i k => match nth_error outs i with Some (_, ns) => nth_error ns k | None => None end
  end.

Definition listed_names (d kf : nat) (t : tree) (cwd : loc) (base : pstr) (ep : entry) (p : pstr) : list pstr :=
  match ep with
  | EpList => match list_files d kf t cwd base p with Ok rs => rs | Err _ => [] end
  | _ => []
  end.

Definition session_out (d kf : nat) (cwd : loc) (dirs : list comp) (base : pstr) (outs : list sout) (s : sstep) : sout :=
  let '(t, ep, a) := s in
  match sderef outs a with
  | Some p => (Some (run_entry d t cwd dirs base ep p), listed_names d kf t cwd base ep p)
  | None => (None, [])
  end.

Definition session_step (d kf : nat) (cwd : loc) (dirs : list comp) (base : pstr) (outs : list sout) (s : sstep) : list sout :=
  outs ++ [session_out d kf cwd dirs base outs s].

Definition run_session (d kf : nat) (cwd : loc) (dirs : list comp) (base : pstr) (steps : list sstep) : list sout :=
  fold_left (session_step d kf cwd dirs base) steps [].

(* A handle that DOES remember: every name a listing handed out is recorded with the location the walk found it at
   (canonical root ++ name), and a later step whose string is a recorded name is handed that location without the
   boundary check -- `a path produced by walking the canonical prefix is already canonical`.  Not the library's
   behaviour; kept for the refutation in Props/C17.v (the kernel follows the recorded FILE link out of the root). *)
Definition memo := list (pstr * loc).
Fixpoint memo_find (m : memo) (p : pstr) : option loc :=
  match m with
  | [] => None
  | (k, v) :: m' => if leqb p k then Some v else memo_find m' p
  end.
Definition resolve_memo (m : memo) (d : nat) (t : tree) (cwd : loc) (base p : pstr) : res loc :=
  match memo_find m (lstrip p) with
  | Some q => Ok q
  | None => resolve d t cwd base p
  end.
Definition memo_after_listing (m : memo) (d kf : nat) (t : tree) (cwd : loc) (base prefix : pstr) : memo :=
  match list_files d kf t cwd base prefix, realpath d t cwd base with
  | Ok rs, Ok rb => map (fun r => (r, rb ++ r)) rs ++ m
  | _, _ => m
  end.
