(* Model/HintStore.v -- the metadata directory and the version pointer as a small sequential machine.

   State: the pointer content, the metadata files directly in metadata/ (in LISTING order), and two
   ghost fields the code does not have: which file was last published by a successful commit point
   (`glatest`) and which snapshots were acknowledged to callers (`gacked`); every file also carries the
   ghost flag `fcom` (its commit point succeeded).

   Operations.  The version of a new file is numbered from _current_version_info() on both kinds of backend
   (plain pointer writes; conditional pointer writes, where since fix a9fa40b the parsed pointer is used only
   when its target exists -- which is what _current_version_info() returns in that case).  A precondition
   failure of a conditional pointer write is a FailCommitPoint like a failed fence or a failed local write:
     ECreate   Table(path, create_if_not_exists=True) / create_table          transaction.py:755-783,
               -> refresh() is None ? initialize_table : nothing              metadata_manager.py:67-118
     ECommit   Transaction.commit -> MetadataManager.commit                   transaction.py:346-448,
               base := refresh(); version := _current_version_info();         metadata_manager.py:137-260
               write v<version+1>-<id>.metadata.json; fence; write pointer
     EDamage   anything at all happens to the pointer file (deleted, overwritten with arbitrary bytes)
   An operation carries its outcome:
     Ok                     the commit point (pointer write) succeeded
     FailEarly              lock timeout / validation conflict / the metadata write itself failed: nothing written
     FailCommitPoint c      the metadata file was written and the commit point was not reached or failed:
                            c = true   the fence or the pointer write failed cleanly (an Exception other than
                                       AmbiguousCommitError): commit()/initialize_table() remove the file again;
                            c = false  the file STAYS BEHIND, never published.  The code as it is does this when the
                                       process dies between the two writes, when a KeyboardInterrupt / SystemExit
                                       arrives there (not an Exception: the removal arm does not run), when the pointer
                                       PUT of a conditional-write backend fails ambiguously without landing
                                       (AmbiguousCommitError: kept on purpose), and when the best-effort removal fails
                                       (harness/props/c10.py LEFTOVER_OPS drives each of them on the real code)
   The machine is SEQUENTIAL: one operation at a time.  A commit in progress seen by a concurrent opener is the
   state after `FailCommitPoint false` (file written, pointer not yet flipped); nothing else of concurrency is here.
   File ids (the 8 random hex digits), mtimes, the position at which the backend lists a new file, table
   uuids and snapshot ids are supplied by the event: the theorems quantify over all of them.

   Definitions only; proofs are in Proofs/HintStoreProofs.v. *)
From Coq Require Import ZArith NArith List Bool.
Require Import DS.Model.HintPrim DS.Gen.GenHint DS.Model.Hint.
Import ListNotations.
Open Scope N_scope.

Record mfile := { fver : N; fid : list N; fmt : Z; fcom : bool; fuuid : N; fsnaps : list N }.

Definition fname (f : mfile) : list cp := render_name (fver f) (fid f).
Definition entry_of (f : mfile) : entry := {| epath := render_path (fver f) (fid f); emt := Some (fmt f) |}.

Record store := {
  ptr : option (option (list cp));     (* see Model/Hint.v: None = no pointer file *)
  files : list mfile;
  glatest : option mfile;
  gacked : list N }.

Definition empty_store : store := {| ptr := None; files := []; glatest := None; gacked := [] |}.
Definition listing (st : store) : list entry := map entry_of (files st).

Definition name_eqb (a b : list cp) : bool := codes_eqb (codes a) (codes b).
Definition find_file (name : list cp) (fs : list mfile) : option mfile :=
  find (fun f => name_eqb (fname f) name) fs.

(* MetadataManager.refresh(): resolve, then read the named file *)
Inductive rfr := RfRaise | RfNone | RfMeta (v : N) (f : mfile).
Definition refresh_of (p : option (option (list cp))) (fs : list mfile) : rfr :=
  match resolve p (map entry_of fs) with
  | RRaise => RfRaise
  | RRet None => RfNone
  | RRet (Some (v, name)) =>
    match find_file name fs with
    | Some f => RfMeta v f
    | None => RfRaise                       (* the named file cannot be read *)
    end
  end.
Definition refresh (st : store) : rfr := refresh_of (ptr st) (files st).

Inductive outcome := Ok | FailEarly | FailCommitPoint (cleaned : bool).

Inductive event :=
| ECreate (id : list N) (t : Z) (pos : nat) (uuid : N) (o : outcome)
| ECommit (id : list N) (t : Z) (pos : nat) (sid : N) (o : outcome)
| EDamage (p : option (option (list cp))).

Definition insert_at {A} (pos : nat) (x : A) (l : list A) : list A := firstn pos l ++ x :: skipn pos l.
Definition published (f : mfile) : mfile :=
  {| fver := fver f; fid := fid f; fmt := fmt f; fcom := true; fuuid := fuuid f; fsnaps := fsnaps f |}.

(* writing the metadata file, then the commit point *)
Definition publish (st : store) (f : mfile) (pos : nat) (o : outcome) (acked : list N) : store :=
  match o with
  | Ok => {| ptr := Some (Some (fname f)); files := insert_at pos (published f) (files st);
             glatest := Some (published f); gacked := acked |}
  | FailEarly => st
  | FailCommitPoint true => st
  | FailCommitPoint false =>
    {| ptr := ptr st; files := insert_at pos f (files st); glatest := glatest st; gacked := gacked st |}
  end.

Definition step (st : store) (e : event) : store :=
  match e with
  | ECreate id t pos uuid o =>
    match refresh st with
    | RfNone =>
      publish st {| fver := 0; fid := id; fmt := t; fcom := false; fuuid := uuid; fsnaps := [] |} pos o (gacked st)
    | _ => st                               (* an existing table is never initialised again *)
    end
  | ECommit id t pos sid o =>
    match refresh st with
    | RfMeta v base =>
      let next := v + 1 in
      if printable next then                (* f"v{version}-..." raises ValueError otherwise: nothing written *)
        publish st {| fver := next; fid := id; fmt := t; fcom := false; fuuid := fuuid base;
                      fsnaps := fsnaps base ++ [sid] |} pos o (gacked st ++ [sid])
      else st
    | _ => st                               (* "No current metadata" / refresh raised *)
    end
  | EDamage p => {| ptr := p; files := files st; glatest := glatest st; gacked := gacked st |}
  end.

Definition run (st : store) (h : list event) : store := fold_left step h st.

(* ---- which histories the theorems speak about ---- *)

(* A pointer content is STALE in st when it parses and names an existing file that is not the latest
   published one.  Missing, empty, undecodable, unparseable contents, names of missing files and the
   name of the latest file are all not stale. *)
Definition stale (p : option (option (list cp))) (st : store) : Prop :=
  exists v name f, read_hint p = PRet (Some (v, name)) /\ In f (files st)
                   /\ name_eqb (fname f) name = true /\ glatest st <> Some f.

(* The pointer cannot be used and _current_version_info falls back to the scan: there is no pointer file, or its content
   is undecodable / blank / matches neither form (read_hint = PRet None), or it PARSES but names a file that is not stored
   (storage.exists(f"{metadata_path}/{filename}") is False: a pointer restored from elsewhere, a name of a collected
   version, a truncated or edited name that still matches the pattern, a legacy number of a missing legacy file). *)
Definition unusable (p : option (option (list cp))) (fs : list mfile) : Prop :=
  read_hint p = PRet None
  \/ exists v name, read_hint p = PRet (Some (v, name)) /\ exists_meta name (map entry_of fs) = false.

(* Text as Python classifies it: every ASCII character carries the classification `acp` gives it
   (re-checked against the real interpreter on every run).  Nothing is assumed about other characters. *)
Definition ascii_classified (p : option (option (list cp))) : Prop :=
  match p with
  | Some (Some text) => forall c, In c text -> code c < 128 -> c = acp (code c)
  | _ => True
  end.

(* What "not stale" gives the proofs (Proofs/HintStoreProofs.v not_stale_of_classified): a pointer that
   names an existing file names the latest one AND parses to that file's version. *)
Definition not_stale (p : option (option (list cp))) (st : store) : Prop :=
  match read_hint p with
  | PRet (Some (v, name)) =>
    forall f, In f (files st) -> name_eqb (fname f) name = true -> glatest st = Some f /\ v = fver f
  | _ => True
  end.

(* ---- CLEAN histories: no operation leaves a never-published metadata file behind.  In every store they reach
        every file is published (Proofs/HintStoreProofs.v inv_com), so they say nothing about leftovers. ---- *)
Definition clean_outcome (o : outcome) : Prop := o <> FailCommitPoint false.

Definition ok_event (st : store) (e : event) : Prop :=
  match e with
  | ECreate id _ _ _ o => wf_id id = true /\ clean_outcome o
  | ECommit id _ _ _ o => wf_id id = true /\ clean_outcome o
  | EDamage p => ascii_classified p /\ ~ stale p st
  end.

Fixpoint ok_history (st : store) (h : list event) : Prop :=
  match h with
  | [] => True
  | e :: h' => ok_event st e /\ ok_history (step st e) h'
  end.

(* stores reachable from the empty directory by such a history *)
Definition reachable_clean (st : store) : Prop := exists h, ok_history empty_store h /\ st = run empty_store h.

(* ---- histories WITH leftovers: any outcome, `FailCommitPoint false` included ---- *)

(* recovery's order: f ranks below L (lower version, or the same version and a strictly older mtime); f does not
   outrank x (mtime <=); f outranks L *)
Definition below (f L : mfile) : Prop := fver f < fver L \/ (fver f = fver L /\ (fmt f < fmt L)%Z).
Definition not_above (f x : mfile) : Prop := fver f < fver x \/ (fver f = fver x /\ (fmt f <= fmt x)%Z).
Definition above (f L : mfile) : Prop := fver L < fver f \/ (fver f = fver L /\ (fmt L < fmt f)%Z).

(* no two stored files have the same name *)
Definition names_unique (fs : list mfile) : Prop :=
  forall f g, In f fs -> In g fs -> name_eqb (fname f) (fname g) = true -> f = g.
(* every other file ranks below L *)
Definition others_below (fs : list mfile) (L : mfile) : Prop := forall f, In f fs -> f <> L -> below f L.

(* the metadata file an operation writes before its commit point, if it gets that far *)
Definition written (st : store) (e : event) : option mfile :=
  match e with
  | ECreate id t _ uuid _ =>
    match refresh st with
    | RfNone => Some {| fver := 0; fid := id; fmt := t; fcom := false; fuuid := uuid; fsnaps := [] |}
    | _ => None
    end
  | ECommit id t _ sid _ =>
    match refresh st with
    | RfMeta v base =>
      if printable (v + 1)
      then Some {| fver := v + 1; fid := id; fmt := t; fcom := false; fuuid := fuuid base; fsnaps := fsnaps base ++ [sid] |}
      else None
    | _ => None
    end
  | EDamage _ => None
  end.

(* outcomes after which the written file is still there *)
Definition writes (o : outcome) : Prop := o = Ok \/ o = FailCommitPoint false.

(* the random suffix did not collide: no stored file has the new file's name ... *)
Definition fresh_name (fs : list mfile) (n : mfile) : Prop := forall f, In f fs -> name_eqb (fname f) (fname n) = false.
(* ... and a damaged pointer does not happen to hold it *)
Definition unnamed (p : option (option (list cp))) (n : mfile) : Prop :=
  match read_hint p with PRet (Some (_, name)) => name_eqb (fname n) name = false | _ => True end.

(* the pointer content parses and names L *)
Definition hint_names (p : option (option (list cp))) (L : mfile) : Prop :=
  match read_hint p with PRet (Some (_, name)) => name_eqb (fname L) name = true | _ => False end.

(* every never-published file ranks below the latest published one (and there is a published one) *)
Definition leftovers_below (st : store) : Prop :=
  forall f, In f (files st) -> fcom f = false -> match glatest st with Some L => below f L | None => False end.

(* THE extra hypothesis of the leftover theorems.  A resolution with pointer content p is SAFE in st when p names the
   latest published file (recovery does not run) or no leftover can win the recovery scan.  It fails exactly when the
   pointer is unusable while a never-published file has a higher version than the latest published one, or the same
   version and an mtime that is not older (Proofs/HintLeftoverProofs.v recovery_safe_iff). *)
Definition safe_use (p : option (option (list cp))) (st : store) : Prop :=
  (exists L, glatest st = Some L /\ hint_names p L) \/ leftovers_below st.

Definition ok_event_lv (st : store) (e : event) : Prop :=
  match e with
  | ECreate id _ _ _ o =>
    wf_id id = true
    /\ (forall n, written st e = Some n ->
          (writes o -> fresh_name (files st) n) /\ (o = FailCommitPoint false -> unnamed (ptr st) n))
  | ECommit id _ _ _ o =>
    wf_id id = true
    /\ (forall n, written st e = Some n ->
          (writes o -> fresh_name (files st) n) /\ (o = FailCommitPoint false -> unnamed (ptr st) n))
    /\ (writes o -> safe_use (ptr st) st)          (* no commit is built on a never-published version *)
  | EDamage p => ascii_classified p /\ ~ stale p st
  end.

Fixpoint ok_history_lv (st : store) (h : list event) : Prop :=
  match h with
  | [] => True
  | e :: h' => ok_event_lv st e /\ ok_history_lv (step st e) h'
  end.

Definition reachable_lv (st : store) : Prop := exists h, ok_history_lv empty_store h /\ st = run empty_store h.

(* the same histories with NO restriction on what happens to the pointer, and with failed commits whose
   metadata file could not be removed: used to state what does not hold *)
Definition any_event_wf (e : event) : Prop :=
  match e with
  | ECreate id _ _ _ _ => wf_id id = true
  | ECommit id _ _ _ _ => wf_id id = true
  | EDamage p => ascii_classified p
  end.
