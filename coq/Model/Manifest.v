(* Model/Manifest.v -- the manifests of a table through a HISTORY of committed transactions, and the data files (with
   their column bounds) a scan finds afterwards.

   transaction.py / file_manager.py
     DataFile in memory (decoded bounds)                          `dfile`
     manifest entry on disk (bounds as stored tag + payload)      `sentry`
     FileManager.create_manifest_file, per entry                  `store`   (bounds: Gen/GenManifest.v, REGENERATED)
     FileManager.read_manifest_file, per entry                    `load`    (bounds: Gen/GenManifest.v, REGENERATED)
     Transaction._commit_file_ops, delete loop, one manifest      `rewrite_manifest`  (survivor test and the
                                                                  keep / rewrite / drop decision REGENERATED)
     Transaction._commit_file_ops                                 `commit_tx`: deletes first (every manifest of the base
                                                                  snapshot kept, rewritten or dropped), then ONE new manifest
                                                                  holding all appended files
     any sequence of committed transactions                       `run`
     Table._get_all_data_files                                    `table_files`: the entries of all manifests, decoded,
                                                                  the first occurrence of a path wins
   Transactions that expire snapshots only, rolled-back transactions, garbage collection and re-opening the table do not
   change the manifests of the current snapshot: they are the empty transaction / absent from the history.

   Specification, written independently on flat lists (no manifests, no codec):
     `spec_tx`    a committed transaction removes the files it deletes and adds the files it appends, bounds untouched.

   Paths are numbers here: the library compares paths after stripping leading "/" on both sides (pinned by the
   translator), and names every data file it writes with a fresh uuid.

   Definitions only. *)
From Coq Require Import String Ascii.
From Coq Require Import ZArith QArith List Bool.
Require Import DS.Model.Value DS.Model.BoundPrim DS.Gen.GenBound DS.Model.Bound DS.Model.ManifestBase DS.Gen.GenManifest.
Require Import DS.Model.FilterExpr DS.Gen.GenPrune DS.Model.Prune DS.Gen.GenFilterConst DS.Gen.GenFilter DS.Model.Filter.
Import ListNotations.
Open Scope Z_scope.

Record dfile := { dpath : Z; dfile_ : file; dlo : list (Z * value); dhi : list (Z * value) }.

Record sentry := { spath : Z; sfile : file;
                   slo : list (Z * (string * jpayload)); shi : list (Z * (string * jpayload)) }.

Definition store (d : dfile) : sentry :=
  {| spath := dpath d; sfile := dfile_ d; slo := gen_store_lower (dlo d); shi := gen_store_upper (dhi d) |}.

Definition load (e : sentry) : dfile :=
  {| dpath := spath e; dfile_ := sfile e; dlo := gen_load_lower (slo e); dhi := gen_load_upper (shi e) |}.

Definition manifest := list sentry.
Definition tstate := list manifest.              (* the manifest list of the current snapshot *)

(* the file operations of one committed transaction: all files of its append operations, all paths of its deletes *)
Record tx := { tx_app : list dfile; tx_del : list Z }.

Definition rewrite_manifest (del : list Z) (m : manifest) : list manifest :=
  let data_files := map load m in
  let surviving := filter (fun d => gen_survives del (dpath d)) data_files in
  match gen_rewrite_decision (length surviving) (length data_files) with
  | RKeep => [m]
  | RRewrite => [map store surviving]
  | RDrop => []
  end.

Definition commit_tx (st : tstate) (t : tx) : tstate :=
  (match tx_del t with
   | [] => st                                             (* final_manifests = list(existing_manifests) *)
   | _ => flat_map (rewrite_manifest (tx_del t)) st
   end)
  ++ (match tx_app t with [] => [] | a => [map store a] end).

Definition run (txs : list tx) (st : tstate) : tstate := fold_left commit_tx txs st.

Fixpoint dedup (seen : list Z) (ds : list dfile) : list dfile :=
  match ds with
  | [] => []
  | d :: r => if zmem (dpath d) seen then dedup seen r else d :: dedup (dpath d :: seen) r
  end.

Definition table_files (st : tstate) : list dfile := dedup [] (map load (concat st)).

(* the bounds prune_files_by_bounds reads for a data file *)
Definition manifest_bounds (d : dfile) : list (Z * value) * list (Z * value) := (dlo d, dhi d).

(* ------------------------------------------------------------------ specification on flat lists *)
Definition spec_tx (fs : list dfile) (t : tx) : list dfile :=
  filter (fun d => negb (zmem (dpath d) (tx_del t))) fs ++ tx_app t.

Definition spec_run (txs : list tx) (fs : list dfile) : list dfile := fold_left spec_tx txs fs.

(* a data file as the writer hands it to the transaction: exact column bounds (data_operations._compute_column_bounds, C13) *)
Definition written (ids : list (Z * Z)) (p : Z) (f : file) : dfile :=
  {| dpath := p; dfile_ := f; dlo := fst (file_bounds ids (frows f)); dhi := snd (file_bounds ids (frows f)) |}.
