(* Model/ManifestBase.v -- vocabulary shared by the regenerated manifest kernels (Gen/GenManifest.v) and Model/Manifest.v.
   Definitions only. *)

(* what Transaction._commit_file_ops does with one manifest of the base snapshot when the commit deletes files *)
Inductive rewrite_action :=
| RKeep      (* no entry is deleted: the manifest file is referenced again as it is *)
| RRewrite   (* some entries survive: a NEW manifest is written from the survivors (carried over as EXISTING entries) *)
| RDrop.     (* no entry survives: the manifest is left out of the new snapshot *)
