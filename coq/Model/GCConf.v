(* Model/GCConf.v -- the collector as a function of the process-wide configuration as well.

   GarbageCollector.collect() under configuration c is (what it does to the store, which of its logging statements may emit a
   record).  The first component is Model/GC.v's gc_run: translator/gen_gclog.py establishes on every run, over the whole module
   garbage_collector.py, that the logger is used in logging STATEMENTS only (no isEnabledFor / level / getEffectiveLevel, no
   logging call inside an expression), that every argument of such a statement is a pure observation (no call that could
   consume an iterator or run other code), and that the module reads no environment variable (GC_ENV_VARS = []) -- it fails
   closed otherwise, and this file does not compile.  The second component ranges over the regenerated table GC_LOG_SITES.
   Tied to the code by running every collection of every generated history under a drawn configuration: gc_run correspondence
   (outcome, exact deleted set, keep sets, call trace: all predicted WITHOUT the configuration) and 'logsites' (every record the
   real collection emitted comes from a statement in may_emit c).  Definitions only. *)
From Coq Require Import ZArith List String Bool.
Require Import DS.Gen.GenGCLog DS.Model.LogConf DS.Model.GC.
Import ListNotations.
Open Scope Z_scope.

Definition may_emit (c : logconf) : list (string * Z) := filter (fun s => enabled c (snd s)) GC_LOG_SITES.

(* the environment variables of GC_ENV_VARS as the collector would read them: its only configuration input beside the log levels *)
Definition gc_env_view (c : logconf) : list (option string) := map (getenv (lc_env c)) GC_ENV_VARS.

Definition gc_run_conf (c : logconf) (tp : string) (grace now timeout : Z) (o : oracle) (snaps : list string) (st : store)
  : result * list (string * Z) :=
  (gc_run tp grace now timeout o snaps st, may_emit c).
