(* Model/GCConf.v -- what the collector's source has to do with the process-wide configuration: COUNTED SOURCE FACTS only.

   Model/GC.v's gc_run does not take the configuration as an input.  That is justified by the source, not by a theorem about
   gc_run: translator/gen_gclog.py establishes on every run (a) lexically, over the whole module garbage_collector.py, that the
   logger is used in logging STATEMENTS only (no isEnabledFor / level / getEffectiveLevel, no logging call inside an expression),
   that every argument of such a statement is a pure observation, and that the module reads no environment variable -- it fails
   closed otherwise --, and (b) by a counting scan over the functions of file_manager, metadata_manager, storage_backend,
   s3_consistency, integrity and disk_utils reachable by name from the collector, the tables GC_CONF_READS / GC_ENV_READS of every
   other use of a logger / of the environment there.  Proofs/GCConfProofs.v conf_not_consulted states that these tables are empty
   (it stops compiling when the source changes); nothing is claimed about code outside that scope.
   may_emit ranges over the regenerated table GC_LOG_SITES; it is tied to the code by the 'logsites' correspondence (every record a
   real collection emitted comes from a statement in may_emit c), and every collection of every generated history runs under a drawn
   configuration while gc_run predicts outcome, exact deleted set, keep sets and call trace WITHOUT it.  Definitions only. *)
From Coq Require Import ZArith List String Bool.
Require Import DS.Gen.GenGCLog DS.Model.LogConf DS.Model.GC.
Import ListNotations.
Open Scope Z_scope.

Definition may_emit (c : logconf) : list (string * Z) := filter (fun s => enabled c (snd s)) GC_LOG_SITES.

(* the environment variables of GC_ENV_VARS as the collector would read them: its only configuration input beside the log levels *)
Definition gc_env_view (c : logconf) : list (option string) := map (getenv (lc_env c)) GC_ENV_VARS.
