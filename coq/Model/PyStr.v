(* Model/PyStr.v -- the handful of Python `str` methods used by the garbage collector's path handling,
   as total functions over Coq strings (= byte strings; a Python str is modelled by its UTF-8 bytes:
   "/" and the ASCII literals involved never occur inside a multi-byte sequence, and prefix/suffix
   relations on valid UTF-8 coincide with those on code points).
   Definitions only; lemmas live in Proofs/PyStrProofs.v.  Tied to Python by the `pystr`
   correspondence of harness/props/c05.py (differential execution on random strings). *)
From Coq Require Import String Ascii List Bool Arith.
Import ListNotations.
Open Scope string_scope.

Definition slash : ascii := "/"%char.

(* s.lstrip(c) for a one-character argument *)
Fixpoint lstrip_c (c : ascii) (s : string) : string :=
  match s with
  | EmptyString => EmptyString
  | String a r => if Ascii.eqb a c then lstrip_c c r else s
  end.

(* s.rstrip(c) *)
Fixpoint rstrip_c (c : ascii) (s : string) : string :=
  match s with
  | EmptyString => EmptyString
  | String a r =>
      match rstrip_c c r with
      | EmptyString => if Ascii.eqb a c then EmptyString else String a EmptyString
      | r' => String a r'
      end
  end.

(* s.strip(c) *)
Definition strip_c (c : ascii) (s : string) : string := lstrip_c c (rstrip_c c s).

(* s[n:] *)
Fixpoint py_drop (n : nat) (s : string) : string :=
  match n, s with
  | O, _ => s
  | S n', String _ r => py_drop n' r
  | S _, EmptyString => EmptyString
  end.

(* s[:n] *)
Fixpoint py_take (n : nat) (s : string) : string :=
  match n, s with
  | O, _ => EmptyString
  | S n', String a r => String a (py_take n' r)
  | S _, EmptyString => EmptyString
  end.

(* s[:-n]  (Python: -0 is 0, so n = 0 gives the empty string) *)
Definition py_drop_end (n : nat) (s : string) : string :=
  match n with
  | O => EmptyString
  | _ => py_take (String.length s - n) s
  end.

(* s.startswith(p) *)
Definition startswith (p s : string) : bool := String.prefix p s.

(* s.endswith(x) *)
Definition endswith (x s : string) : bool :=
  Nat.leb (String.length x) (String.length s) && String.eqb (py_drop (String.length s - String.length x) s) x.

(* truthiness of a string *)
Definition nonempty (s : string) : bool := match s with EmptyString => false | _ => true end.

Fixpoint has_char (c : ascii) (s : string) : bool :=
  match s with
  | EmptyString => false
  | String a r => Ascii.eqb a c || has_char c r
  end.

(* s.rsplit("/", 1)[-1] *)
Fixpoint basename (s : string) : string :=
  match s with
  | EmptyString => EmptyString
  | String a r => if has_char slash r then basename r else if Ascii.eqb a slash then r else s
  end.

Definition str_mem (k : string) (l : list string) : bool := existsb (String.eqb k) l.
