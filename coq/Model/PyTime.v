(* Model/PyTime.v -- the part of Python's datetime / time arithmetic that a lease-age computation can
   touch (src/datashard/lock_provider.py: `(datetime.now(timezone.utc) - LastModified).total_seconds()`),
   with the PROCESS TIME ZONE and the REPRESENTATION of a timestamp as explicit inputs.
   Definitions only.

   One time line: an *instant* is a number of milliseconds since the epoch (Z).  A datetime object is
   its wall-clock fields (year .. microsecond, flattened to milliseconds on the same line) together
   with its utcoffset, or no offset at all (a naive datetime):

       aware  d : the instant is  wall d - off
       naive  d : no instant of its own; functions that need one read the fields as LOCAL time
                  (`.timestamp()`, `time.mktime(d.timetuple())`), i.e. wall d - zone.

   `zone` = the process's local UTC offset in ms (TZ / tzset / system zone; east positive).
   Subtraction follows CPython's datetime.__sub__: aware - aware compares instants, naive - naive
   compares fields, a mixed pair raises TypeError (None here). *)
From Coq Require Import ZArith.
Open Scope Z_scope.

Record pydt := { wall : Z; uoff : option Z }.

(* the datetime that denotes instant `inst` in a zone with utcoffset `off` (what a client library hands
   back for an HTTP date / ISO timestamp carrying a zone) *)
Definition dt_aware (inst off : Z) : pydt := {| wall := inst + off; uoff := Some off |}.

(* a datetime without tzinfo whose fields are `w` *)
Definition dt_naive (w : Z) : pydt := {| wall := w; uoff := None |}.

(* how a store's client renders the instant of LastModified: Some off = aware, at that offset;
   None = naive, fields in UTC (a gateway whose date header lacks the zone) *)
Definition dt_render (rep : option Z) (inst : Z) : pydt :=
  match rep with Some off => dt_aware inst off | None => dt_naive inst end.

(* datetime.now(tz): tz = Some off -> aware in that zone; tz = None -> naive LOCAL fields *)
Definition dt_now (zone : Z) (tz : option Z) (now : Z) : pydt :=
  match tz with Some off => dt_aware now off | None => dt_naive (now + zone) end.

(* datetime.utcnow(): naive, UTC fields *)
Definition dt_utcnow (now : Z) : pydt := dt_naive now.

(* the instant an aware datetime denotes *)
Definition dt_instant (d : pydt) : option Z :=
  match uoff d with Some off => Some (wall d - off) | None => None end.

(* a - b  (a timedelta, in ms);  None = TypeError: can't subtract offset-naive and offset-aware *)
Definition dt_sub (a b : pydt) : option Z :=
  match uoff a, uoff b with
  | Some ka, Some kb => Some ((wall a - ka) - (wall b - kb))
  | None, None => Some (wall a - wall b)
  | _, _ => None
  end.

(* d.timestamp(): the instant of an aware datetime; a naive one is read as local time *)
Definition dt_timestamp (zone : Z) (d : pydt) : Z :=
  match uoff d with Some off => wall d - off | None => wall d - zone end.

(* time.mktime(d.timetuple()): timetuple() drops the offset, mktime reads the fields as LOCAL time *)
Definition dt_mktime_fields (zone : Z) (d : pydt) : Z := wall d - zone.

(* calendar.timegm(d.utctimetuple()): aware -> fields moved to UTC first; naive -> fields as they are *)
Definition dt_timegm_utcfields (d : pydt) : Z :=
  match uoff d with Some off => wall d - off | None => wall d end.

(* d.replace(tzinfo=tz) *)
Definition dt_replace_tz (d : pydt) (tz : option Z) : pydt := {| wall := wall d; uoff := tz |}.

(* option plumbing used by the generated kernels *)
Definition obind {A B} (x : option A) (f : A -> option B) : option B :=
  match x with Some a => f a | None => None end.
