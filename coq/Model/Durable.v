(* Model/Durable.v -- power-loss file-system model and the library's publish sequences (property C16).

   Anchors: storage_backend.py LocalStorageBackend.write_file (mkstemp, write, fsync, close, replace,
   directory fsync); data_operations.py DataFileWriter.open/close (NamedTemporaryFile, ParquetWriter,
   fsync, replace, directory fsync); metadata_manager.py commit (metadata file, then pointer);
   transaction.py append_data (marker, then data file), _commit_file_ops (marker+manifest ...,
   marker+manifest list), _finish_committed (markers unlinked).

   Definitions only (no proofs).  Three layers:

   1. the file system: paths, inodes, a volatile tree (what running processes see) and a durable
      tree (what survives power loss); OS calls act on the volatile tree, Fsync / FsyncDir are the
      barriers, and BACKGROUND events may persist any single inode's content (up to any length,
      never shrinking) or any single directory entry at any time.  A schedule interleaves the calls
      of a trace with arbitrary background events, so "power loss" is a relation: every durable
      tree some schedule can produce (drop-all = no background event; "rename persisted early" =
      a PEntry right after the Rename);
   2. the publish discipline, as an executable checker over ANY call trace with a ghost state
      (which temp holds what, which final names are linked / durably linked / referenced);
   3. the library's programs: publish_meta, publish_data (their call sequences are REGENERATED from
      the source: Gen/GenDurable.v), and a commit as their concatenation in
      the code's order; an operation history is a list of commits and rolled-back transactions.

   Path classes are syntactic: `T d n` is a temporary name (mkstemp / NamedTemporaryFile) destined
   for the final name `P d n` in directory d.  `PTR` is the version pointer. *)
From Coq Require Import NArith List Bool Arith.
Require Export DS.Model.DurableBase DS.Gen.GenDurable.
Import ListNotations.
Open Scope N_scope.

(* ------------------------------------------------------------------------------------------ *)
(* 2. the file system                                                                          *)

Definition inode := N.
Record tree := mkTree { entry : path -> option inode; data : inode -> content }.
Record fs := mkFs { vol : tree; dur : tree; next : inode }.

Definition upd_e (f : path -> option inode) (p : path) (v : option inode) : path -> option inode :=
  fun x => if path_eqb x p then v else f x.
Definition upd_d (f : inode -> content) (i : inode) (c : content) : inode -> content :=
  fun j => if j =? i then c else f j.

Definition empty_tree : tree := mkTree (fun _ => None) (fun _ => []).
Definition fs0 : fs := mkFs empty_tree empty_tree 0.

(* One OS call.  None = the call fails with an OS error (EEXIST / ENOENT); nothing is silently
   defaulted.  Calls change the volatile tree only, except the two barriers. *)
Definition step (s : fs) (c : call) : option fs :=
  match c with
  | Create p =>
      match entry (vol s) p with
      | Some _ => None
      | None => Some (mkFs (mkTree (upd_e (entry (vol s)) p (Some (next s))) (upd_d (data (vol s)) (next s) []))
                           (mkTree (entry (dur s)) (upd_d (data (dur s)) (next s) []))
                           (N.succ (next s)))
      end
  | Write p b =>
      match entry (vol s) p with
      | Some i => Some (mkFs (mkTree (entry (vol s)) (upd_d (data (vol s)) i (data (vol s) i ++ b))) (dur s) (next s))
      | None => None
      end
  | Fsync p =>
      match entry (vol s) p with
      | Some i => Some (mkFs (vol s) (mkTree (entry (dur s)) (upd_d (data (dur s)) i (data (vol s) i))) (next s))
      | None => None
      end
  | Rename p q =>
      match entry (vol s) p with
      | Some i => Some (mkFs (mkTree (upd_e (upd_e (entry (vol s)) p None) q (Some i)) (data (vol s))) (dur s) (next s))
      | None => None
      end
  | FsyncDir d =>
      Some (mkFs (vol s)
                 (mkTree (fun x => if dir_of x =? d then entry (vol s) x else entry (dur s) x) (data (dur s)))
                 (next s))
  | Unlink p =>
      match entry (vol s) p with
      | Some _ => Some (mkFs (mkTree (upd_e (entry (vol s)) p None) (data (vol s))) (dur s) (next s))
      | None => None
      end
  | Mkdir _ => Some s
  end.

(* Background persistence (page-cache writeback, journal commit): at any moment the durable content
   of any one inode may advance to any longer prefix of its volatile content, and any one directory
   entry may take its volatile value.  Guards that fail make the event a no-op, so every event list
   is a schedule. *)
Inductive bg := PData (i : inode) (k : nat) | PEntry (p : path).

Definition bg_step (s : fs) (b : bg) : fs :=
  match b with
  | PData i k =>
      if (length (data (dur s) i) <=? k)%nat
      then mkFs (vol s) (mkTree (entry (dur s)) (upd_d (data (dur s)) i (firstn k (data (vol s) i)))) (next s)
      else s
  | PEntry p => mkFs (vol s) (mkTree (upd_e (entry (dur s)) p (entry (vol s) p)) (data (dur s))) (next s)
  end.

Inductive event := Call (c : call) | Bg (b : bg).

Fixpoint run (s : fs) (es : list event) : option fs :=
  match es with
  | [] => Some s
  | Call c :: es' => match step s c with Some s' => run s' es' | None => None end
  | Bg b :: es' => run (bg_step s b) es'
  end.

Fixpoint calls_of (es : list event) : list call :=
  match es with
  | [] => []
  | Call c :: es' => c :: calls_of es'
  | Bg _ :: es' => calls_of es'
  end.

(* the drop-all schedule *)
Definition exec (s : fs) (tr : list call) : option fs := run s (map Call tr).

(* what is on disk after the power comes back *)
Definition power_loss (s : fs) : tree := dur s.

(* t is a possible outcome of losing power right after the calls tr were issued from state s *)
Definition crash_outcome (s : fs) (tr : list call) (t : tree) : Prop :=
  exists es s', calls_of es = tr /\ run s es = Some s' /\ t = power_loss s'.

Definition content_at (t : tree) (p : path) : option content :=
  match entry t p with Some i => Some (data t i) | None => None end.

(* the version the pointer names: its content must hold exactly one reference *)
Definition pointer (t : tree) : option path :=
  match content_at t PTR with
  | Some c => match refs c with [v] => Some v | _ => None end
  | None => None
  end.

(* ------------------------------------------------------------------------------------------ *)
(* 3. the publish discipline: executable checker over arbitrary traces                          *)

Inductive pstate :=
| Fresh                               (* never used *)
| Linked (c : content) (b : bool)     (* visible under this name with content c; b: entry made durable *)
| Dead.                               (* unlinked; the name is never reused *)

Record ghost := mkGhost {
  tmps : path -> option (content * bool);   (* open temps: content written so far, fsynced since last write *)
  st : path -> pstate;                      (* final names *)
  refd : path -> bool }.                    (* final names some published content refers to *)

Definition g0 : ghost := mkGhost (fun _ => None) (fun _ => Fresh) (fun _ => false).

Definition upd_t (f : path -> option (content * bool)) (p : path) (v : option (content * bool)) :=
  fun x => if path_eqb x p then v else f x.
Definition upd_s (f : path -> pstate) (p : path) (v : pstate) := fun x => if path_eqb x p then v else f x.

(* every reference goes to a final name, other than the pointer, whose file and directory entry are
   already durable *)
Definition ref_ok (g : ghost) (r : path) : bool :=
  is_final r && negb (path_eqb r PTR) && match st g r with Linked _ true => true | _ => false end.

Definition check (g : ghost) (c : call) : option ghost :=
  match c with
  | Create (T d n) =>
      match tmps g (T d n) with
      | None => Some (mkGhost (upd_t (tmps g) (T d n) (Some ([], true))) (st g) (refd g))
      | Some _ => None
      end
  | Create (P _ _) => None                       (* a final name is never written in place *)
  | Write (T d n) b =>
      match tmps g (T d n) with
      | Some (c0, _) => Some (mkGhost (upd_t (tmps g) (T d n) (Some (c0 ++ b, false))) (st g) (refd g))
      | None => None
      end
  | Write (P _ _) _ => None
  | Fsync (T d n) =>
      match tmps g (T d n) with
      | Some (c0, _) => Some (mkGhost (upd_t (tmps g) (T d n) (Some (c0, true))) (st g) (refd g))
      | None => None
      end
  | Fsync (P _ _) => None
  | Rename (T d n) (P d' n') =>
      match tmps g (T d n) with
      | Some (c0, true) =>                       (* content flushed before the name appears *)
          if forallb (ref_ok g) (refs c0)
             && match st g (P d' n') with
                | Fresh => true
                | Linked _ _ => path_eqb (P d' n') PTR     (* only the pointer is ever replaced *)
                | Dead => false
                end
          then Some (mkGhost (upd_t (tmps g) (T d n) None)
                             (upd_s (st g) (P d' n') (Linked c0 false))
                             (fun x => refd g x || existsb (path_eqb x) (refs c0)))
          else None
      | _ => None
      end
  | Rename _ _ => None
  | FsyncDir d =>
      Some (mkGhost (tmps g)
                    (fun x => if dir_of x =? d
                              then match st g x with Linked c0 _ => Linked c0 true | o => o end
                              else st g x)
                    (refd g))
  | Unlink (P d n) =>
      if negb (path_eqb (P d n) PTR) && negb (refd g (P d n))
         && match st g (P d n) with Linked _ _ => true | _ => false end
      then Some (mkGhost (tmps g) (upd_s (st g) (P d n) Dead) (refd g))
      else None
  | Unlink (T d n) =>
      match tmps g (T d n) with
      | Some _ => Some (mkGhost (upd_t (tmps g) (T d n) None) (st g) (refd g))
      | None => None
      end
  | Mkdir _ => Some g
  end.

Fixpoint checks (g : ghost) (tr : list call) : option ghost :=
  match tr with
  | [] => Some g
  | c :: tr' => match check g c with Some g' => checks g' tr' | None => None end
  end.

Definition disciplined (tr : list call) : bool :=
  match checks g0 tr with Some _ => true | None => false end.

(* index of the first call that breaks the discipline (for the harness's search) *)
Fixpoint first_bad (g : ghost) (tr : list call) (k : nat) : option nat :=
  match tr with
  | [] => None
  | c :: tr' => match check g c with Some g' => first_bad g' tr' (S k) | None => Some k end
  end.

(* ------------------------------------------------------------------------------------------ *)
(* 4. the library's programs                                                                    *)

(* LocalStorageBackend.write_file: mkstemp; os.write; os.fsync; os.close; os.replace;
   os.open(dir); os.fsync(dir_fd).  Used for markers, manifests, manifest lists, metadata files
   and the pointer.  The call sequence is GenDurable.gen_write_file, regenerated from the source on
   every run (today: [Create tmp; Write tmp c; Fsync tmp; Rename tmp p; FsyncDir (dir_of p)]). *)
Definition publish_meta (p : path) (c : content) : list call := gen_write_file (tmp_of p) p c.

(* DataFileWriter.open/close: NamedTemporaryFile(delete=False); ParquetWriter writes and closes;
   os.open(temp) + os.fsync; os.replace; os.open(dir) + os.fsync.  GenDurable.gen_data_writer. *)
Definition publish_data (p : path) (c : content) : list call := gen_data_writer (tmp_of p) p c.

Record pubfile := mkPub { pf_path : path; pf_content : content }.

(* a file written under GC protection: the marker is published first (transaction.py
   _register_inflight), then the file *)
Record item := mkItem { it_marker : pubfile; it_file : pubfile }.

(* One committing operation.  create_table / expire_snapshots / delete_snapshot have no items;
   append has one data file per append_data call, one manifest, one list; delete_files has the
   rewritten manifests and a list. *)
Record commit := mkCommit {
  c_data : list item;          (* Transaction.append_data: marker, data file (before commit()) *)
  c_manifests : list item;     (* _commit_file_ops: marker, manifest (rewritten ones, then the new one) *)
  c_list : list item;          (* marker, manifest list (at most one) *)
  c_meta : pubfile;            (* MetadataManager.commit: the new metadata file ... *)
  c_ptr : content }.           (* ... then the pointer *)

Definition items (c : commit) : list item := c_data c ++ c_manifests c ++ c_list c.

Definition pub_item (is_data : bool) (it : item) : list call :=
  publish_meta (pf_path (it_marker it)) (pf_content (it_marker it))
  ++ (if is_data then publish_data else publish_meta) (pf_path (it_file it)) (pf_content (it_file it)).

Definition commit_body (c : commit) : list call :=
  flat_map (pub_item true) (c_data c)
  ++ flat_map (pub_item false) (c_manifests c)
  ++ flat_map (pub_item false) (c_list c)
  ++ publish_meta (pf_path (c_meta c)) (pf_content (c_meta c))
  ++ publish_meta PTR (c_ptr c).

(* Transaction._finish_committed: markers removed in registration order, after the pointer *)
Definition commit_cleanup (c : commit) : list call :=
  map (fun it => Unlink (pf_path (it_marker it))) (items c).

Definition trace_of_commit (c : commit) : list call := commit_body c ++ commit_cleanup c.

(* A transaction that wrote data files and was then rolled back (Transaction._rollback: the written
   data files are deleted, then their markers); nothing else was written and the pointer is untouched. *)
Definition abort_trace (its : list item) : list call :=
  flat_map (pub_item true) its
  ++ map (fun it => Unlink (pf_path (it_file it))) its
  ++ map (fun it => Unlink (pf_path (it_marker it))) its.

(* A publish sequence whose k-th call (k = 0 .. 4: temp creation, write, fsync -- or the descriptor
   opened for it --, rename, DIRECTORY fsync -- or the descriptor opened for it) FAILS with an OS error:
   the calls before it were issued, the failing call has no effect, the routine's cleanup handler runs
   and the error is re-raised.  Which failures reach the caller (gen_*_fallible: all five -- a failed
   directory fsync is NOT swallowed) and what the handler does (gen_*_on_error: `if
   os.path.exists(temp): os.remove(temp)`) are read off the source by translator/gen_durable.py; the
   handler's guard is the model's `tmp_live`: the temp name exists from its Create to its Rename, so a
   failing directory fsync (k = 4) leaves the file LINKED under its final name, its rename not
   persisted, and nothing is unlinked. *)
Fixpoint tmp_live (tr : list call) (tmp : path) (b : bool) : bool :=
  match tr with
  | [] => b
  | Create p :: tr' => tmp_live tr' tmp (if path_eqb p tmp then true else b)
  | Rename p _ :: tr' => tmp_live tr' tmp (if path_eqb p tmp then false else b)
  | Unlink p :: tr' => tmp_live tr' tmp (if path_eqb p tmp then false else b)
  | _ :: tr' => tmp_live tr' tmp b
  end.

Definition failed_of (prog on_error : list call) (tmp : path) (k : nat) : list call :=
  firstn k prog ++ (if tmp_live (firstn k prog) tmp false then on_error else []).

(* A transaction whose append_data FAILED that way, after `its` had been written: either the marker's
   publish failed (fl = None), or the marker mk was published and the data file's publish failed
   (fl = Some f).  append_data raises, the transaction is rolled back (Transaction.__exit__ ->
   _rollback: written data files, then registered markers), nothing is committed.  With k = 4 the
   file whose directory fsync failed stays behind under its final name (append_data raised before
   recording it in _written_files / _inflight_markers): an orphan no version ever references. *)
Definition fail_trace (its : list item) (mk : pubfile) (fl : option pubfile) (k : nat) : list call :=
  flat_map (pub_item true) its
  ++ match fl with
     | None => failed_of (publish_meta (pf_path mk) (pf_content mk)) (gen_write_file_on_error (tmp_of (pf_path mk)))
                         (tmp_of (pf_path mk)) k
     | Some f => publish_meta (pf_path mk) (pf_content mk)
                 ++ failed_of (publish_data (pf_path f) (pf_content f)) (gen_data_writer_on_error (tmp_of (pf_path f)))
                              (tmp_of (pf_path f)) k
     end
  ++ map (fun it => Unlink (pf_path (it_file it))) its
  ++ map (fun it => Unlink (pf_path (it_marker it))) its
  ++ match fl with None => [] | Some _ => [Unlink (pf_path mk)] end.

Inductive op :=
| OCommit (c : commit)
| OAbort (its : list item)
| OFail (its : list item) (mk : pubfile) (fl : option pubfile) (k : nat).

Definition trace_of_op (o : op) : list call :=
  match o with
  | OCommit c => trace_of_commit c
  | OAbort its => abort_trace its
  | OFail its mk fl k => fail_trace its mk fl k
  end.

Definition trace_of (ops : list op) : list call := flat_map trace_of_op ops.

(* files a commit leaves behind (markers excluded), and every final name it uses *)
Definition files_of_commit (c : commit) : list pubfile := map it_file (items c) ++ [c_meta c].
Definition names_of_commit (c : commit) : list path :=
  map (fun it => pf_path (it_marker it)) (items c) ++ map pf_path (files_of_commit c).
Definition names_of_abort (its : list item) : list path :=
  map (fun it => pf_path (it_marker it)) its ++ map (fun it => pf_path (it_file it)) its.

Definition names_of_fail (its : list item) (mk : pubfile) (fl : option pubfile) : list path :=
  names_of_abort its ++ pf_path mk :: match fl with None => [] | Some f => [pf_path f] end.

Definition files_of_op (o : op) : list pubfile := match o with OCommit c => files_of_commit c | _ => [] end.
Definition names_of_op (o : op) : list path :=
  match o with
  | OCommit c => names_of_commit c
  | OAbort its => names_of_abort its
  | OFail its mk fl _ => names_of_fail its mk fl
  end.
Definition files_of (ops : list op) : list pubfile := flat_map files_of_op ops.

Fixpoint lookup_pub (k : path) (l : list pubfile) : option content :=
  match l with
  | [] => None
  | f :: l' => if path_eqb k (pf_path f) then Some (pf_content f) else lookup_pub k l'
  end.

(* the content the history intends file k to have *)
Definition intended (ops : list op) (k : path) : option content := lookup_pub k (files_of ops).

(* k' is referenced by the intended content of k *)
Definition refers (ops : list op) (k k' : path) : Prop :=
  exists c, intended ops k = Some c /\ In k' (refs c).

Inductive reachable_from (ops : list op) : path -> path -> Prop :=
| reach_self : forall v, reachable_from ops v v
| reach_step : forall v k k', reachable_from ops v k -> refers ops k k' -> reachable_from ops v k'.

(* Well-formed histories -- what the library's naming and the table format guarantee:
   names are final names other than the pointer, never reused (uuid / timestamp names);
   a file refers only to files published before it (by an earlier commit, or earlier in this one),
   never to a marker; the pointer's content refers to exactly the commit's metadata file. *)
Definition name_ok (p : path) : bool := is_final p && negb (path_eqb p PTR).

Definition mem (p : path) (l : list path) : bool := existsb (path_eqb p) l.

(* walk the files of a commit in publication order; `avail` = files already published *)
Fixpoint wf_pubs (avail : list path) (l : list pubfile) : bool :=
  match l with
  | [] => true
  | f :: l' => forallb (fun r => mem r avail) (refs (pf_content f)) && wf_pubs (pf_path f :: avail) l'
  end.

Fixpoint nodup_b (l : list path) : bool :=
  match l with
  | [] => true
  | x :: l' => negb (mem x l') && nodup_b l'
  end.

Definition wf_commit (used avail : list path) (c : commit) : bool :=
  forallb name_ok (names_of_commit c)
  && nodup_b (names_of_commit c)
  && forallb (fun p => negb (mem p used)) (names_of_commit c)
  && forallb (fun it => match refs (pf_content (it_marker it)) with [] => true | _ => false end) (items c)
  && wf_pubs avail (files_of_commit c)
  && match refs (c_ptr c) with [v] => path_eqb v (pf_path (c_meta c)) | _ => false end.

Definition no_refs (f : pubfile) : bool := match refs (pf_content f) with [] => true | _ => false end.

Definition wf_abort (used : list path) (its : list item) : bool :=
  forallb name_ok (names_of_abort its)
  && nodup_b (names_of_abort its)
  && forallb (fun p => negb (mem p used)) (names_of_abort its)
  && forallb (fun it => no_refs (it_marker it) && no_refs (it_file it)) its.

Definition wf_fail (used : list path) (its : list item) (mk : pubfile) (fl : option pubfile) (k : nat) : bool :=
  forallb name_ok (names_of_fail its mk fl)
  && nodup_b (names_of_fail its mk fl)
  && forallb (fun p => negb (mem p used)) (names_of_fail its mk fl)
  && forallb (fun it => no_refs (it_marker it) && no_refs (it_file it)) its
  && no_refs mk && match fl with None => true | Some f => no_refs f end
  && (k <? match fl with None => gen_write_file_fallible | Some _ => gen_data_writer_fallible end)%nat.

Definition wf_op (used avail : list path) (o : op) : bool :=
  match o with
  | OCommit c => wf_commit used avail c
  | OAbort its => wf_abort used its
  | OFail its mk fl k => wf_fail used its mk fl k
  end.

Fixpoint wf_from (used avail : list path) (ops : list op) : bool :=
  match ops with
  | [] => true
  | o :: ops' =>
      wf_op used avail o
      && wf_from (names_of_op o ++ used) (map pf_path (files_of_op o) ++ avail) ops'
  end.

Definition wf (ops : list op) : bool := wf_from [] [] ops.

(* ------------------------------------------------------------------------------------------ *)
(* 5. the safety statement on states (no ghost)                                                 *)

(* reachability computed on a tree itself: follow the references found in the files' contents *)
Inductive tree_reach (t : tree) : path -> path -> Prop :=
| tr_self : forall k, tree_reach t k k
| tr_step : forall v k k' c, tree_reach t v k -> content_at t k = Some c -> In k' (refs c) -> tree_reach t v k'.

(* After power loss in state s: if a pointer survives, its inode is fully flushed (it is some whole
   version of the pointer, never a partial one), and every file reachable from it through the
   surviving files' own contents survives too, with exactly the content running processes saw
   under that name (so: not missing, not empty, not partial). *)
Definition safe_state (s : fs) : Prop :=
  forall i, entry (dur s) PTR = Some i ->
    data (dur s) i = data (vol s) i
    /\ forall r, In r (refs (data (dur s) i)) -> forall k, tree_reach (power_loss s) r k ->
         exists c, content_at (power_loss s) k = Some c /\ content_at (vol s) k = Some c.
