(* Model/Reader.v -- readers interleaved with writers (C02).
   A read API resolves the pointer ONCE (transaction.py Table._get_all_data_files -> current_snapshot ->
   refresh) and then reads the manifest list, the manifests and the data files that version names; all
   of them are write-once files.  Readers are added on top of Model/Fault.v: writers may commit, fail,
   be interrupted, crash and roll back in any interleaving with the readers' steps.
   Definitions only; proofs in Proofs/ReaderProofs.v. *)
From Coq Require Import ZArith List Bool Arith.
Require Import DS.Model.Commit DS.Model.Fault.
Import ListNotations.

Definition rid := nat.

Record rstate := {
  r_start : option nat;     (* number of pointer flips that had happened when the read call started *)
  r_idx : option nat;       (* ... when it resolved the pointer *)
  r_vid : option vid;       (* the version it resolved *)
  r_ok : bool;              (* every file read so far found its file *)
  r_nread : nat;
  r_end : option nat }.     (* ... when the call returned *)

Record rworld := { rx : fworld; r_readers : rid -> rstate }.

Inductive revent :=
| RSys (e : fevent)         (* any writer-side event *)
| RStart (r : rid)
| RPtr (r : rid)            (* resolve the pointer: one atomic read (pointer, then its write-once metadata file) *)
| RFile (r : rid) (f : fid) (* read one file named by the resolved version *)
| REnd (r : rid).

Definition updr (r : rid) (s : rstate) (g : rid -> rstate) : rid -> rstate :=
  fun q => if Nat.eqb q r then s else g q.

Definition r0 : rstate := {| r_start := None; r_idx := None; r_vid := None; r_ok := true; r_nread := 0; r_end := None |}.

Definition rstep (c : cfg) (z : rworld) (e : revent) : option rworld :=
  match e with
  | RSys fe => match fstep c (rx z) fe with Some x' => Some {| rx := x'; r_readers := r_readers z |} | None => None end
  | RStart r =>
    let s := r_readers z r in
    match r_start s with
    | None => Some {| rx := rx z; r_readers := updr r {| r_start := Some (length (w_hist (fw (rx z)))); r_idx := None; r_vid := None;
                                                          r_ok := true; r_nread := 0; r_end := None |} (r_readers z) |}
    | Some _ => None
    end
  | RPtr r =>
    let s := r_readers z r in
    match r_start s, r_vid s with
    | Some _, None => Some {| rx := rx z; r_readers := updr r {| r_start := r_start s; r_idx := Some (length (w_hist (fw (rx z))));
                                                                 r_vid := Some (w_ptr (fw (rx z))); r_ok := r_ok s; r_nread := r_nread s;
                                                                 r_end := None |} (r_readers z) |}
    | _, _ => None
    end
  | RFile r f =>
    let s := r_readers z r in
    match r_vid s, r_end s with
    | Some v, None =>
      if existsb (Nat.eqb f) (refs (rx z) v) then
        Some {| rx := rx z; r_readers := updr r {| r_start := r_start s; r_idx := r_idx s; r_vid := r_vid s;
                                                   r_ok := r_ok s && existsb (Nat.eqb f) (f_present (rx z));
                                                   r_nread := S (r_nread s); r_end := None |} (r_readers z) |}
      else None
    | _, _ => None
    end
  | REnd r =>
    let s := r_readers z r in
    match r_vid s, r_end s with
    | Some _, None => Some {| rx := rx z; r_readers := updr r {| r_start := r_start s; r_idx := r_idx s; r_vid := r_vid s; r_ok := r_ok s;
                                                                 r_nread := r_nread s; r_end := Some (length (w_hist (fw (rx z)))) |} (r_readers z) |}
    | _, _ => None
    end
  end.

Definition rstep_skip c z e := match rstep c z e with Some z' => z' | None => z end.
Definition rrun (c : cfg) (z : rworld) (evs : list revent) : rworld := fold_left (rstep_skip c) evs z.
Definition rinit (x : fworld) : rworld := {| rx := x; r_readers := fun _ => r0 |}.

(* the version the pointer named after the first i flips *)
Definition version_at (h : list (vid * aid)) (i : nat) : vid := last (map fst (firstn i h)) 0%nat.
