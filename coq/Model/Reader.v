(* Model/Reader.v -- readers interleaved with writers (C02).
   A read call (scan, to_pandas, scan_batches, iter_records, iter_pandas, row_count) resolves the pointer
   (MetadataManager.refresh: pointer, then the write-once metadata file it names), takes the file list of that
   version (manifest list, manifests, data files: all write-once files) and reads those files one by one.
   How many times the code resolves the pointer within one call is NOT assumed: it is the parameter [budget],
   which Props/C02.v instantiates with the number counted on the source (Gen/GenReadRes.v,
   [read_api_resolutions], through Proofs/ReadResProofs.v).  A second resolution replaces the version and the
   list of files still to be read and keeps what was already read -- with budget 2 a call can return a mixture
   of two versions (Proofs/ReaderProofs.v, [snapshot_read_refuted_for_two_resolutions]); with the budget the
   repaired code has (1) it cannot.
   Readers are added on top of Model/Fault.v: writers may commit, fail, be interrupted, crash and roll back in
   any interleaving with the readers' steps.  Files are identified by their names; names are fresh and files
   write-once (Model/Fault.v), so the CONTENT of a file is a function of its name: the rows a call returns are
   [result_rows content s] for an arbitrary [content].
   Definitions only; proofs in Proofs/ReaderProofs.v. *)
From Coq Require Import ZArith List Bool Arith.
Require Import DS.Model.Commit DS.Model.Fault.
Import ListNotations.

Definition rid := nat.

Record rstate := {
  r_start : option nat;     (* number of pointer flips that had happened when the read call started *)
  r_nres : nat;             (* pointer resolutions made so far in this call *)
  r_idx : option nat;       (* number of pointer flips that had happened at the (latest) resolution *)
  r_vid : option vid;       (* the version it resolved *)
  r_todo : list fid;        (* files of that version still to be read, in order *)
  r_got : list fid;         (* files read successfully so far, in order *)
  r_ok : bool;              (* every file read so far found its file (false: the call raises) *)
  r_end : option nat }.     (* number of pointer flips that had happened when the call returned *)

Record rworld := { rx : fworld; r_readers : rid -> rstate }.

Inductive revent :=
| RSys (e : fevent)         (* any writer-side event *)
| RStart (r : rid)
| RPtr (r : rid)            (* resolve the pointer: one atomic read (pointer, then its write-once metadata file) *)
| RFile (r : rid)           (* read the next file named by the resolved version *)
| REnd (r : rid).           (* every file has been read: the call returns *)

Definition updr (r : rid) (s : rstate) (g : rid -> rstate) : rid -> rstate :=
  fun q => if Nat.eqb q r then s else g q.

Definition r0 : rstate :=
  {| r_start := None; r_nres := 0; r_idx := None; r_vid := None; r_todo := []; r_got := []; r_ok := true; r_end := None |}.

Definition nflips (z : rworld) : nat := length (w_hist (fw (rx z))).

Definition rstep (c : cfg) (budget : nat) (z : rworld) (e : revent) : option rworld :=
  match e with
  | RSys fe => match fstep c (rx z) fe with Some x' => Some {| rx := x'; r_readers := r_readers z |} | None => None end
  | RStart r =>
    let s := r_readers z r in
    match r_start s with
    | None => Some {| rx := rx z;
                      r_readers := updr r {| r_start := Some (nflips z); r_nres := 0; r_idx := None; r_vid := None; r_todo := [];
                                             r_got := []; r_ok := true; r_end := None |} (r_readers z) |}
    | Some _ => None
    end
  | RPtr r =>
    let s := r_readers z r in
    match r_start s, r_end s with
    | Some _, None =>
      if Nat.ltb (r_nres s) budget then
        Some {| rx := rx z;
                r_readers := updr r {| r_start := r_start s; r_nres := S (r_nres s); r_idx := Some (nflips z);
                                       r_vid := Some (w_ptr (fw (rx z))); r_todo := refs (rx z) (w_ptr (fw (rx z)));
                                       r_got := r_got s; r_ok := r_ok s; r_end := None |} (r_readers z) |}
      else None
    | _, _ => None
    end
  | RFile r =>
    let s := r_readers z r in
    match r_vid s, r_end s, r_todo s with
    | Some _, None, f :: tl =>
      let here := existsb (Nat.eqb f) (f_present (rx z)) in
      Some {| rx := rx z;
              r_readers := updr r {| r_start := r_start s; r_nres := r_nres s; r_idx := r_idx s; r_vid := r_vid s; r_todo := tl;
                                     r_got := if here then r_got s ++ [f] else r_got s; r_ok := r_ok s && here;
                                     r_end := None |} (r_readers z) |}
    | _, _, _ => None
    end
  | REnd r =>
    let s := r_readers z r in
    match r_vid s, r_end s, r_todo s with
    | Some _, None, [] =>
      Some {| rx := rx z;
              r_readers := updr r {| r_start := r_start s; r_nres := r_nres s; r_idx := r_idx s; r_vid := r_vid s; r_todo := [];
                                     r_got := r_got s; r_ok := r_ok s; r_end := Some (nflips z) |} (r_readers z) |}
    | _, _, _ => None
    end
  end.

Definition rstep_skip c budget z e := match rstep c budget z e with Some z' => z' | None => z end.
Definition rrun (c : cfg) (budget : nat) (z : rworld) (evs : list revent) : rworld := fold_left (rstep_skip c budget) evs z.
Definition rinit (x : fworld) : rworld := {| rx := x; r_readers := fun _ => r0 |}.

(* the version the pointer named after the first i flips *)
Definition version_at (h : list (vid * aid)) (i : nat) : vid := last (map fst (firstn i h)) 0%nat.

(* the rows a call hands out / the rows of a version, for any assignment of (immutable) contents to file names *)
Definition result_rows {row : Type} (content : fid -> list row) (s : rstate) : list row := flat_map content (r_got s).
Definition snapshot_rows {row : Type} (content : fid -> list row) (x : fworld) (v : vid) : list row := flat_map content (refs x v).
