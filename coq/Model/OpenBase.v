(* Model/OpenBase.v -- vocabulary shared by the translator-regenerated skeleton of the ways a Table handle is
   OBTAINED (Gen/GenOpen.v, read off iceberg.create_table / iceberg.load_table / Table.__init__) and the
   hand-written handle-provenance layer of the append machine (Model/SchemaOpen.v).  Definitions only.

   A handle carries per-handle state that outlives the call that made it: the DataFileManager's Arrow-schema
   cache (keyed by schema_id only).  What matters of "how the handle was obtained" is therefore which schemas
   the opening code derives an Arrow layout for, and where those schemas come from. *)
From Coq Require Import List.
Import ListNotations.

(* where a schema handed to create_arrow_schema during the opening comes from *)
Inductive osrc :=
| SrcArg             (* the caller's schema= argument: NOT validated against the table *)
| SrcPersisted.      (* the table's persisted current schema (Table._get_current_schema()) *)

(* what the opening code does, in program order *)
Inductive oaction :=
| OARefresh          (* metadata_manager.refresh(): reads pointer + metadata, changes nothing *)
| OAInitIfAbsent     (* Table.__init__: `if create_if_not_exists and refresh() is None: _initialize_table(...)`;
                        on a table that exists -- the only case the append machine models -- it does nothing *)
| OAReadSchema       (* table._get_current_schema(): read only *)
| OADerive (s : osrc)   (* <the handle's DataFileManager>.create_arrow_schema(<schema from s>): fills the cache *)
| OAWhenArg (a : oaction)   (* the action sits under `if schema is not None` *)
| OAMaybe (a : oaction).    (* the action sits under any other `if` / in an except-arm *)
