(* Model/BoundPrim.v -- primitives for the bound codec (file_manager._encode_bound / _decode_bound):
   Python isinstance tests on values, the JSON payload domain, and the conversions the decoder calls.
   Definitions only. *)
From Coq Require Import ZArith QArith List Bool String.
Require Import DS.Model.Value.
Import ListNotations.
Open Scope Z_scope.

(* what travels in the "v" slot of the JSON object.  JIso* stand for the isoformat() text of that
   temporal value (a JSON string in reality); JStrOf v for str(v) of a non-string; JOther for a value
   json.dumps cannot serialise (the commit would fail). *)
Inductive jpayload :=
| JBool (b : bool) | JInt (z : Z) | JFlt (f : num) | JStr (s : list Z)
| JIsoTs (us : Z) | JIsoDate (d : Z) | JIsoTime (us : Z) | JStrOf (v : value) | JOther.

(* isinstance(value, T): bool is a subclass of int, datetime a subclass of date *)
Definition inst_bool (v : value) : bool := match v with VBool _ => true | _ => false end.
Definition inst_int (v : value) : bool := match v with VBool _ | VInt _ => true | _ => false end.
Definition inst_float (v : value) : bool := match v with VFlt _ => true | _ => false end.
Definition inst_datetime (v : value) : bool := match v with VTs _ => true | _ => false end.
Definition inst_date (v : value) : bool := match v with VTs _ | VDate _ => true | _ => false end.
Definition inst_time (v : value) : bool := match v with VTime _ => true | _ => false end.
Definition inst_str (v : value) : bool := match v with VStr _ => true | _ => false end.

Definition pv_raw (v : value) : jpayload :=
  match v with
  | VBool b => JBool b | VInt z => JInt z | VFlt f => JFlt f | VStr s => JStr s
  | _ => JOther                       (* json.dumps raises TypeError on None-in-bounds / temporal objects *)
  end.
Definition pv_iso (v : value) : jpayload :=
  match v with VTs us => JIsoTs us | VDate d => JIsoDate d | VTime us => JIsoTime us | _ => JOther end.
Definition pv_str (v : value) : jpayload :=
  match v with VStr s => JStr s | _ => JStrOf v end.

(* bool(v), int(v), float(v), str(v), X.fromisoformat(v) on a decoded JSON payload; None = raises
   ValueError / TypeError (the decoder then returns the raw payload) or is outside this model *)
Definition py_bool (p : jpayload) : option value :=
  match p with
  | JBool b => Some (VBool b)
  | JInt z => Some (VBool (negb (z =? 0)))
  | JFlt (Fin q) => Some (VBool (negb (Qeq_bool q 0)))
  | JFlt _ => Some (VBool true)
  | JStr s => Some (VBool (match s with [] => false | _ => true end))
  | JIsoTs _ | JIsoDate _ | JIsoTime _ | JStrOf _ => Some (VBool true)
  | JOther => None
  end.
Definition py_int (p : jpayload) : option value :=
  match p with
  | JBool b => Some (VInt (if b then 1 else 0))
  | JInt z => Some (VInt z)
  | JFlt (Fin q) => Some (VInt (Z.quot (Qnum q) (Zpos (Qden q))))
  | _ => None
  end.
Definition py_float (p : jpayload) : option value :=
  match p with
  | JFlt f => Some (VFlt f)
  | JInt z => Some (VFlt (Fin (inject_Z z)))
  | JBool b => Some (VFlt (Fin (inject_Z (if b then 1 else 0))))
  | _ => None
  end.
Definition py_str (p : jpayload) : option value :=
  match p with JStr s => Some (VStr s) | _ => None end.
Definition py_ts_fromiso (p : jpayload) : option value := match p with JIsoTs us => Some (VTs us) | _ => None end.
Definition py_date_fromiso (p : jpayload) : option value :=
  match p with JIsoDate d => Some (VDate d) | _ => None end.
Definition py_time_fromiso (p : jpayload) : option value := match p with JIsoTime us => Some (VTime us) | _ => None end.

(* `return v`: the payload as the Python value json.loads produced *)
Definition raw_value (p : jpayload) : value :=
  match p with
  | JBool b => VBool b | JInt z => VInt z | JFlt f => VFlt f | JStr s => VStr s
  | JIsoTs _ | JIsoDate _ | JIsoTime _ | JStrOf _ | JOther => VStr []    (* some string: not the original value *)
  end.
