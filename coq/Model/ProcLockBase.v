(* Model/ProcLockBase.v -- vocabulary shared by the translator-regenerated skeleton of the local metadata
   lock (Gen/GenFileLock.v, read off FileLock._try_acquire_once / FileLock.release) and the hand-written
   lock layer (Model/ProcLock.v).  Definitions only. *)

(* Who owns an advisory lock on a file, and what releases it -- the two disciplines Unix offers:
     ByDescription  BSD flock(2): the lock belongs to the OPEN FILE DESCRIPTION the call went through.  Another
                    description of the same file -- in the same process or in another -- is refused; the lock goes
                    away by an unlock through that description or when that description is closed.
     ByProcess      POSIX record locks (fcntl F_SETLK, lockf(3)): the lock belongs to the PROCESS.  Any descriptor
                    of the process is granted it again; it goes away by an unlock through any descriptor of the
                    process, or when the process closes ANY descriptor of the file. *)
Inductive disc := ByDescription | ByProcess.

(* primitives of FileLock on its lock file, in the order the source performs them *)
Inductive lact :=
| LAOpen               (* fd = os.open(self.lock_file, O_CREAT|O_RDWR) *)
| LATry                (* the non-blocking exclusive lock attempt on fd *)
| LAHeld (b : bool)    (* self._locked := b  (what is_held() -- the fence of the commit point -- returns) *)
| LAUnlock             (* the unlock through self._lock_fd *)
| LAClose.             (* os.close of the descriptor *)
