(* Model/ProcLockKeep.v -- the handle program FileLock does NOT perform: a descriptor kept across acquisitions.

   Model/ProcLock.v's handle opens the lock file for every attempt and closes it on refusal and in release(); an idle
   handle therefore holds no descriptor, and a worker forked while its parent's handle is idle inherits nothing
   (ProcLockProofs.gen_lock_fork_inherits_nothing).  The variant below keeps the descriptor: the lock file is opened
   once, every later attempt / unlock goes through that one descriptor, nothing closes it.  Two more program steps and
   the fork of such a handle, on top of ProcLock.lstep (same kernel, same states -- `HOpened d` is exactly "descriptor
   open, no attempt in progress"):

       KUnlockKeep h     release() without the close:        HHeld d    -> HOpened d   (kernel: unlock through d)
       KRefusedKeep h    a refused attempt without the close: HRefused d -> HOpened d
       KForkKeep h h'    fork between acquisitions: the object field `_lock_fd = d` is copied, the descriptor is
                         inherited: h' = HOpened d, SHARING description d with h

   Props/C01.v C01_kept_descriptor_not_exclusive_after_fork: with the regenerated (description-owned) discipline, a
   parent that has used its lock once and a worker forked afterwards -- both idle at the fork -- both hold, and the
   worker's unlock drops the parent's lock so that a third, independent handle is granted too.  The harness produces the
   shape on the real code (process families, harness/lib/procsched.py).

   Definitions only. *)
From Coq Require Import List Bool Arith.
Require Import DS.Model.ProcLockBase DS.Model.ProcLock.
Import ListNotations.

Inductive kevent := KEv (e : levent) | KUnlockKeep (h : hid) | KRefusedKeep (h : hid) | KForkKeep (h h' : hid).

Definition kstep (dc : disc) (proc : hid -> pid) (s : lstate) (ke : kevent) : option lstate :=
  match ke with
  | KEv e => lstep dc proc s e
  | KUnlockKeep h =>
    match l_h s h with
    | HHeld d => Some {| l_open := l_open s; l_next := l_next s; l_owner := release_by dc proc (l_owner s) d h;
                         l_h := lupd (l_h s) h (HOpened d) |}
    | _ => None
    end
  | KRefusedKeep h =>
    match l_h s h with
    | HRefused d => Some {| l_open := l_open s; l_next := l_next s; l_owner := l_owner s; l_h := lupd (l_h s) h (HOpened d) |}
    | _ => None
    end
  | KForkKeep h h' =>
    match l_h s h', l_h s h with
    | HIdle, HOpened d =>
      if negb (Nat.eqb (proc h) (proc h')) && negb (has_refs (l_open s) h') then
        Some {| l_open := l_open s ++ inherited (l_open s) h h'; l_next := l_next s; l_owner := l_owner s;
                l_h := lupd (l_h s) h' (HOpened d) |}
      else None
    | _, _ => None
    end
  end.

Fixpoint krun_strict (dc : disc) (proc : hid -> pid) (s : lstate) (evs : list kevent) (i : nat) : lstate + nat :=
  match evs with
  | [] => inl s
  | e :: evs' => match kstep dc proc s e with Some s' => krun_strict dc proc s' evs' (S i) | None => inr i end
  end.
