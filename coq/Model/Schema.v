(* Model/Schema.v -- schema-argument validation, record validation, the per-handle Arrow-schema
   cache, value admission, bounds keying and the append/scan machine (property C11).

   Source anchors
     transaction.py      _schema_signature, _validate_schema_against_table, _resolve_table_schema,
                         append_data, commit/_rollback, Table._scan_table (pa.concat_tables)
     data_operations.py  create_arrow_schema (+ _arrow_schema_cache keyed by schema_id),
                         validate_records_strict (+ _value_fits), write_data_file, _compute_column_bounds
     data_structures.py  Schema.__post_init__
   The literal tables (primitive types, type_mapping, the signature's container kind and tuple shape)
   come from Gen/GenSchema.v, regenerated from the source on every run.

   Definitions only; proofs are in Proofs/SchemaProofs.v. *)
From Coq Require Import ZArith QArith Qround List Bool.
Require Import DS.Model.Value DS.Gen.GenPrune DS.Model.Prune DS.Gen.GenSchema.
Import ListNotations.
Open Scope Z_scope.

(* ------------------------------------------------------------------ schemas *)
(* one entry of Schema.fields; names are canonicalised to numbers by the harness.
   A field's "type" may be spelled as a plain string or as any dict / list definition
   (Schema.__post_init__ does not validate those).  ftype is the primitive type the definition
   RESOLVES to for storage and value admission (_iceberg_type_to_arrow / _value_fits: {"type": t, ...}
   -> t; "list<e>" -> a list of what e resolves to, to any depth; anything unrecognised -> string);
   fspell identifies the spelling (0 = plain string; the harness numbers every other JSON text
   injectively).  The signature's type_key is the JSON text, i.e. the pair (ftype, fspell): two
   spellings of the same type do NOT compare equal.
   Field ids are integers: Schema.__post_init__ refuses every other id object (pinned by the translator). *)
Inductive ctype := CPrim (t : ptype) | CList (e : ctype).        (* a column type *)
Inductive catype := APrim (a : atype) | AList (e : catype).      (* its Arrow type: pa.list_(...) *)
Record field := { fid : Z; fname : Z; ftype : ctype; fspell : Z; freq : bool }.
(* Schema(schema_id, fields) *)
Record ischema := { sid : Z; sfields : list field; sstring : Z }.
(* sstring stands for Schema.schema_string (and any other attribute derived from the fields ONCE, at
   construction): an ordinary init field that dataclasses.replace, copies and in-place edits of .fields carry
   along unchanged, so it need not describe sfields.  The harness renders 0 when it does and 1 when it is
   stale.  Nothing below may consult it: validation is by the fields (C11_arg_object_irrelevant). *)

Definition ptype_eqb (a b : ptype) : bool := ptype_tag a =? ptype_tag b.
Definition atype_eqb (a b : atype) : bool := atype_tag a =? atype_tag b.
Fixpoint ctype_eqb (a b : ctype) : bool :=
  match a, b with
  | CPrim x, CPrim y => ptype_eqb x y
  | CList x, CList y => ctype_eqb x y
  | _, _ => false
  end.
Fixpoint catype_eqb (a b : catype) : bool :=
  match a, b with
  | APrim x, APrim y => atype_eqb x y
  | AList x, AList y => catype_eqb x y
  | _, _ => false
  end.
Fixpoint arrow_of_ctype (c : ctype) : catype :=
  match c with CPrim t => APrim (arrow_of_type t) | CList e => AList (arrow_of_ctype e) end.

(* the components a signature tuple can carry *)
Inductive sigv := SVId (z : Z) | SVName (z : Z) | SVType (t : ctype) (sp : Z) | SVReq (b : bool).

Definition sigv_eqb (x y : sigv) : bool :=
  match x, y with
  | SVId a, SVId b => a =? b
  | SVName a, SVName b => a =? b
  | SVType a sa, SVType b sb => ctype_eqb a b && (sa =? sb)
  | SVReq a, SVReq b => Bool.eqb a b
  | _, _ => false
  end.

Definition comp_of (f : field) (c : sigcomp) : sigv :=
  match c with
  | CId => SVId (fid f)
  | CName => SVName (fname f)
  | CType => SVType (ftype f) (fspell f)
  | CReq => SVReq (freq f)
  end.

Fixpoint list_eqb {A} (eqb : A -> A -> bool) (x y : list A) : bool :=
  match x, y with
  | [], [] => true
  | a :: x', b :: y' => eqb a b && list_eqb eqb x' y'
  | _, _ => false
  end.

Definition tuple := list sigv.
Definition tuple_eqb : tuple -> tuple -> bool := list_eqb sigv_eqb.

(* _schema_signature: one tuple per field, in field order; the container (set or list) decides
   how two signatures are compared *)
Definition sig_field (f : field) : tuple := map (comp_of f) sig_comps.
Definition signature (s : list field) : list tuple := map sig_field s.

Definition subset_b (x y : list tuple) : bool := forallb (fun t => existsb (tuple_eqb t) y) x.
Definition sig_eqb (x y : list tuple) : bool :=
  if sig_ordered then list_eqb tuple_eqb x y else subset_b x y && subset_b y x.

(* _validate_schema_against_table: `signature(arg) != signature(table)` raises *)
Definition accept_schema (t a : list field) : bool := sig_eqb (signature a) (signature t).

(* ------------------------------------------------------------------ Arrow schemas and the cache *)
(* pa.field(name, type, nullable), in FIELD ORDER *)
Definition afield := (Z * catype * bool)%type.
Definition aschema := list afield.

Definition arrow_of (s : list field) : aschema :=
  map (fun f => (fname f, arrow_of_ctype (ftype f), negb (freq f))) s.

Definition afield_eqb (x y : afield) : bool :=
  match x, y with (n1, t1, b1), (n2, t2, b2) => (n1 =? n2) && catype_eqb t1 t2 && Bool.eqb b1 b2 end.
Definition aschema_eqb : aschema -> aschema -> bool := list_eqb afield_eqb.

(* DataFileManager._arrow_schema_cache : schema_id -> pa.Schema, one per table handle.
   A hit returns the cached Arrow schema WITHOUT looking at the argument's fields. *)
Definition cache := list (Z * aschema).

Definition create_arrow_schema (c : cache) (s : ischema) : aschema * cache :=
  match lookup (sid s) c with
  | Some a => (a, c)
  | None => let a := arrow_of (sfields s) in (a, (sid s, a) :: c)
  end.

(* name -> field id, as filters.prune_files_by_bounds builds it from the TABLE schema *)
Definition ids_of (s : list field) : list (Z * Z) := map (fun f => (fname f, fid f)) s.
Definition fid_in (s : list field) (col : Z) : option Z := lookup col (ids_of s).

(* ------------------------------------------------------------------ Python values *)
(* what a record may carry: the shared value domain, bytes, a list / tuple of such values, or anything
   else (Decimal, dict, tz-aware datetime ...) *)
Inductive pyval := PV (v : value) | PBytes (bs : list Z) | POther | PList (l : list pyval).

(* dict: key -> value.  A key that is a str is the (non-negative) number of that field name; any other key
   object k (1, None, True, a tuple ...) is - (1 + the number of the name str(k)).  Field names are strs. *)
Definition record := list (Z * pyval).
Definition key_is_str (k : Z) : bool := 0 <=? k.
Definition rget (r : record) (k : Z) : pyval :=       (* record.get(name) *)
  match lookup k r with Some v => v | None => PV VNull end.
Definition is_none (v : pyval) : bool := match v with PV VNull => true | _ => false end.

(* ---- value admission: DataFileManager._value_fits (added by the C11 repair) ----
   None always passes (nullability is checked separately).  Everything pyarrow would silently
   alter is refused BEFORE conversion; what passes is left to pyarrow, which either stores it
   unchanged (up to float32 rounding) or raises. *)
Definition int_min (t : ptype) : Z := match t with T_int => - 2 ^ 31 | _ => - 2 ^ 63 end.
Definition int_max (t : ptype) : Z := match t with T_int => 2 ^ 31 - 1 | _ => 2 ^ 63 - 1 end.

(* |q| < 2^128 - 2^103 : a finite double that binary32 round-to-nearest-even keeps finite *)
Definition f32_limit : Z := 2 ^ 128 - 2 ^ 103.
Definition f32_finite (q : Q) : bool :=
  Qle_bool q (inject_Z f32_limit) && negb (Qeq_bool q (inject_Z f32_limit))
  && Qle_bool (inject_Z (- f32_limit)) q && negb (Qeq_bool q (inject_Z (- f32_limit))).

Definition q_integral (q : Q) : bool := Qeq_bool q (inject_Z (Qfloor q)).

Definition value_fits (t : ptype) (v : pyval) : bool :=
  match v with
  | PV VNull => true
  | POther => false
  | PList _ => false
  | PBytes _ => match t with T_binary | T_fixed => true | _ => false end
  | PV w =>
    match t with
    | T_boolean => match w with VBool _ => true | _ => false end
    | T_int | T_long =>
      match w with
      | VInt z => (int_min t <=? z) && (z <=? int_max t)
      | VFlt (Fin q) => q_integral q && (int_min t <=? Qfloor q) && (Qfloor q <=? int_max t)
      | _ => false
      end
    | T_float =>
      match w with
      | VInt _ => true
      | VFlt (Fin q) => f32_finite q
      | VFlt _ => true
      | _ => false
      end
    | T_double => match w with VInt _ | VFlt _ => true | _ => false end
    | T_string | T_uuid => match w with VStr _ => true | _ => false end
    | T_date => match w with VDate _ => true | _ => false end
    | T_time => match w with VTime _ => true | _ => false end
    | T_timestamp => match w with VTs _ => true | _ => false end
    | T_binary | T_fixed => false
    end
  end.

(* a list<e> column: a list (or tuple) whose every element is admissible for e; None passes *)
Fixpoint value_fits_c (c : ctype) (v : pyval) : bool :=
  match c with
  | CPrim t => value_fits t v
  | CList e => match v with PV VNull => true | PList l => forallb (value_fits_c e) l | _ => false end
  end.

(* validate_records_strict, per record: every key is a str; no unknown key; required fields present and
   not None; every value admissible for its declared type *)
Definition has_field (s : list field) (k : Z) : bool := existsb (fun f => fname f =? k) s.

Definition validate_record (s : list field) (r : record) : bool :=
  forallb (fun kv => key_is_str (fst kv)) r
  && forallb (fun kv => has_field s (fst kv)) r
  && forallb (fun f => negb (freq f) || negb (is_none (rget r (fname f)))) s
  && forallb (fun f => value_fits_c (ftype f) (rget r (fname f))) s.

(* ---- what the declared type stores for a value that passed the admission test ----
   rnd32 is IEEE binary32 round-to-nearest-even on finite rationals (external arithmetic). *)
Definition canon (rnd32 : Q -> num) (t : ptype) (v : pyval) : pyval :=
  match t, v with
  | (T_int | T_long), PV (VFlt (Fin q)) => PV (VInt (Qfloor q))
  | T_float, PV (VInt z) => PV (VFlt (Fin (inject_Z z)))
  | T_float, PV (VFlt (Fin q)) => PV (VFlt (rnd32 q))
  | T_double, PV (VInt z) => PV (VFlt (Fin (inject_Z z)))
  | _, _ => v
  end.
Fixpoint canon_c (rnd32 : Q -> num) (c : ctype) (v : pyval) : pyval :=
  match c with
  | CPrim t => canon rnd32 t v
  | CList e => match v with PList l => PList (map (canon_c rnd32 e) l) | _ => v end
  end.

(* ------------------------------------------------------------------ files, bounds, scans *)
(* a stored row: column name -> cell, in Arrow-schema order *)
Definition srow := list (Z * pyval).

Record dfile := {
  df_id : Z;                       (* file name (uuid), canonicalised *)
  df_arrow : aschema;              (* the parquet footer schema *)
  df_rows : list srow;
  df_lo : list (Z * value);        (* lower_bounds : field id -> value *)
  df_hi : list (Z * value)
}.

(* the cell as the pruning / filter model sees it (bytes and lists never carry bounds) *)
Definition bval (v : pyval) : value := match v with PV w => w | _ => VNull end.
Definition vrow (r : srow) : row := map (fun kv => (fst kv, bval (snd kv))) r.

(* _compute_column_bounds(table, iceberg_schema): iterates the ARGUMENT schema's fields; skips
   a field whose name is not a column of the Arrow table or whose (resolved) type is binary/fixed;
   stores the bound under the ARGUMENT's field id.  For a list column pc.min / pc.max raise
   ArrowNotImplementedError, which is caught: no bounds either. *)
Definition bounds_skipped_c (c : ctype) : bool := match c with CPrim t => bounds_skipped t | CList _ => true end.
Definition has_col (a : aschema) (n : Z) : bool := existsb (fun x => fst (fst x) =? n) a.
Definition bound_ids (s : list field) (a : aschema) : list (Z * Z) :=
  ids_of (filter (fun f => has_col a (fname f) && negb (bounds_skipped_c (ftype f))) s).
Definition bounds_for (s : list field) (a : aschema) (rows : list srow) : list (Z * value) * list (Z * value) :=
  file_bounds (bound_ids s a) (map vrow rows).

(* pa.concat_tables demands identical schemas (names, order, types, nullability) *)
Definition scan_ok (files : list dfile) : bool :=
  match files with
  | [] => true
  | f :: fs => forallb (fun g => aschema_eqb (df_arrow g) (df_arrow f)) fs
  end.

(* ------------------------------------------------------------------ the append machine *)
Section Machine.
  (* pyarrow's Python -> Arrow conversion of one cell (None = raises); an external oracle *)
  Variable conv : catype -> pyval -> option pyval.

  Fixpoint conv_row (a : aschema) (r : record) : option srow :=
    match a with
    | [] => Some []
    | (n, t, _) :: a' =>
      match conv t (rget r n), conv_row a' r with
      | Some c, Some rest => Some ((n, c) :: rest)
      | _, _ => None
      end
    end.

  (* pa.Table.from_pylist(records, schema=arrow): keys that are not columns are DROPPED *)
  Fixpoint convert (a : aschema) (rs : list record) : option (list srow) :=
    match rs with
    | [] => Some []
    | r :: rs' =>
      match conv_row a r, convert a rs' with
      | Some x, Some xs => Some (x :: xs)
      | _, _ => None
      end
    end.

  Record world := {
    w_schema : option ischema;           (* persisted current schema (None: legacy table) *)
    w_snaps : list (list dfile);         (* snapshot list, newest first; each = its reachable data files *)
    w_store : list Z;                    (* data files physically present under data/ *)
    w_next : Z;                          (* next fresh file name *)
    w_caches : list (Z * cache)          (* one Arrow-schema cache per open handle *)
  }.

  Definition current (w : world) : list dfile := match w_snaps w with s :: _ => s | [] => [] end.
  Definition cache_of (w : world) (h : Z) : cache := match lookup h (w_caches w) with Some c => c | None => [] end.

  Inductive outcome := Accepted | RejNoSchema | RejSchema | RejRecords | RejConvert | RejCommit | RejFile.

  (* Table.append_records(records, schema=arg) through handle h; commit_ok = false models a commit
     that fails before the commit point (conflict retries exhausted, storage error): _rollback. *)
  Record event := { e_handle : Z; e_arg : option ischema; e_recs : list record; e_commit_ok : bool }.

  Definition resolve (t arg : option ischema) : ischema + outcome :=
    match arg, t with
    | None, Some ts => inl ts
    | None, None => inr RejNoSchema
    | Some a, Some ts => if accept_schema (sfields ts) (sfields a) then inl a else inr RejSchema
    | Some a, None => inl a                      (* "legacy table: nothing to enforce" *)
    end.

  Definition set_cache (w : world) (h : Z) (c : cache) : world :=
    {| w_schema := w_schema w; w_snaps := w_snaps w; w_store := w_store w; w_next := w_next w;
       w_caches := (h, c) :: w_caches w |}.

  Definition remove (x : Z) (l : list Z) : list Z := filter (fun y => negb (y =? x)) l.

  (* append_data queues the file it has just written through append_files, which re-checks the file's footer
     against the Arrow schema the handle derives for the TABLE schema (_validate_file_schema) -- through the same
     cache; a legacy table has nothing to check against *)
  Definition recheck (t : option ischema) (c : cache) (a : aschema) : cache * bool :=
    match t with
    | Some ts => let (a2, c2) := create_arrow_schema c ts in (c2, aschema_eqb a a2)
    | None => (c, true)
    end.

  Definition step (w : world) (e : event) : world * outcome :=
    match resolve (w_schema w) (e_arg e) with
    | inr o => (w, o)
    | inl s =>
      if negb (forallb (validate_record (sfields s)) (e_recs e)) then (w, RejRecords) else
      let (a, c') := create_arrow_schema (cache_of w (e_handle e)) s in
      match convert a (e_recs e) with
      | None => (set_cache w (e_handle e) c', RejConvert)
      | Some rows =>
        let (lo, hi) := bounds_for (sfields s) a rows in
        let f := {| df_id := w_next w; df_arrow := a; df_rows := rows; df_lo := lo; df_hi := hi |} in
        (* the data file is written and re-checked; then the commit either publishes a snapshot or rolls back *)
        let (c2, ok) := recheck (w_schema w) c' a in
        let w1 := set_cache w (e_handle e) c2 in
        let written := w_next w :: w_store w1 in
        if ok && e_commit_ok e then
          ({| w_schema := w_schema w1; w_snaps := (current w1 ++ [f]) :: w_snaps w1;
              w_store := written; w_next := w_next w + 1; w_caches := w_caches w1 |}, Accepted)
        else
          ({| w_schema := w_schema w1; w_snaps := w_snaps w1;
              w_store := remove (w_next w) written; w_next := w_next w + 1; w_caches := w_caches w1 |},
           if ok then RejCommit else RejFile)
      end
    end.

  Fixpoint run (w : world) (es : list event) : world :=
    match es with [] => w | e :: es' => run (fst (step w e)) es' end.

  Definition init (s : option ischema) : world :=
    {| w_schema := s; w_snaps := []; w_store := []; w_next := 0; w_caches := [] |}.

  (* Table.scan(): every file of the current snapshot, concatenated; raises when schemas differ *)
  Definition full_scan (w : world) : option (list srow) :=
    if scan_ok (current w) then Some (flat_map df_rows (current w)) else None.

  (* Table.scan(filter=es): prune by the stored bounds under the TABLE schema's name -> id map,
     then filter the surviving files' rows *)
  Definition filtered_scan (X : value -> value -> bool) (es : list fexpr) (w : world) : option (list row) :=
    let ids := match w_schema w with Some ts => ids_of (sfields ts) | None => [] end in
    let kept := prune (fun f => (df_lo f, df_hi f)) ids es (current w) in
    if scan_ok kept then Some (flat_map (fun f => filter (row_selected X es) (map vrow (df_rows f))) kept) else None.
End Machine.
