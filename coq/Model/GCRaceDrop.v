(* Model/GCRaceDrop.v -- the per-file machine of Model/GCRace.v with a transaction that DROPS the marker of a file it
   is still going to publish (what a retry arm that drops markers does to a file written or adopted before the lost
   attempt: Model/TxMarkers.v, `x_bare`).  `gstep` has no such step: its TAbandon ends the file's career (TOrphaned, never
   published).  Here TAbandon on a written file removes the marker and leaves the file in flight (TWritten), so the
   retry can publish it (TFlip).  C06 fails for this machine (Props/C06.v, C06_dropped_marker_loses_file).
   Definitions only. *)
From Coq Require Import ZArith List Bool Arith.
Require Import DS.Model.GCRaceBase DS.Gen.GenGCRace DS.Model.GCRace.
Import ListNotations.
Open Scope Z_scope.

Definition gstep_dropping (w : gworld) (e : gevent) : option gworld :=
  match e with
  | TAbandon t =>
    match g_tpc w t with
    | TWritten => Some (with_tx w t TWritten (g_mtime w t) (g_present w t) false false (g_mkmtime w t))
    | _ => gstep w e
    end
  | _ => gstep w e
  end.

Fixpoint grun_strict_dropping (w : gworld) (evs : list gevent) : option gworld :=
  match evs with
  | [] => Some w
  | e :: evs' => match gstep_dropping w e with Some w' => grun_strict_dropping w' evs' | None => None end
  end.

(* A pre-built file ten hours old is adopted (marker, no run announced); the commit attempt loses the race and the
   retry arm drops the marker; a collection run (grace 1 h) loads the markers, reads the metadata, lists, deletes the
   old unmarked unreferenced file -- all within 4 ms; the retry publishes the file. *)
Definition dropping_counterexample : list gevent :=
  [TStage 0%nat (-36000000); Tick 1; TAdoptMark 0%nat; TAdopt 0%nat; Tick 1; TAbandon 0%nat;
   GAnnounce; Tick 1; GMarks 86400000; Tick 1; GMeta; Tick 1; GList 3600000; GDel 0%nat; Tick 1; TFlip 0%nat; GEnd].
