(* Model/SnapRec.v -- a retained snapshot as the garbage collector sees it in `metadata.snapshots`: the fields of
   data_structures.Snapshot that a selection of reachability roots could depend on.  Definitions only.
   Gen/GenGCRoots.v (regenerated from GarbageCollector.collect on every run) is stated over this record.
   A field that is None in the metadata (operation, manifest_list) is the empty string here (Python truthiness and
   `== "<literal>"` agree on both); parent None / -1 are kept apart as None / Some (-1). *)
From Coq Require Import ZArith List Bool String.
Require Import DS.Model.PyStr.
Import ListNotations.

Record snaprec := mkSnap { sr_id : Z; sr_parent : option Z; sr_operation : string; sr_manifest_list : string }.

(* set.add on a set of str kept as a duplicate-free list in first-insertion order *)
Definition set_add_str (x : string) (s : list string) : list string := if str_mem x s then s else (s ++ [x])%list.
