(* Model/DurableBase.v -- paths, file contents and the OS-call alphabet of the power-loss model (C16).
   Separate from Durable.v so that the call sequences regenerated from the source (Gen/GenDurable.v)
   can be stated over these types and imported by Durable.v.  Definitions only. *)
From Coq Require Import NArith List Bool.
Import ListNotations.
Open Scope N_scope.

(* ------------------------------------------------------------------------------------------ *)
(* 1. paths, contents, calls                                                                   *)

Inductive path := P (d n : N) | T (d n : N).

Definition path_eqb (a b : path) : bool :=
  match a, b with
  | P d n, P d' n' => (d =? d') && (n =? n')
  | T d n, T d' n' => (d =? d') && (n =? n')
  | _, _ => false
  end.

Definition dir_of (p : path) : N := match p with P d _ => d | T d _ => d end.
Definition tmp_of (p : path) : path := match p with P d n => T d n | T d n => T d n end.
Definition is_final (p : path) : bool := match p with P _ _ => true | T _ _ => false end.

(* metadata.version-hint.text in the table root (directory 0) *)
Definition PTR : path := P 0 0.

(* File contents are token lists: opaque payload tokens and references to other files.  A partial
   write / partial flush is a proper prefix of the token list. *)
Inductive token := Raw (z : N) | Ref (p : path).
Definition content := list token.

Fixpoint refs (c : content) : list path :=
  match c with
  | [] => []
  | Raw _ :: c' => refs c'
  | Ref p :: c' => p :: refs c'
  end.

Inductive call :=
| Create (p : path)              (* open(O_CREAT|O_EXCL): mkstemp, NamedTemporaryFile *)
| Write (p : path) (b : content) (* write / pwrite through any descriptor of p (appends) *)
| Fsync (p : path)               (* fsync / fdatasync of a descriptor of the file p *)
| Rename (p q : path)            (* rename / os.replace *)
| FsyncDir (d : N)               (* fsync of a descriptor of directory d *)
| Unlink (p : path)
| Mkdir (d : N).                 (* directories are outside the property: no effect on files *)

