(* Model/Filter.v -- what a scan filter means and how every scan API applies it.

   filters.py
     parse_filter_dict / _parse_op            `parse`      (tables regenerated: Gen/GenFilterConst.v)
     _build_condition                         `gen_condition` (REGENERATED: Gen/GenFilter.v)
     to_pyarrow_compute_expression            `build`      (fold regenerated: gen_fold / gen_combine)
     prune_files_by_bounds on user filters    `prune_p`    (on top of Model/Prune.v)
   pyarrow (documented primitive semantics, validated against the real library on every run)
     Expression evaluation                    `eval3`      Kleene logic over TT / TF / TN(ULL); None = pyarrow raises
     Table.filter                             `filter_rows` keeps exactly the rows whose mask is TT
     Table.select / read_table(columns=)      `select`;  ParquetFile.iter_batches(columns=) `select_lenient`
   transaction.py (the code AFTER the C12 repairs)
     _read_datafile_table                     `read_verified`, `read_direct`, `read_one`
     _scan_table (scan, to_pandas)            `scan_table`
     scan_batches / _iter_file_batches        `scan_batches`;  iter_records  `iter_records`

   Oracles (function parameters, the theorems hold for EVERY choice):
     X  : how pyarrow's is_in matches a cell against a value-set element when the cast of the value
          set to the column type is lossy (see Model/Prune.v)
     E  : which leaf expressions pyarrow refuses on which row beyond the Python-incomparable ones
          (no kernel for the column type, e.g. int64 vs bool; lossy cast, e.g. 2^53+1 vs 0.5)
     B  : which expressions pyarrow refuses to BIND to the schema of the table's files -- before it looks at any
          row, hence also on a table WITHOUT rows (unknown column: ArrowInvalid; no kernel for the column type:
          ArrowNotImplementedError; a value set that cannot be cast to it: ArrowTypeError)
     PA : which Python literals pyarrow accepts when the expression is built (pa.scalar, pa.array)

   Definitions only. *)
From Coq Require Import String Ascii.
From Coq Require Import ZArith QArith List Bool.
Require Import DS.Model.Value DS.Model.FilterExpr DS.Gen.GenPrune DS.Model.Prune.
Require Import DS.Gen.GenFilterConst DS.Gen.GenFilter.
Import ListNotations.
Open Scope Z_scope.

(* ------------------------------------------------------------------ three-valued logic (Kleene) *)
Inductive tv := TT | TF | TN.

Definition tv_of (b : bool) : tv := if b then TT else TF.
Definition tv_not (a : tv) : tv := match a with TT => TF | TF => TT | TN => TN end.
Definition tv_and (a b : tv) : tv :=
  match a, b with
  | TF, _ | _, TF => TF
  | TT, TT => TT
  | _, _ => TN
  end.
Definition is_tt (a : tv) : bool := match a with TT => true | _ => false end.

Definition cmp_ord (op : cmpop) (o : ord) : bool :=
  match op with
  | CEq => is_eq o | CNe => negb (is_eq o)
  | CLt => is_lt o | CLe => is_le o | CGt => is_gt o | CGe => is_ge o
  end.

Section Eval.
  Variable X : value -> value -> bool.
  Variable E : cexpr -> row -> bool.

  (* field <op> literal on one cell.  A comparison with NULL (cell or literal) is NULL; values that
     Python itself cannot order are refused by pyarrow too ("no kernel matching input types");
     a list literal is always refused.  NaN follows IEEE: only != is true. *)
  Definition eval_cmp (op : cmpop) (v : value) (lit : parg) : option tv :=
    match lit with
    | AList _ => None
    | AVal l =>
      if is_null v || is_null l then Some TN
      else match vcmp v l with
           | Some o => Some (tv_of (cmp_ord op o))
           | None => None
           end
    end.

  (* pc.is_in (skip_nulls=False): never NULL; a NULL cell matches only a NULL in the value set *)
  Definition eval_is_in (v : value) (vals : list value) : bool :=
    if is_null v then existsb is_null vals
    else existsb (fun w => negb (is_null w) && in_eq X v w) vals.

  (* None = pyarrow raises (also: a field the table does not have) *)
  Fixpoint eval3 (e : cexpr) (r : row) : option tv :=
    match e with
    | Cmp op c lit =>
      match lookup c r with
      | None => None
      | Some v => if E e r then None else eval_cmp op v lit
      end
    | IsIn c vals =>
      match lookup c r with
      | None => None
      | Some v => if E e r then None else Some (tv_of (eval_is_in v vals))
      end
    | Not a => option_map tv_not (eval3 a r)
    | And a b =>
      match eval3 a r, eval3 b r with
      | Some x, Some y => Some (tv_and x y)
      | _, _ => None
      end
    | IsValid c => match lookup c r with None => None | Some v => Some (tv_of (negb (is_null v))) end
    | IsNull c => match lookup c r with None => None | Some v => Some (tv_of (is_null v)) end
    | Scalar b => Some (tv_of b)
    end.

  (* Table.filter(expr): rows whose mask is TRUE (FALSE and NULL are dropped) *)
  Fixpoint filter_rows (ce : cexpr) (rows : list row) : res (list row) :=
    match rows with
    | [] => Ok []
    | r :: rs =>
      match eval3 ce r with
      | None => Err EEval
      | Some t => bind (filter_rows ce rs) (fun out => Ok (if is_tt t then r :: out else out))
      end
    end.

  Definition apply_rows (ce : option cexpr) (rows : list row) : res (list row) :=
    match ce with None => Ok rows | Some e => filter_rows e rows end.

  (* Table.filter(expr) on one table (a whole file, one record batch, or the EMPTY table of a file without rows):
     the expression is bound to the table's schema first -- a refusal there does not depend on the rows, and
     there need not be any -- and evaluated row by row afterwards *)
  Variable B : cexpr -> bool.

  Definition refused (ce : option cexpr) : bool := match ce with None => false | Some e => B e end.

  Definition apply_filter (ce : option cexpr) (rows : list row) : res (list row) :=
    if refused ce then Err EEval else apply_rows ce rows.
End Eval.

(* ------------------------------------------------------------------ projection *)
Definition zmem (c : Z) (l : list Z) : bool := existsb (Z.eqb c) l.
Definition proj (cols : list Z) (r : row) : row := map (fun c => (c, cell r c)) cols.

(* Table.select(columns) and pq.read_table(columns=...): an unknown column raises *)
Definition select (sch : list Z) (cols : option (list Z)) (rows : list row) : res (list row) :=
  match cols with
  | None => Ok rows
  | Some cs => if forallb (fun c => zmem c sch) cs then Ok (map (proj cs) rows) else Err EProj
  end.

(* pa.concat_tables: tables without columns carry no row count through the concatenation -- the
   result of scan(columns=[]) has no rows at all (the batch APIs yield one {} per row) *)
Definition concat_tables (cols : option (list Z)) (ts : list (list row)) : list row :=
  match cols with Some [] => [] | _ => concat ts end.

(* ParquetFile.iter_batches(columns=...): unknown names are silently ignored *)
Definition select_lenient (sch : list Z) (cols : option (list Z)) (rows : list row) : list row :=
  match cols with
  | None => rows
  | Some cs => map (proj (filter (fun c => zmem c sch) cs)) rows
  end.

(* ------------------------------------------------------------------ parse_filter_dict *)
Definition lower_ascii (a : ascii) : ascii :=
  let n := nat_of_ascii a in
  if (Nat.leb 65 n && Nat.leb n 90)%bool then ascii_of_nat (n + 32) else a.

Fixpoint lower (s : string) : string :=
  match s with
  | EmptyString => EmptyString
  | String a s' => String (lower_ascii a) (lower s')
  end.

Fixpoint assoc_str {A} (k : string) (l : list (string * A)) : option A :=
  match l with
  | [] => None
  | (k', v) :: l' => if String.eqb k k' then Some v else assoc_str k l'
  end.

Definition mem_str (k : string) (l : list string) : bool := existsb (String.eqb k) l.

(* An argument that is an ITERABLE other than a list / tuple / str.  What matters of such an object is what iterating it
   yields, and how often it can be iterated:
     IAgain   set, frozenset, dict view, range, deque ...: the same elements every time
     IOnce    iterator, generator, map / zip object: its elements ONCE -- every later iteration yields nothing
     IMap     dict (any Mapping): its KEYS *)
Inductive iterk := IAgain | IOnce | IMap.

(* `for v in x` the n-th time (n = 0: the first) *)
Definition iterate (ik : iterk) (vs : list value) (n : nat) : list value :=
  match ik, n with
  | IOnce, S _ => []
  | _, _ => vs
  end.

(* one value of the user's filter dict: a 2-tuple (op, value) -- the value a scalar / list / tuple (`parg`) or some other
   iterable yielding `vs` --, or anything else *)
Inductive cond := CPlain (a : parg) | CPair (k : okey) (a : parg) | CPairIter (k : okey) (ik : iterk) (vs : list value).
Definition pyfilter := list (Z * cond).

(* filters.FilterExpression *)
Record pexpr := { pcol : Z; pop : fop; pval : parg }.

(* _parse_op *)
Definition parse_op (k : okey) : res fop :=
  match k with
  | OpStr s => match assoc_str (lower s) op_table with Some op => Ok op | None => Err EParse end
  | OpOther => Err EParse
  end.

(* `if not isinstance(value, (list, tuple)): raise` then `lo, hi = value`: a list / tuple of exactly two
   elements (repaired: a 2-character str used to be unpacked into its characters) *)
Definition unpack2 (a : parg) : res (value * value) :=
  match a with
  | AList [lo; hi] => Ok (lo, hi)
  | _ => Err EParse
  end.

(* `value is not True` (repaired: the flag of is_null / is_not_null used to be ignored) *)
Definition flag_true (a : parg) : bool := match a with AVal (VBool true) => true | _ => false end.

(* `op in (IN, NOT_IN) and isinstance(value, (str, bytes, bytearray))` (repaired: a str value set used to be
   iterated character by character); the `value` type has no bytes kind *)
Definition text_value_set (op : fop) (a : parg) : bool :=
  match op, a with
  | IN, AVal (VStr _) | NOT_IN, AVal (VStr _) => true
  | _, _ => false
  end.

Definition key_is (p : string -> bool) (k : okey) : bool :=
  match k with OpStr s => p (lower s) | OpOther => false end.

(* `if op in (IN, NOT_IN): if isinstance(value, Mapping): raise ...; value = list(value)` (repaired: the value set used to
   be kept as given and iterated TWICE -- by _build_condition, then by _file_may_match -- so that a one-shot iterable was
   empty for pruning, which then skipped every file; a dict was read as its keys).  The FilterExpression holds the LIST of
   the values the argument yields the first -- and only -- time it is iterated; list(scalar) raises TypeError. *)
Definition value_set (op : fop) (a : parg) : res parg :=
  match op, a with
  | IN, AVal _ | NOT_IN, AVal _ => Err EParse
  | _, _ => Ok a
  end.
Definition value_set_iter (op : fop) (ik : iterk) (vs : list value) : res parg :=
  match op, ik with
  | IN, IMap | NOT_IN, IMap => Err EParse
  | _, _ => Ok (AList (iterate ik vs 0))
  end.

Definition parse_one (c : Z) (cd : cond) : res (list pexpr) :=
  match cd with
  | CPair k a =>
    if key_is (String.eqb between_key) k then
      bind (unpack2 a) (fun lh => Ok [ {| pcol := c; pop := GE; pval := AVal (fst lh) |};
                                       {| pcol := c; pop := LE; pval := AVal (snd lh) |} ])
    else if key_is (fun s => mem_str s is_null_aliases) k then
      if flag_true a then Ok [ {| pcol := c; pop := IS_NULL; pval := AVal VNull |} ] else Err EParse
    else if key_is (fun s => mem_str s is_not_null_aliases) k then
      if flag_true a then Ok [ {| pcol := c; pop := IS_NOT_NULL; pval := AVal VNull |} ] else Err EParse
    else bind (parse_op k) (fun op =>
      if text_value_set op a then Err EParse
      else bind (value_set op a) (fun a' => Ok [ {| pcol := c; pop := op; pval := a' |} ]))
  (* an iterable that is neither list nor tuple: not a (lo, hi) pair, not the flag True; a value set for in / not_in
     unless it is a mapping.  As the literal of a comparison it stays what it is -- pyarrow refuses it like a list
     literal (when the expression is built or when it is evaluated; PA decides which) -- and is held as the list. *)
  | CPairIter k ik vs =>
    if key_is (String.eqb between_key) k then Err EParse
    else if key_is (fun s => mem_str s is_null_aliases) k then Err EParse
    else if key_is (fun s => mem_str s is_not_null_aliases) k then Err EParse
    else bind (parse_op k) (fun op =>
      bind (value_set_iter op ik vs) (fun a' => Ok [ {| pcol := c; pop := op; pval := a' |} ]))
  | CPlain (AVal VNull) => Err EParse
  | CPlain a => Ok [ {| pcol := c; pop := EQ; pval := a |} ]
  end.

Fixpoint parse (f : pyfilter) : res (list pexpr) :=
  match f with
  | [] => Ok []
  | (c, cd) :: f' => bind (parse_one c cd) (fun es => bind (parse f') (fun es' => Ok (es ++ es')%list))
  end.

(* ------------------------------------------------------------------ to_pyarrow_compute_expression *)
Definition condition (PA : parg -> bool) (p : pexpr) : res cexpr :=
  gen_condition PA (pop p) (pcol p) (pval p).

Definition build (PA : parg -> bool) (es : list pexpr) : res (option cexpr) :=
  bind (mapM (condition PA) es) (fun cs => Ok (gen_fold cs)).

(* parse, then build: what every API does with the user's filter before touching data *)
Definition prepare (PA : parg -> bool) (f : pyfilter) : res (list pexpr * option cexpr) :=
  bind (parse f) (fun es => bind (build PA es) (fun ce => Ok (es, ce))).

(* ------------------------------------------------------------------ well-shaped expressions *)
(* The expressions whose value has the shape its operator expects are the `fexpr`s of Model/Prune.v
   (scalar literal for the comparisons, iterable for in / not_in). *)
Definition to_fexpr (p : pexpr) : option fexpr :=
  match pop p with
  | IN | NOT_IN =>
    match iter_arg (pval p) with
    | Ok vs => Some {| fcol := pcol p; fop_ := pop p; fsval := VNull; flval := vs |}
    | Err _ => None
    end
  | IS_NULL | IS_NOT_NULL => Some {| fcol := pcol p; fop_ := pop p; fsval := VNull; flval := [] |}
  | _ =>
    match pval p with
    | AVal v => Some {| fcol := pcol p; fop_ := pop p; fsval := v; flval := [] |}
    | AList _ => None
    end
  end.

Definition of_fexpr (e : fexpr) : pexpr :=
  {| pcol := fcol e; pop := fop_ e;
     pval := match fop_ e with IN | NOT_IN => AList (flval e) | _ => AVal (fsval e) end |}.

(* _file_may_match sees only the well-shaped ones: on the others every comparison raises TypeError
   (`continue`) or no branch applies *)
Definition prunable (es : list pexpr) : list fexpr :=
  flat_map (fun p => match to_fexpr p with Some e => [e] | None => [] end) es.

(* ------------------------------------------------------------------ the read pipelines *)
Record file := { frows : list row; fcs : bool (* a checksum was recorded for the file *) }.

Definition nonempty {A} (l : list A) : bool := match l with [] => false | _ => true end.

(* pf.iter_batches(batch_size=n) on one row group; any other layout is a `split` with concat (split l) = l *)
Fixpoint chunk_aux {A} (fuel n : nat) (l : list A) : list (list A) :=
  match fuel with
  | O => []
  | S fu => match l with [] => [] | _ => firstn n l :: chunk_aux fu n (skipn n l) end
  end.
Definition chunk {A} (n : nat) (l : list A) : list (list A) := chunk_aux (length l) n l.

Section Pipelines.
  Variable X : value -> value -> bool.
  Variable E : cexpr -> row -> bool.
  Variable B : cexpr -> bool.                                  (* refused when bound to the files' schema *)
  Variable PA : parg -> bool.
  Variable sch : list Z.                                       (* the columns of the table's parquet files *)
  Variable ids : list (Z * Z).                                 (* column -> field id *)
  Variable bounds : file -> list (Z * value) * list (Z * value).  (* decoded manifest bounds of a file *)

  Definition prune_p (es : list pexpr) (files : list file) : list file :=
    match es, files with
    | [], _ => files
    | _, [] => files
    | _, _ => filter (fun f => file_may_match (fst (bounds f)) (snd (bounds f)) ids (prunable es)) files
    end.

  (* _read_datafile_table, checksum-verified branch: read everything, filter, THEN project *)
  Definition read_verified (cols : option (list Z)) (ce : option cexpr) (rows : list row) : res (list row) :=
    bind (apply_filter X E B ce rows) (select sch cols).

  (* _read_datafile_table, direct branch (repaired): identical when a filter is present; without a
     filter pq.read_table(src, columns=columns) *)
  Definition read_direct (cols : option (list Z)) (ce : option cexpr) (rows : list row) : res (list row) :=
    match ce with
    | Some _ => bind (apply_filter X E B ce rows) (select sch cols)
    | None => select sch cols rows
    end.

  Definition read_one (verify : bool) (cols : option (list Z)) (ce : option cexpr) (f : file) : res (list row) :=
    if verify && fcs f then read_verified cols ce (frows f) else read_direct cols ce (frows f).

  (* _scan_table (repaired: the filter is parsed and built before the empty-table return).
     parallel=N is executor.map over the same read_one: order-preserving, first error in file order. *)
  Definition scan_table (verify : bool) (cols : option (list Z)) (flt : pyfilter) (files : list file) : res (list row) :=
    bind (prepare PA flt) (fun ec =>
      match files with
      | [] => Ok []
      | _ => bind (mapM (read_one verify cols (snd ec)) (prune_p (fst ec) files)) (fun ts => Ok (concat_tables cols ts))
      end).

  (* _iter_file_batches, one batch *)
  Definition batch_out (cols : option (list Z)) (ce : option cexpr) (batch : list row) : res (list row) :=
    match ce with
    | Some _ => bind (apply_filter X E B ce batch) (select sch cols)
    | None => Ok (select_lenient sch cols batch)
    end.

  (* one file: every batch iter_batches yields, then (repaired) -- when the file has NO rows, so that possibly no
     batch was yielded and nothing was evaluated -- the filter and the projection applied to the file's empty
     table, as scan() does: an expression pyarrow cannot bind raises here too *)
  Definition empty_file_check (cols : option (list Z)) (ce : option cexpr) (f : file) : res (list row) :=
    match frows f, ce with
    | [], Some _ => bind (apply_filter X E B ce []) (select sch cols)
    | _, _ => Ok []
    end.

  Definition file_batches (split : list row -> list (list row)) (cols : option (list Z)) (ce : option cexpr)
             (f : file) : res (list (list row)) :=
    bind (mapM (batch_out cols ce) (split (frows f))) (fun bs =>
      bind (empty_file_check cols ce f) (fun _ => Ok (filter nonempty bs))).

  (* the batch reader BEFORE the repair: a file without rows was never shown to pyarrow *)
  Definition file_batches_unchecked (split : list row -> list (list row)) (cols : option (list Z)) (ce : option cexpr)
             (f : file) : res (list (list row)) :=
    bind (mapM (batch_out cols ce) (split (frows f))) (fun bs => Ok (filter nonempty bs)).

  (* scan_batches (repaired: the expression is built before the no-files return); the result is the
     list of yielded batches.  verify_checksums only selects where the bytes come from. *)
  Definition scan_batches (split : list row -> list (list row)) (cols : option (list Z)) (flt : pyfilter)
             (files : list file) : res (list (list row)) :=
    bind (prepare PA flt) (fun ec =>
      bind (mapM (file_batches split cols (snd ec)) (prune_p (fst ec) files)) (fun bss => Ok (concat bss))).

  Definition iter_records (cols : option (list Z)) (flt : pyfilter) (files : list file) : res (list row) :=
    bind (scan_batches (chunk 1000) cols flt files) (fun bs => Ok (concat bs)).

  (* what a projection BEFORE the filter would do (the order _read_datafile_table must not use) *)
  Definition read_project_first (cols : option (list Z)) (ce : option cexpr) (rows : list row) : res (list row) :=
    bind (select sch cols rows) (apply_filter X E B ce).

  Definition scan_batches_unchecked (split : list row -> list (list row)) (cols : option (list Z)) (flt : pyfilter)
             (files : list file) : res (list (list row)) :=
    bind (prepare PA flt) (fun ec =>
      bind (mapM (file_batches_unchecked split cols (snd ec)) (prune_p (fst ec) files)) (fun bss => Ok (concat bss))).
End Pipelines.

(* the columns an expression reads *)
Fixpoint fields (e : cexpr) : list Z :=
  match e with
  | Cmp _ c _ | IsIn c _ | IsValid c | IsNull c => [c]
  | Not a => fields a
  | And a b => fields a ++ fields b
  | Scalar _ => []
  end.
