(* Model/FilterExpr.v -- the vocabulary shared by the REGENERATED filter definitions (Gen/GenFilter.v,
   Gen/GenFilterConst.v) and the hand-written filter model (Model/Filter.v):

     parg    what `expr.value` of a filters.FilterExpression can be: a scalar or a list/tuple of scalars
     cexpr   the pyarrow compute expression built by filters._build_condition /
             to_pyarrow_compute_expression (one leaf per pyarrow primitive)
     res     Ok / Err with the phase in which the real code raises

   Definitions only; stdlib only. *)
From Coq Require Import ZArith List Bool String.
Require Import DS.Model.Value.
Import ListNotations.
Open Scope Z_scope.

(* phases in which a scan raises *)
Inductive errk :=
| EParse    (* parse_filter_dict / _parse_op: ValueError (unknown operator, {"c": None}), unpack errors of `between` *)
| EBuild    (* _build_condition / to_pyarrow_compute_expression: expr.value not iterable, pa.array refuses the value set *)
| EEval     (* pyarrow refuses to evaluate the expression on the data (no kernel for the types, lossy cast, unknown field) *)
| EProj.    (* projection on a column that does not exist *)

Inductive res (A : Type) := Ok (a : A) | Err (k : errk).
Arguments Ok {A} a.
Arguments Err {A} k.

Definition bind {A B} (x : res A) (f : A -> res B) : res B :=
  match x with Ok a => f a | Err k => Err k end.

Fixpoint mapM {A B} (f : A -> res B) (l : list A) : res (list B) :=
  match l with
  | [] => Ok []
  | a :: l' => bind (f a) (fun b => bind (mapM f l') (fun bs => Ok (b :: bs)))
  end.

(* expr.value *)
Inductive parg := AVal (v : value) | AList (vs : list value).

(* `for v in expr.value`: a list/tuple iterates its elements, a str iterates its characters,
   any other scalar (int, float, bool, None, date...) raises TypeError *)
Definition chars (s : list Z) : list value := map (fun c => VStr [c]) s.
Definition iter_arg (a : parg) : res (list value) :=
  match a with
  | AList vs => Ok vs
  | AVal (VStr s) => Ok (chars s)
  | AVal _ => Err EBuild
  end.

Inductive cmpop := CEq | CNe | CLt | CLe | CGt | CGe.

(* pyarrow.compute.Expression, as far as filters.py builds it.  `c` is the column (pc.field(name)). *)
Inductive cexpr :=
| Cmp (op : cmpop) (c : Z) (lit : parg)     (* field <op> expr.value *)
| IsIn (c : Z) (vals : list value)          (* pc.is_in(field, value_set=pa.array(vals)) *)
| Not (e : cexpr)                           (* ~e        (invert)     *)
| And (a b : cexpr)                         (* a & b     (and_kleene) *)
| IsValid (c : Z)                           (* field.is_valid() *)
| IsNull (c : Z)                            (* field.is_null()  *)
| Scalar (b : bool).                        (* pc.scalar(b) *)

(* combinators the generated code is written with: building an expression can raise (pa.array) *)
Definition r_and (a b : res cexpr) : res cexpr := bind a (fun x => bind b (fun y => Ok (And x y))).
Definition r_not (a : res cexpr) : res cexpr := bind a (fun x => Ok (Not x)).
(* PA says whether pyarrow accepts a Python literal when the expression is BUILT:
     pa.array(values) for an in / not_in value set (it refuses heterogeneous lists such as [1, "a"],
     [1, True], and ints beyond 64 bits);  pa.scalar(expr.value) for `field <op> expr.value` (it refuses
     ints beyond 64 bits; a list literal is accepted here and refused at evaluation). *)
Definition mk_is_in (PA : parg -> bool) (c : Z) (values : list value) : res cexpr :=
  if PA (AList values) then Ok (IsIn c values) else Err EBuild.
Definition mk_cmp (PA : parg -> bool) (op : cmpop) (c : Z) (lit : parg) : res cexpr :=
  if PA lit then Ok (Cmp op c lit) else Err EBuild.

Definition is_empty_list {A} (l : list A) : bool := match l with [] => true | _ => false end.
(* [v for v in xs if v is not None] *)
Definition not_none (xs : list value) : list value := filter (fun v => negb (is_null v)) xs.

(* operator keys of a filter condition tuple: a str, or some other (hashable) Python object *)
Inductive okey := OpStr (s : string) | OpOther.
