(* Model/Backend.v -- the storage contract and the two backends (storage_backend.py).

   spec   : the abstract store both backends are meant to implement: exact keys -> bytes.
   s3     : S3StorageBackend over a strongly consistent bucket (flat map raw-string -> bytes).  The key
            mapping, the listing Prefix, the prefix stripping, the constructor's prefix normalisation
            and the not-found code literals are the REGENERATED definitions of Gen/GenS3.v; the bucket
            itself (GET/HEAD/PUT/DELETE/list by string prefix, error codes of a missing key) is the
            trusted model of S3 that harness/lib/fakes3.py implements.
   local  : LocalStorageBackend over a directory tree (files + directories; makedirs on write, os.walk).  A key names a
            FILE: exists = os.path.isfile (os.path.isdir only for a path spelled with a trailing "/", the S3 backend's
            rule), read / open / size / mtime of anything that is not a regular file (a directory, a path below a
            file, nothing) = FileNotFoundError, delete of it = no-op.  Writes still run into the file system: a key
            that is a directory of another key (or lies below a file) cannot be written.

   Open k prog : open_seekable(k) and a seek/read program (Model/Range.v) on the reader it returns -- one
            operation of the history, so that it interleaves with writes, overwrites and deletes of the same key
            on the same backend.  spec / local: a plain file holding the key's CURRENT content.  s3: a HEAD for
            the size (the path and the key are open_seekable's own wiring, REGENERATED as Gen/GenRange.v
            gen_open_size_path / gen_open_key), then S3RangeFile with that size whose every read is a ranged GET
            against the bucket.
   Stream k : open_file(k).read().
   ReadTag k : read_file_with_etag(k), contents only (the local backend's tag is None).
   WriteCas k v : the compare-and-swap writer used as a writer: on S3 read_file_with_etag(k) for the current tag
            (absent: create-if-absent) and then write_file_cas(k, v, tag); a backend without CAS (local) writes
            plainly.  In a sequential history the precondition holds, so the contract is that of Write.  The
            model's entity tag of an object is its content (fakes3: md5 of the content).

   Keys of the contract are lists of path segments; the backends receive the "/"-joined string, as the
   library does.  Listing order is an artefact of the representation (insertion order); the harness
   compares listings as sorted lists.  Definitions only. *)
From Coq Require Import List Bool Ascii String Arith ZArith.
Require Import DS.Model.Str DS.Gen.GenS3 DS.Gen.GenRange DS.Model.Range.
Import ListNotations.

Definition bytes := list ascii.
Definition key := list str.

Inductive errk := NotFound | IsDir | NotDir | ClientErr | Conflict.

Inductive op (K : Type) :=
| Write (k : K) (v : bytes)
| Read (k : K)
| Exists (k : K)
| ListDir (d : K)
| Delete (k : K)
| Size (k : K)
| Mtime (k : K)
| Open (k : K) (prog : list rop)
| Stream (k : K)
| WriteCas (k : K) (v : bytes)
| ReadTag (k : K).
Arguments Write {K}. Arguments Read {K}. Arguments Exists {K}. Arguments ListDir {K}.
Arguments Delete {K}. Arguments Size {K}. Arguments Mtime {K}. Arguments Open {K}. Arguments Stream {K}. Arguments WriteCas {K}. Arguments ReadTag {K}.

Inductive obs :=
| OUnit                     (* returned None / a timestamp we do not compare *)
| OBytes (v : bytes)
| OBool (b : bool)
| OList (l : list str)
| OSize (n : Z)
| OOpened (os : list (@robs ascii)) (final : Z)   (* what the program observed on the reader, and where it ended *)
| OErr (e : errk).

Definition map_op {K K'} (f : K -> K') (o : op K) : op K' :=
  match o with
  | Write k v => Write (f k) v | Read k => Read (f k) | Exists k => Exists (f k) | ListDir d => ListDir (f d)
  | Delete k => Delete (f k) | Size k => Size (f k) | Mtime k => Mtime (f k)
  | Open k prog => Open (f k) prog | Stream k => Stream (f k)
  | WriteCas k v => WriteCas (f k) v | ReadTag k => ReadTag (f k)
  end.

Fixpoint run {S E : Type} (step : S -> E -> S * obs) (s : S) (es : list E) : S * list obs :=
  match es with
  | [] => (s, [])
  | e :: es' => let (s', o) := step s e in let (s'', os) := run step s' es' in (s'', o :: os)
  end.

(* ---------------------------------------------------------------- association lists *)
Section Assoc.
  Context {K V : Type} (eqb : K -> K -> bool).
  Fixpoint lookup (k : K) (l : list (K * V)) : option V :=
    match l with [] => None | (k', v) :: l' => if eqb k k' then Some v else lookup k l' end.
  Fixpoint upsert (k : K) (v : V) (l : list (K * V)) : list (K * V) :=
    match l with
    | [] => [(k, v)]
    | (k', v') :: l' => if eqb k k' then (k, v) :: l' else (k', v') :: upsert k v l'
    end.
  Definition remove (k : K) (l : list (K * V)) : list (K * V) := filter (fun kv => negb (eqb k (fst kv))) l.
  Definition has (k : K) (l : list (K * V)) : bool := match lookup k l with Some _ => true | None => false end.
End Assoc.

(* ---------------------------------------------------------------- keys *)
Fixpoint key_eqb (a b : key) : bool :=
  match a, b with
  | [], [] => true
  | x :: a', y :: b' => str_eqb x y && key_eqb a' b'
  | _, _ => false
  end.

Fixpoint kprefix (d k : key) : bool :=
  match d, k with
  | [], _ => true
  | a :: d', b :: k' => str_eqb a b && kprefix d' k'
  | _ :: _, [] => false
  end.

(* k lies strictly below directory d *)
Definition under (d k : key) : bool := kprefix d k && (List.length d <? List.length k)%nat.

Fixpoint kmem (k : key) (l : list key) : bool :=
  match l with [] => false | a :: l' => key_eqb k a || kmem k l' end.

(* non-empty proper prefixes of a key, shortest first: the directories makedirs creates *)
Fixpoint proper_prefixes (k : key) : list key :=
  match k with
  | [] => []
  | a :: k' => match k' with [] => [] | _ => [a] :: map (cons a) (proper_prefixes k') end
  end.

Definition wf_segb (s : str) : bool :=
  nonempty s && negb (existsb (Ascii.eqb slash) s) && negb (str_eqb s (lit ".")) && negb (str_eqb s (lit "..")).
Definition wf_seg (s : str) : Prop := wf_segb s = true.
Definition wf_key (k : key) : Prop := k <> [] /\ Forall wf_seg k.

Definition wf_op (o : op key) : Prop :=
  match o with
  | ListDir d => Forall wf_seg d          (* the table root [] is a legal directory *)
  | Write k _ | Read k | Exists k | Delete k | Size k | Mtime k | Stream k | WriteCas k _ | ReadTag k => wf_key k
  | Open k prog => wf_key k /\ Forall wf_rop prog
  end.

(* the exact keys (file names) an operation names; ListDir names a directory, not a key *)
Definition op_key (o : op key) : list key :=
  match o with
  | ListDir _ => []
  | Write k _ | Read k | Exists k | Delete k | Size k | Mtime k | Open k _ | Stream k | WriteCas k _ | ReadTag k => [k]
  end.

(* the keys an operation WRITES *)
Definition op_written (o : op key) : list key :=
  match o with Write k _ | WriteCas k _ => [k] | _ => [] end.

(* no key is a directory of another key: the key families a file system can hold *)
Definition prefix_free (ks : list key) : Prop := forall a b, In a ks -> In b ks -> under a b = false.

(* ---------------------------------------------------------------- spec *)
Definition store := list (key * bytes).

Definition size_of (v : bytes) : Z := Z.of_nat (List.length v).

(* a plain file holding v, driven by a seek/read program *)
Definition file_obs (v : bytes) (prog : list rop) : obs := let '(os, final) := run_file v 0 prog in OOpened os final.

Definition spec_step (st : store) (o : op key) : store * obs :=
  match o with
  | Write k v | WriteCas k v => (upsert key_eqb k v st, OUnit)
  | Read k | ReadTag k => (st, match lookup key_eqb k st with Some v => OBytes v | None => OErr NotFound end)
  | Exists k => (st, OBool (has key_eqb k st))
  | ListDir d => (st, OList (map join (filter (under d) (map fst st))))
  | Delete k => (remove key_eqb k st, OUnit)
  | Size k => (st, match lookup key_eqb k st with Some v => OSize (size_of v) | None => OErr NotFound end)
  | Mtime k => (st, match lookup key_eqb k st with Some _ => OUnit | None => OErr NotFound end)
  | Open k prog => (st, match lookup key_eqb k st with Some v => file_obs v prog | None => OErr NotFound end)
  | Stream k => (st, match lookup key_eqb k st with Some v => OBytes v | None => OErr NotFound end)
  end.

(* ---------------------------------------------------------------- S3 *)
Definition bucket := list (str * bytes).

Inductive s3res (A : Type) := S3Ok (a : A) | S3Fail (code : str).
Arguments S3Ok {A}. Arguments S3Fail {A}.

(* the object store: what a strongly consistent S3 answers *)
Definition s3_get_object (b : bucket) (k : str) : s3res bytes :=
  match lookup str_eqb k b with Some v => S3Ok v | None => S3Fail (lit "NoSuchKey") end.
Definition s3_head_object (b : bucket) (k : str) : s3res bytes :=
  match lookup str_eqb k b with Some v => S3Ok v | None => S3Fail (lit "404") end.
Definition s3_put_object (b : bucket) (k : str) (v : bytes) : bucket := upsert str_eqb k v b.
Definition s3_delete_object (b : bucket) (k : str) : bucket := remove str_eqb k b.
(* conditional PUT: If-Match <tag> (Some) / If-None-Match * (None); the tag of an object is its content *)
Definition tag_matches (cur want : option bytes) : bool :=
  match cur, want with
  | None, None => true
  | Some x, Some y => str_eqb x y
  | _, _ => false
  end.
Definition s3_put_if (b : bucket) (k : str) (tag : option bytes) (v : bytes) : option bucket :=
  if tag_matches (lookup str_eqb k b) tag then Some (upsert str_eqb k v b) else None.
Definition s3_list_objects (b : bucket) (p : str) : list str := filter (fun k => starts_with k p) (map fst b).

(* GetObject with Range: bytes=first-last on the bucket as it is NOW *)
Definition s3_get_range (b : bucket) (k : str) (first last : Z) : option bytes :=
  match s3_get_object b k with S3Ok v => server_range v first last | S3Fail _ => None end.

(* S3StorageBackend.get_size: one HEAD *)
Definition s3_get_size (pfx : str) (b : bucket) (p : str) : Z + errk :=
  match s3_head_object b (gen_get_s3_key pfx p) with
  | S3Ok v => inl (size_of v)
  | S3Fail c => inr (if str_eqb c gen_code_size_notfound then NotFound else ClientErr)
  end.

(* S3StorageBackend.open_seekable + a program on the reader: observations and the ranged GETs issued *)
Definition s3_open (pfx : str) (b : bucket) (p : str) (prog : list rop) : obs * list (Z * Z) :=
  match s3_get_size pfx b (gen_open_size_path p) with
  | inl size => let '(os, final, rs) := run_rf_on size (s3_get_range b (gen_open_key pfx p)) 0 prog in (OOpened os final, rs)
  | inr e => (OErr e, [])
  end.

(* S3StorageBackend with self.prefix = pfx *)
Definition s3_step (pfx : str) (b : bucket) (o : op str) : bucket * obs :=
  match o with
  | Write p v => (s3_put_object b (gen_get_s3_key pfx p) v, OUnit)
  | Read p =>
    (b, match s3_get_object b (gen_get_s3_key pfx p) with
        | S3Ok v => OBytes v
        | S3Fail c => if str_eqb c gen_code_read_notfound then OErr NotFound else OErr ClientErr
        end)
  | Exists p =>
    let k := gen_get_s3_key pfx p in
    (b, match s3_head_object b k with
        | S3Ok _ => OBool true
        | S3Fail c =>
          if negb (str_eqb c gen_code_exists_notfound) then OErr ClientErr
          else if negb (ends_with k (lit "/")) then OBool false
          else OBool (match s3_list_objects b k with [] => false | _ => true end)
        end)
  | ListDir p => (b, OList (map (gen_strip_prefix pfx) (s3_list_objects b (gen_list_prefix pfx p))))
  | Delete p => (s3_delete_object b (gen_get_s3_key pfx p), OUnit)
  | Size p => (b, match s3_get_size pfx b p with inl n => OSize n | inr e => OErr e end)
  | Mtime p =>
    (b, match s3_head_object b (gen_get_s3_key pfx p) with
        | S3Ok _ => OUnit
        | S3Fail c => if str_eqb c gen_code_mtime_notfound then OErr NotFound else OErr ClientErr
        end)
  | Open p prog => (b, fst (s3_open pfx b p prog))
  | Stream p =>
    (b, match s3_get_object b (gen_get_s3_key pfx p) with
        | S3Ok v => OBytes v
        | S3Fail c => if str_eqb c gen_code_open_notfound then OErr NotFound else OErr ClientErr
        end)
  | WriteCas p v =>
    let k := gen_get_s3_key pfx p in
    (* read_file_with_etag: the current tag, or none for a missing object; then the conditional PUT *)
    let tag := match s3_get_object b k with S3Ok cur => Some cur | S3Fail _ => None end in
    match s3_put_if b k tag v with
    | Some b' => (b', OUnit)
    | None => (b, OErr Conflict)
    end
  | ReadTag p =>
    (b, match s3_get_object b (gen_get_s3_key pfx p) with
        | S3Ok v => OBytes v
        | S3Fail c => if str_eqb c gen_code_readtag_notfound then OErr NotFound else OErr ClientErr
        end)
  end.

(* objects of other tenants of the bucket: nothing under this table's root *)
Definition table_root (pfx : str) : str := gen_get_s3_key pfx [].
Definition foreign_ok (pfx : str) (F : bucket) : Prop :=
  forall k, In k (map fst F) -> starts_with k (table_root pfx) = false.

(* ---------------------------------------------------------------- local *)
Record lstate := { lfiles : store; ldirs : list key }.

Definition linit : lstate := {| lfiles := []; ldirs := [] |}.

Definition is_dir (s : lstate) (k : key) : bool := match k with [] => true | _ => kmem k (ldirs s) end.
Definition is_file (s : lstate) (k : key) : bool := has key_eqb k (lfiles s).
Definition below_file (s : lstate) (k : key) : bool := existsb (is_file s) (proper_prefixes k).

Fixpoint add_dirs (ps : list key) (dirs : list key) : list key :=
  match ps with [] => dirs | p :: ps' => add_dirs ps' (if kmem p dirs then dirs else dirs ++ [p]) end.

(* what a path that is not a regular file (a directory, a path below a file, nothing at all) answers to
   read / open / stat: LocalStorageBackend._existing_file raises FileNotFoundError *)
Definition missing : obs := OErr NotFound.

Definition local_write (s : lstate) (k : key) (v : bytes) : lstate * obs :=
  if below_file s k then (s, OErr NotDir)                                (* makedirs runs into a file *)
  else let s' := {| lfiles := lfiles s; ldirs := add_dirs (proper_prefixes k) (ldirs s) |} in
       if is_dir s' k then (s', OErr IsDir)                               (* os.replace onto a directory *)
       else ({| lfiles := upsert key_eqb k v (lfiles s); ldirs := ldirs s' |}, OUnit).

Definition local_step (s : lstate) (o : op key) : lstate * obs :=
  match o with
  | Write k v | WriteCas k v => local_write s k v
  | Read k | ReadTag k => (s, match lookup key_eqb k (lfiles s) with Some v => OBytes v | None => missing end)
  | Exists k => (s, OBool (is_file s k))                                     (* os.path.isfile *)
  | ListDir d => (s, OList (if is_dir s d then map join (filter (under d) (map fst (lfiles s))) else []))
  | Delete k =>
    if is_file s k then ({| lfiles := remove key_eqb k (lfiles s); ldirs := ldirs s |}, OUnit)
    else (s, OUnit)                                                         (* os.path.isfile false: no-op *)
  | Size k => (s, match lookup key_eqb k (lfiles s) with Some v => OSize (size_of v) | None => missing end)
  | Mtime k => (s, match lookup key_eqb k (lfiles s) with Some _ => OUnit | None => missing end)
  | Open k prog => (s, match lookup key_eqb k (lfiles s) with Some v => file_obs v prog | None => missing end)
  | Stream k => (s, match lookup key_eqb k (lfiles s) with Some v => OBytes v | None => missing end)
  end.

(* the backends as the library calls them: with "/"-joined strings *)
Definition local_step_str (s : lstate) (o : op str) : lstate * obs :=
  match o with
  | Exists p =>
    (* a path spelled as a directory (trailing "/") asks for the directory: os.path.isdir *)
    if ends_with p (lit "/") then (s, OBool (is_dir s (components p))) else local_step s (Exists (components p))
  | _ => local_step s (map_op components o)
  end.

Definition run_spec (ops : list (op key)) : list obs := snd (run spec_step [] ops).
Definition run_local (ops : list (op key)) : list obs := snd (run local_step_str linit (map (map_op join) ops)).
Definition run_s3 (raw_prefix : str) (F : bucket) (ops : list (op key)) : list obs :=
  snd (run (s3_step (gen_init_prefix raw_prefix)) F (map (map_op join) ops)).

(* ---------------------------------------------------------------- decidable forms of the hypotheses
   (used by the non-vacuity example and by the harness to tell which generated cases lie inside the
   theorems' domain) *)
Definition wf_keyb (k : key) : bool := match k with [] => false | _ => forallb wf_segb k end.
Definition wf_opb (o : op key) : bool :=
  match o with
  | ListDir d => forallb wf_segb d
  | Write k _ | Read k | Exists k | Delete k | Size k | Mtime k | Stream k | WriteCas k _ | ReadTag k => wf_keyb k
  | Open k prog => wf_keyb k && forallb wf_ropb prog
  end.
Definition prefix_freeb (ks : list key) : bool := forallb (fun a => forallb (fun b => negb (under a b)) ks) ks.
Definition foreign_okb (pfx : str) (F : bucket) : bool :=
  forallb (fun k => negb (starts_with k (table_root pfx))) (map fst F).
Definition op_keys (ops : list (op key)) : list key := flat_map op_key ops.
(* the keys a history writes: the only ones the local theorem constrains (probes -- read, exists, size, mtime,
   delete, open -- may name anything, also a directory of a written key or a path below one) *)
Definition written_keys (ops : list (op key)) : list key := flat_map op_written ops.
